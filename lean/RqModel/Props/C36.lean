/-
C36  Write throttling stays within its configured bounds.

Property theorems only. Model: RqModel/Model/Throttler.lean (tied to
store/throttler/throttler.go by the C36 correspondence run, by the regenerated
LockDiscipline facts and by the regenerated default table).
-/
import RqModel.Lemmas.Throttler
import RqModel.Lemmas.LockFacts
import RqModel.Gen.Throttler
namespace C36
open RqModel.Throttler

/-! ### `New` normalisation -/

/-- `New` replaces an empty table by `[0]`, a release rate below 1 by 1, starts
at level 0 with the idle timer stopped, and a timer exists iff `idleTimeout > 0`. -/
theorem new_normalises (ds : List Int) (r i : Int) :
    (new ds r i).delays = (if ds = [] then [0] else ds) ∧
    (new ds r i).rate = max r 1 ∧
    (new ds r i).level = 0 ∧ (new ds r i).deadline = none ∧
    ((new ds r i).hasTimer = true ↔ 0 < i) := by
  refine ⟨?_, ?_, rfl, rfl, ?_⟩
  · cases ds <;> simp [new]
  · simp only [new]; split <;> omega
  · simp [new]

example : InRange (new [] 0 0) ∧ (new [] (-3) 0).rate = 1 ∧ (new [] 0 0).delays = [0] := by
  refine ⟨new_inRange _ _ _, by decide, by decide⟩

/-! ### the level never leaves the table -/

/-- each pressure signal raises the level by exactly one, up to the last table index -/
theorem signal_exact (t : T) (n : Nat) (h : InRange t) :
    (signal t n).level = min (t.level + 1) ((t.delays.length : Int) - 1) := by
  obtain ⟨h0, h1, _⟩ := h
  unfold signal
  simp only [(touch_level _ n).1]
  split
  · simp only; omega
  · omega

/-- each release lowers the level by exactly the release rate, down to zero -/
theorem release_exact (t : T) (n : Nat) :
    (release t n).level = max (t.level - t.rate) 0 := by
  unfold release
  simp only [(touch_level _ n).1]
  split <;> omega

theorem reset_exact (t : T) : (reset t).level = 0 ∧ (reset t).deadline = none := ⟨rfl, rfl⟩

theorem apply_inRange (t : T) (op : Op) (h : InRange t) : InRange (apply t op) := by
  have hc := apply_config t op
  obtain ⟨h0, h1, h2⟩ := h
  have hl : 0 ≤ (apply t op).level ∧ (apply t op).level ≤ (t.delays.length : Int) - 1 := by
    cases op with
    | signal n => simp only [apply]; rw [signal_exact t n ⟨h0, h1, h2⟩]; omega
    | release n => simp only [apply]; rw [release_exact]; omega
    | reset => simp only [apply, reset]; omega
    | fire n =>
      simp only [apply, fire]
      split
      · simp only [reset]; omega
      · omega
    | staleFire => simp only [apply, reset]; omega
  refine ⟨hl.1, ?_, by rw [hc.2.1]; exact h2⟩
  rw [hc.1]; exact hl.2

theorem run_inRange (t : T) (ops : List Op) (h : InRange t) : InRange (run t ops) := by
  induction ops generalizing t with
  | nil => exact h
  | cons op ops ih => exact ih _ (apply_inRange t op h)

/-- **Invariant.** For every delay table, release rate and idle timeout handed to
`New`, and every finite sequence of `Signal`/`Release`/`Reset`/idle-timer steps
at arbitrary times, the level is within `[0, len(delays)-1]`. -/
theorem level_in_range (ds : List Int) (r i : Int) (ops : List Op) :
    InRange (run (new ds r i) ops) :=
  run_inRange _ _ (new_inRange ds r i)

example : (run (new [0, 5, 9] 2 0) [.signal 0, .signal 1, .signal 2, .signal 3, .release 4]).level = 0 ∧
          (run (new [0, 5, 9] 2 0) [.signal 0, .signal 1, .signal 2, .signal 3]).level = 2 := by decide

/-! ### idle reset -/

/-- **Idle reset.** If nothing touches the throttler for the idle timeout after a
`Signal` (or `Release`), the timer step returns the level to zero and stops the
timer; before the deadline the timer step changes nothing. -/
theorem idle_resets (t : T) (n now : Nat) (h : t.hasTimer = true) :
    (n + t.idle.toNat ≤ now →
      (fire (signal t n) now).level = 0 ∧ (fire (signal t n) now).deadline = none ∧
      (fire (release t n) now).level = 0 ∧ (fire (release t n) now).deadline = none) ∧
    (now < n + t.idle.toNat →
      fire (signal t n) now = signal t n ∧ fire (release t n) now = release t n) := by
  obtain ⟨e1, e2⟩ := fire_enabled_iff t n now h
  constructor
  · intro hle
    simp [fire, e1.2 hle, e2.2 hle, reset]
  · intro hlt
    have n1 : fireEnabled (signal t n) now = false := by
      cases hf : fireEnabled (signal t n) now
      · rfl
      · have := e1.1 hf; omega
    have n2 : fireEnabled (release t n) now = false := by
      cases hf : fireEnabled (release t n) now
      · rfl
      · have := e2.1 hf; omega
    simp [fire, n1, n2]

/-- without an idle timeout (`idleTimeout ≤ 0`) no timer is ever armed: the level
changes only through `Signal`/`Release`/`Reset` -/
theorem no_timer_never_fires (ds : List Int) (r i : Int) (hi : i ≤ 0) (ops : List Op) (now : Nat) :
    fireEnabled (run (new ds r i) ops) now = false := by
  have hinv : ∀ (ops : List Op) (t : T), t.hasTimer = false → t.deadline = none →
      (run t ops).hasTimer = false ∧ (run t ops).deadline = none := by
    intro ops
    induction ops with
    | nil => intro t h1 h2; exact ⟨h1, h2⟩
    | cons op ops ih =>
      intro t h1 h2
      apply ih
      · rw [(apply_config t op).2.2.2]; exact h1
      · cases op with
        | signal n => simp only [apply, signal]; split <;> simp [touch, h1, h2]
        | release n => simp [apply, release, touch, h1, h2]
        | reset => simp [apply, reset]
        | fire n => simp only [apply, fire]; split <;> simp [reset, h2]
        | staleFire => simp [apply, reset]
  have h0 : (new ds r i).hasTimer = false := by simp [new]; omega
  have := (hinv ops _ h0 rfl).2
  simp [fireEnabled, this]

example : (fire (signal (new [0, 7] 1 30) 100) 130).level = 0 ∧
          (fire (signal (new [0, 7] 1 30) 100) 129).level = 1 := by decide

/-! ### Delay -/

/-- `Delay`/`GetDelay` never index outside the table in a reachable state -/
theorem delay_defined (t : T) (h : InRange t) : ∃ d, current t = some d := by
  obtain ⟨h0, h1, _⟩ := h
  have hlt : t.level.toNat < t.delays.length := by omega
  refine ⟨t.delays[t.level.toNat], ?_⟩
  unfold current
  have : ¬ t.level < 0 := by omega
  simp [this, List.getElem?_eq_getElem hlt]

/-- **Delay is bounded and cancellable — for EVERY behaviour of Go's `select` that obeys
the two laws of `SelectSem`** (the earlier-ready case is taken; when both are ready at the
same instant either may be). A throttled request blocks for a non-negative time that is at
most the current delay and at most the time its context has left. If the context ends
strictly before the delay has elapsed it returns the context error at that moment; if the
delay elapses strictly first it returns nil after exactly the delay; in a tie either result
is allowed, with the same waiting time. -/
theorem delay_bounded_and_cancellable (S : SelectSem) (d : Int) (c : Option Nat) :
    0 ≤ (delayOf S d c).waited ∧ (delayOf S d c).waited ≤ max d 0 ∧
    (∀ k, c = some k → (delayOf S d c).waited ≤ (k : Int)) ∧
    ((∃ k, c = some k ∧ (k : Int) < d) → (delayOf S d c).ctxErr = true) ∧
    ((delayOf S d c).ctxErr = true → ∃ k, c = some k ∧ (k : Int) ≤ max d 0 ∧ d ≠ 0 ∧
      (delayOf S d c).waited = k) ∧
    ((delayOf S d c).ctxErr = false → (delayOf S d c).waited = max d 0) := by
  unfold delayOf
  by_cases hd : d = 0
  · subst hd
    simp
  · simp only [hd, if_false]
    cases c with
    | none => simp; omega
    | some k =>
      simp only [Option.some.injEq, exists_eq_left', forall_eq']
      rcases Nat.lt_trichotomy d.toNat k with hlt | heq | hgt
      · have := S.timer_first _ _ hlt
        simp only [this, if_true]
        refine ⟨by omega, by omega, by omega, fun h => by omega, fun h => by simp at h, fun _ => by omega⟩
      · cases S.pickTimer d.toNat k
        · simp only [Bool.false_eq_true, if_false]
          refine ⟨by omega, by omega, by omega, fun _ => trivial, fun _ => ⟨by omega, hd, trivial⟩, fun h => by simp at h⟩
        · simp only [if_true]
          refine ⟨by omega, by omega, by omega, fun h => by omega, fun h => by simp at h, fun _ => by omega⟩
      · have := S.ctx_first _ _ hgt
        simp only [this, Bool.false_eq_true, if_false]
        refine ⟨by omega, by omega, by omega, fun _ => trivial, fun _ => ⟨by omega, hd, trivial⟩, fun h => by simp at h⟩

/-- the two admissible tie-breaks really differ: the theorem above does not pin the tie -/
theorem select_tie_is_open :
    delayOf SelectSem.tieTimer 50 (some 50) = ⟨50, false⟩ ∧
    delayOf SelectSem.tieCtx 50 (some 50) = ⟨50, true⟩ := by decide

/-- for every reachable state and every `select` behaviour, `Delay` is defined and obeys the bound -/
theorem delay_in_reachable (S : SelectSem) (ds : List Int) (r i : Int) (ops : List Op) (c : Option Nat) :
    ∃ d res, current (run (new ds r i) ops) = some d ∧
      delay S (run (new ds r i) ops) c = some res ∧
      0 ≤ res.waited ∧ res.waited ≤ max d 0 ∧ (∀ k, c = some k → res.waited ≤ (k : Int)) := by
  obtain ⟨d, hd⟩ := delay_defined _ (level_in_range ds r i ops)
  refine ⟨d, delayOf S d c, hd, by simp [delay, hd], ?_⟩
  have := delay_bounded_and_cancellable S d c
  exact ⟨this.1, this.2.1, this.2.2.1⟩

example : delayOf SelectSem.tieTimer 50 (some 20) = ⟨20, true⟩ ∧ delayOf SelectSem.tieCtx 50 (some 80) = ⟨50, false⟩ ∧
          delayOf SelectSem.tieCtx 50 none = ⟨50, false⟩ ∧ delayOf SelectSem.tieCtx 0 (some 0) = ⟨0, false⟩ := by decide

/-- "Before its deadline the idle timer changes nothing", for EVERY timer step — the due-check
step `fire` and the already-launched callback `staleFire` -/
def C36_timer_quiet_full : Prop :=
  ∀ (t : T) (n : Nat) (op : Op), t.hasTimer = true →
    (op = .staleFire ∨ ∃ now, op = .fire now ∧ now < n + t.idle.toNat) →
    apply (signal t n) op = signal t n

/-- it holds for the due-check step (decidable exclusion: `op ≠ staleFire`) -/
theorem timer_quiet_partial (t : T) (n now : Nat) (h : t.hasTimer = true) (hlt : now < n + t.idle.toNat) :
    apply (signal t n) (.fire now) = signal t n :=
  ((idle_resets t n now h).2 hlt).1

/-- and fails for the stale callback -/
theorem timer_quiet_witness : ¬ C36_timer_quiet_full := by
  intro h
  have := h (new [0, 5, 9] 1 30) 0 .staleFire (by decide) (Or.inl rfl)
  revert this
  decide

/-- The stale-callback race the atomic `fire` step cannot show: an `AfterFunc` callback that
was already launched when `Signal` re-armed the timer runs `Reset` afterwards — the level drops
to zero right after a pressure signal and the freshly armed timer is stopped. The level still
never leaves its range (`level_in_range` includes this step). -/
theorem stale_callback_zeroes_after_signal_witness :
    (run (new [0, 5, 9] 1 30) [.signal 0, .signal 31, .staleFire]).level = 0 ∧
    (run (new [0, 5, 9] 1 30) [.signal 0, .signal 31, .staleFire]).deadline = none ∧
    (run (new [0, 5, 9] 1 30) [.signal 0, .signal 31]).level = 2 := by decide

/-! ### regenerated facts -/

/-- every state-changing or state-reading method runs under `t.mu` for its whole body -/
theorem lock_discipline :
    RqModel.LockFacts.wholeBody "store/throttler.Throttler.Signal" = true ∧
    RqModel.LockFacts.wholeBody "store/throttler.Throttler.Release" = true ∧
    RqModel.LockFacts.wholeBody "store/throttler.Throttler.Reset" = true ∧
    RqModel.LockFacts.wholeBody "store/throttler.Throttler.GetDelay" = true ∧
    RqModel.LockFacts.wholeBody "store/throttler.Throttler.Level" = true ∧
    -- Delay: read the delay under the read lock, release it, then wait
    RqModel.LockFacts.shape "store/throttler.Throttler.Delay" =
      some ["rlock", "assign", "runlock", "if", "select"] := by decide

/-- the table `DefaultThrottler` passes to `New`, as found in the current sources -/
theorem default_table :
    RqModel.Gen.Throttler.defaultDelaysNs =
      some [0, 100000000, 200000000, 500000000, 1000000000, 2000000000, 5000000000] ∧
    RqModel.Gen.Throttler.defaultReleaseRate = some 3 ∧
    RqModel.Gen.Throttler.defaultIdleTimeoutNs = some 30000000000 := by decide

/-- the default throttler as configured in the current sources -/
def defaultT : T :=
  new (RqModel.Gen.Throttler.defaultDelaysNs.getD []) (RqModel.Gen.Throttler.defaultReleaseRate.getD 0)
    (RqModel.Gen.Throttler.defaultIdleTimeoutNs.getD 0)

/-- with the default configuration no request is ever delayed by more than 5 s,
whatever the history of signals -/
theorem default_delay_le_5s (ops : List Op) :
    ∃ d, current (run defaultT ops) = some d ∧ 0 ≤ d ∧ d ≤ 5000000000 := by
  have hr := level_in_range (RqModel.Gen.Throttler.defaultDelaysNs.getD [])
    (RqModel.Gen.Throttler.defaultReleaseRate.getD 0) (RqModel.Gen.Throttler.defaultIdleTimeoutNs.getD 0) ops
  have hcfg : ∀ (ops : List Op) (t : T), (run t ops).delays = t.delays := by
    intro ops
    induction ops with
    | nil => intro t; rfl
    | cons op ops ih => intro t; simp only [run, List.foldl_cons]; exact (ih _).trans (apply_config t op).1
  obtain ⟨d, hd⟩ := delay_defined _ hr
  refine ⟨d, hd, ?_⟩
  have hmem : d ∈ (run defaultT ops).delays := by
    unfold current at hd
    split at hd
    · cases hd
    · exact List.mem_of_getElem? hd
  rw [hcfg] at hmem
  have hall : ∀ x ∈ defaultT.delays, 0 ≤ x ∧ x ≤ 5000000000 := by decide
  exact hall d hmem

/-! ### no stuck level (global form of the idle reset) -/

/-- a raised level is always covered by an armed idle timer -/
def Covered (t : T) : Prop := t.hasTimer = true ∧ (0 < t.level → t.deadline ≠ none)

theorem apply_covered (t : T) (op : Op) (h : Covered t) : Covered (apply t op) := by
  obtain ⟨ht, hd⟩ := h
  cases op with
  | signal n =>
    simp only [apply, signal, touch]
    split <;> simp_all [Covered]
  | release n =>
    simp only [apply, release, touch]
    simp_all [Covered]
  | reset => simp [apply, reset, Covered, ht]
  | fire n =>
    simp only [apply, fire]
    split
    · simp [reset, Covered, ht]
    · exact ⟨ht, hd⟩
  | staleFire => simp [apply, reset, Covered, ht]

/-- **No stuck level.** With an idle timeout configured, in EVERY reachable state (any table, rate,
any sequence of Signal/Release/Reset/timer steps incl. the stale callback, at any times) a level
above zero has an armed idle timer: there is always a pending deadline after which the timer step
returns the level to zero - the throttle cannot stay raised forever without further calls. -/
theorem raised_level_has_armed_timer (ds : List Int) (r i : Int) (hi : 0 < i) (ops : List Op) :
    Covered (run (new ds r i) ops) := by
  have key : ∀ (ops : List Op) (t : T), InRange t → Covered t → Covered (run t ops) := by
    intro ops
    induction ops with
    | nil => intro t _ h; exact h
    | cons op ops ih =>
      intro t hr hc
      exact ih _ (apply_inRange t op hr) (apply_covered t op hc)
  refine key ops _ (new_inRange ds r i) ?_
  simp [Covered, new, hi]

/-- and that pending deadline does fire: at or after it the timer step zeroes the level -/
theorem armed_timer_fires (t : T) (d now : Nat) (h : t.deadline = some d) (hle : d ≤ now) :
    (fire t now).level = 0 ∧ (fire t now).deadline = none := by
  simp [fire, fireEnabled, h, hle, reset]

example : (run (new [0, 5, 9] 2 50) [.signal 0, .signal 1, .release 2, .signal 3]).deadline = some 53 ∧
    (run (new [0, 5, 9] 2 50) [.signal 0, .signal 1, .release 2, .signal 3]).level = 1 := by decide

end C36

package main

// Throttler: the arguments of `New(...)` inside `DefaultThrottler()` (C36):
// the default delay table (ns), release rate and idle timeout (ns).

import (
	"fmt"
	"go/ast"
	"strings"
)

func init() {
	register("Throttler", func(x *X) {
		x.Comment("store/throttler/throttler.go DefaultThrottler(): New(<delays>, <releaseRate>, <idleTimeout>)")
		table := "none"
		var rV, iV int64
		var rOK, iOK bool
		if fd := x.Func("store/throttler", "", "DefaultThrottler"); fd != nil {
			for _, c := range x.Calls(fd.Body, "New") {
				if len(c.Args) != 3 {
					continue
				}
				if cl, ok := c.Args[0].(*ast.CompositeLit); ok {
					var vals []string
					good := true
					for _, e := range cl.Elts {
						v, ok := x.Const("store/throttler", e)
						if !ok {
							good = false
							break
						}
						vals = append(vals, fmt.Sprintf("(%d)", v))
					}
					if good {
						table = "some [" + strings.Join(vals, ", ") + "]"
					}
				}
				rV, rOK = x.Const("store/throttler", c.Args[1])
				iV, iOK = x.Const("store/throttler", c.Args[2])
			}
		}
		x.Raw("def defaultDelaysNs : Option (List Int) := " + table)
		x.DefOptInt("defaultReleaseRate", rV, rOK)
		x.DefOptInt("defaultIdleTimeoutNs", iV, iOK)
	})
}

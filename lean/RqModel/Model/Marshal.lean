/-
Model of command/marshal.go (C29): how a request becomes a Raft log entry and back.

* `RequestMarshaler.Marshal`: compression is *wanted* when the number of statements
  is `>= BatchThreshold` or some statement's SQL text has `>= SizeThreshold` bytes;
  the protobuf bytes are gzipped and the gzip output is kept only when it is strictly
  smaller than the protobuf bytes or `ForceCompression` is set. Thresholds are Go
  `int`s (modelled as `Int`; zero or negative thresholds make every request wanted).
* envelope `Command{type, sub_command, compressed}` built in store/store.go
  (`execute`, `Query`, `Request`, `load`, `Noop`, load chunk) and serialised by
  `command.Marshal`.
* decoding in store/command_processor.go `Process`: `command.Unmarshal`, then by type
  `UnmarshalSubCommand` (gunzip iff `compressed`), `UnmarshalLoadRequest` (always
  gunzip), `UnmarshalLoadChunkRequest` (plain); NOOP carries a plain `Noop`.

protobuf and gzip are parameters (`Pb α`, `Gz`) with round-trip laws.
-/
import RqModel.Model.Util
namespace RqModel.Marshal
open RqModel.Util

abbrev Bytes := List UInt8

structure Pb (α : Type) where
  ser : α → Bytes
  de  : Bytes → Option α

def Pb.Lawful {α : Type} (P : Pb α) : Prop := ∀ x, P.de (P.ser x) = some x

structure Gz where
  comp   : Bytes → Bytes
  uncomp : Bytes → Option Bytes

def Gz.Lawful (G : Gz) : Prop := ∀ b, G.uncomp (G.comp b) = some b

/-! ### messages (command/proto/command.proto) -/

inductive ParamVal
  | unset
  | i (v : Int)
  | d (bits : UInt64)
  | b (v : Bool)
  | y (v : Bytes)
  | s (v : String)
deriving DecidableEq, Repr

structure Parameter where
  value : ParamVal
  name  : String
deriving DecidableEq, Repr

structure Statement where
  sql        : String
  parameters : List Parameter := []
  forceQuery : Bool := false
  forceStall : Bool := false
  sqlExplain : Bool := false
deriving DecidableEq, Repr

structure Request where
  transaction     : Bool := false
  statements      : List Statement := []
  dbTimeout       : Int := 0
  rollbackOnError : Bool := false
  qualifyColumns  : Bool := false
deriving DecidableEq, Repr

structure ExecuteRequest where
  request : Option Request
  timings : Bool := false
deriving DecidableEq, Repr

structure QueryRequest where
  request             : Option Request
  timings             : Bool := false
  level               : Nat := 0
  freshness           : Int := 0
  freshnessStrict     : Bool := false
  linearizableTimeout : Int := 0
deriving DecidableEq, Repr

structure ExecuteQueryRequest where
  request             : Option Request
  timings             : Bool := false
  level               : Nat := 0
  freshness           : Int := 0
  freshnessStrict     : Bool := false
  linearizableTimeout : Int := 0
deriving DecidableEq, Repr

structure LoadRequest where
  data : Bytes
deriving DecidableEq, Repr

structure LoadChunkRequest where
  streamId    : String
  sequenceNum : Int
  isLast      : Bool
  data        : Bytes
  abort       : Bool
deriving DecidableEq, Repr

structure Noop where
  id : String
deriving DecidableEq, Repr

structure Command where
  type       : Nat
  sub        : Bytes
  compressed : Bool
deriving DecidableEq, Repr

/-- `Command_Type` values -/
def tQuery : Nat := 1
def tExecute : Nat := 2
def tNoop : Nat := 3
def tLoad : Nat := 4
def tJoin : Nat := 5
def tExecuteQuery : Nat := 6
def tLoadChunk : Nat := 7

/-! ### RequestMarshaler -/

structure Marshaler where
  batch : Int := 512
  size  : Int := 4096
  force : Bool := false
deriving DecidableEq, Repr

/-- byte lengths of the SQL texts, `r.GetRequest().GetStatements()` (nil-safe getters) -/
def sqlLens : Option Request → List Nat
  | none => []
  | some r => r.statements.map (fun s => s.sql.utf8ByteSize)

/-- first half of `Marshal`: is compression attempted? -/
def wantCompress (m : Marshaler) (lens : List Nat) : Bool :=
  decide ((lens.length : Int) ≥ m.batch) || lens.any (fun l => decide ((l : Int) ≥ m.size))

/-- second half: given the sizes of the protobuf bytes and of their gzip, is gzip kept? -/
def decision (m : Marshaler) (lens : List Nat) (ubz gzLen : Nat) : Bool :=
  wantCompress m lens && (decide (ubz > gzLen) || m.force)

def marshalReq {α : Type} (m : Marshaler) (G : Gz) (P : Pb α) (req : α → Option Request) (r : α) :
    Bytes × Bool :=
  let b := P.ser r
  let gz := G.comp b
  if decision m (sqlLens (req r)) b.length gz.length then (gz, true) else (b, false)

/-- `UnmarshalSubCommand` -/
def unmarshalSub {α : Type} (G : Gz) (P : Pb α) (c : Command) : Option α :=
  (if c.compressed then G.uncomp c.sub else some c.sub).bind P.de

/-! ### log entries -/

inductive Cmd
  | query (q : QueryRequest)
  | execute (e : ExecuteRequest)
  | executeQuery (e : ExecuteQueryRequest)
  | load (l : LoadRequest)
  | loadChunk (c : LoadChunkRequest)
  | noop (n : Noop)
deriving DecidableEq, Repr

structure Codecs where
  gz           : Gz
  cmd          : Pb Command
  query        : Pb QueryRequest
  execute      : Pb ExecuteRequest
  executeQuery : Pb ExecuteQueryRequest
  load         : Pb LoadRequest
  loadChunk    : Pb LoadChunkRequest
  noop         : Pb Noop

structure Codecs.Lawful (C : Codecs) : Prop where
  gz           : C.gz.Lawful
  cmd          : C.cmd.Lawful
  query        : C.query.Lawful
  execute      : C.execute.Lawful
  executeQuery : C.executeQuery.Lawful
  load         : C.load.Lawful
  loadChunk    : C.loadChunk.Lawful
  noop         : C.noop.Lawful

/-- the envelope each store method builds -/
def envelope (m : Marshaler) (C : Codecs) : Cmd → Command
  | .query q => let r := marshalReq m C.gz C.query (·.request) q; ⟨tQuery, r.1, r.2⟩
  | .execute e => let r := marshalReq m C.gz C.execute (·.request) e; ⟨tExecute, r.1, r.2⟩
  | .executeQuery e => let r := marshalReq m C.gz C.executeQuery (·.request) e; ⟨tExecuteQuery, r.1, r.2⟩
  | .load l => ⟨tLoad, C.gz.comp (C.load.ser l), false⟩
  | .loadChunk c => ⟨tLoadChunk, C.loadChunk.ser c, false⟩
  | .noop n => ⟨tNoop, C.noop.ser n, false⟩

/-- bytes handed to `raft.Apply` -/
def encode (m : Marshaler) (C : Codecs) (c : Cmd) : Bytes := C.cmd.ser (envelope m C c)

/-- what `CommandProcessor.Process` decodes on any node (`none`: unmarshal failure or
unhandled command type) -/
def decodeEnvelope (C : Codecs) (c : Command) : Option Cmd :=
  if c.type = tQuery then (unmarshalSub C.gz C.query c).map .query
  else if c.type = tExecute then (unmarshalSub C.gz C.execute c).map .execute
  else if c.type = tExecuteQuery then (unmarshalSub C.gz C.executeQuery c).map .executeQuery
  else if c.type = tLoad then ((C.gz.uncomp c.sub).bind C.load.de).map .load
  else if c.type = tLoadChunk then (C.loadChunk.de c.sub).map .loadChunk
  else if c.type = tNoop then (C.noop.de c.sub).map .noop
  else none

def decode (C : Codecs) (data : Bytes) : Option Cmd :=
  (C.cmd.de data).bind (decodeEnvelope C)

/-! ### line protocol (component `marshal`)
`decide <batch> <size> <force 0|1> <sql,sql,…|-> <ubz> <gzlen>` → `true|false`
  (SQL texts hex-encoded; the model measures their byte length itself)
`want <batch> <size> <sql,…|->` → `true|false` -/

structure DState where
  unit : Unit := ()

def sqlsTok (t : String) : Option (List String) :=
  if t == "-" then some [] else (t.splitOn ",").mapM tokString

def step (s : DState) (line : String) : DState × String :=
  match words line with
  | ["decide", b, sz, f, sqls, ubz, gz] =>
    match b.toInt?, sz.toInt?, (if f == "1" then some true else if f == "0" then some false else none),
          sqlsTok sqls, ubz.toNat?, gz.toNat? with
    | some b, some sz, some f, some sqls, some ubz, some gz =>
      (s, boolStr (decision ⟨b, sz, f⟩ (sqls.map String.utf8ByteSize) ubz gz))
    | _, _, _, _, _, _ => (s, "bad-op")
  | ["want", b, sz, sqls] =>
    match b.toInt?, sz.toInt?, sqlsTok sqls with
    | some b, some sz, some sqls => (s, boolStr (wantCompress ⟨b, sz, false⟩ (sqls.map String.utf8ByteSize)))
    | _, _, _ => (s, "bad-op")
  | _ => (s, "bad-op")

def init : DState := {}

end RqModel.Marshal
--! driver: marshal RqModel.Marshal

package store

// C17 (store level) correspondence + spec oracle: Store.Query and Store.Request at every
// consistency level on a live single-node store (real Raft, real SQLite) vs. the Lean model
// `routing` (RqModel/Model/Routing.lean: storeQuery / storeRequest).

import (
	"context"
	"errors"
	"fmt"
	"strconv"
	"strings"
	"testing"
	"time"

	"github.com/rqlite/rqlite/v10/command/proto"
)

var (
	c17sReads = []string{"SELECT 1", "SELECT count(*) FROM t", "EXPLAIN SELECT * FROM t", "EXPLAIN QUERY PLAN SELECT 1",
		"PRAGMA table_info(t)", "WITH c AS (SELECT 1) SELECT * FROM c", "SELECT ';'", "SELECT v FROM t ORDER BY id LIMIT 1",
		"SELECT 1 /* ; DELETE FROM t */", "VALUES (1)"}
	c17sTemps = []string{"CREATE TEMP TABLE IF NOT EXISTS tt(a)", "CREATE TEMP TABLE IF NOT EXISTS tt2 AS SELECT 1 AS a"}
)

func c17sWrite(n, variant int) string {
	switch variant % 3 {
	case 0:
		return fmt.Sprintf("INSERT INTO t(v) VALUES('k%d')", n)
	case 1:
		return fmt.Sprintf("WITH c AS (SELECT 'k%d' AS v) INSERT INTO t(v) SELECT v FROM c", n)
	default:
		return fmt.Sprintf("INSERT OR REPLACE INTO t(v) VALUES('k%d')", n)
	}
}

func c17sSQL(text string, salt int) string {
	if text == "e" {
		return ""
	}
	var parts []string
	for i, s := range strings.Split(text, ",") {
		switch {
		case s == "r":
			parts = append(parts, c17sReads[(salt+i)%len(c17sReads)])
		case s == "t":
			parts = append(parts, c17sTemps[(salt+i)%len(c17sTemps)])
		case strings.HasPrefix(s, "w"):
			n, _ := strconv.Atoi(s[1:])
			parts = append(parts, c17sWrite(n, salt+i))
		}
	}
	return strings.Join(parts, "; ")
}

func c17sGenText(r *vfRng, next *int) string {
	if r.Chance(3) {
		return "e"
	}
	n := 1 + r.Intn(3)
	var ss []string
	for i := 0; i < n; i++ {
		switch p := r.Intn(100); {
		case p < 60:
			ss = append(ss, "r")
		case p < 93:
			*next++
			ss = append(ss, "w"+strconv.Itoa(*next))
		default:
			ss = append(ss, "t")
		}
	}
	return strings.Join(ss, ",")
}

func c17sContent(s *Store) string {
	rows, err := s.db.QueryStringStmt("SELECT v FROM t ORDER BY id")
	if err != nil || len(rows) != 1 || rows[0].Error != "" {
		panic(fmt.Sprintf("c17: cannot read table: %v %v", err, rows))
	}
	var toks []string
	for _, v := range rows[0].Values {
		toks = append(toks, strings.TrimPrefix(v.Parameters[0].GetS(), "k"))
	}
	if len(toks) == 0 {
		return "-"
	}
	return strings.Join(toks, ".")
}

var c17sLevels = map[string]proto.ConsistencyLevel{
	"none": proto.ConsistencyLevel_NONE, "weak": proto.ConsistencyLevel_WEAK,
	"linearizable": proto.ConsistencyLevel_LINEARIZABLE, "strong": proto.ConsistencyLevel_STRONG,
}

func c17sBit(b bool) string {
	if b {
		return "1"
	}
	return "0"
}

// ---- robustness under load -------------------------------------------------------------------
// A busy machine can make a node lose its leader lease for a moment (or, with two nodes, move the
// leadership). A request refused with ErrNotLeader has done nothing: wait for the leader and try again
// (up to 2 minutes). Any other load-related error leaves it open whether the request was applied: the
// section is then ABANDONED at that point (counted), not judged. Only an error that load cannot
// explain fails the test.
func c17sRefused(err error) bool {
	return errors.Is(err, ErrNotLeader) || errors.Is(err, ErrNotReady) || errors.Is(err, ErrLeaderNotFound) ||
		(err != nil && strings.Contains(err.Error(), "not leader"))
}

func c17sLoadRelated(err error) bool {
	if err == nil {
		return false
	}
	m := strings.ToLower(err.Error())
	return errors.Is(err, context.DeadlineExceeded) || errors.Is(err, ErrStaleRead) || strings.Contains(m, "leadership") || strings.Contains(m, "timeout") ||
		strings.Contains(m, "timed out") || strings.Contains(m, "deadline") || strings.Contains(m, "leader")
}

func c17sTry(s *Store, f func() error) error {
	deadline := time.Now().Add(2 * time.Minute)
	for {
		err := f()
		if !c17sRefused(err) || time.Now().After(deadline) {
			return err
		}
		s.WaitForLeader(30 * time.Second)
		time.Sleep(50 * time.Millisecond)
	}
}

func TestVerifC17(t *testing.T) {
	rep := vfNewReport("C17", "store level: live single-node store (then a second node joins and the follower serves reads at level none); Store.Query and Store.Request at levels none/weak/linearizable/strong with 1-3 texts of 1-3 statements in ONE text (reads incl. EXPLAIN/PRAGMA/CTE/comments, writes, TEMP tables, empty texts); table content read before/after; non-trivial = a query-endpoint request containing a write, or a unified request with a text classified read-only that has a writing tail; distinct by op line")
	defer rep.Write()
	r := vfNewRng(1717)

	s, ln := mustNewStore(t)
	defer ln.Close()
	if err := s.Open(); err != nil {
		t.Fatalf("open: %v", err)
	}
	if err := s.Bootstrap(NewServer(s.ID(), s.Addr(), true)); err != nil {
		t.Fatalf("bootstrap: %v", err)
	}
	defer s.Close(true)
	if _, err := s.WaitForLeader(2 * time.Minute); err != nil {
		t.Fatalf("leader: %v", err)
	}
	if err := c17sTry(s, func() error {
		_, _, err := s.Execute(context.Background(), executeRequestFromString("CREATE TABLE t (id INTEGER PRIMARY KEY, v TEXT)", false, false))
		return err
	}); err != nil {
		t.Fatalf("create: %v", err)
	}

	var ops, impl []string
	next := 0
	n := vfScale(150, 6000)
	corpus := []string{"request strong r,w9001", "request none r,w9002", "request weak w9003|r,w9004", "query strong r,w9005", "query none w9006"}
	for i := 0; i < n+len(corpus); i++ {
		var op string
		if i < len(corpus) {
			op = corpus[i]
		} else {
			kind := []string{"query", "request", "request"}[r.Intn(3)]
			lv := []string{"none", "weak", "strong", "strong", "linearizable"}[r.Intn(5)]
			var texts []string
			for k := 1 + r.Intn(3); k > 0; k-- {
				texts = append(texts, c17sGenText(r, &next))
			}
			op = kind + " " + lv + " " + strings.Join(texts, "|")
		}
		f := strings.Fields(op)
		texts := strings.Split(f[2], "|")
		var sqls []string
		for j, tx := range texts {
			sqls = append(sqls, c17sSQL(tx, i*5+j))
		}
		before := c17sContent(s)
		var errs []string
		replay := map[string]interface{}{"op": op, "sql": sqls, "level": f[1]}
		nontrivial := false
		var rows []*proto.QueryRows
		var res []*proto.ExecuteQueryResponse
		callErr := c17sTry(s, func() error {
			ctx, cancel := context.WithTimeout(context.Background(), 90*time.Second)
			defer cancel()
			var e error
			if f[0] == "query" {
				qr := queryRequestFromStrings(sqls, false, false, false)
				qr.Level = c17sLevels[f[1]]
				rows, _, _, e = s.Query(ctx, qr)
			} else {
				res, _, _, e = s.Request(ctx, executeQueryRequestFromStrings(sqls, c17sLevels[f[1]], false, false, false))
			}
			return e
		})
		if c17sLoadRelated(callErr) {
			// it is open whether the request was applied: stop here, judge what was observed so far
			rep.Count("abandoned-under-load:" + callErr.Error())
			break
		}
		if callErr != nil {
			t.Fatalf("Store.%s(%q, %s): %v", f[0], sqls, f[1], callErr)
		}
		if f[0] == "query" {
			for _, row := range rows {
				errs = append(errs, c17sBit(row.Error != ""))
			}
		} else {
			for _, x := range res {
				errs = append(errs, c17sBit(x.GetError() != "" || (x.GetQ() != nil && x.GetQ().Error != "")))
			}
		}
		after := c17sContent(s)
		e := "-"
		if len(errs) > 0 {
			e = strings.Join(errs, "")
		}
		ops = append(ops, op)
		impl = append(impl, after+" "+e)
		rep.Count(f[0] + ":" + f[1])

		// ---- the property ----
		if f[0] == "query" {
			for _, tx := range texts {
				if strings.Contains(tx, "w") {
					nontrivial = true
				}
			}
			if after != before {
				rep.Fail("query-endpoint-changed-database:"+f[1], fmt.Sprintf("Store.Query(%q) at level %s changed the table from %s to %s", sqls, f[1], before, after), replay)
			}
		} else {
			want := []string{}
			if before != "-" {
				want = strings.Split(before, ".")
			}
			nRW, _ := s.RORWCount(executeQueryRequestFromStrings(sqls, c17sLevels[f[1]], false, false, false))
			for _, tx := range texts {
				if tx == "e" {
					continue
				}
				if strings.HasPrefix(tx, "r") { // treated as read-only (RORWCount looks at the first statement)
					if strings.Contains(tx, "w") {
						nontrivial = true
						rep.Count("text:read-only-with-writing-tail:" + f[1])
					}
					continue
				}
				for _, st := range strings.Split(tx, ",") {
					if strings.HasPrefix(st, "w") {
						want = append(want, st[1:])
					}
				}
			}
			w := "-"
			if len(want) > 0 {
				w = strings.Join(want, ".")
			}
			if after != w {
				route := "alongside-a-write"
				if nRW == 0 {
					route = "level-" + f[1]
				}
				rep.Fail("unified-readonly-classified-text-writes:"+route, fmt.Sprintf("Store.Request(%q) at level %s (nRW=%d): a text the request treats as read-only changed the database: table is %s, the texts treated as read-write account for %s", sqls, f[1], nRW, after, w), replay)
			}
		}
		rep.Case(op, nontrivial)
		if i < 3 {
			rep.Sample(map[string]interface{}{"op": op, "sql": sqls, "table_after": after, "errors": e})
		}
	}
	// ---- the ATTACH route: switch query_only off on the pooled read-only connection, then write to the
	// node's OWN database file through an ATTACHed alias (mode=ro does not cover attached databases).
	// The pragma guard (C15) must refuse every spelling; then query_only stays on and the write is refused.
	pragmaOff := []string{"PRAGMA query_only=0", "PRAGMA query_only = false", "pragma query_only(0)", "PRAGMA main.query_only=OFF",
		"PRAGMA\tquery_only=0", "PRAGMA/**/query_only=false", "pragma[query_only]=0", "PRAGMA \"query_only\"=0", "PRAGMA\nquery_only = no",
		"EXPLAIN PRAGMA query_only=0", "PRAGMA /* x */ main . query_only = 0"}
	dataVersion := func() string {
		rows, err := s.db.QueryStringStmt("PRAGMA data_version")
		if err != nil || len(rows) != 1 || rows[0].Error != "" || len(rows[0].Values) != 1 {
			t.Fatalf("data_version: %v %v", err, rows)
		}
		return fmt.Sprint(rows[0].Values[0].Parameters[0].GetI())
	}
	runQ := func(endpoint, lv string, sqls []string) (rejected bool, errs []string) {
		if endpoint == "query" {
			var rows []*proto.QueryRows
			err := c17sTry(s, func() error { // (a momentary loss of the leader lease is not a refusal of the request)
				ctx, cancel := context.WithTimeout(context.Background(), 90*time.Second)
				defer cancel()
				qr := queryRequestFromStrings(sqls, false, false, false)
				qr.Level = c17sLevels[lv]
				var e error
				rows, _, _, e = s.Query(ctx, qr)
				return e
			})
			if err != nil {
				return true, nil
			}
			for _, row := range rows {
				errs = append(errs, c17sBit(row.Error != ""))
			}
			return false, errs
		}
		var res []*proto.ExecuteQueryResponse
		err := c17sTry(s, func() error {
			ctx, cancel := context.WithTimeout(context.Background(), 90*time.Second)
			defer cancel()
			var e error
			res, _, _, e = s.Request(ctx, executeQueryRequestFromStrings(sqls, c17sLevels[lv], false, false, false))
			return e
		})
		if err != nil {
			return true, nil
		}
		for _, x := range res {
			errs = append(errs, c17sBit(x.GetError() != "" || (x.GetQ() != nil && x.GetQ().Error != "")))
		}
		return false, errs
	}
	var gops, gimpl []string
	attachN := 0
	for i := 0; i < vfScale(40, 600); i++ {
		endpoint := []string{"query", "query", "request"}[r.Intn(3)]
		lv := []string{"none", "weak", "strong", "linearizable"}[r.Intn(4)]
		if endpoint == "request" {
			lv = []string{"none", "weak"}[r.Intn(2)] // the unified endpoint's read-only (local) path
		}
		pr := pragmaOff[(i+r.Intn(3))%len(pragmaOff)]
		before, dvBefore := c17sContent(s), dataVersion()
		// 1. try to switch query_only off (alone, behind a read, or before one)
		var sqls []string
		var abs string
		switch r.Intn(3) {
		case 0:
			sqls, abs = []string{pr}, "p"
		case 1:
			sqls, abs = []string{"SELECT 1; " + pr}, "r,p"
		default:
			sqls, abs = []string{pr, "SELECT 1"}, "p|r"
		}
		rej, errs := runQ(endpoint, lv, sqls)
		out := before + " " + map[bool]string{true: "-", false: strings.Join(errs, "")}[rej || len(errs) == 0]
		if rej {
			out += " rejected"
		} else {
			rep.Fail("query-only-switch-accepted:"+endpoint, fmt.Sprintf("%s at level %s accepted %q: query_only can be switched off on the pooled read-only connection", endpoint, lv, sqls), map[string]interface{}{"sql": sqls, "level": lv})
		}
		gops = append(gops, "gquery "+lv+" "+abs)
		gimpl = append(gimpl, out)
		// 2. ATTACH the node's own file and write through the alias
		attachN++
		alias := fmt.Sprintf("w%d", attachN)
		_, aerrs := runQ(endpoint, lv, []string{fmt.Sprintf("ATTACH DATABASE '%s' AS %s", s.dbPath, alias)})
		_, werrs := runQ(endpoint, lv, []string{fmt.Sprintf("INSERT INTO %s.t(v) VALUES('k%d')", alias, 700000+attachN)})
		runQ(endpoint, lv, []string{"DETACH DATABASE " + alias})
		after, dvAfter := c17sContent(s), dataVersion()
		rep.Count("attach-route:" + endpoint + ":" + lv)
		rep.Case(fmt.Sprintf("attach-route %s %s %q", endpoint, lv, sqls), true)
		if after != before || dvAfter != dvBefore {
			rep.Fail("attach-route-changed-database:"+endpoint, fmt.Sprintf("%s at level %s: after %q, ATTACH of the node's own file and INSERT through the alias the table went from %s to %s (data_version %s -> %s; attach errs %v, insert errs %v)", endpoint, lv, sqls, before, after, dvBefore, dvAfter, aerrs, werrs),
				map[string]interface{}{"sql": sqls, "level": lv, "endpoint": endpoint})
		}
		we := "1"
		if len(werrs) == 1 {
			we = werrs[0]
		}
		gops = append(gops, fmt.Sprintf("gquery %s r,a%d", lv, 700000+attachN))
		gimpl = append(gimpl, after+" "+we)
	}
	// ---- a FOLLOWER serving reads: join a second node; generated texts (writes in them, multi-statement,
	// the ATTACH route) at level none on the follower's query endpoint and on its unified endpoint's
	// read-only path; weak/strong on a follower are refused; BOTH nodes' tables must stay as they are
	func() {
		f, lnf := mustNewStore(t)
		defer lnf.Close()
		if err := f.Open(); err != nil {
			t.Fatalf("follower open: %v", err)
		}
		defer f.Close(true)
		if err := c17sTry(s, func() error { return s.Join(joinRequest(f.ID(), f.Addr(), true)) }); err != nil {
			if c17sLoadRelated(err) {
				rep.Count("follower-section-abandoned-under-load:join:" + err.Error())
				return
			}
			t.Fatalf("join: %v", err)
		}
		if _, err := f.WaitForLeader(2 * time.Minute); err != nil {
			rep.Count("follower-section-abandoned-under-load:no-leader-seen-by-follower")
			return
		}
		deadline := time.Now().Add(2 * time.Minute)
		for s.DBAppliedIndex() != f.DBAppliedIndex() || c17sContent(f) != c17sContent(s) {
			if time.Now().After(deadline) {
				rep.Count("follower-section-abandoned-under-load:follower-did-not-catch-up-in-2-minutes")
				return
			}
			time.Sleep(100 * time.Millisecond)
		}
		for i := 0; i < vfScale(40, 800); i++ {
			var texts []string
			for k := 1 + r.Intn(3); k > 0; k-- {
				texts = append(texts, c17sGenText(r, &next))
			}
			var sqls []string
			for j, tx := range texts {
				sqls = append(sqls, c17sSQL(tx, i*3+j))
			}
			if i%5 == 4 { // the ATTACH route against the follower's own file
				sqls = []string{fmt.Sprintf("ATTACH DATABASE '%s' AS fw%d", f.dbPath, i), fmt.Sprintf("INSERT INTO fw%d.t(v) VALUES('k%d')", i, 800000+i)}
			}
			lv := []string{"none", "none", "weak", "strong"}[r.Intn(4)]
			endpoint := []string{"query", "request"}[r.Intn(2)]
			if f.IsLeader() || !s.IsLeader() {
				// the leadership has moved (a loaded machine): what follows is about a FOLLOWER
				rep.Count("follower-case-skipped:leadership-moved")
				time.Sleep(200 * time.Millisecond)
				continue
			}
			beforeL, beforeF := c17sContent(s), c17sContent(f)
			ctx, cancel := context.WithTimeout(context.Background(), 90*time.Second)
			var err error
			hasRW := false
			if endpoint == "query" {
				qr := queryRequestFromStrings(sqls, false, false, false)
				qr.Level = c17sLevels[lv]
				_, _, _, err = f.Query(ctx, qr)
			} else {
				eqr := executeQueryRequestFromStrings(sqls, c17sLevels[lv], false, false, false)
				nRW, _ := f.RORWCount(eqr)
				hasRW = nRW > 0
				_, _, _, err = f.Request(ctx, eqr)
			}
			cancel()
			rep.Count("follower:" + endpoint + ":" + lv)
			rep.Case(fmt.Sprintf("follower %s %s %q", endpoint, lv, sqls), true)
			if f.IsLeader() || !s.IsLeader() {
				rep.Count("follower-case-skipped:leadership-moved")
				continue
			}
			if (lv != "none" || hasRW) && err == nil {
				rep.Fail("follower-served-leader-only-request:"+endpoint+":"+lv, fmt.Sprintf("follower accepted %s at level %s: %q", endpoint, lv, sqls), map[string]interface{}{"sql": sqls, "level": lv})
			}
			if i%5 == 4 {
				fq := queryRequestFromStrings([]string{fmt.Sprintf("DETACH DATABASE fw%d", i)}, false, false, false)
				f.Query(context.Background(), fq)
			}
			time.Sleep(5 * time.Millisecond)
			if aL, aF := c17sContent(s), c17sContent(f); aL != beforeL || aF != beforeF {
				rep.Fail("follower-read-changed-database:"+endpoint+":"+lv, fmt.Sprintf("%s at level %s on a follower with %q: leader table %s -> %s, follower table %s -> %s", endpoint, lv, sqls, beforeL, aL, beforeF, aF),
					map[string]interface{}{"sql": sqls, "level": lv, "endpoint": endpoint})
			}
		}
	}()
	rep.vfCompare("routing", ops, impl, nil)
	// the guarded path continues from the same database content
	rep.vfCompare("routing", append(append([]string{}, ops...), gops...), append(append([]string{}, impl...), gimpl...), nil)
}

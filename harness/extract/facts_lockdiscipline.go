package main

// LockDiscipline: for each listed method, does it hold its mutex for its whole
// body? The fact justifies modelling the method as ONE atomic step of the
// component's labelled transition system (C11, C24, C34, C36).
//
// Per method the extractor emits the *shape* of the top-level statement list
// (one kind word per statement), the index of the first `recv.<mu>.Lock()` /
// `RLock()` statement, whether the very next statement is the matching
// `defer recv.<mu>.Unlock()`, the kinds of the statements that precede the lock,
// the number of explicit (non-deferred) unlock calls anywhere in the body, and
// whether the body waits on a condition variable (`cond.Wait()`), which makes
// the method a guarded step rather than an unconditional one.

import (
	"fmt"
	"go/ast"
	"strings"
)

type lockTarget struct {
	dir, recv, method, mu string
}

var lockTargets = []lockTarget{
	{"internal/rsync", "CheckAndSet", "Begin", "mu"},
	{"internal/rsync", "CheckAndSet", "End", "mu"},
	{"internal/rsync", "CheckAndSet", "Owner", "mu"},
	{"internal/rsync", "CheckAndSet", "Stats", "mu"},
	{"internal/rsync", "CheckAndSet", "BeginWithRetry", "mu"},
	{"internal/rsync", "MultiRSW", "BeginRead", "mu"},
	{"internal/rsync", "MultiRSW", "BeginReadBlocking", "mu"},
	{"internal/rsync", "MultiRSW", "EndRead", "mu"},
	{"internal/rsync", "MultiRSW", "BeginWrite", "mu"},
	{"internal/rsync", "MultiRSW", "BeginWriteBlocking", "mu"},
	{"internal/rsync", "MultiRSW", "EndWrite", "mu"},
	{"internal/rsync", "MultiRSW", "UpgradeToWriter", "mu"},
	{"internal/rsync", "ReadyTarget", "Subscribe", "mu"},
	{"internal/rsync", "ReadyTarget", "Unsubscribe", "mu"},
	{"internal/rsync", "ReadyTarget", "Signal", "mu"},
	{"internal/rsync", "ReadyTarget", "Reset", "mu"},
	{"internal/rsync", "ReadyTarget", "Len", "mu"},
	{"store/throttler", "Throttler", "Signal", "mu"},
	{"store/throttler", "Throttler", "Release", "mu"},
	{"store/throttler", "Throttler", "Reset", "mu"},
	{"store/throttler", "Throttler", "Delay", "mu"},
	{"store/throttler", "Throttler", "GetDelay", "mu"},
	{"store/throttler", "Throttler", "Level", "mu"},
	{"queue", "Queue", "Write", "seqMu"},
	{"queue", "Queue", "Flush", "seqMu"},
	{"snapshot", "LockingStreamer", "Close", "mu"},
	{"snapshot", "LockingStreamer", "checkIdle", "mu"},
	{"snapshot", "LockingStreamer", "Read", "mu"},
}

// muCall recognises `<recv>.<mu>.<Fn>()` and returns Fn.
func muCall(e ast.Expr, recvVar, mu string) string {
	c, ok := e.(*ast.CallExpr)
	if !ok || len(c.Args) != 0 {
		return ""
	}
	s, ok := c.Fun.(*ast.SelectorExpr)
	if !ok {
		return ""
	}
	inner, ok := s.X.(*ast.SelectorExpr)
	if !ok || inner.Sel.Name != mu {
		return ""
	}
	id, ok := inner.X.(*ast.Ident)
	if !ok || id.Name != recvVar {
		return ""
	}
	return s.Sel.Name
}

func stmtKind(st ast.Stmt, recvVar, mu string) string {
	switch t := st.(type) {
	case *ast.ExprStmt:
		switch muCall(t.X, recvVar, mu) {
		case "Lock":
			return "lock"
		case "RLock":
			return "rlock"
		case "Unlock":
			return "unlock"
		case "RUnlock":
			return "runlock"
		}
		return "expr"
	case *ast.DeferStmt:
		switch muCall(t.Call, recvVar, mu) {
		case "Unlock":
			return "defer-unlock"
		case "RUnlock":
			return "defer-runlock"
		}
		return "defer"
	case *ast.AssignStmt:
		return "assign"
	case *ast.IfStmt:
		return "if"
	case *ast.ForStmt, *ast.RangeStmt:
		return "for"
	case *ast.SelectStmt:
		return "select"
	case *ast.ReturnStmt:
		return "return"
	case *ast.IncDecStmt:
		return "incdec"
	case *ast.DeclStmt:
		return "decl"
	case *ast.SwitchStmt, *ast.TypeSwitchStmt:
		return "switch"
	case *ast.GoStmt:
		return "go"
	case *ast.SendStmt:
		return "send"
	}
	return "other"
}

func init() {
	register("LockDiscipline", func(x *X) {
		x.Raw("structure Method where")
		x.Raw("  name : String")
		x.Raw("  found : Bool")
		x.Raw("  top : List String          -- kind of each top-level statement")
		x.Raw("  lockAt : Option Nat        -- index of the first lock/rlock statement")
		x.Raw("  deferUnlockNext : Bool     -- the statement after it is the matching deferred unlock")
		x.Raw("  explicitUnlocks : Nat      -- non-deferred Unlock/RUnlock calls anywhere in the body")
		x.Raw("  lockCalls : Nat            -- Lock/RLock calls anywhere in the body")
		x.Raw("  condWait : Bool            -- body calls <recv>.cond.Wait()")
		x.Raw("  broadcasts : Nat           -- calls of <recv>.cond.Broadcast() in the body")
		x.Raw("  waitConds : List String    -- condition of every `for` loop whose body calls cond.Wait(), in order")
		x.Raw("deriving Repr, DecidableEq")
		var items []string
		for _, lt := range lockTargets {
			name := lt.dir + "." + lt.recv + "." + lt.method
			fd := x.Func(lt.dir, lt.recv, lt.method)
			if fd == nil || fd.Body == nil || fd.Recv == nil || len(fd.Recv.List[0].Names) != 1 {
				items = append(items, fmt.Sprintf("  ⟨%s, false, [], none, false, 0, 0, false, 0, []⟩", LeanStr(name)))
				continue
			}
			rv := fd.Recv.List[0].Names[0].Name
			var kinds []string
			lockAt := -1
			deferNext := false
			for i, st := range fd.Body.List {
				k := stmtKind(st, rv, lt.mu)
				kinds = append(kinds, LeanStr(k))
				if lockAt < 0 && (k == "lock" || k == "rlock") {
					lockAt = i
					if i+1 < len(fd.Body.List) {
						k2 := stmtKind(fd.Body.List[i+1], rv, lt.mu)
						deferNext = (k == "lock" && k2 == "defer-unlock") || (k == "rlock" && k2 == "defer-runlock")
					}
				}
			}
			explicit, locks, broadcasts := 0, 0, 0
			condWait := false
			inDefer := map[*ast.CallExpr]bool{}
			ast.Inspect(fd.Body, func(n ast.Node) bool {
				switch t := n.(type) {
				case *ast.DeferStmt:
					inDefer[t.Call] = true
				case *ast.CallExpr:
					switch muCall(t, rv, lt.mu) {
					case "Unlock", "RUnlock":
						if !inDefer[t] {
							explicit++
						}
					case "Lock", "RLock":
						locks++
					}
					if s, ok := t.Fun.(*ast.SelectorExpr); ok && s.Sel.Name == "Wait" {
						if in, ok := s.X.(*ast.SelectorExpr); ok && in.Sel.Name == "cond" {
							condWait = true
						}
					}
					if s, ok := t.Fun.(*ast.SelectorExpr); ok && s.Sel.Name == "Broadcast" {
						if in, ok := s.X.(*ast.SelectorExpr); ok && in.Sel.Name == "cond" {
							broadcasts++
						}
					}
				}
				return true
			})
			var waitConds []string
			ast.Inspect(fd.Body, func(n ast.Node) bool {
				fs, ok := n.(*ast.ForStmt)
				if !ok {
					return true
				}
				waits := false
				ast.Inspect(fs.Body, func(m ast.Node) bool {
					if c, ok := m.(*ast.CallExpr); ok {
						if s, ok := c.Fun.(*ast.SelectorExpr); ok && s.Sel.Name == "Wait" {
							if in, ok := s.X.(*ast.SelectorExpr); ok && in.Sel.Name == "cond" {
								waits = true
							}
						}
					}
					return true
				})
				if waits {
					waitConds = append(waitConds, LeanStr(x.Src(fs.Cond)))
				}
				return true
			})
			la := "none"
			if lockAt >= 0 {
				la = fmt.Sprintf("some %d", lockAt)
			}
			items = append(items, fmt.Sprintf("  ⟨%s, true, [%s], %s, %v, %d, %d, %v, %d, [%s]⟩", LeanStr(name),
				strings.Join(kinds, ", "), la, deferNext, explicit, locks, condWait, broadcasts, strings.Join(waitConds, ", ")))
		}
		x.Raw("def methods : List Method := [\n" + strings.Join(items, ",\n") + "\n]")
	})
}

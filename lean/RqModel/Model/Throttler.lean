/-
Model of store/throttler/throttler.go (C36).

`Throttler` is `(delayFactor, delays, releaseRate, idleTimeout, timer)`. Every
method runs under `t.mu` for its whole body (LockDiscipline facts), so each is
one atomic step. `delayFactor` is a Go `int`; it is modelled as an `Int` so that
"never negative / never past the table" is a theorem and not a typing accident.
Durations are `Int` nanoseconds (a `time.Duration` may be negative).

Time is an explicit `Nat` nanosecond clock handed to the steps that touch the
timer. The `time.Timer` created by `time.AfterFunc(idleTimeout, t.Reset)` is
modelled by `deadline : Option Nat` (`none` = stopped). Its firing is the step
`fire now`, enabled from the deadline on, which runs `Reset`.
-/
import RqModel.Model.Util
namespace RqModel.Throttler
open RqModel.Util

structure T where
  level   : Int            -- delayFactor
  delays  : List Int       -- ns
  rate    : Int            -- releaseRate
  idle    : Int            -- idleTimeout ns
  hasTimer : Bool          -- t.timer != nil
  deadline : Option Nat    -- armed timer deadline
deriving Repr, DecidableEq

/-- `New(delays, releaseRate, idleTimeout)` -/
def new (delays : List Int) (rate idle : Int) : T :=
  { level := 0
    delays := if delays.length = 0 then [0] else delays
    rate := if rate < 1 then 1 else rate
    idle := idle
    hasTimer := decide (idle > 0)   -- AfterFunc then Stop: exists, not armed
    deadline := none }

/-- `touch`: `t.timer.Reset(t.idleTimeout)` when a timer exists -/
def touch (t : T) (now : Nat) : T :=
  if t.hasTimer then { t with deadline := some (now + t.idle.toNat) } else t

def signal (t : T) (now : Nat) : T :=
  let t' := if t.level < (t.delays.length : Int) - 1 then { t with level := t.level + 1 } else t
  touch t' now

def release (t : T) (now : Nat) : T :=
  let l := t.level - t.rate
  touch { t with level := if l < 0 then 0 else l } now

/-- `Reset`: level 0, timer stopped -/
def reset (t : T) : T := { t with level := 0, deadline := none }

/-- the idle timer is due at `now` -/
def fireEnabled (t : T) (now : Nat) : Bool :=
  match t.deadline with
  | some d => decide (d ≤ now)
  | none => false

/-- timer goroutine: runs `Reset` when due, otherwise nothing happens -/
def fire (t : T) (now : Nat) : T := if fireEnabled t now then reset t else t

/-- `t.delays[t.delayFactor]`; `none` = index out of range (Go would panic) -/
def current (t : T) : Option Int :=
  if t.level < 0 then none else t.delays[t.level.toNat]?

/-- Result of `Delay(ctx)`: how long it blocked and whether it returned the
context error. `ctxLeft` is the time until `ctx.Done()` (`none` = never). -/
structure DelayRes where
  waited : Int
  ctxErr : Bool
deriving Repr, DecidableEq

/-- Go's `select` over two receive cases, as an external component with assumed laws:
given the times at which the timer case and the context case become ready, it says which
one is taken. Only the laws below are assumed — when both become ready at the same instant
Go may take either, and nothing is assumed about that. -/
structure SelectSem where
  /-- `true` = the `<-time.After(d)` case is taken -/
  pickTimer : Nat → Nat → Bool
  timer_first : ∀ a b, a < b → pickTimer a b = true
  ctx_first : ∀ a b, b < a → pickTimer a b = false

/-- ties go to the timer -/
def SelectSem.tieTimer : SelectSem :=
  ⟨fun a b => decide (a ≤ b), fun a b h => by simp; omega, fun a b h => by simp; omega⟩

/-- ties go to the context -/
def SelectSem.tieCtx : SelectSem :=
  ⟨fun a b => decide (a < b), fun a b h => by simp; omega, fun a b h => by simp; omega⟩

/-- `select { case <-time.After(d): nil; case <-ctx.Done(): ctx.Err() }` after the `d == 0`
shortcut; `time.After(d)` with `d ≤ 0` is ready at once -/
def delayOf (S : SelectSem) (d : Int) (ctxLeft : Option Nat) : DelayRes :=
  if d = 0 then ⟨0, false⟩
  else
    let w : Nat := d.toNat
    match ctxLeft with
    | none => ⟨w, false⟩
    | some c => if S.pickTimer w c then ⟨w, false⟩ else ⟨c, true⟩

def delay (S : SelectSem) (t : T) (ctxLeft : Option Nat) : Option DelayRes :=
  (current t).map (fun d => delayOf S d ctxLeft)

/-! ### op sequences (used by the invariants) -/

inductive Op where
  | signal (now : Nat)
  | release (now : Nat)
  | reset
  | fire (now : Nat)
  | staleFire     -- an AfterFunc callback that had already been launched (it was waiting for `t.mu`)
                  -- runs `Reset` after a newer Signal/Release re-armed the timer: level 0, timer stopped
deriving Repr, DecidableEq

def apply (t : T) : Op → T
  | .signal n => signal t n
  | .release n => release t n
  | .reset => reset t
  | .fire n => fire t n
  | .staleFire => reset t

def run (t : T) (ops : List Op) : T := ops.foldl apply t

/-! ### line protocol
`new <d,d,..|-> <rate> <idle>` → `ok`
`signal <now>` / `release <now>` / `reset` → `ok`
`fire <now>` → `fired` | `not-due`
`level` → int;  `getdelay` → int | `panic`
`delay <ctxLeft|->` → `ok <waited>` | `ctx <waited>` | `panic`   (the driver resolves a tie to the timer;
  the harness never generates one)
`deadline` → nat | `-` -/

structure DState where
  t : T := new [] 1 0

def intList (tok : String) : Option (List Int) :=
  if tok == "-" then some [] else (tok.splitOn ",").mapM String.toInt?

def step (d : DState) (line : String) : DState × String :=
  match words line with
  | ["new", ds, r, i] =>
    match intList ds, r.toInt?, i.toInt? with
    | some ds, some r, some i => ({ t := new ds r i }, "ok")
    | _, _, _ => (d, "bad-op")
  | ["signal", n] =>
    match n.toNat? with
    | some n => ({ t := signal d.t n }, "ok")
    | none => (d, "bad-op")
  | ["release", n] =>
    match n.toNat? with
    | some n => ({ t := release d.t n }, "ok")
    | none => (d, "bad-op")
  | ["reset"] => ({ t := reset d.t }, "ok")
  | ["fire", n] =>
    match n.toNat? with
    | some n => ({ t := fire d.t n }, if fireEnabled d.t n then "fired" else "not-due")
    | none => (d, "bad-op")
  | ["level"] => (d, toString d.t.level)
  | ["getdelay"] =>
    (d, match current d.t with
        | some v => toString v
        | none => "panic")
  | ["delay", c] =>
    let ctx : Option (Option Nat) := if c == "-" then some none else c.toNat?.map some
    match ctx with
    | some ctx =>
      (d, match delay SelectSem.tieTimer d.t ctx with
          | some r => (if r.ctxErr then "ctx " else "ok ") ++ toString r.waited
          | none => "panic")
    | none => (d, "bad-op")
  | ["deadline"] =>
    (d, match d.t.deadline with
        | some v => toString v
        | none => "-")
  | _ => (d, "bad-op")

def init : DState := {}

end RqModel.Throttler
--! driver: throttler RqModel.Throttler

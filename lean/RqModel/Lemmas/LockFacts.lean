/-
Reading of the regenerated `LockDiscipline` facts (C11, C24, C34, C36).

`wholeBody n` says: method `n` was found in the current sources, takes its mutex
exactly once, the statement right after the lock is the matching deferred
unlock, nothing in the body unlocks explicitly, and every statement that comes
*before* the lock is of a kind listed in `pre` (these are inspected per method
in the property files: a local `make(chan)`, an argument check that panics, a
non-blocking `select` on the done channel). Under those conditions every
execution of the method is one critical section of the component's mutex, which
is what licenses modelling it as a single atomic LTS step.
-/
import RqModel.Gen.LockDiscipline
namespace RqModel.LockFacts
open RqModel.Gen.LockDiscipline

def find (n : String) : Option Method := methods.find? (fun m => m.name == n)

/-- kinds of the top-level statements before the lock -/
def preKinds (m : Method) : List String :=
  match m.lockAt with
  | some i => m.top.take i
  | none => m.top

def wholeBodyM (m : Method) (pre : List String) (wait : Bool) : Bool :=
  m.found && m.lockAt.isSome && m.deferUnlockNext && m.explicitUnlocks == 0 &&
  m.lockCalls == 1 && preKinds m == pre && m.condWait == wait

/-- `n` holds its mutex from its `pre.length`-th statement to its return -/
def wholeBody (n : String) (pre : List String := []) (wait : Bool := false) : Bool :=
  match find n with
  | some m => wholeBodyM m pre wait
  | none => false

/-- `n` exists and never touches the mutex (e.g. `BeginWithRetry`, `Flush`) -/
def lockFree (n : String) : Bool :=
  match find n with
  | some m => m.found && m.lockAt.isNone && m.lockCalls == 0 && m.explicitUnlocks == 0
  | none => false

/-- number of `cond.Broadcast()` calls in `n` -/
def broadcasts (n : String) : Option Nat := (find n).bind (fun m => if m.found then some m.broadcasts else none)

/-- conditions of the `for … { cond.Wait() }` loops of `n` -/
def waitConds (n : String) : Option (List String) := (find n).bind (fun m => if m.found then some m.waitConds else none)

/-- exact top-level shape of `n` -/
def shape (n : String) : Option (List String) := (find n).bind (fun m => if m.found then some m.top else none)

end RqModel.LockFacts

/-
C08  Upgrading old snapshot formats is crash-safe.

Model: RqModel/Model/Upgrade.lean (snapshot/upgrader.go Upgrade7To8, Upgrade8To10 as of the
`fix:` commit 5a94866; store/store.go Open order). Lemmas: RqModel/Lemmas/Upgrade.lean.

A node start is `start` = Upgrade7To8 then Upgrade8To10. An interrupted start is
`startCut e s c` for ANY `c : StartCut`: inside Upgrade7To8 (while removing a stale
rsnapshots.tmp, while building it — any partial content —, after its rename with any part of
`snapshots` left) or inside Upgrade8To10 (plan file half written, after any number of the seven
plan operations with a truncated meta.json / database copy / CRC sidecar or any part of
`rsnapshots` left, all operations done but the plan file still present, inside the resume's
clean-up).
-/
import RqModel.Lemmas.Upgrade
import RqModel.Model.SnapFS
import RqModel.Gen.PlanShapes
namespace C08
open RqModel.Upgrade

variable {D : Type}

deriving instance DecidableEq for Except

/-- the store after a successful upgrade: exactly one v10 snapshot, nothing else -/
def upgraded (m : Meta) (d : D) : US D := { new := some [fin m d] }

/-- one interrupted node start: optionally (`true`) preceded by the data check that rqlited makes
before Store.Open when -auto-restore is given (`store.HasData`, which creates an empty wsnapshots
directory), then a start cut anywhere -/
abbrev Event (D : Type) := Bool × StartCut D

/-- the last, uninterrupted node start, with or without the data check before it -/
def finalStart (e : D) (hd : Bool) (s : US D) : Except String (US D) :=
  start e (if hd then hasData s else s)

/-- v8 store: for every finite sequence of interrupted starts (each with or without the data check
before it), the next complete start succeeds and leaves exactly the newest original snapshot —
same id, index, term and database, CRC sidecar matching — with every old/temporary directory and
the plan file gone. -/
theorem upgrade_crash_safe_v8 (e : D) {l8 : List (S8 D)} {m : Meta} {d : D} (h : C8 l8 m d)
    (evs : List (Event D)) (hd : Bool) :
    finalStart e hd (evs.foldl (startEvent e) { old8 := some l8 }) = .ok (upgraded m d) := by
  have hl := foldl_event_lift (coreOK8 e h) evs (Or.inl (.A none false))
  unfold finalStart
  cases hd
  · exact start_lift (coreOK8 e h) hl
  · exact start_lift (coreOK8 e h) (hasData_lift (coreOK8 e h) hl)

/-- v7 store (two upgrades in a row): the same. `d` is the database inside the newest snapshot's
state file (`e`, the empty database, when it holds no data). -/
theorem upgrade_crash_safe_v7 {e : D} {l7 : List (S7 D)} {m : Meta} {d : D} (h : C7 e l7 m d)
    (evs : List (Event D)) (hd : Bool) :
    finalStart e hd (evs.foldl (startEvent e) { old7 := some l7 }) = .ok (upgraded m d) := by
  have hl := foldl_event_lift (coreOK7 h) evs (Or.inl (.P none))
  unfold finalStart
  cases hd
  · exact start_lift (coreOK7 h) hl
  · exact start_lift (coreOK7 h) (hasData_lift (coreOK7 h) hl)

/-- a start on an already upgraded store — whatever it holds — changes nothing (an empty
wsnapshots directory is removed; NewStore creates it again) -/
theorem upgrade_idempotent (e : D) (l : List (S10 D)) (hl : l ≠ []) :
    start e ({ new := some l } : US D) = .ok { new := some l } ∧
    start e ({ new := some [] } : US D) = .ok {} := by
  constructor
  · cases l with
    | nil => exact absurd rfl hl
    | cons a t => simp [start, u78, u810, u810Core, u810With, rmEmptyNew]
  · simp [start, u78, u810, u810Core, u810With, rmEmptyNew]

/-! ### "newest"
`getNewest8Snapshot` / the model's `newest8` choose among COMPLETE entries only (a directory with
meta.json AND its `<id>.db`); an entry lacking a file is not a snapshot. `C8 l m d` therefore says
"`m` is the newest complete snapshot". The statement about the newest of ALL entries that carry a
meta.json needs that one to be complete: -/

/-- `m` is at least as new as every meta.json in the directory, complete entry or not -/
def NewestOfAll (l : List (S8 D)) (m : Meta) : Prop := ∀ x ∈ l, ∀ m', x.mt = some m' → metaLe m' m = true

/-- the property as written: the upgraded store holds the newest original snapshot -/
def C08_full (e : D) : Prop :=
  ∀ (l8 : List (S8 D)) (m : Meta) (evs : List (Event D)) (hd : Bool),
    (∃ x ∈ l8, x.mt = some m) → NewestOfAll l8 m →
    ∃ d, finalStart e hd (evs.foldl (startEvent e) { old8 := some l8 }) = .ok (upgraded m d)

/-- it holds whenever the newest entry is complete … -/
theorem upgrade_keeps_newest_of_all_v8 (e : D) {l8 : List (S8 D)} {m : Meta} {d : D} (h : C8 l8 m d)
    (_hn : NewestOfAll l8 m) (evs : List (Event D)) (hd : Bool) :
    finalStart e hd (evs.foldl (startEvent e) { old8 := some l8 }) = .ok (upgraded m d) :=
  upgrade_crash_safe_v8 e h evs hd

/-- … and not otherwise: when the entry with the newest meta.json has lost its database file, the
upgrade silently falls back to the newest complete one (no crash involved). -/
theorem newest_incomplete_fallback_witness :
    let l8 : List (S8 Nat) := [{ id := 1, dir := true, mt := some ⟨1, 10, 2⟩, db := some 7 },
                               { id := 2, dir := true, mt := some ⟨2, 20, 2⟩, db := none }]
    NewestOfAll l8 ⟨2, 20, 2⟩ ∧ start 0 ({ old8 := some l8 } : US Nat) = .ok (upgraded ⟨1, 10, 2⟩ 7) := by
  refine ⟨?_, by decide⟩
  intro x hx m' hm
  simp only [List.mem_cons, List.mem_nil_iff, or_false] at hx
  rcases hx with rfl | rfl <;> simp at hm <;> subst hm <;> decide

theorem C08_full_fails : ¬ C08_full (0 : Nat) := by
  intro h
  obtain ⟨d, hd⟩ := h [{ id := 1, dir := true, mt := some ⟨1, 10, 2⟩, db := some 7 },
                        { id := 2, dir := true, mt := some ⟨2, 20, 2⟩, db := none }] ⟨2, 20, 2⟩ [] false
    ⟨{ id := 2, dir := true, mt := some ⟨2, 20, 2⟩, db := none }, by simp, rfl⟩ newest_incomplete_fallback_witness.1
  have := newest_incomplete_fallback_witness.2
  simp only [List.foldl_nil, finalStart, Bool.false_eq_true, if_false] at hd
  rw [this] at hd
  simp [upgraded, fin] at hd

/-! ### "opens successfully": the upgraded directory is a loadable store of the snapshot model -/

/-- the v10 directory as a store of RqModel.SnapFS -/
def toStore (x : S10 D) : RqModel.SnapFS.FS D :=
  { names := [x.id]
    dir := fun n => if n = x.id then
      some { tmp := false, mt := x.mt.map fun m => ⟨m.id, m.index, m.term⟩, db := x.db, crc := x.crc, wals := [] }
      else none }

/-- NewStore's catalog scan of the upgraded directory succeeds and shows the one snapshot with the
original index, term and database; the restart observation (C07's `observe`) is that snapshot. -/
theorem upgraded_store_opens (A : RqModel.SnapFS.DbAlg D) (m : Meta) (d : D) :
    ∃ x, RqModel.SnapFS.scan (toStore (fin m d)) = .ok [x] ∧ x.mt = ⟨m.id, m.index, m.term⟩ ∧ x.db = some d ∧
      RqModel.SnapFS.observe A [x] = some (m.index, m.term, some d) ∧
      RqModel.SnapFS.check A (toStore (fin m d)) = .ok (toStore (fin m d)) := by
  refine ⟨{ name := m.id, mt := ⟨m.id, m.index, m.term⟩, db := some d, crc := some d, wals := [] }, ?_, rfl, rfl, ?_, ?_⟩
  · simp [RqModel.SnapFS.scan, RqModel.SnapFS.liveDirs, toStore, fin, RqModel.SnapFS.loadAll, RqModel.SnapFS.loadSnap]
  · simp [RqModel.SnapFS.observe, RqModel.SnapFS.resolveNewest, RqModel.SnapFS.resolveRev]
  · simp only [RqModel.SnapFS.check, toStore, RqModel.SnapFS.rmTmpDirs]
    congr 1
    simp only [RqModel.SnapFS.FS.mk.injEq, true_and, and_true]
    funext n
    by_cases h : n = (fin m d).id <;> simp [h]

/-- The defect repaired by 5a94866, on the resume branch as it was: after a crash between the
plan's rename and the removal of the plan file, every later start failed. -/
def witnessStore : US Nat := { old8 := some [{ id := 1, dir := true, mt := some ⟨1, 10, 2⟩, db := some 7 }] }
def witnessCrashed : US Nat := startCut 0 witnessStore (.in810 (.inPlan 6 .none))

theorem resume_before_fix_witness :
    startOld 0 witnessCrashed = .error "rename-exists" ∧
    startOld 0 (startCut 0 witnessCrashed (.in810 .start)) = .error "rename-exists" ∧
    startOld 0 (startCut 0 witnessStore (.in810 .planDone)) = .error "copy-nosrc" ∧
    start 0 witnessCrashed = .ok (upgraded ⟨1, 10, 2⟩ 7) := by decide

/-- The defect repaired by the empty-directory fix, on the code as it was (`startCore`): the data
check before Store.Open creates an empty wsnapshots; Upgrade8To10 takes "the new directory exists"
for "already upgraded" and removes the v8 snapshots without upgrading them — also on the resume
branch, when the check runs before the start that follows a crash inside the plan. -/
theorem empty_new_dir_before_fix_witness :
    startCore 0 (hasData witnessStore) = .ok { new := some [] } ∧
    startCore 0 (hasData (startCut 0 witnessStore (.in810 (.inPlan 3 .none)))) = .ok { new := some [] } ∧
    start 0 (hasData witnessStore) = .ok (upgraded ⟨1, 10, 2⟩ 7) ∧
    start 0 (hasData (startCut 0 witnessStore (.in810 (.inPlan 3 .none)))) = .ok (upgraded ⟨1, 10, 2⟩ 7) := by decide

/-- The data check never answers "no data" on a node that holds a snapshot in ANY format, in any
state interrupted starts can leave — so -auto-restore never loads its file over such a node … -/
theorem data_check_sees_old_format_v8 (e : D) {l8 : List (S8 D)} {m : Meta} {d : D} (h : C8 l8 m d)
    (evs : List (Event D)) :
    hasDataAnswer (evs.foldl (startEvent e) { old8 := some l8 }) = true :=
  hasDataAnswer_lift (fun _ hs => hasDataAnswer_inv h hs)
    (foldl_event_lift (coreOK8 e h) evs (Or.inl (.A none false)))

theorem data_check_sees_old_format_v7 {e : D} {l7 : List (S7 D)} {m : Meta} {d : D} (h : C7 e l7 m d)
    (evs : List (Event D)) :
    hasDataAnswer (evs.foldl (startEvent e) { old7 := some l7 }) = true :=
  hasDataAnswer_lift (fun _ hs => hasDataAnswer_inv7 h hs)
    (foldl_event_lift (coreOK7 h) evs (Or.inl (.P none)))

/-- … which it did before the fix: only wsnapshots was looked at, so a node that had not been
upgraded yet (and whose raft log held no command entry) was taken for an empty one and its data
replaced by the auto-restore file on the first start with the new release. -/
theorem data_check_before_fix_witness :
    hasDataAnswerOld witnessStore = false ∧ hasDataAnswerOld (hasData witnessStore) = false ∧
    hasDataAnswer witnessStore = true ∧ hasDataAnswer (hasData witnessStore) = true := by decide

/-! ### tie to the source (regenerated on every run) -/

def opKind : Op8 → String
  | .mkTmp => "AddMkdirAll" | .mkSnap => "AddMkdirAll" | .writeMeta => "AddWriteMeta"
  | .copyDb => "AddCopyFile" | .calcCrc => "AddCalcCRC32" | .rename => "AddRename" | .rmOld => "AddRemoveAll"

/-- Upgrade8To10 adds exactly the model's seven operations in the model's order, straight-line,
writes the plan before executing it; its resume branch skips the plan when the new directory
exists; an empty new directory is removed before either branch looks at it; Store.Open runs Upgrade7To8, Upgrade8To10, NewStore in this order. -/
theorem upgrade_shape_from_source :
    RqModel.Gen.PlanShapes.upgrade8To10 = planOps.map (fun o => (opKind o, "")) ∧
    RqModel.Gen.PlanShapes.upgradeWriteBeforeExecute = some true ∧
    RqModel.Gen.PlanShapes.upgradeResumeSkipsPlanWhenNewExists = some true ∧
    RqModel.Gen.PlanShapes.upgradeRemovesEmptyNewFirst = some true ∧
    RqModel.Gen.PlanShapes.openSnapshotCalls = ["Upgrade7To8", "Upgrade8To10", "NewStore"] := by decide

/-! ### non-vacuity -/

example : C8 ([{ id := 1, dir := true, mt := some ⟨1, 10, 2⟩, db := some 7 },
               { id := 2, dir := true, mt := some ⟨2, 20, 2⟩, db := some 9 },
               { id := 3, dir := false, mt := none, db := some 4 }] : List (S8 Nat)) ⟨2, 20, 2⟩ 9 :=
  ⟨by decide, by decide⟩

example : C7 0 ([{ id := 1, mt := some ⟨1, 8, 2⟩, st := .missing },
                 { id := 2, mt := some ⟨2, 18, 2⟩, st := .data 5 }] : List (S7 Nat)) ⟨2, 18, 2⟩ 5 :=
  ⟨by decide, ⟨{ id := 2, mt := some ⟨2, 18, 2⟩, st := .data 5 }, by decide, Or.inr rfl⟩⟩

/-- a v7 store, crash while building rsnapshots.tmp, then crash after five plan operations with a
truncated CRC sidecar, then crash inside the removal of rsnapshots -/
example :
    finalStart 0 true ([(false, StartCut.in78 (.building [⟨2, true, none, none⟩])), (true, .in810 (.inPlan 4 .fileTrunc)),
              (true, .in810 (.inPlan 6 (.rmJunk [])))].foldl (startEvent 0)
      ({ old7 := some [{ id := 1, mt := some ⟨1, 8, 2⟩, st := .missing },
                       { id := 2, mt := some ⟨2, 18, 2⟩, st := .data 5 }] } : US Nat))
      = .ok (upgraded ⟨2, 18, 2⟩ 5) := by decide

end C08

/-
C24  The batching queue is FIFO, lossless and batch-bounded.

Property theorems only. Model: RqModel/Model/Queue.lean (an LTS). `Reachable s`
means: `s` is the result of ANY finite sequence of steps (writes by any number
of writers, flushes, loop receives, timer firings at any moment, sends,
consumes, request closes, queue close) from ANY freshly constructed queue
(any capacity, batch size, timeout, initial sequence number).
Invariant and preservation lemmas: RqModel/Lemmas/Queue.lean.
-/
import RqModel.Lemmas.Queue
import RqModel.Lemmas.QueueDrain
import RqModel.Lemmas.LockFacts
namespace C24
open RqModel.Queue

/-- writes accepted but not yet handed to the consumer, in pipeline order -/
def inflight (s : S) : List W :=
  (optL s.sendCh ++ optL s.sending).flatMap (·.members) ++ s.qObjs ++ writesOf s.batchCh

theorem emitted_wf {s : S} (h : Reachable s) : ∀ r ∈ s.emitted, WfReq s.batchSize r := fun r hr =>
  h.inv.wf r (by simp only [reqs]; exact List.mem_append_left _ (List.mem_append_left _ hr))

/-- **Exactly once, in write order (conservation).** In every reachable state the
writes merged into the requests the consumer has received, followed by the
writes still inside the queue, are exactly the accepted writes in sequence
order: nothing is lost, duplicated or reordered. -/
theorem conservation (s : S) (h : Reachable s) :
    s.emitted.flatMap (·.members) ++ inflight s = s.written := by
  have := h.inv.cons
  simp only [allW, reqs, inflight] at this ⊢
  rw [← this]; simp

theorem objs_of_members (bs : Int) (rs : List Req) (h : ∀ r ∈ rs, WfReq bs r) :
    rs.flatMap (·.objs) = (rs.flatMap (·.members)).flatMap (·.objs) := by
  induction rs with
  | nil => rfl
  | cons r rs ih =>
    simp only [List.flatMap_cons, List.flatMap_append]
    rw [ih (fun r hr => h r (List.mem_cons_of_mem _ hr)), (h r List.mem_cons_self).objs]

/-- **FIFO / lossless at the level of elements.** The concatenation of the emitted
batches is a prefix of the concatenation of all written slices in write order,
and it is all of it once nothing is in flight. -/
theorem emitted_is_prefix_of_written (s : S) (h : Reachable s) :
    s.emitted.flatMap (·.objs) <+: s.written.flatMap (·.objs) ∧
    (inflight s = [] → s.emitted.flatMap (·.objs) = s.written.flatMap (·.objs)) := by
  have hc := conservation s h
  have ho := objs_of_members _ _ (emitted_wf h)
  constructor
  · refine ⟨(inflight s).flatMap (·.objs), ?_⟩
    rw [ho, ← List.flatMap_append]
    exact congrArg _ hc
  · intro hq
    rw [ho]
    have : s.emitted.flatMap (·.members) = s.written := by rw [← hc, hq]; simp
    rw [this]

/-- **No write is split.** Every emitted batch is the concatenation of whole
writes (at least one), and the batches' write groups are consecutive pieces of
the write history. -/
theorem no_split (s : S) (h : Reachable s) :
    (∀ r ∈ s.emitted, r.members ≠ [] ∧ r.objs = r.members.flatMap (·.objs)) ∧
    s.emitted.flatMap (·.members) <+: s.written := by
  refine ⟨fun r hr => ?_, ⟨inflight s, conservation s h⟩⟩
  have := emitted_wf h r hr
  exact ⟨this.nonempty, this.objs⟩

/-- the configuration never changes -/
theorem config_constant (m : Nat) (b t seq0 : Int) (steps : List Step) :
    (run (mk m b t seq0) steps).maxSize = m ∧ (run (mk m b t seq0) steps).batchSize = b ∧
    (run (mk m b t seq0) steps).timeout = t := by
  have := run_cfg (mk m b t seq0) steps
  simp only [cfg, mk, Prod.mk.injEq] at this
  exact this

/-- **Batch bound.** With `batchSize ≥ 1` no batch holds more than `batchSize`
writes (and none is empty). -/
theorem batch_bounded (m : Nat) (b t seq0 : Int) (steps : List Step) (hb : 1 ≤ b) :
    ∀ r ∈ (run (mk m b t seq0) steps).emitted,
      1 ≤ r.members.length ∧ (r.members.length : Int) ≤ b := by
  intro r hr
  have hre : Reachable (run (mk m b t seq0) steps) := ⟨m, b, t, seq0, steps, rfl⟩
  have hw := emitted_wf hre r hr
  rw [(config_constant m b t seq0 steps).2.1] at hw
  refine ⟨?_, hw.bound hb⟩
  have := hw.nonempty
  cases hm : r.members with
  | nil => exact absurd hm this
  | cons _ _ => simp

/-! ### sequence numbers -/

theorem written_sorted_members (s : S) (h : Reachable s) :
    (s.emitted.flatMap (·.members)).Pairwise (fun a b => a.seq < b.seq) := by
  have hs := h.inv.sorted
  rw [← conservation s h] at hs
  exact (List.pairwise_append.1 hs).1

theorem last_of_sorted (l : List W) (hs : l.Pairwise (fun a b => a.seq < b.seq)) (m : W) (hm : m ∈ l)
    (hmax : ∀ x ∈ l, x.seq ≤ m.seq) : l.getLast? = some m := by
  rcases List.eq_nil_or_concat l with rfl | ⟨init, last, rfl⟩
  · cases hm
  · simp only [List.concat_eq_append] at hs hm hmax ⊢
    simp only [List.getLast?_concat, Option.some.injEq]
    rcases List.mem_append.1 hm with hi | hl
    · have h1 := (List.pairwise_append.1 hs).2.2 m hi last (by simp)
      have h2 := hmax last (by simp)
      omega
    · simp only [List.mem_singleton] at hl; exact hl.symm

/-- **A batch carries the largest sequence number it contains, which is that of
its last write.** -/
theorem seq_is_max_and_last (s : S) (h : Reachable s) :
    ∀ r ∈ s.emitted, (∀ w ∈ r.members, w.seq ≤ r.seq) ∧
      (r.members.getLast?).map (·.seq) = some r.seq := by
  intro r hr
  have hw := emitted_wf h r hr
  refine ⟨hw.seqMax, ?_⟩
  obtain ⟨m, hm, hme⟩ := hw.seqMem
  have hsorted : r.members.Pairwise (fun a b => a.seq < b.seq) :=
    (List.pairwise_flatMap.1 (written_sorted_members s h)).1 r hr
  have := last_of_sorted r.members hsorted m hm (fun x hx => by rw [hme]; exact hw.seqMax x hx)
  rw [this]; simp [hme]

/-- **Sequence numbers strictly increase from batch to batch**, and every write in
an earlier batch has a smaller number than every write in a later batch. -/
theorem seq_strictly_increasing (s : S) (h : Reachable s) :
    s.emitted.Pairwise (fun r1 r2 => r1.seq < r2.seq ∧
      ∀ a ∈ r1.members, ∀ b ∈ r2.members, a.seq < b.seq) := by
  have hp := (List.pairwise_flatMap.1 (written_sorted_members s h)).2
  have hwf := emitted_wf h
  revert hwf
  generalize s.emitted = em at hp
  intro hwf
  induction hp with
  | nil => exact List.Pairwise.nil
  | @cons r1 rest hhead _ ih =>
    refine List.Pairwise.cons ?_ (ih (fun r hr => hwf r (List.mem_cons_of_mem _ hr)))
    intro r2 hr2
    refine ⟨?_, hhead r2 hr2⟩
    obtain ⟨m1, hm1, e1⟩ := (hwf r1 List.mem_cons_self).seqMem
    obtain ⟨m2, hm2, e2⟩ := (hwf r2 (List.mem_cons_of_mem _ hr2)).seqMem
    rw [← e1, ← e2]
    exact hhead r2 hr2 m1 hm1 m2 hm2

/-- a returned sequence number is the queue's counter: every accepted write has a
number no larger than the current counter, and numbers strictly increase in write order -/
theorem write_numbers_increase (s : S) (h : Reachable s) :
    s.written.Pairwise (fun a b => a.seq < b.seq) ∧ ∀ w ∈ s.written, w.seq ≤ s.seqNum :=
  ⟨h.inv.sorted, h.inv.le⟩

/-! ### completion signals -/

/-- **A flush channel is closed only by `Close` of the batch that contains its
write.** Every closed channel belongs to a write that is a member of a request
the consumer received and on which it called `Close`. -/
theorem flush_closed_only_by_its_batch (s : S) (h : Reachable s) :
    ∀ f ∈ s.closedFlush, ∃ i r w, i ∈ s.closedReqs ∧ s.emitted[i]? = some r ∧
      w ∈ r.members ∧ w.flush = some f ∧ w ∈ s.written := by
  intro f hf
  obtain ⟨i, r, hi, hg, hfr⟩ := h.inv.closed f hf
  have hr : r ∈ s.emitted := List.mem_of_getElem? hg
  have hw := emitted_wf h r hr
  rw [hw.flushes] at hfr
  obtain ⟨w, hwm, hwf⟩ := List.mem_filterMap.1 hfr
  refine ⟨i, r, w, hi, hg, hwm, hwf, ?_⟩
  rw [← conservation s h]
  exact List.mem_append_left _ (List.mem_flatMap.2 ⟨r, hr, hwm⟩)

/-- the flush channels a request closes are exactly those of its member writes, in order -/
theorem request_flushes (s : S) (h : Reachable s) :
    ∀ r ∈ s.emitted, r.flushes = r.members.filterMap (·.flush) :=
  fun r hr => (emitted_wf h r hr).flushes

/-! ### lossless: everything written does come out (progress in safety form)

`drain` runs the loop and the consumer (consume, send, receive, timer fire; no
new writes) until none of them is enabled; every such step lowers the measure
`mu`, so `mu s` steps suffice. -/

theorem inflight_nil_of_settled (s : S) (h : Settled s) (hq : s.qObjs = []) : inflight s = [] := by
  simp [inflight, h.sendCh, h.sending, h.batchCh, hq, optL, writesOf]

/-- **With a timeout, everything written is emitted.** From any reachable state of a
running queue whose timeout is non-zero, letting the loop, its timer and the
consumer run brings out every accepted write: afterwards nothing is in flight and
the emitted batches concatenate to exactly all written elements in write order. -/
theorem timer_drains_everything (s : S) (h : Reachable s) (hns : s.stopped = false) (ht : s.timeout ≠ 0) :
    Reachable (drain (mu s) s) ∧ (drain (mu s) s).written = s.written ∧
    inflight (drain (mu s) s) = [] ∧
    (drain (mu s) s).emitted.flatMap (·.objs) = s.written.flatMap (·.objs) := by
  obtain ⟨hr, he, hs, _⟩ := drain_spec (mu s) s h hns (Nat.le_refl _)
  simp only [env, Prod.mk.injEq] at he
  have hq : (drain (mu s) s).qObjs = [] := by
    by_cases hq : (drain (mu s) s).qObjs = []
    · exact hq
    · have := hr.armed (by rw [he.1]; exact hns) (by rw [he.2.1]; exact ht) hq
      rw [hs.timer] at this; cases this
  have hi := inflight_nil_of_settled _ hs hq
  refine ⟨hr, he.2.2, hi, ?_⟩
  rw [← he.2.2]
  exact (emitted_is_prefix_of_written _ hr).2 hi

/-- **A Flush brings out everything, timer or not.** From any reachable state of a
running queue: once the loop and consumer have caught up, a `Flush` is accepted,
and after they catch up again nothing is in flight — the emitted batches are
exactly all written elements in write order. -/
theorem flush_drains_everything (s : S) (h : Reachable s) (hns : s.stopped = false) :
    ∃ s2, flush (drain (mu s) s) = some s2 ∧
      Reachable (drain (mu s2) s2) ∧ (drain (mu s2) s2).written = s.written ∧
      inflight (drain (mu s2) s2) = [] ∧
      (drain (mu s2) s2).emitted.flatMap (·.objs) = s.written.flatMap (·.objs) := by
  obtain ⟨hr1, he1, hs1, _⟩ := drain_spec (mu s) s h hns (Nat.le_refl _)
  simp only [env, Prod.mk.injEq] at he1
  have hns1 : (drain (mu s) s).stopped = false := by rw [he1.1]; exact hns
  obtain ⟨s2, hf, hr2, he2, hm2⟩ := flush_settled _ hr1 hns1 hs1
  simp only [env, Prod.mk.injEq] at he2
  have hns2 : s2.stopped = false := by rw [he2.1]; exact hns1
  obtain ⟨hr3, he3, hs3, hm3⟩ := drain_spec (mu s2) s2 hr2 hns2 (Nat.le_refl _)
  simp only [env, Prod.mk.injEq] at he3
  have hq : (drain (mu s2) s2).qObjs = [] := by
    rcases hm3 hm2 with ⟨pre, hp⟩ | ⟨hq, _⟩
    · rw [hs3.batchCh] at hp; simp at hp
    · exact hq
  have hi := inflight_nil_of_settled _ hs3 hq
  have hw : (drain (mu s2) s2).written = s.written := by rw [he3.2.2, he2.2.2, he1.2.2]
  refine ⟨s2, hf, hr3, hw, hi, ?_⟩
  rw [← hw]
  exact (emitted_is_prefix_of_written _ hr3).2 hi

/-! #### ... for EVERY schedule (fairness in finite form)

A schedule is any list of loop/consumer steps (`consume`, `send`, `recv`, `fire`), in any
order, each enabled when it is taken (`runE`). Every enabled step lowers `mu`, so no schedule
is longer than `mu s`: the loop and the consumer cannot run forever without new writes. A
schedule that cannot be extended (`Quiescent`: no such step is enabled any more) is what a fair
execution reaches — fairness says an enabled step is eventually taken, so a fair execution
does not stop earlier. -/

/-- **Every schedule terminates**: at most `mu s` loop/consumer steps can be taken, in whatever order. -/
theorem every_schedule_terminates (s s' : S) (h : Reachable s) (sched : List LStep)
    (hrun : runE s sched = some s') : sched.length ≤ mu s := by
  have := (runE_spec sched s s' h hrun).2.1
  omega

/-- **Every maximal schedule drains the queue (timeout ≠ 0).** Whatever order the loop, its timer
and the consumer take their steps in, when nothing more can happen everything written has
been emitted, in write order. -/
theorem every_maximal_schedule_drains (s s' : S) (h : Reachable s) (hns : s.stopped = false)
    (ht : s.timeout ≠ 0) (sched : List LStep) (hrun : runE s sched = some s') (hq : Quiescent s') :
    inflight s' = [] ∧ s'.written = s.written ∧
    s'.emitted.flatMap (·.objs) = s.written.flatMap (·.objs) := by
  obtain ⟨hr, _, he, _⟩ := runE_spec sched s s' h hrun
  simp only [env, Prod.mk.injEq] at he
  have hns' : s'.stopped = false := by rw [he.1]; exact hns
  have hs := settled_of_quiescent s' hns' hq
  have hqo : s'.qObjs = [] := by
    by_cases hqo : s'.qObjs = []
    · exact hqo
    · have := hr.armed hns' (by rw [he.2.1]; exact ht) hqo
      rw [hs.timer] at this; cases this
  have hi := inflight_nil_of_settled _ hs hqo
  refine ⟨hi, he.2.2, ?_⟩
  rw [← he.2.2]
  exact (emitted_is_prefix_of_written _ hr).2 hi

/-- **After a Flush, every maximal schedule drains the queue, timer or not.** If the flush marker
is the last thing in the channel (the state right after an accepted `Flush`), any maximal
schedule ends with nothing in flight. -/
theorem every_maximal_schedule_after_flush_drains (s s' : S) (h : Reachable s) (hns : s.stopped = false)
    (hm : MarkerLast s) (sched : List LStep) (hrun : runE s sched = some s') (hq : Quiescent s') :
    inflight s' = [] ∧ s'.emitted.flatMap (·.objs) = s.written.flatMap (·.objs) := by
  obtain ⟨hr, _, he, hml⟩ := runE_spec sched s s' h hrun
  simp only [env, Prod.mk.injEq] at he
  have hns' : s'.stopped = false := by rw [he.1]; exact hns
  have hs := settled_of_quiescent s' hns' hq
  have hqo : s'.qObjs = [] := by
    rcases hml hm with ⟨pre, hp⟩ | ⟨hqo, _⟩
    · rw [hs.batchCh] at hp; simp at hp
    · exact hqo
  have hi := inflight_nil_of_settled _ hs hqo
  refine ⟨hi, ?_⟩
  rw [← he.2.2]
  exact (emitted_is_prefix_of_written _ hr).2 hi

example : (drain 50 (run (mk 4 3 5) [.write [1] none, .write [2, 3] none])).emitted.map (·.objs) = [[1, 2, 3]] := by
  decide

/-- "After `Close` the run loop can always get to its `done` case": in every reachable state with
`done` set and the loop not yet stopped, `stop` or one of the loop's own steps is enabled -/
def C24_close_returns_full : Prop :=
  ∀ s : S, Reachable s → s.done = true → s.stopped = false →
    (stop s).isSome = true ∨ (recv s).isSome = true ∨ (fire s).isSome = true ∨ (send s).isSome = true

/-- it holds whenever the loop is not blocked sending (decidable exclusion) -/
theorem close_returns_partial (s : S) (hd : s.done = true) (hs : s.stopped = false)
    (hsend : s.sending = none) : (stop s).isSome = true := by
  simp [stop, hd, hs, hsend]

/-- and fails when it is: the loop waits for the consumer, `Close` waits for the loop -/
theorem close_returns_witness : ¬ C24_close_returns_full := by
  intro h
  have := h (run (mk 4 1 0) [.write [1] none, .recv, .send, .write [2] none, .recv, .close])
    ⟨4, 1, 0, 0, _, rfl⟩ (by decide) (by decide)
  revert this
  decide

/-- What the model shows about `Close` (outside the property, recorded because the C23
harness observes it on the real service): when the run loop is blocked sending a batch to
the full output slot, `close(q.done)` cannot stop it — `stop` is not enabled, and nothing the
loop can do is enabled either until the consumer takes the pending request. `Queue.Close`
waits for the loop, so it blocks as long as the consumer does not read. -/
theorem close_blocks_while_loop_is_sending_witness :
    let s := run (mk 4 1 0) [.write [1] none, .recv, .send, .write [2] none, .recv, .close]
    s.done = true ∧ s.sending.isSome = true ∧ s.sendCh.isSome = true ∧
    stop s = none ∧ recv s = none ∧ fire s = none ∧ send s = none ∧ (consume s).isSome = true := by
  decide

/-! ### regenerated facts -/

/-- `Write` takes `seqMu` right after its non-blocking `select` on `q.done` and holds
it (deferred unlock) until it returns, so number assignment and enqueueing are one
critical section; `Flush` takes no lock. -/
theorem lock_discipline :
    RqModel.LockFacts.wholeBody "queue.Queue.Write" ["select"] = true ∧
    RqModel.LockFacts.shape "queue.Queue.Write" =
      some ["select", "lock", "defer-unlock", "incdec", "send", "expr", "return"] ∧
    RqModel.LockFacts.lockFree "queue.Queue.Flush" = true := by decide

/-! ### non-vacuity: a run with a size-triggered batch, a timer batch and a flushed batch -/
example :
    let s := run (mk 4 2 5) [.write [1, 2] (some 0), .write [3] none, .recv, .recv, .send, .consume,
      .write [4] (some 1), .recv, .fire, .send, .consume, .closeReq 0,
      .write [5, 6] none, .flush, .recv, .recv, .send, .consume]
    s.emitted.map (·.objs) = [[1, 2, 3], [4], [5, 6]] ∧ s.emitted.map (·.seq) = [2, 3, 4] ∧
    s.closedFlush = [0] ∧ inflight s = [] := by decide

end C24

package snapshot

// C12 correspondence + spec oracle: a real snapshot Store (catalog scan, sidecars,
// ensureVerified, Open, Reap), real Restore and a real Sink in a second store vs. the
// Lean model `snapverify` (RqModel/Model/SnapVerify.lean).
//
// Generated stores: [older full snapshot] + full snapshot + 0..3 incremental snapshots, all
// real SQLite files with CRC sidecars. One corruption per scenario: a byte flip (random,
// page-aligned, in the file header) or a truncation of any data file, or an edit of any
// sidecar (flipped byte, other CRC, garbage, removed, disabled) — applied either before
// the store is opened or after its first verification — followed by 1-3 consumers in
// random order: startup verification (EnsureVerify), Open+Restore, Open+install into
// another store, Reap. Verdicts, stream headers and receiver decisions are compared with
// the model; the property is evaluated on what is actually restored / installed.

import (
	"bytes"
	"encoding/json"
	"fmt"
	"hash/crc32"
	"io"
	"os"
	"path/filepath"
	"strings"
	"testing"

	"github.com/hashicorp/raft"
	"github.com/rqlite/rqlite/v10/db"
	"github.com/rqlite/rqlite/v10/snapshot/plan"
	"github.com/rqlite/rqlite/v10/snapshot/proto"
	"github.com/rqlite/rqlite/v10/snapshot/sidecar"
)

type c12File struct {
	dir      string // snapshot directory name
	path     string
	isDb     bool
	chain    bool
	orig     []byte
	origSide []byte
	snapNo   int // which snapshot directory (for the model)
}

type c12Store struct {
	dir      string
	files    []*c12File
	expected []byte // database after SQLite replays the original WALs into the original db
}

func c12Exec(t *testing.T, d *db.DB, q string) {
	res, err := d.ExecuteStringStmt(q)
	if err != nil || res[0].GetError() != "" {
		t.Fatalf("exec %q: %v %v", q, err, res)
	}
}

// c12RealFiles: a database of several pages and nWals WAL files taken between checkpoints.
func c12RealFiles(t *testing.T, r *vfRng, dir string, nWals int) ([]byte, [][]byte) {
	path := filepath.Join(dir, fmt.Sprintf("gen-%d.db", r.U64()))
	d, err := db.Open(path, false, false)
	if err != nil {
		t.Fatal(err)
	}
	c12Exec(t, d, "PRAGMA page_size=512")
	c12Exec(t, d, "CREATE TABLE foo (id INTEGER PRIMARY KEY, v TEXT)")
	c12Exec(t, d, "CREATE TABLE bar (id INTEGER PRIMARY KEY, v TEXT)")
	c12Exec(t, d, "VACUUM")
	d.Close()
	if d, err = db.Open(path, false, true); err != nil {
		t.Fatal(err)
	}
	for i := 0; i < 4+r.Intn(12); i++ {
		c12Exec(t, d, fmt.Sprintf("INSERT INTO bar(v) VALUES('%s')", strings.Repeat("b", 40+r.Intn(120))))
	}
	if _, err := d.Checkpoint(db.CheckpointTruncate); err != nil {
		t.Fatal(err)
	}
	base, _ := os.ReadFile(path)
	var wals [][]byte
	for i := 0; i < nWals; i++ {
		for j := 0; j <= r.Intn(3); j++ {
			c12Exec(t, d, fmt.Sprintf("INSERT INTO foo(v) VALUES('w%d-%d-%s')", i, j, strings.Repeat("z", r.Intn(60))))
		}
		w, _ := os.ReadFile(path + "-wal")
		wals = append(wals, w)
		if _, err := d.Checkpoint(db.CheckpointTruncate); err != nil {
			t.Fatal(err)
		}
	}
	d.Close()
	os.Remove(path)
	os.Remove(path + "-wal")
	os.Remove(path + "-shm")
	return base, wals
}

func c12Replay(root string, dbb []byte, wals [][]byte) ([]byte, error) {
	sub, err := os.MkdirTemp(root, "replay")
	if err != nil {
		return nil, err
	}
	defer os.RemoveAll(sub)
	p := filepath.Join(sub, "r.db")
	os.WriteFile(p, dbb, 0o644)
	var wps []string
	for i, w := range wals {
		wp := filepath.Join(sub, fmt.Sprintf("w%d", i))
		os.WriteFile(wp, w, 0o644)
		wps = append(wps, wp)
	}
	if len(wps) > 0 {
		if err := db.ReplayWAL(p, wps, false); err != nil {
			return nil, err
		}
	}
	return os.ReadFile(p)
}

func c12WriteSnap(t *testing.T, root, id string, idx uint64, name string, data []byte) string {
	sd := filepath.Join(root, id)
	if err := os.MkdirAll(sd, 0o755); err != nil {
		t.Fatal(err)
	}
	p := filepath.Join(sd, name)
	if err := os.WriteFile(p, data, 0o644); err != nil {
		t.Fatal(err)
	}
	if err := sidecar.WriteFile(p+crcSuffix, c12CRC(data)); err != nil {
		t.Fatal(err)
	}
	if err := writeMeta(sd, &raft.SnapshotMeta{ID: id, Index: idx, Term: 2}); err != nil {
		t.Fatal(err)
	}
	return p
}

// c12AddFile adds a data file (+ sidecar) to a snapshot directory, creating it with its
// meta.json when needed.
func c12AddFile(t *testing.T, root, id string, idx uint64, name string, data []byte) string {
	sd := filepath.Join(root, id)
	if _, err := os.Stat(sd); err != nil {
		return c12WriteSnap(t, root, id, idx, name, data)
	}
	p := filepath.Join(sd, name)
	if err := os.WriteFile(p, data, 0o644); err != nil {
		t.Fatal(err)
	}
	if err := sidecar.WriteFile(p+crcSuffix, c12CRC(data)); err != nil {
		t.Fatal(err)
	}
	return p
}

var c12Castagnoli = crc32.MakeTable(crc32.Castagnoli)

func c12crc32(b []byte) uint32 { return crc32.Checksum(b, c12Castagnoli) }
func c12CRC(b []byte) uint32   { return c12crc32(b) }

type c12Set struct {
	base, older, expected []byte
	wals                  [][]byte
}

var c12Pool []*c12Set

// c12GetSet returns one of a small pool of generated file sets (SQLite work is the slow part).
func c12GetSet(t *testing.T, r *vfRng, root string) *c12Set {
	if len(c12Pool) < vfScale(8, 40) {
		nw := len(c12Pool) % 8
		base, wals := c12RealFiles(t, r, root, nw)
		older, _ := c12RealFiles(t, r, root, 0)
		exp, err := c12Replay(root, base, wals)
		if err != nil {
			t.Fatalf("replay of generated files: %v", err)
		}
		c12Pool = append(c12Pool, &c12Set{base: base, older: older, expected: exp, wals: wals})
		return c12Pool[len(c12Pool)-1]
	}
	return c12Pool[r.Intn(len(c12Pool))]
}

func c12BuildStore(t *testing.T, r *vfRng, root string) *c12Store {
	dir, err := os.MkdirTemp(root, "store")
	if err != nil {
		t.Fatal(err)
	}
	st := &c12Store{dir: dir}
	set := c12GetSet(t, r, root)
	base, wals := set.base, set.wals
	if r.Chance(30) {
		ob := set.older
		id := "2-5-1700000000100"
		p := c12WriteSnap(t, dir, id, 5, dbfileName, ob)
		sb, _ := os.ReadFile(p + crcSuffix)
		st.files = append(st.files, &c12File{dir: id, path: p, isDb: true, chain: false, orig: ob, origSide: sb, snapNo: 100})
	}
	baseIdx := uint64([]int{200, 8, 97, 998}[r.Intn(4)])
	id := fmt.Sprintf("2-%d-1700000000200", baseIdx)
	p := c12WriteSnap(t, dir, id, baseIdx, dbfileName, base)
	sb, _ := os.ReadFile(p + crcSuffix)
	st.files = append(st.files, &c12File{dir: id, path: p, isDb: true, chain: true, orig: base, origSide: sb})
	// a full snapshot installed from a leader carries its own WAL files (data-0000000N.wal)
	i := 0
	if r.Chance(30) {
		for ; i < len(wals) && i < 1+r.Intn(2); i++ {
			p := c12AddFile(t, dir, id, baseIdx, fmt.Sprintf("data-%08d.wal", i), wals[i])
			sb, _ := os.ReadFile(p + crcSuffix)
			st.files = append(st.files, &c12File{dir: id, path: p, isDb: false, chain: true, orig: wals[i], origSide: sb})
		}
	}
	// incremental snapshots hold one or two WAL files each
	snapNo := 0
	for i < len(wals) {
		snapNo++
		idx := baseIdx + uint64(snapNo)
		id := fmt.Sprintf("2-%d-17000000003%02d", idx, snapNo)
		k := 1
		if r.Chance(35) && i+1 < len(wals) {
			k = 2
		}
		for j := 0; j < k; j++ {
			p := c12AddFile(t, dir, id, idx, fmt.Sprintf("%08d.wal", j+1), wals[i+j])
			sb, _ := os.ReadFile(p + crcSuffix)
			st.files = append(st.files, &c12File{dir: id, path: p, isDb: false, chain: true, orig: wals[i+j], origSide: sb, snapNo: snapNo})
		}
		i += k
	}
	st.expected = set.expected
	return st
}

func c12SideTok(path string) string {
	sc, err := sidecar.ReadFile(path + crcSuffix)
	if err != nil {
		return "b"
	}
	if sc.Disabled {
		return "d"
	}
	n, err := sc.CRC32()
	if err != nil {
		return "b"
	}
	return fmt.Sprintf("c%d", n)
}

func c12Kind(f *c12File) string {
	switch {
	case f.isDb && f.chain:
		return "db"
	case !f.isDb && f.chain:
		return "wal"
	case f.isDb:
		return "olddb"
	}
	return "oldwal"
}

// c12Corrupt applies one corruption to the files on disk; returns a description, the model
// op, and whether it changes what the store would hand out (vs. a change the sidecar parser
// does not see).
// c12ForceChainFile >= 0 makes c12Corrupt hit that file of the consolidation chain (directed scenarios)
var c12ForceChainFile = -1

func c12ChainLen(st *c12Store) int {
	n := 0
	for _, f := range st.files {
		if f.chain {
			n++
		}
	}
	return n
}

func c12Corrupt(r *vfRng, st *c12Store) (kind string, op string, effective bool, target *c12File) {
	i := r.Intn(len(st.files))
	if r.Chance(40) {
		i = len(st.files) - 1 - r.Intn(min(2, len(st.files)))
	}
	dataKind, dataCase := r.Chance(60), r.Intn(6)
	if c12ForceChainFile >= 0 {
		// directed scenario: a DATA corruption (not in the file header, not a truncation SQLite would trip
		// over first) of the k-th file of the chain the reap consumes
		k := 0
		for j, cf := range st.files {
			if cf.chain {
				if k == c12ForceChainFile%c12ChainLen(st) {
					i = j
				}
				k++
			}
		}
		dataKind, dataCase = true, []int{0, 1, 5}[r.Intn(3)]
	}
	f := st.files[i]
	target = f
	cur, _ := os.ReadFile(f.path)
	if dataKind {
		b := append([]byte(nil), cur...)
		switch dataCase {
		case 0:
			pos := r.Intn(len(b))
			b[pos] ^= 1 << uint(r.Intn(8))
			kind = "data-flip-random"
		case 1:
			pos := 512 * r.Intn((len(b)+511)/512)
			if pos >= len(b) {
				pos = len(b) - 1
			}
			b[pos] ^= 1 << uint(r.Intn(8))
			kind = "data-flip-page-aligned"
		case 2:
			pos := r.Intn(16)
			if !f.isDb {
				pos = r.Intn(8)
			}
			b[pos] ^= 1 << uint(r.Intn(8))
			kind = "data-flip-in-file-header"
		case 3:
			b = b[:r.Intn(len(b))]
			kind = "data-truncated"
		case 4:
			b = b[:len(b)-1]
			kind = "data-truncated-by-one"
		default:
			b = append(b, byte(r.U64()))
			kind = "data-extended-by-one"
		}
		os.WriteFile(f.path, b, 0o644)
		return kind, fmt.Sprintf("setc %d %s", i, vfHexB(b)), true, f
	}
	sp := f.path + crcSuffix
	sb, _ := os.ReadFile(sp)
	before := c12SideTok(f.path)
	switch r.Intn(6) {
	case 0, 1:
		b := append([]byte(nil), sb...)
		b[r.Intn(len(b))] ^= 1 << uint(r.Intn(8))
		os.WriteFile(sp, b, 0o644)
		kind = "sidecar-byte-flip"
	case 2:
		sidecar.WriteFile(sp, c12crc32(cur)^(1<<uint(r.Intn(32))))
		kind = "sidecar-other-crc"
	case 3:
		os.WriteFile(sp, r.Bytes(1+r.Intn(20)), 0o644)
		kind = "sidecar-garbage"
	case 4:
		os.Remove(sp)
		kind = "sidecar-removed"
	default:
		os.WriteFile(sp, []byte(`{"crc":"00000000","type":"castagnoli","disabled":true}`), 0o644)
		kind = "sidecar-disabled"
	}
	after := c12SideTok(f.path)
	effective = after != before && kind != "sidecar-disabled"
	if after == before {
		kind += "-parsing-identically"
	}
	return kind, fmt.Sprintf("sets %d %s", i, after), effective, f
}

type c12Run struct {
	t    *testing.T
	rep  *vfReport
	r    *vfRng
	root string
	st   *c12Store
	s    *Store
	ops, impl []string
	seq  int
}

func (c *c12Run) newest() string {
	metas, err := c.s.List()
	if err != nil || len(metas) == 0 {
		return ""
	}
	return metas[0].ID
}

// open returns the model token, whether the receiver accepted, and the bytes it ended up with.
func (c *c12Run) open(viaSink bool) (tok string, accepted bool, got []byte, gotWals [][]byte) {
	id := c.newest()
	if id == "" {
		// List itself scans the catalog; a scan failure is an Open failure
		return "err", false, nil, nil
	}
	_, rc, err := c.s.Open(id)
	if err != nil {
		return "err", false, nil, nil
	}
	strm, rerr := io.ReadAll(rc)
	rc.Close()
	if rerr != nil {
		return "err-read:" + rerr.Error(), false, nil, nil
	}
	hb, h, ok := c12HeaderOf(strm)
	_ = hb
	if !ok || h == nil || h.GetFull() == nil || h.GetFull().DbHeader == nil {
		return "err-unparseable-stream", false, nil, nil
	}
	parts := []string{fmt.Sprintf("%d:%d", h.GetFull().DbHeader.SizeBytes, h.GetFull().DbHeader.Crc32)}
	for _, w := range h.GetFull().WalHeaders {
		parts = append(parts, fmt.Sprintf("%d:%d", w.SizeBytes, w.Crc32))
	}
	c.seq++
	if viaSink {
		dir2 := filepath.Join(c.root, fmt.Sprintf("recv-%d", c.seq))
		os.MkdirAll(dir2, 0o755)
		defer os.RemoveAll(dir2)
		sid := fmt.Sprintf("2-900-%d", c.seq)
		sink := NewSink(dir2, &raft.SnapshotMeta{ID: sid, Index: 900, Term: 2}, nil, nil)
		sink.Open()
		_, werr := io.Copy(sink, bytes.NewReader(strm))
		if werr != nil {
			sink.Cancel()
		} else if cerr := sink.Close(); cerr != nil {
			sink.Cancel()
			werr = cerr
		}
		if werr == nil {
			accepted = true
			got, _ = os.ReadFile(filepath.Join(dir2, sid, "data.db"))
			for i := 0; ; i++ {
				w, err := os.ReadFile(filepath.Join(dir2, sid, fmt.Sprintf("data-%08d.wal", i)))
				if err != nil {
					break
				}
				gotWals = append(gotWals, w)
			}
		}
	} else {
		dst := filepath.Join(c.root, fmt.Sprintf("restored-%d.db", c.seq))
		_, err := Restore(bytes.NewReader(strm), dst)
		defer os.Remove(dst)
		if err == nil || strings.Contains(err.Error(), "checkpointing WALs") {
			accepted = true
			if err == nil {
				got, _ = os.ReadFile(dst)
			}
		}
	}
	return fmt.Sprintf("ok %s accept=%v", strings.Join(parts, ","), accepted), accepted, got, gotWals
}

func c12HeaderOf(m []byte) ([]byte, *proto.SnapshotHeader, bool) {
	if len(m) < 4 {
		return nil, nil, false
	}
	n := int(uint32(m[0])<<24 | uint32(m[1])<<16 | uint32(m[2])<<8 | uint32(m[3]))
	if len(m) < 4+n {
		return nil, nil, false
	}
	h, err := UnmarshalSnapshotHeader(m[4 : 4+n])
	if err != nil {
		return m[4 : 4+n], nil, true
	}
	return m[4 : 4+n], h, true
}

func TestVerifC12(t *testing.T) {
	rep := vfNewReport("C12", "generated stores ([older full] + full + 0-3 incrementals, real SQLite files) × one corruption (byte flip random / page-aligned / in file header, truncation, extension of any data file; sidecar byte flip, other CRC, garbage, removal, disabled) × timing (none, before the store is opened, after its first verification) × 1-3 consumers in random order (EnsureVerify, Open+Restore, Open+install via Sink, Reap); non-trivial = a corruption was applied; distinct by scenario")
	defer rep.Write()
	r := vfNewRng(12)
	root := t.TempDir()
	n := vfScale(110, 9000)
	var segOps, segImpl [][]string
	for it := 0; it < n; it++ {
		st := c12BuildStore(t, r, root)
		c := &c12Run{t: t, rep: rep, r: r, root: root, st: st}
		c.ops = []string{"new"}
		c.impl = []string{"ok"}
		for _, f := range st.files {
			c.ops = append(c.ops, fmt.Sprintf("file %s %d %s %s", c12Kind(f), f.snapNo, vfHexB(f.orig), c12SideTok(f.path)))
			c.impl = append(c.impl, "ok")
		}
		timing := []string{"none", "before-start", "before-start", "after-first-verification", "after-first-verification"}[r.Intn(5)]
		// directed: every run starts with late corruptions of EACH file a reap consumes (the full snapshot's
		// database first), applied after the first verification, with the reap as the first consumer
		directed := it < 8 && c12ChainLen(st) >= 2
		c12ForceChainFile = -1
		if directed {
			timing = "after-first-verification"
			c12ForceChainFile = it
			rep.Count("directed:late-corruption-then-reap")
		}
		kind, effective := "none", false
		var target *c12File
		apply := func() {
			var op string
			kind, op, effective, target = c12Corrupt(r, st)
			c12ForceChainFile = -1
			c.ops = append(c.ops, op)
			c.impl = append(c.impl, "ok")
		}
		if timing == "before-start" {
			apply()
		}
		s, err := NewStore(st.dir)
		if err != nil {
			t.Fatalf("NewStore: %v", err)
		}
		s.fatalFn = nil
		c.s = s
		replay := func() map[string]interface{} {
			return map[string]interface{}{"ops": append([]string(nil), c.ops...), "timing": timing, "corruption": kind, "files": len(st.files)}
		}
		if timing == "after-first-verification" {
			// the first verification, through either entry point
			if r.Bool() {
				err := s.EnsureVerify()
				c.ops = append(c.ops, "ensure")
				c.impl = append(c.impl, map[bool]string{true: "ok", false: "err"}[err == nil])
				if err != nil {
					rep.Fail("intact-store-fails-verification", err.Error(), replay())
				}
			} else {
				tok, acc, got, _ := c.open(false)
				c.ops = append(c.ops, "open")
				c.impl = append(c.impl, tok)
				if !acc || !bytes.Equal(got, st.expected) {
					rep.Fail("intact-store-not-restored-exactly", tok, replay())
				}
			}
			apply()
		}
		chainHit := target != nil && target.chain
		detectedBefore := false
		nc := 1 + r.Intn(3)
		var seqNames []string
		for k := 0; k < nc; k++ {
			which := r.Intn(4)
			if directed && k == 0 {
				which = 3
			}
			name := []string{"ensure", "open-restore", "open-install", "reap"}[which]
			seqNames = append(seqNames, name)
			used := false // the consumer went ahead
			switch which {
			case 0:
				err := s.EnsureVerify()
				c.ops = append(c.ops, "ensure")
				c.impl = append(c.impl, map[bool]string{true: "ok", false: "err"}[err == nil])
				used = err == nil
			case 1, 2:
				tok, acc, got, gotWals := c.open(which == 2)
				c.ops = append(c.ops, "open")
				c.impl = append(c.impl, tok)
				used = strings.HasPrefix(tok, "ok ")
				if acc {
					// property: whatever is restored / installed is the original data
					bad := false
					if which == 1 {
						bad = got != nil && !bytes.Equal(got, st.expected)
					} else {
						var chain []*c12File
						for _, f := range st.files {
							if f.chain {
								chain = append(chain, f)
							}
						}
						if len(gotWals)+1 == len(chain) {
							bad = !bytes.Equal(got, chain[0].orig)
							for i, w := range gotWals {
								if !bytes.Equal(w, chain[i+1].orig) {
									bad = true
								}
							}
						} else {
							// after a reap the chain is one consolidated database
							bad = len(gotWals) != 0 || !bytes.Equal(got, st.expected)
						}
					}
					if bad {
						rep.Fail(fmt.Sprintf("altered-data-%s:%s:%s", map[bool]string{false: "restored", true: "installed"}[which == 2], timing, strings.Join(seqNames, ">")),
							fmt.Sprintf("corruption %s of %s (%s), consumers %v: the receiver accepted data that differs from the original", kind, c12Kind(target), timing, seqNames), replay())
					}
				}
			default:
				nr, ncp, err := s.Reap()
				tok := "ok"
				if err != nil {
					tok = "err"
				} else if nr == 0 && ncp == 0 {
					tok = "noop"
				}
				arg := "x"
				if tok == "ok" && ncp > 0 {
					if id := c.newest(); id != "" {
						b, _ := os.ReadFile(filepath.Join(st.dir, id, dbfileName))
						arg = vfHexB(b)
						if effective && chainHit && strings.HasPrefix(kind, "data-") {
							rep.Fail("reap-consolidated-corrupted-file:"+timing,
								fmt.Sprintf("corruption %s of %s (%s): the reap checkpointed the files and wrote a fresh checksum for the result (equal to uncorrupted result: %v)", kind, c12Kind(target), timing, bytes.Equal(b, st.expected)), replay())
						}
					}
				}
				c.ops = append(c.ops, "reap "+arg)
				c.impl = append(c.impl, tok)
				used = tok != "err"
			}
			rep.Count("consumer=" + name)
			if timing == "before-start" && effective {
				if used {
					rep.Fail("corruption-at-start-not-detected:"+name+":"+kind,
						fmt.Sprintf("corruption %s of %s present when the store was opened; %s (consumer %d) went ahead", kind, c12Kind(target), name, k+1), replay())
				} else {
					detectedBefore = true
				}
			}
		}
		_ = detectedBefore
		s.Close()
		os.RemoveAll(st.dir)
		rep.Count("timing=" + timing)
		rep.Count("corruption=" + kind)
		rep.Count(fmt.Sprintf("files=%d", len(st.files)))
		rep.Case(strings.Join(c.ops, ";"), timing != "none")
		if it < 3 {
			rep.Sample(map[string]interface{}{"files": len(st.files), "timing": timing, "corruption": kind, "consumers": seqNames})
		}
		segOps = append(segOps, c.ops)
		segImpl = append(segImpl, c.impl)
	}
	c12Resume(t, rep, vfNewRng(1212), root, &segOps, &segImpl)
	rep.vfCompareSegments("snapverify", segOps, segImpl)
}

// c12WritePlan persists the plan reapInternal builds for the store's current content, as if
// the process had crashed right after plan.WriteToFile (a copy of the plan construction in
// (*Store).reapInternal; the plan FORMAT and its execution are the real ones).
func c12WritePlan(t *testing.T, s *Store) bool {
	snapSet, err := s.getSnapshots()
	if err != nil {
		t.Fatal(err)
	}
	fullSet, newerSet := snapSet.PartitionAtFull()
	full, ok := fullSet.Newest()
	if !ok || snapSet.Len() < 2 {
		return false
	}
	var walFiles []string
	for _, wf := range full.walFiles {
		walFiles = append(walFiles, wf.Path)
	}
	for _, sn := range newerSet.All() {
		for _, wf := range sn.walFiles {
			walFiles = append(walFiles, wf.Path)
		}
	}
	if len(walFiles) == 0 {
		return false
	}
	p := plan.New()
	dbPath := filepath.Join(full.path, dbfileName)
	p.AddCheckpoint(dbPath, walFiles)
	p.AddCalcCRC32(dbPath, dbPath+crcSuffix)
	for _, sn := range newerSet.All() {
		p.AddRemoveAll(sn.path)
	}
	for _, sn := range snapSet.BeforeID(full.id).All() {
		p.AddRemoveAll(sn.path)
	}
	newest := full
	if n, ok := newerSet.Newest(); ok {
		newest = n
	}
	newID := snapshotName(newest.raftMeta.Term, newest.raftMeta.Index)
	nm := copyRaftMeta(newest.raftMeta)
	nm.ID = newID
	mj, _ := json.Marshal(nm)
	p.AddWriteMeta(full.path, mj)
	p.AddVerifyDB(dbPath)
	p.AddRename(full.path, filepath.Join(s.dir, newID))
	if err := plan.WriteToFile(p, s.reapPlanPath); err != nil {
		t.Fatal(err)
	}
	return true
}

// c12Resume: a reap interrupted by a crash (plan file on disk; none or one of the chain's WAL
// files already checkpointed), corruption arising while the node is down, then node start
// (NewStore resumes the plan) and Open+Restore.
func c12Resume(t *testing.T, rep *vfReport, r *vfRng, root string, segOps, segImpl *[][]string) {
	n := vfScale(30, 900)
	for it := 0; it < n; it++ {
		st := c12BuildStore(t, r, root)
		var chain []*c12File
		for _, f := range st.files {
			if f.chain {
				chain = append(chain, f)
			}
		}
		if len(chain) < 2 {
			os.RemoveAll(st.dir)
			continue
		}
		ops := []string{"new"}
		impl := []string{"ok"}
		for _, f := range st.files {
			ops = append(ops, fmt.Sprintf("file %s %d %s %s", c12Kind(f), f.snapNo, vfHexB(f.orig), c12SideTok(f.path)))
			impl = append(impl, "ok")
		}
		s0, err := NewStore(st.dir)
		if err != nil {
			t.Fatal(err)
		}
		s0.fatalFn = nil
		okPlan := c12WritePlan(t, s0)
		s0.Close()
		if !okPlan {
			os.RemoveAll(st.dir)
			continue
		}
		consumed := 0
		dbIdx := 0
		for i, f := range st.files {
			if f == chain[0] {
				dbIdx = i
			}
		}
		if r.Chance(40) {
			// the interrupted run had already checkpointed the first WAL into the database
			w := chain[1]
			if err := os.Rename(w.path, chain[0].path+"-wal"); err != nil {
				t.Fatal(err)
			}
			if err := db.CheckpointRemove(chain[0].path); err != nil {
				t.Fatal(err)
			}
			consumed = 1
			nb, _ := os.ReadFile(chain[0].path)
			ops = append(ops, fmt.Sprintf("setc %d %s", dbIdx, vfHexB(nb)))
			impl = append(impl, "ok")
			// the consumed WAL no longer exists: drop it from the model's file list by marking it
			// as not part of the chain is not possible, so the model is given the state directly
			var ops2, impl2 []string
			ops2 = append(ops2, "new")
			impl2 = append(impl2, "ok")
			for _, f := range st.files {
				if f == w {
					continue
				}
				c := f.orig
				if f == chain[0] {
					c = nb
				}
				ops2 = append(ops2, fmt.Sprintf("file %s %d %s %s", c12Kind(f), f.snapNo, vfHexB(c), c12SideTok(f.path)))
				impl2 = append(impl2, "ok")
			}
			ops, impl = ops2, impl2
			var files2 []*c12File
			for _, f := range st.files {
				if f != w {
					files2 = append(files2, f)
				}
			}
			st.files = files2
			chain = append([]*c12File{chain[0]}, chain[2:]...)
		}
		ops = append(ops, fmt.Sprintf("plan %d", consumed))
		impl = append(impl, "ok")
		// corruption while the node is down
		kind, target := "none", (*c12File)(nil)
		if r.Chance(70) {
			target = chain[r.Intn(len(chain))]
			b, _ := os.ReadFile(target.path)
			if r.Bool() && len(b) > 40 {
				b = b[:len(b)-1-r.Intn(30)]
				kind = "data-truncated"
			} else {
				pos := 100 + r.Intn(len(b)-100)
				b[pos] ^= 1 << uint(r.Intn(8))
				kind = "data-flip"
			}
			os.WriteFile(target.path, b, 0o644)
			for i, f := range st.files {
				if f == target {
					ops = append(ops, fmt.Sprintf("setc %d %s", i, vfHexB(b)))
					impl = append(impl, "ok")
				}
			}
		}
		s1, err := NewStore(st.dir)
		tok := "ok"
		arg := "x"
		if err != nil {
			tok = "err"
			if !strings.Contains(err.Error(), "CRC32") {
				arg = "sqlite-refuses" // the checkpoint / integrity check of the plan refused the files
				rep.Count("resume-refused-by-sqlite")
			}
		} else {
			s1.fatalFn = nil
			if metas, _ := s1.List(); len(metas) > 0 {
				b, _ := os.ReadFile(filepath.Join(st.dir, metas[0].ID, dbfileName))
				arg = vfHexB(b)
			}
		}
		ops = append(ops, "resume "+arg)
		impl = append(impl, tok)
		info := map[string]interface{}{"ops": append([]string(nil), ops...), "consumed": consumed, "corruption": kind}
		rep.Count(fmt.Sprintf("resume-consumed=%d", consumed))
		rep.Count("resume-corruption=" + kind)
		rep.Case(strings.Join(ops, ";"), kind != "none")
		if err == nil {
			cr := &c12Run{t: t, rep: rep, r: r, root: root, st: st, s: s1}
			otok, acc, got, _ := cr.open(false)
			ops = append(ops, "open")
			impl = append(impl, otok)
			if kind != "none" {
				if target.isDb && consumed > 0 {
					rep.Fail("resumed-reap-cannot-verify-half-checkpointed-database",
						fmt.Sprintf("%s of the database after the interrupted run had checkpointed a WAL into it: the resumed reap went ahead (restored equals original: %v)", kind, acc && bytes.Equal(got, st.expected)), info)
				} else {
					rep.Fail("resumed-reap-consolidated-corrupted-file",
						fmt.Sprintf("%s of %s present when the node started (consumed=%d): the resumed reap checkpointed it and wrote a fresh checksum (restored equals original: %v)", kind, c12Kind(target), consumed, acc && bytes.Equal(got, st.expected)), info)
				}
			} else if !acc || !bytes.Equal(got, st.expected) {
				rep.Fail("resumed-reap-result-differs-from-original", otok, info)
			}
			s1.Close()
		} else if kind == "none" {
			rep.Fail("resume-of-intact-store-fails", err.Error(), info)
		}
		os.RemoveAll(st.dir)
		*segOps = append(*segOps, ops)
		*segImpl = append(*segImpl, impl)
	}
}

/-
Helper lemmas for Props/C31 (moved out of the property file, which holds property theorems only).
-/
import RqModel.Model.CasRetry
namespace RqModel.CasRetry

theorem loop_acquired (D iv : Nat) (rel : Option Nat) (fuel t x : Nat)
    (h : loop D iv rel fuel t = .acquired x) :
    free rel x = true ∧ t ≤ x ∧ (x = t ∨ (t + iv ≤ x ∧ free rel (x - iv) = false ∧ x - iv ≤ D)) := by
  induction fuel generalizing t with
  | zero => simp [loop] at h
  | succ fuel ih =>
    simp only [loop] at h
    split at h
    · rename_i hf
      simp only [Outcome.acquired.injEq] at h
      subst h
      exact ⟨hf, Nat.le_refl _, Or.inl rfl⟩
    · rename_i hf
      split at h
      · cases h
      · rename_i hd
        obtain ⟨h1, h2, h3⟩ := ih _ h
        refine ⟨h1, by omega, Or.inr ?_⟩
        rcases h3 with h3 | ⟨h3, h4, h5⟩
        · subst h3
          have : t + iv - iv = t := by omega
          exact ⟨Nat.le_refl _, by rw [this]; simpa using hf, by omega⟩
        · exact ⟨by omega, h4, h5⟩

theorem loop_timedOut (D iv : Nat) (rel : Option Nat) (fuel t x P : Nat)
    (hP : P = fuel * iv) (hfuel : D + iv < t + P) (ht : t ≤ D + iv)
    (h : loop D iv rel fuel t = .timedOut x) :
    D < x ∧ free rel x = false ∧ x ≤ D + iv ∧ t ≤ x := by
  induction fuel generalizing t P with
  | zero => simp at hP; omega
  | succ fuel ih =>
    simp only [loop] at h
    split at h
    · cases h
    · rename_i hf
      split at h
      · rename_i hd
        simp only [Outcome.timedOut.injEq] at h
        subst h
        exact ⟨hd, by simpa using hf, ht, Nat.le_refl _⟩
      · rename_i hd
        have hmul : (fuel + 1) * iv = fuel * iv + iv := Nat.succ_mul _ _
        obtain ⟨h1, h2, h3, h4⟩ := ih (t + iv) (fuel * iv) rfl (by omega) (by omega) h
        exact ⟨h1, h2, h3, by omega⟩

theorem fuel_enough (to iv : Nat) (hiv : 1 ≤ iv) : to + iv < (to / iv + 2) * iv := by
  have h1 := Nat.div_add_mod to iv
  have h2 := Nat.mod_lt to (show 0 < iv by omega)
  have h3 : (to / iv + 2) * iv = iv * (to / iv) + 2 * iv := by
    rw [Nat.add_mul, Nat.mul_comm]
  rw [h3]
  omega

theorem effInterval_pos (i : Int) : 1 ≤ effInterval i := by
  unfold effInterval; split <;> omega

end RqModel.CasRetry

/-
Model of the snapshot-format upgrades run on every node start (C08):
  snapshot/upgrader.go  Upgrade7To8, Upgrade8To10, getNewest7Snapshot, getNewest8Snapshot
  store/store.go        Store.Open: Upgrade7To8(snapshots, rsnapshots); Upgrade8To10(rsnapshots, wsnapshots)
  snapshot/plan/executor.go  the seven operation kinds Upgrade8To10 uses, with their idempotence rules

State: the five directories involved and the plan file.
  old7    `snapshots`        v7 format: <id>/meta.json, <id>/state.bin
  old8tmp `rsnapshots.tmp`
  old8    `rsnapshots`       v8 format: <id>/meta.json, <id>.db
  newTmp  `wsnapshots.tmp`
  new     `wsnapshots`       v10 format: <id>/meta.json, <id>/data.db, <id>/data.db.crc32
A directory is `none` when absent, else the list of its entries. Database contents are an
abstract type `D` (gunzip / file copy / WAL-mode conversion preserve the content; exercised
on real files by the correspondence run). `e` is the content of the empty database Upgrade7To8
creates for a v7 snapshot without data.

`Upgrade8To10` below is the code AFTER the `fix:` commit (resume treats "new directory exists" as
"rename already done"); `u810ResumeOld` is the resume branch as it was before, kept for the witness.
-/
import RqModel.Model.Util
namespace RqModel.Upgrade
open RqModel.Util

structure Meta where
  id    : Nat
  index : Nat
  term  : Nat
deriving DecidableEq, Repr

/-- v7 state.bin -/
inductive St7 (D : Type) where
  | missing
  | nodata
  | data (d : D)
deriving DecidableEq, Repr

structure S7 (D : Type) where
  id : Nat
  mt : Option Meta
  st : St7 D
deriving DecidableEq, Repr

/-- a v8 entry: directory <id> (with meta.json or not) and root file <id>.db -/
structure S8 (D : Type) where
  id  : Nat
  dir : Bool
  mt  : Option Meta
  db  : Option D
deriving DecidableEq, Repr

structure S10 (D : Type) where
  id  : Nat
  mt  : Option Meta
  db  : Option D
  crc : Option D
deriving DecidableEq, Repr

structure US (D : Type) where
  old7    : Option (List (S7 D)) := none
  old8tmp : Option (List (S8 D)) := none
  old8    : Option (List (S8 D)) := none
  newTmp  : Option (List (S10 D)) := none
  new     : Option (List (S10 D)) := none
  /-- UPGRADE_8_10_PLAN: the plan is determined by the snapshot id and its meta -/
  plan    : Option (Nat × Meta) := none
  planTmp : Bool := false
deriving DecidableEq, Repr

variable {D : Type}

/-- raftMetaSlice.Less as ≤ -/
def metaLe (a b : Meta) : Bool :=
  if a.term != b.term then a.term < b.term
  else if a.index != b.index then a.index < b.index
  else a.id ≤ b.id

def newestMeta : List Meta → Option Meta
  | [] => none
  | m :: ms =>
    match newestMeta ms with
    | none => some m
    | some n => if metaLe m n then some n else some m

/-- getNewest7Snapshot: newest meta among entries with a meta.json -/
def newest7 (l : List (S7 D)) : Option Meta := newestMeta (l.filterMap (·.mt))

/-- getNewest8Snapshot: entries that are a directory, have <id>.db and meta.json -/
def newest8 (l : List (S8 D)) : Option Meta :=
  newestMeta (l.filterMap fun x => if x.dir && x.db.isSome then x.mt else none)

def find7 (l : List (S7 D)) (id : Nat) : Option (S7 D) := l.find? (·.id == id)
def find8 (l : List (S8 D)) (id : Nat) : Option (S8 D) := l.find? (·.id == id)

/-! ### Upgrade7To8 -/

/-- the directory Upgrade7To8 builds in rsnapshots.tmp for the newest v7 snapshot -/
def build8 (e : D) (l : List (S7 D)) : Except String (List (S8 D)) :=
  match newest7 l with
  | none => .error "u78-no-snapshot"
  | some m =>
    match find7 l m.id with
    | none => .error "u78-state-missing"
    | some x =>
      match x.st with
      | .missing => .error "u78-state-missing"
      | .nodata => .ok [{ id := m.id, dir := true, mt := some m, db := some e }]
      | .data d => .ok [{ id := m.id, dir := true, mt := some m, db := some d }]

/-- Upgrade7To8(snapshots, rsnapshots) run to completion -/
def u78 (e : D) (s : US D) : Except String (US D) :=
  let s := { s with old8tmp := none }
  match s.old7 with
  | none => .ok s
  | some l =>
    if l.isEmpty then .ok { s with old7 := none }
    else if s.old8.isSome then .ok { s with old7 := none }
    else
      match build8 e l with
      | .error err => .error err
      | .ok d8 => .ok { s with old8 := some d8, old7 := none }

inductive Cut78 (D : Type) where
  /-- nothing done -/
  | start
  /-- stopped while removing a leftover rsnapshots.tmp: `junk` is left of it -/
  | rmTmp (junk : List (S8 D))
  /-- stopped while building rsnapshots.tmp (before the rename): `junk` is its content -/
  | building (junk : List (S8 D))
  /-- after the rename, while removing snapshots: `junk` (none: fully removed) is left -/
  | rmOld (junk : Option (List (S7 D)))
deriving Repr

/-- the state an interrupted Upgrade7To8 leaves -/
def u78Cut (e : D) (s : US D) (c : Cut78 D) : US D :=
  match c with
  | .start => s
  | .rmTmp junk => if s.old8tmp.isSome then { s with old8tmp := some junk } else s
  | .building junk =>
    let s := { s with old8tmp := none }
    match s.old7 with
    | none => s
    | some l =>
      if l.isEmpty then s
      else if s.old8.isSome then s
      else { s with old8tmp := some junk }
  | .rmOld junk =>
    let s := { s with old8tmp := none }
    match s.old7 with
    | none => s
    | some l =>
      if l.isEmpty then (if junk.isNone then { s with old7 := none } else s)
      else if s.old8.isSome then { s with old7 := junk }
      else
        match build8 e l with
        | .error _ => s
        | .ok d8 => { s with old8 := some d8, old7 := junk }

/-! ### Upgrade8To10 -/

/-- the seven plan operations, on the model state (executor.go semantics) -/
inductive Op8 where
  | mkTmp | mkSnap | writeMeta | copyDb | calcCrc | rename | rmOld
deriving DecidableEq, Repr

def planOps : List Op8 := [.mkTmp, .mkSnap, .writeMeta, .copyDb, .calcCrc, .rename, .rmOld]

def upd10 (l : List (S10 D)) (id : Nat) (f : S10 D → S10 D) : List (S10 D) :=
  l.map fun x => if x.id == id then f x else x

def has10 (l : List (S10 D)) (id : Nat) : Bool := l.any (·.id == id)

def find10 (l : List (S10 D)) (id : Nat) : Option (S10 D) := l.find? (·.id == id)

def execOp8 (s : US D) (id : Nat) (m : Meta) : Op8 → Except String (US D)
  | .mkTmp => .ok { s with newTmp := some (s.newTmp.getD []) }
  | .mkSnap =>
    let l := s.newTmp.getD []
    .ok { s with newTmp := some (if has10 l id then l else l ++ [{ id := id, mt := none, db := none, crc := none }]) }
  | .writeMeta =>
    match s.newTmp with
    | none => .ok s
    | some l => .ok { s with newTmp := some (upd10 l id fun x => { x with mt := some m }) }
  | .copyDb =>
    let src := (s.old8.bind fun l => find8 l id).bind (·.db)
    let dstDir := s.newTmp.bind fun l => find10 l id
    match src with
    | none =>
      match dstDir.bind (·.db) with
      | some _ => .ok s
      | none => .error "copy-nosrc"
    | some d =>
      match dstDir, s.newTmp with
      | some _, some l => .ok { s with newTmp := some (upd10 l id fun x => { x with db := some d }) }
      | _, _ => .error "copy-nodst"
  | .calcCrc =>
    match s.newTmp.bind fun l => find10 l id with
    | some x =>
      match x.db, s.newTmp with
      | some d, some l => .ok { s with newTmp := some (upd10 l id fun y => { y with crc := some d }) }
      | _, _ => .error "crc-nodata"
    | none => .error "crc-nodata"
  | .rename =>
    match s.newTmp with
    | some l =>
      match s.new with
      | none => .ok { s with newTmp := none, new := some l }
      | some _ => .error "rename-exists"
    | none => if s.new.isSome then .ok s else .error "rename-nosrc"
  | .rmOld => .ok { s with old8 := none }

def execOps8 (s : US D) (id : Nat) (m : Meta) : List Op8 → Except String (US D)
  | [] => .ok s
  | o :: os =>
    match execOp8 s id m o with
    | .ok s' => execOps8 s' id m os
    | .error e => .error e

/-- partial effect of the non-atomic operations -/
inductive Cut8 (D : Type) where
  | none
  /-- WriteMeta truncated meta.json -/
  | metaTrunc
  /-- CopyFile / CalcCRC32 left a truncated destination -/
  | fileTrunc
  /-- RemoveAll(old) left `junk` -/
  | rmJunk (junk : List (S8 D))
deriving Repr

def partialOp8 (s : US D) (id : Nat) : Op8 → Cut8 D → US D
  | .writeMeta, .metaTrunc =>
    match s.newTmp with
    | some l => { s with newTmp := some (upd10 l id fun x => { x with mt := none }) }
    | none => s
  | .copyDb, .fileTrunc =>
    let src := (s.old8.bind fun l => find8 l id).bind (·.db)
    match src, s.newTmp with
    | some _, some l => { s with newTmp := some (upd10 l id fun x => { x with db := none }) }
    | _, _ => s
  | .calcCrc, .fileTrunc =>
    match s.newTmp with
    | some l =>
      if ((find10 l id).bind (·.db)).isSome then { s with newTmp := some (upd10 l id fun x => { x with crc := none }) } else s
    | none => s
  | .rmOld, .rmJunk junk => if s.old8.isSome then { s with old8 := some junk } else s
  | _, _ => s

def runCut8 (id : Nat) (m : Meta) : List Op8 → Nat → Cut8 D → US D → US D
  | [], _, _, s => s
  | o :: _, 0, c, s => partialOp8 s id o c
  | o :: os, k + 1, c, s =>
    match execOp8 s id m o with
    | .ok s' => runCut8 id m os k c s'
    | .error _ => s

/-- the resume branch of Upgrade8To10 (after the fix): if the new directory is already in place
the rename has happened; only the clean-up remains -/
def u810Resume (s : US D) (id : Nat) (m : Meta) : Except String (US D) :=
  if s.new.isSome then .ok { s with newTmp := none, old8 := none, plan := none }
  else
    match execOps8 s id m planOps with
    | .ok s' => .ok { s' with plan := none }
    | .error e => .error e

/-- the resume branch before the fix: always replays the whole plan -/
def u810ResumeOld (s : US D) (id : Nat) (m : Meta) : Except String (US D) :=
  match execOps8 s id m planOps with
  | .ok s' => .ok { s' with plan := none }
  | .error e => .error e

/-- Upgrade8To10(rsnapshots, wsnapshots) run to completion; `resume` is the resume branch used -/
def u810With (resume : US D → Nat → Meta → Except String (US D)) (s : US D) : Except String (US D) :=
  let s := { s with planTmp := false }
  match s.plan with
  | some (id, m) => resume s id m
  | none =>
    match s.old8 with
    | none => .ok s
    | some l =>
      if l.isEmpty then .ok { s with old8 := none }
      else if s.new.isSome then .ok { s with old8 := none }
      else
        match newest8 l with
        | none => .ok s
        | some m =>
          match execOps8 { s with plan := some (m.id, m) } m.id m planOps with
          | .ok s' => .ok { s' with plan := none }
          | .error e => .error e

/-- Upgrade8To10 as it was before the empty-directory fix -/
def u810Core (s : US D) : Except String (US D) := u810With u810Resume s

/-- an EMPTY wsnapshots directory is never the product of the upgrade (the plan puts the complete
directory in place by a rename): Upgrade8To10 first removes it -/
def rmEmptyNew (s : US D) : US D :=
  match s.new with
  | some [] => { s with new := none }
  | _ => s

/-- what `store.HasData` (cmd/rqlited, before Store.Open when -auto-restore is given) does to the
snapshot directories: opening a Snapshot Store on wsnapshots creates it -/
def hasData (s : US D) : US D :=
  match s.new with
  | none => { s with new := some [] }
  | _ => s

/-- a directory that exists and is not empty -/
def nonEmptyDir {α : Type} : Option (List α) → Bool
  | some l => !l.isEmpty
  | none => false

/-- the ANSWER of `store.HasData` as far as the snapshot directories go (the raft log is not
modelled): a snapshot listed in wsnapshots, or — since the fix — a non-empty old-format directory.
"no" lets -auto-restore load its file over the node. -/
def hasDataAnswer (s : US D) : Bool :=
  nonEmptyDir s.old7 || nonEmptyDir s.old8 ||
  (match s.new with
   | some l => l.any fun x => x.mt.isSome && x.db.isSome
   | none => false)

/-- the answer before the fix: only wsnapshots was looked at -/
def hasDataAnswerOld (s : US D) : Bool :=
  match s.new with
  | some l => l.any fun x => x.mt.isSome && x.db.isSome
  | none => false

def u810 (s : US D) : Except String (US D) := u810Core (rmEmptyNew s)

inductive Cut810 (D : Type) where
  | start
  /-- REAP-style plan write interrupted: UPGRADE_8_10_PLAN.tmp present (fresh run only) -/
  | planTmp
  /-- `k` operations done, the next one cut -/
  | inPlan (k : Nat) (c : Cut8 D)
  /-- every operation done, plan file still there -/
  | planDone
  /-- (fixed resume, new directory present) stopped while removing `wsnapshots.tmp`/`rsnapshots`:
  what is left of each -/
  | cleanup (tmpJunk : Option (List (S10 D))) (oldJunk : Option (List (S8 D)))
deriving Repr

/-- the state an interrupted Upgrade8To10 leaves -/
def u810CutCore (s : US D) (c : Cut810 D) : US D :=
  match c with
  | .start => s
  | .planTmp =>
    let s := { s with planTmp := false }
    match s.plan, s.old8 with
    | none, some l =>
      if l.isEmpty || s.new.isSome || (newest8 l).isNone then s else { s with planTmp := true }
    | _, _ => s
  | .inPlan k c =>
    let s := { s with planTmp := false }
    match s.plan with
    | some (id, m) => if s.new.isSome then s else runCut8 id m planOps k c s
    | none =>
      match s.old8 with
      | none => s
      | some l =>
        if l.isEmpty || s.new.isSome then s
        else
          match newest8 l with
          | none => s
          | some m => runCut8 m.id m planOps k c { s with plan := some (m.id, m) }
  | .planDone =>
    let s := { s with planTmp := false }
    match s.plan with
    | some (id, m) => if s.new.isSome then s else runCut8 id m planOps planOps.length .none s
    | none =>
      match s.old8 with
      | none => s
      | some l =>
        if l.isEmpty || s.new.isSome then s
        else
          match newest8 l with
          | none => s
          | some m => runCut8 m.id m planOps planOps.length .none { s with plan := some (m.id, m) }
  | .cleanup tj oj =>
    let s := { s with planTmp := false }
    match s.plan with
    | some _ =>
      if s.new.isSome then
        { s with newTmp := if s.newTmp.isSome then tj else none, old8 := if s.old8.isSome then oj else none }
      else s
    | none => s

/-- the state an interrupted Upgrade8To10 leaves: `start` = nothing done; otherwise the empty new
directory (if any) has been removed first -/
def u810Cut (s : US D) (c : Cut810 D) : US D :=
  match c with
  | .start => s
  | c => u810CutCore (rmEmptyNew s) c

/-! ### one node start (the part of Store.Open that concerns snapshots) -/

/-- a start as it was before the empty-directory fix -/
def startCore (e : D) (s : US D) : Except String (US D) :=
  match u78 e s with
  | .error err => .error err
  | .ok s1 => u810Core s1

def start (e : D) (s : US D) : Except String (US D) :=
  match u78 e s with
  | .error err => .error err
  | .ok s1 => u810 s1

def startOld (e : D) (s : US D) : Except String (US D) :=
  match u78 e s with
  | .error err => .error err
  | .ok s1 => u810With u810ResumeOld s1

inductive StartCut (D : Type) where
  | in78 (c : Cut78 D)
  | in810 (c : Cut810 D)
deriving Repr

/-- the state an interrupted start leaves -/
def startCut (e : D) (s : US D) : StartCut D → US D
  | .in78 c => u78Cut e s c
  | .in810 c =>
    match u78 e s with
    | .error _ => u78Cut e s .start
    | .ok s1 => u810Cut s1 c

/-- the same before the empty-directory fix -/
def startCutCore (e : D) (s : US D) : StartCut D → US D
  | .in78 c => u78Cut e s c
  | .in810 c =>
    match u78 e s with
    | .error _ => u78Cut e s .start
    | .ok s1 => u810CutCore s1 c

end RqModel.Upgrade

package cdc

// C25 correspondence + spec oracle: the real cdc.Service (real batcher, real Bolt FIFO, real
// HTTP sink) fed by the real db.CDCStreamer, with a recording HTTP endpoint, against the Lean
// model `cdcpipe` (RqModel/Model/CdcPipe.lean).
//
// The environment applies generated log entries (single/multi statement, with/without
// transaction, statements with no events), endpoint outages, leadership changes, HWM
// broadcasts from "other nodes", HWM ticks, snapshots and restarts with raft replay. Every
// operation is applied at a quiescent point of the service (see c25Node.settle), which is
// what the sequential model describes.
//
// Oracle (independent of the model): after healing (leader, endpoint up, batcher flushed)
// every change of every applied entry must have reached the endpoint at least once in a group
// labelled with the entry's index; within one tenure POST keys never decrease.

import (
	"encoding/json"
	"fmt"
	"io"
	"net/http"
	"net/http/httptest"
	"os"
	"strconv"
	"strings"
	"sync"
	"sync/atomic"
	"testing"
	"time"

	"github.com/rqlite/rqlite/v10/command/proto"
	rdb "github.com/rqlite/rqlite/v10/db"
	"github.com/rqlite/rqlite/v10/internal/rarchive/flate"
)

// ---- cluster double (same contract as the package's mockCluster; optional loopback) ----

type c25Cluster struct {
	mu         sync.Mutex
	leaderCh   chan<- bool
	hwmCh      chan<- uint64
	syncCh     chan<- chan struct{}
	loopback   bool
	broadcasts []uint64
	postsAt    []int         // number of successful POSTs when each broadcast was made
	nPosts     func() int
	peers      []*c25Cluster // other nodes' doubles: a broadcast is offered to each
}

func (c *c25Cluster) RegisterLeaderChange(ch chan<- bool)        { c.mu.Lock(); c.leaderCh = ch; c.mu.Unlock() }
func (c *c25Cluster) RegisterSnapshotSync(ch chan<- chan struct{}) { c.mu.Lock(); c.syncCh = ch; c.mu.Unlock() }
func (c *c25Cluster) RegisterHWMUpdate(ch chan<- uint64)         { c.mu.Lock(); c.hwmCh = ch; c.mu.Unlock() }

func (c *c25Cluster) offer(v uint64) {
	c.mu.Lock()
	ch := c.hwmCh
	c.mu.Unlock()
	if ch != nil {
		select {
		case ch <- v:
		default:
		}
	}
}

func (c *c25Cluster) BroadcastHighWatermark(v uint64) error {
	np := 0
	if c.nPosts != nil {
		np = c.nPosts()
	}
	c.mu.Lock()
	c.broadcasts = append(c.broadcasts, v)
	c.postsAt = append(c.postsAt, np)
	lb := c.loopback
	peers := c.peers
	c.mu.Unlock()
	if lb {
		c.offer(v)
	}
	for _, p := range peers {
		p.offer(v)
	}
	return nil
}

func (c *c25Cluster) nBroadcasts() int { c.mu.Lock(); defer c.mu.Unlock(); return len(c.broadcasts) }

func (c *c25Cluster) broadcastsOfSince(v uint64, from int) int {
	c.mu.Lock()
	defer c.mu.Unlock()
	n := 0
	for _, b := range c.broadcasts[from:] {
		if b == v {
			n++
		}
	}
	return n
}

// ---- recording endpoint -------------------------------------------------------------------

type c25Group struct {
	idx uint64
	chg []string // "k.j" in order, deduplicated
}

type c25Post struct {
	key    uint64
	groups []c25Group
	ok     bool
	node   int
	tenure int
}

type c25Endpoint struct {
	mu       sync.Mutex
	srv      *httptest.Server
	up       atomic.Bool
	posts    []c25Post // successful
	attempts int64     // failed attempts
	lastFail uint64    // key of the last failed attempt
	// finite retry limit: failed attempts per key in the current episode, and the events the
	// leader has given up on (limit reached), in order, with what they carried
	limit       int
	failCount   map[uint64]int
	dropOrder   []uint64
	dropGroups  [][]c25Group
	inflight atomic.Int64
	tenure   func(node int) int
	// what the endpoint answers while it is down: an HTTP status, 0 = drop the connection
	// without answering. Set per outage ("endpoint 0 <status>").
	failStatus int
	failKinds  map[int]int
}

// statuses of every class a failing endpoint may answer with; 0 = no answer at all
var c25FailStatuses = []int{503, 500, 502, 400, 401, 403, 404, 408, 413, 422, 429, 204, 301, 0}

func c25RowID(k uint64, j, i int) int64 { return int64(k)*1000000 + int64(j)*1000 + int64(i) }

// c25Pad > 0: every row event of an entry whose index is in c25PadIdx carries an "after" image
// with a text column of that many bytes (a wide row), so that one event group, and the FIFO
// item holding it, is many MiB of JSON.
var (
	c25Pad    int
	c25PadIdx = map[uint64]bool{}
)

func c25PadText(id int64, n int) string {
	chunk := fmt.Sprintf("%016x", uint64(id)*0x9E3779B97F4A7C15)
	return strings.Repeat(chunk, n/len(chunk)+1)[:n]
}

func c25NewEndpoint() *c25Endpoint {
	e := &c25Endpoint{}
	e.up.Store(true)
	e.srv = httptest.NewServer(http.HandlerFunc(func(w http.ResponseWriter, r *http.Request) {
		e.inflight.Add(1)
		defer e.inflight.Add(-1)
		b, _ := io.ReadAll(r.Body)
		r.Body.Close()
		var env struct {
			NodeID  string `json:"node_id"`
			Payload []struct {
				Index  uint64 `json:"index"`
				Events []struct {
					NewRowID int64 `json:"new_row_id"`
				} `json:"events"`
			} `json:"payload"`
		}
		if err := json.Unmarshal(b, &env); err != nil {
			w.WriteHeader(http.StatusBadRequest)
			return
		}
		p := c25Post{}
		for _, m := range env.Payload {
			g := c25Group{idx: m.Index}
			seen := map[string]bool{}
			for _, ev := range m.Events {
				k := ev.NewRowID / 1000000
				j := (ev.NewRowID / 1000) % 1000
				c := fmt.Sprintf("%d.%d", k, j)
				if !seen[c] {
					seen[c] = true
					g.chg = append(g.chg, c)
				}
			}
			if m.Index > p.key {
				p.key = m.Index
			}
			p.groups = append(p.groups, g)
		}
		p.node, _ = strconv.Atoi(strings.TrimPrefix(env.NodeID, "n"))
		e.mu.Lock()
		defer e.mu.Unlock()
		if !e.up.Load() {
			e.attempts++
			e.lastFail = p.key
			if e.limit > 0 {
				if e.failCount == nil {
					e.failCount = map[uint64]int{}
				}
				e.failCount[p.key]++
				if e.failCount[p.key] >= e.limit {
					e.failCount[p.key] = 0
					e.dropOrder = append(e.dropOrder, p.key)
					e.dropGroups = append(e.dropGroups, p.groups)
				}
			}
			st := e.failStatus
			if e.failKinds == nil {
				e.failKinds = map[int]int{}
			}
			e.failKinds[st]++
			if st == 0 {
				if hj, ok := w.(http.Hijacker); ok {
					if c, _, err := hj.Hijack(); err == nil {
						c.Close()
						return
					}
				}
				st = http.StatusServiceUnavailable
			}
			w.WriteHeader(st)
			return
		}
		p.ok = true
		if e.tenure != nil {
			p.tenure = e.tenure(p.node)
		}
		e.posts = append(e.posts, p)
		w.WriteHeader(http.StatusOK)
	}))
	return e
}

func (e *c25Endpoint) nPosts() int    { e.mu.Lock(); defer e.mu.Unlock(); return len(e.posts) }
func (e *c25Endpoint) nAttempts() int64 { e.mu.Lock(); defer e.mu.Unlock(); return e.attempts }

func c25PostStr(p c25Post) string {
	var gs []string
	for _, g := range p.groups {
		gs = append(gs, fmt.Sprintf("%d/%s", g.idx, strings.Join(g.chg, "+")))
	}
	return fmt.Sprintf("%d:%s", p.key, strings.Join(gs, ","))
}

// ---- one node ---------------------------------------------------------------------------------

type c25Entry struct {
	idx   uint64
	tx    bool
	stmts []int
}

func (e c25Entry) op() string {
	var s []string
	for _, n := range e.stmts {
		s = append(s, strconv.Itoa(n))
	}
	st := "-"
	if len(s) > 0 {
		st = strings.Join(s, ",")
	}
	tx := 0
	if e.tx {
		tx = 1
	}
	return fmt.Sprintf("entry %d %d %s", e.idx, tx, st)
}

func (e c25Entry) groups() int {
	n := 0
	for _, s := range e.stmts {
		if s > 0 {
			n++
		}
	}
	if e.tx && n > 1 {
		n = 1
	}
	return n
}

type c25Cols struct{}

func (c25Cols) ColumnNames(table string) ([]string, error) { return []string{"id", "v"}, nil }

// c25LogProbe receives the service's log: the leader loop says so when it gives an event up
// (decompression error, retries exhausted, ...). The count of such lines is a probe of the
// service's progress that does not depend on wall-clock time.
type c25LogProbe struct {
	mu      sync.Mutex
	gaveUp  int
	errors_ int
}

func (l *c25LogProbe) Write(p []byte) (int, error) {
	m := strings.ToLower(string(p))
	l.mu.Lock()
	if strings.Contains(m, "decompress") || strings.Contains(m, "failed to send") || strings.Contains(m, "reject") ||
		strings.Contains(m, "dropp") || strings.Contains(m, "giving up") || strings.Contains(m, "discard") {
		l.gaveUp++
	}
	if strings.Contains(m, "error") {
		l.errors_++
	}
	l.mu.Unlock()
	return len(p), nil
}

func (l *c25LogProbe) giveUps() int { l.mu.Lock(); defer l.mu.Unlock(); return l.gaveUp }

type c25Node struct {
	svcLog    *c25LogProbe
	opGiveUps int // give-up log lines seen before the current operation
	id       int
	dir      string
	batchSz  int
	tick     time.Duration
	ep       *c25Endpoint
	cl       *c25Cluster
	svc      *Service
	streamer *rdb.CDCStreamer
	leader   bool
	tenure   int
	sent     int64 // groups handed to svc.C() since the service started
	base     struct{ ignored, reads int64 }
	// mirror of the batcher (queue.Queue): objects absorbed, objects pending, requests emitted
	wbSeen   int64
	emitted  int64
	pending  int
	seenPost int
	seenDrop int
	maxRetries int
	log      []c25Entry
	snap     uint64
	settleMs int
}

func c25StatInt(name string) int64 {
	v := stats.Get(name)
	if v == nil {
		return 0
	}
	n, _ := strconv.ParseInt(v.String(), 10, 64)
	return n
}

func (n *c25Node) start(t *testing.T) {
	cfg := DefaultConfig()
	cfg.Endpoint = n.ep.srv.URL
	cfg.MaxBatchSz = n.batchSz
	cfg.MaxBatchDelay = time.Hour // the delay timer never fires by itself: the `timer` op flushes
	cfg.HighWatermarkInterval = n.tick
	cfg.TransmitTimeout = 60 * time.Second
	cfg.TransmitMinBackoff = time.Millisecond
	cfg.TransmitMaxBackoff = 2 * time.Millisecond
	if n.maxRetries > 0 {
		v := n.maxRetries
		cfg.TransmitMaxRetries = &v
	}
	n.cl.mu.Lock()
	n.cl.leaderCh, n.cl.hwmCh, n.cl.syncCh = nil, nil, nil
	n.cl.mu.Unlock()
	svc, err := NewService(fmt.Sprintf("n%d", n.id), n.dir, n.cl, cfg)
	if err != nil {
		t.Fatalf("NewService: %v", err)
	}
	n.svcLog = &c25LogProbe{}
	svc.logger.SetOutput(n.svcLog)
	if err := svc.Start(); err != nil {
		t.Fatalf("Start: %v", err)
	}
	n.svc = svc
	st, err := rdb.NewCDCStreamer(svc.C(), c25Cols{})
	if err != nil {
		t.Fatalf("streamer: %v", err)
	}
	n.streamer = st
	n.leader = false
	n.sent = 0
	n.pending, n.emitted, n.wbSeen = 0, 0, 0
	n.base.ignored = c25StatInt(numBatcherWriteIgnored)
	n.base.reads = c25StatInt(numBatcherReads)
}

// feed drives the real CDCStreamer the way the store and SQLite do for one log entry.
func (n *c25Node) feed(e c25Entry) {
	n.streamer.Reset(e.idx)
	for j, rows := range e.stmts {
		for i := 0; i < rows; i++ {
			ev := &proto.CDCEvent{Op: proto.CDCEvent_INSERT, Table: "t", NewRowId: c25RowID(e.idx, j, i)}
			if c25Pad > 0 && c25PadIdx[e.idx] {
				ev.NewRow = &proto.CDCRow{Values: []*proto.CDCValue{
					{Value: &proto.CDCValue_I{I: ev.NewRowId}},
					{Value: &proto.CDCValue_S{S: c25PadText(ev.NewRowId, c25Pad)}},
				}}
			}
			n.streamer.PreupdateHook(ev)
		}
		if !e.tx {
			before := n.streamer.Len()
			n.streamer.CommitHook() // autocommit after every statement
			if before > 0 {
				n.sent++
			}
		}
	}
	if e.tx {
		before := n.streamer.Len()
		n.streamer.CommitHook()
		if before > 0 {
			n.sent++
		}
	}
}

func (n *c25Node) barrier() bool {
	// a no-op leadership message: once it has been taken, mainLoop has finished whatever it was doing
	deadline := time.Now().Add(30 * time.Second) // generous: only a service that is stuck runs into it
	if c25Pad > 0 {
		deadline = time.Now().Add(240 * time.Second) // mainLoop may be compressing tens of MiB on a busy machine
	}
	n.svc.leaderObCh <- n.leader
	for len(n.svc.leaderObCh) > 0 {
		if time.Now().After(deadline) {
			return false
		}
		time.Sleep(50 * time.Microsecond)
	}
	return true
}

type c25Vec struct {
	hwm, first, highest uint64
	l                   int
	next                bool
	posts               int
	attempts            int64
	wb                  uint64
}

func (n *c25Node) vec() c25Vec {
	v := c25Vec{hwm: n.svc.HighWatermark(), l: n.svc.fifo.Len(), next: n.svc.fifo.HasNext(), posts: n.ep.nPosts(), wb: n.svc.writesToBatcher.Load()}
	v.first, _ = n.svc.fifo.FirstKey()
	v.highest, _ = n.svc.fifo.HighestKey()
	if n.ep.up.Load() || n.maxRetries > 0 {
		v.attempts = n.ep.nAttempts()
	}
	return v
}

// settle waits for the quiescent point the model describes. ok=false: it never came.
func (n *c25Node) settle() bool {
	deadline := time.Now().Add(30 * time.Second)
	if c25Pad > 0 {
		deadline = time.Now().Add(240 * time.Second) // tens of MiB through flate, JSON and HTTP on a busy machine
	}
	win := time.Duration(n.settleMs) * time.Millisecond
	if n.maxRetries > 0 && win < 15*time.Millisecond {
		win = 15 * time.Millisecond // several retry intervals: the leader gives up on event after event
	}
	giveUps0 := n.opGiveUps
	for time.Now().Before(deadline) {
		// 1. hand-off channel drained into the batcher
		wb := int64(n.svc.writesToBatcher.Load())
		ign := c25StatInt(numBatcherWriteIgnored) - n.base.ignored
		if len(n.svc.in) > 0 || wb+ign < n.sent {
			time.Sleep(50 * time.Microsecond)
			continue
		}
		// 2. every full batch handed over and processed by mainLoop
		if c25StatInt(numBatcherReads)-n.base.reads < n.expectedReads(wb) {
			time.Sleep(50 * time.Microsecond)
			continue
		}
		if !n.barrier() {
			return false
		}
		// 3. leader loop: nothing left that it could send
		if n.leader {
			if n.ep.inflight.Load() > 0 {
				time.Sleep(50 * time.Microsecond)
				continue
			}
			if (n.ep.up.Load() || n.maxRetries > 0) && n.svc.fifo.HasNext() {
				time.Sleep(50 * time.Microsecond)
				continue
			}
		}
		// large items: between taking an item from the FIFO and starting the POST the leader
		// loop inflates and the sink serialises tens of MiB, invisible to every probe above and,
		// on a busy machine, arbitrarily slow. While the HWM is still below the highest key the
		// leader loop has work: wait for it — unless the service has SAID (log) that it gave an
		// event up, in which case the state is judged as it is. The budget is the settle deadline.
		if c25Pad > 0 && n.leader && n.ep.up.Load() && n.svcLog.giveUps() == giveUps0 {
			if hk, _ := n.svc.fifo.HighestKey(); hk > n.svc.HighWatermark() {
				time.Sleep(time.Millisecond)
				continue
			}
		}
		if len(n.svc.hwmObCh) > 0 && !n.leader {
			time.Sleep(50 * time.Microsecond)
			continue
		}
		// 4. stable
		v1 := n.vec()
		time.Sleep(win)
		if n.vec() != v1 {
			continue
		}
		// an outage with something to send shows as at least one failed attempt
		if n.maxRetries == 0 && n.leader && !n.ep.up.Load() && n.svc.fifo.HasNext() && n.ep.nAttempts() == 0 {
			continue
		}
		time.Sleep(win)
		if n.vec() != v1 || n.ep.inflight.Load() > 0 {
			continue
		}
		return true
	}
	return false
}

// expectedReads mirrors queue.Queue: how many requests it must have emitted once wb objects
// have been written (size trigger only; flushes are accounted by flushBatcher).
func (n *c25Node) expectedReads(wb int64) int64 {
	em, p := n.emitted, n.pending
	for i := n.wbSeen; i < wb; i++ {
		p++
		if p == n.batchSz {
			em++
			p = 0
		}
	}
	return em
}

// ---- ops ---------------------------------------------------------------------------------------

func (n *c25Node) absorbWrites() {
	wb := int64(n.svc.writesToBatcher.Load())
	for ; n.wbSeen < wb; n.wbSeen++ {
		n.pending++
		if n.pending == n.batchSz {
			n.emitted++
			n.pending = 0
		}
	}
}

func (n *c25Node) flushBatcher(sync bool) bool {
	n.absorbWrites()
	if sync {
		// the store's snapshot sync: a flush-marker object + Flush; waits for the FIFO write
		resp := make(chan struct{})
		n.cl.mu.Lock()
		ch := n.cl.syncCh
		n.cl.mu.Unlock()
		ch <- resp
		select {
		case <-resp:
		case <-time.After(240 * time.Second):
			return false
		}
		// the marker is a queued object: one request is emitted (by size or by the Flush).
		// Groups still in the hand-off channel when the sync arrived are drained first.
		n.absorbWrites()
		n.emitted++
		n.pending = 0
		return true
	}
	n.svc.batcher.Flush()
	if n.pending > 0 {
		n.emitted++
		n.pending = 0
	}
	return true
}

func (n *c25Node) observe() string {
	v := n.vec()
	n.ep.mu.Lock()
	var nd []string
	for _, p := range n.ep.posts[n.seenPost:] {
		nd = append(nd, c25PostStr(p))
	}
	n.seenPost = len(n.ep.posts)
	held := "-"
	if n.maxRetries == 0 && n.leader && !n.ep.up.Load() && n.ep.attempts > 0 {
		held = strconv.FormatUint(n.ep.lastFail, 10)
	}
	drop := ""
	if len(n.ep.dropOrder) > n.seenDrop {
		var ks []string
		for _, k := range n.ep.dropOrder[n.seenDrop:] {
			ks = append(ks, strconv.FormatUint(k, 10))
		}
		drop = " drop=" + strings.Join(ks, ",")
		n.seenDrop = len(n.ep.dropOrder)
	}
	n.ep.mu.Unlock()
	news := "-"
	if len(nd) > 0 {
		news = strings.Join(nd, ";")
	}
	return fmt.Sprintf("hwm=%d len=%d first=%d highest=%d next=%v batcher=%d held=%s new=%s%s", v.hwm, v.l, v.first, v.highest, v.next, n.pending, held, news, drop)
}

func (n *c25Node) setLeader(b bool) bool {
	if b == n.leader {
		return true
	}
	if b {
		// a new tenure starts: number it BEFORE the service learns about it, the leader loop
		// starts POSTing as soon as it does
		n.tenure++
	}
	n.svc.leaderObCh <- b
	deadline := time.Now().Add(30 * time.Second)
	for n.svc.IsLeader() != b || len(n.svc.leaderObCh) > 0 {
		if time.Now().After(deadline) {
			return false
		}
		time.Sleep(50 * time.Microsecond)
	}
	n.leader = b
	return n.barrier()
}

// apply executes one op line on the real node and observes it.
func (n *c25Node) apply(t *testing.T, op string) (string, bool) {
	if !n.applyOnly(t, op) {
		return "", false
	}
	return n.observe(), true
}

// applyOnly executes one op line on the real node and waits for the quiescent point.
func (n *c25Node) applyOnly(t *testing.T, op string) bool {
	f := strings.Fields(op)
	n.opGiveUps = n.svcLog.giveUps()
	switch f[0] {
	case "entry":
		k, _ := strconv.ParseUint(f[1], 10, 64)
		e := c25Entry{idx: k, tx: f[2] == "1"}
		if f[3] != "-" {
			for _, s := range strings.Split(f[3], ",") {
				v, _ := strconv.Atoi(s)
				e.stmts = append(e.stmts, v)
			}
		}
		n.log = append(n.log, e)
		n.feed(e)
	case "qentry":
		// the entry is applied (its groups are in the hand-off channel) but nobody waits for
		// the service to pick them up: the next operation races with them
		k, _ := strconv.ParseUint(f[1], 10, 64)
		e := c25Entry{idx: k, tx: f[2] == "1"}
		if f[3] != "-" {
			for _, s := range strings.Split(f[3], ",") {
				v, _ := strconv.Atoi(s)
				e.stmts = append(e.stmts, v)
			}
		}
		n.log = append(n.log, e)
		n.feed(e)
		return true
	case "qsync":
		// a snapshot requested right after the entries were applied (raft calls Snapshot on the
		// same goroutine as Apply): no waiting for quiescence first
		if !n.flushBatcher(true) {
			return false
		}
		if len(n.log) > 0 {
			n.snap = n.log[len(n.log)-1].idx
		}
	case "timer":
		if !n.settle() {
			return false
		}
		if !n.flushBatcher(false) {
			return false
		}
	case "sync":
		if !n.settle() {
			return false
		}
		if !n.flushBatcher(true) {
			return false
		}
		if len(n.log) > 0 {
			n.snap = n.log[len(n.log)-1].idx
		}
	case "leader":
		// clear failed-attempt bookkeeping: a new tenure starts or the old one ends
		if !n.setLeader(f[1] == "1") {
			return false
		}
		n.ep.mu.Lock()
		n.ep.attempts = 0
		n.ep.mu.Unlock()
	case "endpoint":
		n.ep.mu.Lock()
		n.ep.up.Store(f[1] == "1")
		n.ep.attempts = 0
		n.ep.failStatus = http.StatusServiceUnavailable
		if len(f) > 2 {
			n.ep.failStatus, _ = strconv.Atoi(f[2])
		}
		n.ep.mu.Unlock()
	case "hwm":
		v, _ := strconv.ParseUint(f[1], 10, 64)
		n.cl.offer(v)
	case "tick":
		// the real ticker runs by itself: wait until it has certainly completed one full body
		// for the current HWM (the 2nd broadcast of a value implies the body of the 1st is done)
		if n.leader && n.svc.HighWatermark() != 0 {
			if !n.settle() {
				return false
			}
			h := n.svc.HighWatermark()
			from := n.cl.nBroadcasts()
			deadline := time.Now().Add(30 * time.Second)
			for n.cl.broadcastsOfSince(h, from) < 2 {
				if time.Now().After(deadline) {
					return false
				}
				time.Sleep(100 * time.Microsecond)
			}
		}
	case "restart":
		if !n.settle() {
			return false
		}
		n.svc.Stop()
		n.tenure++ // a restart ends the tenure (the restarted service starts as follower)
		n.start(t)
		for _, e := range n.log {
			if e.idx > n.snap {
				n.feed(e)
			}
		}
	default:
		return false
	}
	if !n.settle() {
		return false
	}
	n.absorbWrites()
	return true
}

// ---- generator -----------------------------------------------------------------------------------

type c25Gen struct {
	r        *vfRng
	next     uint64
	multi    int // percent of entries that are multi-statement non-tx with >1 eventful statement
	leader   bool
	up       bool
	ticks    bool
	heldRisk bool // allow leader-off while the endpoint is down (drops the held event)
	lastHwm  uint64
}

func (g *c25Gen) entry() c25Entry {
	g.next += 1 + uint64(g.r.Intn(2)) // raft indexes of non-command entries are skipped
	e := c25Entry{idx: g.next}
	switch c := g.r.Intn(100); {
	case c < g.multi: // several eventful statements, no transaction
		n := 2 + g.r.Intn(3)
		for i := 0; i < n; i++ {
			e.stmts = append(e.stmts, g.r.Intn(3)) // some produce no events
		}
	case c < g.multi+25: // multi-statement transaction
		e.tx = true
		n := 1 + g.r.Intn(4)
		for i := 0; i < n; i++ {
			e.stmts = append(e.stmts, g.r.Intn(3))
		}
	case c < g.multi+35: // nothing on a matching table (DDL, filtered table)
		e.stmts = []int{0}
	default:
		e.stmts = []int{1 + g.r.Intn(2)}
		e.tx = g.r.Bool()
	}
	return e
}

func (g *c25Gen) op() string {
	for {
		switch c := g.r.Intn(100); {
		case c < 50:
			return g.entry().op()
		case c < 57:
			return "timer"
		case c < 62:
			return "sync"
		case c < 72:
			if g.leader && !g.up && !g.heldRisk {
				continue
			}
			g.leader = !g.leader
			if g.leader {
				return "leader 1"
			}
			return "leader 0"
		case c < 82:
			g.up = !g.up
			if g.up {
				return "endpoint 1"
			}
			// the outage answers with a status of any class (the model's outage has no kind:
			// the third token is stripped from the line the model sees)
			return fmt.Sprintf("endpoint 0 %d", c25FailStatuses[g.r.Intn(len(c25FailStatuses))])
		case c < 90:
			// a truthful broadcast from another node: it never exceeds what exists
			if g.next == 0 {
				continue
			}
			h := uint64(g.r.U64() % (g.next + 1))
			return fmt.Sprintf("hwm %d", h)
		case c < 95:
			g.leader = false // a restarted service starts as follower
			return "restart"
		default:
			if g.ticks {
				return "tick"
			}
			continue
		}
	}
}

// ---- history runner ------------------------------------------------------------------------------

type c25Hist struct {
	droppedChg map[string]bool // changes carried by events the leader gave up on (finite retry limit)
	broadcasts []uint64
	postsAt    []int
	maxHwmIn uint64 // highest HWM broadcast received from "other nodes": they delivered everything up to it
	ops, out []string
	batchSz  int
	loopback bool
	fed      []c25Entry
	posts    []c25Post
	ok       bool
	stepDown bool // a leader-off happened while an event was being retried
	failStatuses []string
	failKinds    map[int]int // failed attempts seen by the endpoint, by status answered
}

func c25RunHistory(t *testing.T, root string, hid int, batchSz int, tick time.Duration, ops []string, settleMs int, maxRetries int) *c25Hist {
	ResetStats()
	h := &c25Hist{batchSz: batchSz}
	ep := c25NewEndpoint()
	defer ep.srv.Close()
	dir := fmt.Sprintf("%s/h%d-%d", root, hid, settleMs)
	os.MkdirAll(dir, 0o755)
	defer os.RemoveAll(dir)
	n := &c25Node{id: 0, dir: dir, batchSz: batchSz, tick: tick, ep: ep, cl: &c25Cluster{nPosts: ep.nPosts}, settleMs: settleMs, maxRetries: maxRetries}
	ep.limit = maxRetries
	ep.tenure = func(int) int { return n.tenure }
	n.start(t)
	defer func() { n.svc.Stop() }()
	if maxRetries > 0 {
		h.ops = append(h.ops, fmt.Sprintf("reset %d 0 %d", batchSz, maxRetries))
	} else {
		h.ops = append(h.ops, fmt.Sprintf("reset %d 0", batchSz))
	}
	h.out = append(h.out, "ok")
	for _, op := range ops {
		real := op
		if strings.HasPrefix(real, "leader 0") && n.leader && !ep.up.Load() && ep.nAttempts() > 0 {
			h.stepDown = true
		}
		if strings.HasPrefix(real, "hwm ") {
			if v, _ := strconv.ParseUint(strings.Fields(real)[1], 10, 64); v > h.maxHwmIn {
				h.maxHwmIn = v
			}
		}
		if f := strings.Fields(real); len(f) == 3 && f[0] == "endpoint" {
			h.failStatuses = append(h.failStatuses, f[2])
		}
		modelOp := real
		if f := strings.Fields(real); len(f) == 3 && f[0] == "endpoint" {
			modelOp = f[0] + " " + f[1]
		}
		line := modelOp
		var o string
		if strings.HasPrefix(real, "qentry ") {
			n.applyOnly(t, real)
			h.ops = append(h.ops, real)
			h.out = append(h.out, "queued")
			continue
		}
		ok := n.applyOnly(t, real)
		if real == "qsync" {
			line = "sync"
		}
		if ok && (tick == time.Hour || real == "tick") {
			o = n.observe()
		}
		if ok && tick < time.Hour && real != "tick" {
			// the real ticker fires by itself all the time, also while the op is being
			// processed: the model applies the op and then a tick, and only the state
			// after both is compared (pruning commutes with everything the op does)
			line = "T " + modelOp
			o, ok = n.apply(t, "tick")
		}
		h.ops = append(h.ops, line)
		if !ok {
			h.out = append(h.out, "harness: no quiescent point")
			return h
		}
		h.out = append(h.out, o)
	}
	h.fed = n.log
	n.cl.mu.Lock()
	h.broadcasts = append([]uint64(nil), n.cl.broadcasts...)
	h.postsAt = append([]int(nil), n.cl.postsAt...)
	n.cl.mu.Unlock()
	ep.mu.Lock()
	h.failKinds = ep.failKinds
	h.posts = append([]c25Post(nil), ep.posts...)
	for _, gs := range ep.dropGroups {
		for _, g := range gs {
			for _, c := range g.chg {
				if h.droppedChg == nil {
					h.droppedChg = map[string]bool{}
				}
				h.droppedChg[c] = true
			}
		}
	}
	ep.mu.Unlock()
	h.ok = true
	return h
}

// c25Judge evaluates the property on what the endpoint received.
func c25Judge(rep *vfReport, h *c25Hist, mode string) (lost, mislabelled int) {
	type seen struct{ right, wrong bool }
	got := map[string]*seen{}
	for _, p := range h.posts {
		for _, g := range p.groups {
			for _, c := range g.chg {
				s := got[c]
				if s == nil {
					s = &seen{}
					got[c] = s
				}
				k, _ := strconv.ParseUint(strings.Split(c, ".")[0], 10, 64)
				if g.idx == k {
					s.right = true
				} else {
					s.wrong = true
				}
			}
		}
	}
	replay := map[string]interface{}{"ops": vfTrunc(h.ops), "impl": vfTrunc(h.out)}
	for _, e := range h.fed {
		if e.idx <= h.maxHwmIn {
			continue // another node announced that everything up to here has been delivered
		}
		multi := !e.tx && e.groups() > 1
		for j, rows := range e.stmts {
			if rows == 0 {
				continue
			}
			c := fmt.Sprintf("%d.%d", e.idx, j)
			s := got[c]
			class := "single-group-entry"
			if multi {
				class = "multi-statement-non-tx-entry"
			}
			if s == nil && h.droppedChg[c] {
				continue // "unless a finite retry limit is configured and exhausted"
			}
			switch {
			case s == nil:
				lost++
				rep.Fail(mode+"lost:"+class, fmt.Sprintf("change %s (entry %d, statement %d) never reached the endpoint", c, e.idx, j), replay)
			case !s.right:
				mislabelled++
				rep.Fail(mode+"mislabelled:"+class, fmt.Sprintf("change %s reached the endpoint only in groups NOT labelled %d", c, e.idx), replay)
			}
		}
	}
	// a HWM broadcast promises that everything at or below it has been delivered
	seenB := map[uint64]bool{}
	for bi, hv := range h.broadcasts {
		if seenB[hv] {
			continue
		}
		seenB[hv] = true
		done := map[string]bool{}
		for _, p := range h.posts[:h.postsAt[bi]] {
			for _, g := range p.groups {
				for _, c := range g.chg {
					done[c] = true
				}
			}
		}
		for _, e := range h.fed {
			if e.idx > hv || e.idx <= h.maxHwmIn {
				continue
			}
			for j, rows := range e.stmts {
				if rows > 0 && !done[fmt.Sprintf("%d.%d", e.idx, j)] {
					class := "single-group-entry"
					if !e.tx && e.groups() > 1 {
						class = "multi-statement-non-tx-entry"
					}
					// an internal promise, not the property: counted, not reported (the end-to-end
					// consequence is judged by c25TwoNodes and by the lost:/mislabelled: oracles)
					rep.Count("broadcast-above-an-undelivered-change:" + class)
				}
			}
		}
	}
	// order within a tenure
	last := map[[2]int]uint64{}
	for _, p := range h.posts {
		key := [2]int{p.node, p.tenure}
		if p.key < last[key] {
			rep.Fail(mode+"order:key-decreases-within-tenure", fmt.Sprintf("POST key %d after %d in tenure %d of node %d", p.key, last[key], p.tenure, p.node), replay)
		}
		last[key] = p.key
	}
	return
}

func c25QEntries(from, n int) []string {
	var ops []string
	for i := 0; i < n; i++ {
		ops = append(ops, fmt.Sprintf("qentry %d 0 1", from+i))
	}
	return ops
}

func c25Heal(g *c25Gen) []string {
	var ops []string
	if !g.up {
		ops = append(ops, "endpoint 1")
		g.up = true
	}
	if !g.leader {
		ops = append(ops, "leader 1")
		g.leader = true
	}
	ops = append(ops, "timer")
	return ops
}

// c25TwoNodes: two real services fed the same log, different batch sizes. After a restart
// node A's HWM is (first FIFO key - 1); as leader with the endpoint down it broadcasts that
// HWM; node B prunes on it; then B leads and delivers, broadcasts its own HWM, A prunes.
// Returns the changes no node ever delivered, even after A leads again.
func c25TwoNodes(t *testing.T, root string) (lost []string, trace []string) {
	ResetStats()
	ep := c25NewEndpoint()
	defer ep.srv.Close()
	mk := func(id, b int, tick time.Duration) *c25Node {
		dir := fmt.Sprintf("%s/two-%d", root, id)
		os.MkdirAll(dir, 0o755)
		return &c25Node{id: id, dir: dir, batchSz: b, tick: tick, ep: ep, cl: &c25Cluster{nPosts: ep.nPosts}, settleMs: 5}
	}
	a, b := mk(0, 2, 2*time.Millisecond), mk(1, 1, 2*time.Millisecond)
	a.cl.peers = []*c25Cluster{b.cl}
	b.cl.peers = []*c25Cluster{a.cl}
	ep.tenure = func(node int) int {
		if node == 0 {
			return a.tenure
		}
		return b.tenure
	}
	a.start(t)
	b.start(t)
	defer func() { a.svc.Stop(); b.svc.Stop() }()
	step := func(n *c25Node, op string) {
		o, ok := n.apply(t, op)
		trace = append(trace, fmt.Sprintf("node%d %s => %s (ok=%v)", n.id, op, o, ok))
	}
	for _, e := range []string{"entry 5 0 1", "entry 6 0 1"} {
		step(a, e)
		step(b, e)
	}
	step(a, "restart")
	step(a, "endpoint 0")
	step(a, "leader 1")
	step(a, "tick") // broadcasts its HWM (5) to B while entry 5 has never been sent
	step(b, "timer")
	step(a, "leader 0")
	step(a, "endpoint 1")
	step(b, "leader 1")
	step(b, "tick") // B has delivered 6 and announces it; A prunes
	step(a, "timer")
	step(b, "leader 0")
	step(a, "leader 1") // even the node that still had entry 5 cannot send it any more
	step(a, "timer")
	got := map[string]bool{}
	ep.mu.Lock()
	for _, p := range ep.posts {
		for _, g := range p.groups {
			for _, c := range g.chg {
				got[c] = true
			}
		}
	}
	ep.mu.Unlock()
	for _, c := range []string{"5.0", "6.0"} {
		if !got[c] {
			lost = append(lost, c)
		}
	}
	return lost, trace
}

func TestVerifC25(t *testing.T) {
	rep := vfNewReport("C25", "generated histories on the real cdc.Service + real db.CDCStreamer + Bolt FIFO + HTTP sink with a recording endpoint: log entries (single statement, multi-statement with and without transaction, statements without events), batch sizes 1-4, endpoint outages, leadership changes, HWM broadcasts, HWM ticks, snapshots, restarts with raft replay; every op applied at a quiescent point. A history is non-trivial when it has a delivery, an outage with a retry, a leadership change, and a restart or snapshot; distinct by op text")
	defer rep.Write()
	root := t.TempDir()
	if st, err := os.Stat("/dev/shm"); err == nil && st.IsDir() {
		if d, err := os.MkdirTemp("/dev/shm", "verif-c25-"); err == nil {
			root = d
			defer os.RemoveAll(d)
		}
	}
	r := vfNewRng(25)
	var segOps, segImpl [][]string

	directed := []struct {
		b    int
		ops  []string
		tick bool
	}{
		// restart sets the HWM to (first FIFO key - 1): entries 5 and 6 share the item keyed 6
		{2, []string{"entry 5 0 1", "entry 6 0 1", "restart", "endpoint 0", "leader 1", "tick", "endpoint 1", "timer"}, true},
		// the design-pass witness: 3-statement non-transactional request
		{1, []string{"leader 1", "entry 77 0 1,1,1", "timer"}, false},
		{3, []string{"leader 1", "entry 77 0 1,1,1", "timer"}, false},
		{2, []string{"leader 1", "entry 5 0 1", "entry 77 0 1,1,1", "timer"}, false},
		{2, []string{"entry 5 1 1,2", "entry 6 0 0,1,0,1", "sync", "restart", "leader 1", "timer"}, false},
		// forced schedule: a snapshot is requested while the groups of the last entries are still
		// in the hand-off channel; then the node restarts (nothing above the snapshot to replay)
		{64, append(append([]string{}, c25QEntries(5, 60)...), "qsync", "restart", "leader 1", "timer"), false},
		// transient outages that answer 4xx: a route being redeployed (404), expired credentials
		// (401), a proxy limit (413), a bad-request answer from a gateway (400)
		{1, []string{"leader 1", "endpoint 0 404", "entry 5 0 1", "entry 6 0 1", "endpoint 1", "entry 7 0 1", "timer"}, false},
		{2, []string{"leader 1", "entry 5 0 1", "endpoint 0 401", "entry 6 0 1", "entry 7 1 2,1", "endpoint 1", "endpoint 0 413", "entry 8 0 1", "timer", "endpoint 0 400", "endpoint 1", "timer"}, false},
		{1, []string{"endpoint 0 0", "leader 1", "entry 5 0 1", "endpoint 0 429", "entry 6 0 1", "endpoint 0 301", "endpoint 1", "timer"}, false},
		// leader loses leadership while retrying
		{1, []string{"leader 1", "endpoint 0", "entry 5 0 1", "entry 6 0 1", "leader 0", "endpoint 1", "leader 1", "timer"}, false},
	}
	hists := vfScale(60, 1500)
	verySlow, abandonedTries, abandonedHist, ranHist, abandonedLarge, judgedLarge := 0, 0, 0, 0, 0, 0
	tStart := time.Now()
	budget := time.Duration(vfScale(120, 1200)) * time.Second // time-box: the machine may be shared
	for i := 0; i < len(directed)+hists; i++ {
		if i >= len(directed) && time.Since(tStart) > budget {
			rep.Note("stopped after %d generated histories: time budget of %s used", i-len(directed), budget)
			break
		}
		var ops []string
		b := 1 + r.Intn(4)
		tick := time.Hour
		mr := 0
		g := &c25Gen{r: r, up: true}
		if i < len(directed) {
			b, ops = directed[i].b, directed[i].ops
			if directed[i].tick {
				tick = 2 * time.Millisecond
			}
		} else {
			switch i % 4 {
			case 0:
				g.multi = 0
			case 1:
				g.multi = 25
			case 2:
				g.multi = 0
				g.heldRisk = true
			default:
				g.multi = 15
				g.heldRisk = true
			}
			if i%5 == 4 {
				mr = 2 // a finite retry limit: outages make the leader give up on events
			} else if i%3 == 0 {
				tick = 2 * time.Millisecond
				g.ticks = true
			}
			n := 6 + r.Intn(vfScale(14, 30))
			for j := 0; j < n; j++ {
				ops = append(ops, g.op())
			}
			ops = append(ops, c25Heal(g)...)
		}
		ranHist++
		h := c25RunHistory(t, root, i, b, tick, ops, 2, mr)
		if !h.ok {
			abandonedTries++
			// one more try with a much longer stability window before calling it a harness problem
			h = c25RunHistory(t, root, i, b, tick, ops, 40, mr)
			if !h.ok {
				// no quiescent point within generous budgets, twice: the case cannot be observed
				// (busy machine); it is abandoned, not diffed and not judged. Floor below.
				abandonedHist++
				rep.Count("abandoned:no-quiescent-point")
				rep.Note("abandoned history %d (no quiescent point at op %d of %d)", i, len(h.out)-1, len(ops))
				continue
			}
		}
		// model check of this history alone; on a mismatch re-run with a long stability window
		if mo, err := vfModel("cdcpipe", h.ops); err == nil && vfFirstDiff(h.out, mo) >= 0 {
			h2 := c25RunHistory(t, root, i, b, tick, ops, 40, mr)
			if h2.ok {
				h = h2
				rep.Count("histories-rerun-with-long-settle-window")
			}
			// still different: once more with a window far beyond any scheduling delay of a busy
			// machine, so that a difference that remains is not one of wall-clock speed
			if mo, err := vfModel("cdcpipe", h.ops); err == nil && vfFirstDiff(h.out, mo) >= 0 && verySlow < 6 {
				verySlow++
				if h3 := c25RunHistory(t, root, i, b, tick, ops, 400, mr); h3.ok {
					h = h3
					rep.Count("histories-rerun-with-very-long-settle-window")
				}
			}
		}
		lost, mis := c25Judge(rep, h, "")
		segOps = append(segOps, h.ops)
		segImpl = append(segImpl, h.out)
		// distribution
		var nEntry, nMulti, nOut, nLead, nRestart, nSync, nHwm int
		for _, op := range h.ops {
			switch strings.Fields(strings.TrimPrefix(op, "T "))[0] {
			case "entry", "qentry":
				nEntry++
			case "endpoint":
				nOut++
			case "leader":
				nLead++
			case "restart":
				nRestart++
			case "sync":
				nSync++
			case "hwm":
				nHwm++
			}
		}
		for _, e := range h.fed {
			if !e.tx && e.groups() > 1 {
				nMulti++
			}
		}
		rep.CountN("entries", nEntry)
		rep.CountN("entries:multi-statement-non-tx", nMulti)
		rep.CountN("endpoint-changes", nOut)
		rep.CountN("leadership-changes", nLead)
		rep.CountN("restarts", nRestart)
		rep.CountN("snapshots", nSync)
		rep.CountN("hwm-broadcasts-in", nHwm)
		rep.CountN("posts", len(h.posts))
		for st, nn := range h.failKinds {
			rep.CountN(fmt.Sprintf("failed-attempts-answered-%d", st), nn)
		}
		for _, st := range h.failStatuses {
			rep.Count("outages-answering-" + st)
		}
		rep.CountN("changes-lost", lost)
		rep.CountN("changes-mislabelled", mis)
		rep.Count(fmt.Sprintf("batch-size=%d", b))
		if tick < time.Hour {
			rep.Count("histories-with-live-hwm-ticker")
		}
		if h.stepDown {
			rep.Count("histories-with-step-down-during-retry")
		}
		if mr > 0 {
			rep.Count("histories-with-finite-retry-limit")
			rep.CountN("events-given-up-on", len(h.droppedChg))
		}
		rep.Case(strings.Join(h.ops, ";"), len(h.posts) > 0 && nOut > 0 && nLead > 1 && (nRestart > 0 || nSync > 0))
		if i == len(directed) || i == 0 {
			rep.Sample(map[string]interface{}{"ops": vfTrunc(h.ops), "impl": vfTrunc(h.out)})
		}
	}
	rep.CountN("histories-first-try-without-quiescent-point", abandonedTries)

	// ---- large items ------------------------------------------------------------------------
	// (a) flate round trip, the law the model assumes of the FIFO's stored form: for inputs of
	// 9-16 MiB (and small ones) Decompress(Compress(x)) = x.
	for i, sz := range []int{0, 1, 4096, 9 << 20, 12<<20 + 12345, 16 << 20} {
		x := make([]byte, sz)
		rr := vfNewRng(uint64(2500 + i))
		for j := 0; j < sz; j += 8 {
			v := rr.Intn(1 << 30)
			if j%4096 < 2048 { // half compressible, half not
				v = j / 4096
			}
			for b := 0; b < 8 && j+b < sz; b++ {
				x[j+b] = byte(v >> (8 * (b % 4)))
			}
		}
		rep.Count("flate-round-trips")
		c, err := flate.Compress(x)
		if err != nil {
			rep.Fail("flate:compress-fails", fmt.Sprintf("Compress of %d bytes: %v", sz, err), map[string]interface{}{"size": sz})
			continue
		}
		y, err := flate.Decompress(c)
		if err != nil || string(y) != string(x) {
			rep.Fail("flate:decompress-does-not-invert-compress",
				fmt.Sprintf("Decompress(Compress(x)) for len(x)=%d (compressed %d): err=%v, got %d bytes; the FIFO stores Compress(json(batch)) and the leader loop DROPS an item it cannot decompress", sz, len(c), err, len(y)),
				map[string]interface{}{"size": sz, "compressed": len(c)})
		}
	}
	// (b) one transaction touching many wide rows = one event group of more than 8 MiB of JSON
	// = one big FIFO item, then a small write, through the real service and leader loop; same
	// model comparison and lost-change oracle as every other history.
	{
		rows, pad := 700, 16<<10 // ~11 MiB of JSON
		if vfScale(0, 1) == 1 {
			rows, pad = 900, 40<<10 // ~36 MiB
		}
		c25Pad = pad
		for _, v := range []struct {
			b   int
			ops []string
		}{
			{1, []string{"leader 1", fmt.Sprintf("entry 5 1 %d", rows), "entry 6 0 1", "timer"}},
			// the big group shares its batch (and FIFO item) with a small one; no outage here: a
			// retry storm of 11 MiB POSTs has no quiescent point to observe
			{2, []string{fmt.Sprintf("entry 5 1 %d", rows), "entry 6 0 1", "leader 1", "entry 7 0 1", "timer", "sync", "restart", "leader 1"}},
		} {
			c25PadIdx = map[uint64]bool{5: true}
			h := c25RunHistory(t, root, 900000+v.b, v.b, time.Hour, v.ops, 100, 0)
			c25PadIdx = map[uint64]bool{}
			rep.Count("histories-with-a-large-fifo-item")
			if !h.ok {
				abandonedLarge++
				rep.Count("abandoned:large-item:no-quiescent-point")
				rep.Note("abandoned large-item history (no quiescent point at op %d of %d within the budget)", len(h.out)-1, len(v.ops))
				continue
			}
			judgedLarge++
			c25Judge(rep, h, "large-item:")
			segOps = append(segOps, h.ops)
			segImpl = append(segImpl, h.out)
			rep.Case(strings.Join(h.ops, ";")+fmt.Sprintf(";pad=%d", pad), len(h.posts) > 0)
		}
		c25Pad = 0
	}
	rep.vfCompareSegments("cdcpipe", segOps, segImpl)
	if 2*abandonedHist > ranHist || (abandonedLarge > 0 && judgedLarge == 0) {
		rep.Fail("harness:could-not-run", fmt.Sprintf("%d of %d histories and %d of %d large-item histories were abandoned (no quiescent point within the budget: busy machine?)", abandonedHist, ranHist, abandonedLarge, abandonedLarge+judgedLarge), nil)
	}

	// two real nodes: does the restart HWM heuristic lose a change end to end?
	lost, trace := c25TwoNodes(t, root)
	rep.Count("two-node-scenarios")
	if len(lost) > 0 {
		rep.Fail("lost:single-group-entry:two-nodes:restart-hwm-broadcast-then-leader-change",
			fmt.Sprintf("changes %v were never delivered by ANY node: node A (batch size 2) restarted with entries 5,6 in one FIFO item keyed 6, so its HWM became 5; leading during an outage it broadcast 5; node B (batch size 1) pruned entry 5; B then led, delivered only 6 and broadcast 6; A pruned its item and can no longer send entry 5", lost),
			map[string]interface{}{"trace": trace})
	} else {
		rep.Note("two-node restart-HWM scenario: every change was delivered (%d steps)", len(trace))
	}
}

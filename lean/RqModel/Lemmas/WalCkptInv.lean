/-
The inductive invariant of the C06 model (RqModel/Model/WalCkpt.lean) and its
preservation by every operation. Used by RqModel/Props/C06.lean.
-/
import RqModel.Lemmas.WalCkpt
namespace RqModel.WalCkpt

/-- the frame index the next capture will start reading from -/
def eff (s : State) : Nat :=
  if s.watch.armed = true ∧ s.watch.salt = s.salt then s.watch.resume else 0

structure Inv (s : State) : Prop where
  closed : Closed s.frames
  bf_le  : s.backfill ≤ s.mx
  empty  : s.walEmpty = true → s.frames = [] ∧ s.backfill = 0 ∧ s.watch.armed = false
  filled : s.backfill = s.mx → ckpt s.file s.frames = s.file
  salt   : s.watch.armed = true →
            s.watch.salt ≤ s.salt ∧ s.armGen ≤ s.gen ∧ (s.armGen = s.gen ↔ s.watch.salt = s.salt)
  eff_le : eff s ≤ s.mx
  /-- the chain plus the frames not yet captured is the live database -/
  chain  : s.dueFull = false → ckpt s.rebuilt (s.frames.drop (eff s)) = s.logical
  /-- a fully backfilled WAL (the only kind SQLite may reset) has been captured completely -/
  caught : s.dueFull = false → s.backfill = s.mx → s.mx ≠ 0 → eff s = s.mx

theorem inv_fresh (d : Db) : Inv (fresh d) := by
  constructor
  · exact closed_nil
  · exact Nat.le_refl _
  · intro _; exact ⟨rfl, rfl, rfl⟩
  · intro _; exact ckpt_nil _
  · intro h; exact absurd h (by simp [fresh])
  · simp [eff, fresh, State.mx]
  · intro _; simp [eff, fresh, State.rebuilt, State.logical, ckpt_nil]
  · intro _ _ h; simp [fresh, State.mx] at h

theorem foldl_min_le (l : List Nat) (a : Nat) : l.foldl min a ≤ a := by
  induction l generalizing a with
  | nil => exact Nat.le_refl _
  | cons x l ih => exact Nat.le_trans (ih _) (Nat.min_le_left _ _)

/-! ### writes -/

theorem logical_size {s : State} (h : Inv s) (hne : s.frames ≠ []) :
    s.logical.size = finalSize s.frames := ckpt_size_closed _ h.closed hne

theorem inv_write (ns : Nat → Nat) (hns : ∀ x, x < ns x) {s : State} (h : Inv s) (fs : List Frame)
    (hv : validTx s.logical.size fs = true) : Inv (doWrite ns s fs) := by
  have hcl := validTx_closed hv
  have hne := validTx_ne_nil hv
  have hlen : 0 < fs.length := List.length_pos_iff.mpr hne
  unfold doWrite
  cases hk : writeKind s with
  | fresh =>
    have hwe : s.walEmpty = true := by
      unfold writeKind at hk; split at hk
      · assumption
      · split at hk <;> cases hk
    obtain ⟨hf, hb, ha⟩ := h.empty hwe
    have heff : eff s = 0 := by simp [eff, ha]
    refine ⟨hcl, Nat.zero_le _, (fun h0 => absurd h0 (by simp)), ?_, h.salt, ?_, ?_, ?_⟩
    · intro h0; simp only [State.mx] at h0; omega
    · show eff s ≤ _; omega
    · intro hd
      have hc := h.chain hd
      simp only [State.logical, hf, heff, List.drop_nil, ckpt_nil] at hc
      show ckpt s.rebuilt (fs.drop (eff s)) = ckpt s.file fs
      rw [heff, List.drop_zero, hc]
    · intro _ h0; simp only [State.mx] at h0; omega
  | reset =>
    have hcond : s.mx ≠ 0 ∧ s.backfill = s.mx ∧ s.marks = [] := by
      unfold writeKind at hk; split at hk
      · cases hk
      · split at hk
        · assumption
        · cases hk
    have heff' : ∀ (w : Watch), w = s.watch → ¬ (w.armed = true ∧ w.salt = ns s.salt) := by
      intro w hw ⟨ha, hs⟩
      subst hw
      have := (h.salt ha).1
      have := hns s.salt
      omega
    refine ⟨hcl, Nat.zero_le _, ?_, ?_, ?_, ?_, ?_, ?_⟩
    · intro hwe
      have := h.empty hwe
      simp only [State.mx, this.1, List.length_nil] at hcond
      exact absurd rfl hcond.1
    · intro h0; simp only [State.mx] at h0; omega
    · intro ha
      obtain ⟨h1, h2, _⟩ := h.salt ha
      have := hns s.salt
      refine ⟨by show s.watch.salt ≤ ns s.salt; omega, by show s.armGen ≤ s.gen + 1; omega, ?_⟩
      show s.armGen = s.gen + 1 ↔ s.watch.salt = ns s.salt
      constructor <;> intro h3 <;> omega
    · show (if s.watch.armed = true ∧ s.watch.salt = ns s.salt then s.watch.resume else 0) ≤ _
      rw [if_neg (heff' _ rfl)]; exact Nat.zero_le _
    · intro hd
      show ckpt s.rebuilt (fs.drop (if s.watch.armed = true ∧ s.watch.salt = ns s.salt then s.watch.resume else 0)) = ckpt s.file fs
      rw [if_neg (heff' _ rfl), List.drop_zero]
      have hc := h.chain hd
      have he := h.caught hd hcond.2.1 hcond.1
      rw [he] at hc
      simp only [State.mx, List.drop_length, ckpt_nil] at hc
      rw [hc, State.logical, h.filled hcond.2.1]
    · intro _ h0; simp only [State.mx] at h0; omega
  | append =>
    have hnw : s.walEmpty = false := by
      unfold writeKind at hk; split at hk
      · cases hk
      · rename_i hw; simpa using hw
    have hb := h.bf_le
    simp only [State.mx] at hb
    refine ⟨closed_append h.closed hcl, ?_, ?_, ?_, h.salt, ?_, ?_, ?_⟩
    · simp only [State.mx, List.length_append]; omega
    · intro hwe; exact absurd (hnw ▸ hwe) (by simp)
    · intro h0; simp only [State.mx, List.length_append] at h0; omega
    · have := h.eff_le
      show eff s ≤ _
      simp only [State.mx, List.length_append] at this ⊢; omega
    · intro hd
      have he := h.eff_le
      simp only [State.mx] at he
      show ckpt s.rebuilt ((s.frames ++ fs).drop (eff s)) = ckpt s.file (s.frames ++ fs)
      rw [List.drop_append_of_le_length he]
      have hcd := closed_drop h.closed (eff s)
      have hg : ∀ a : List Frame, a ≠ [] → finalSize a = finalSize s.frames → s.frames ≠ [] →
          growOK (finalSize a) fs = true := by
        intro a _ hfa hF
        rw [hfa, ← logical_size h hF]
        exact validTx_grow hv
      rw [ckpt_append _ hcd hcl (fun hd0 => hg _ hd0 (finalSize_drop hd0)
            (by intro h0; rw [h0] at hd0; simp at hd0)),
          h.chain hd, State.logical,
          ckpt_append _ h.closed hcl (fun hF => hg _ hF rfl hF)]
    · intro _ h0; simp only [State.mx, List.length_append] at h0; omega

/-! ### readers -/

theorem inv_readers {s : State} (h : Inv s) (rs : List Reader) : Inv { s with readers := rs } :=
  ⟨h.closed, h.bf_le, h.empty, h.filled, h.salt, h.eff_le, h.chain, h.caught⟩

/-! ### SQLite's checkpoint: the three outcomes -/

theorem ckptB_ge (s : State) : s.backfill ≤ ckptB s := by
  unfold ckptB; split <;> omega

theorem ckptB_le (s : State) (hb : s.backfill ≤ s.mx) : ckptB s ≤ s.mx := by
  have := foldl_min_le s.marks s.mx
  unfold ckptB; split <;> omega

def busyState (s : State) (b' : Nat) : State :=
  { s with file := backfillPages s.file (s.frames.take b'), backfill := b' }
def pinnedState (s : State) : State :=
  { s with file := ckpt s.file s.frames, backfill := s.mx }
def truncState (ns : Nat → Nat) (s : State) : State :=
  { s with file := ckpt s.file s.frames, frames := [], backfill := 0, walEmpty := true,
           salt := ns s.salt, gen := s.gen + 1 }

theorem sqliteCheckpoint_cases (ns : Nat → Nat) (s : State) (hb : s.backfill ≤ s.mx) :
    (∃ b', b' < s.mx ∧ sqliteCheckpoint ns s = (busyState s b', ⟨1, s.mx, b'⟩)) ∨
    (s.marks ≠ [] ∧ sqliteCheckpoint ns s = (pinnedState s, ⟨1, s.mx, s.mx⟩)) ∨
    (sqliteCheckpoint ns s = (truncState ns s, ⟨0, 0, 0⟩)) := by
  have h2 := ckptB_le s hb
  unfold sqliteCheckpoint
  by_cases hlt : ckptB s < s.mx
  · left; exact ⟨ckptB s, hlt, by rw [if_pos hlt]; rfl⟩
  · rw [if_neg hlt]
    by_cases hm : s.marks = []
    · right; right; rw [if_neg (by simpa using hm)]; rfl
    · right; left; exact ⟨hm, by rw [if_pos hm]; rfl⟩

/-- invariant after a busy attempt that moved only part of the WAL -/
theorem inv_busy {s : State} (h : Inv s) (hnw : s.walEmpty = false) (b' : Nat)
    (hlt : b' < s.mx) (df : Bool) (hdf : df = false → s.dueFull = false) :
    Inv { busyState s b' with dueFull := df } := by
  have hl : ckpt (backfillPages s.file (s.frames.take b')) s.frames = s.logical :=
    ckpt_backfillPages _ h.closed _
  constructor
  · exact h.closed
  · exact Nat.le_of_lt hlt
  · intro hwe; exact absurd (hnw ▸ hwe) (by simp)
  · intro h0; simp only [State.mx, busyState] at h0 hlt; omega
  · exact h.salt
  · exact h.eff_le
  · intro hd
    show ckpt s.rebuilt (s.frames.drop (eff s)) = ckpt (backfillPages s.file (s.frames.take b')) s.frames
    rw [hl]; exact h.chain (hdf hd)
  · intro _ h0; simp only [State.mx, busyState] at h0 hlt; omega

/-- invariant after a full-snapshot attempt that moved everything but could not truncate -/
theorem inv_full_pinned {s : State} (h : Inv s) (hnw : s.walEmpty = false) :
    Inv { pinnedState s with dueFull := true } := by
  constructor
  · exact h.closed
  · exact Nat.le_refl _
  · intro hwe; exact absurd (hnw ▸ hwe) (by simp)
  · intro _; exact ckpt_idem _ h.closed
  · exact h.salt
  · exact h.eff_le
  · intro hd; exact absurd hd (by simp)
  · intro hd; exact absurd hd (by simp)

/-! ### WALResetWatch.Check -/

theorem check_eff (s : State) :
    (s.watch.check s.salt).2.1 = eff s ∧
    eff { s with watch := (s.watch.check s.salt).1 } = eff s ∧
    ((s.watch.check s.salt).1 = s.watch ∨ ((s.watch.check s.salt).1 = Watch.disarm ∧ s.watch.armed = true)) ∧
    ((s.watch.check s.salt).2.2 = true ↔ (s.watch.armed = true ∧ s.watch.salt ≠ s.salt)) := by
  unfold Watch.check eff
  by_cases ha : s.watch.armed = true
  · by_cases hs : s.watch.salt = s.salt
    · simp [ha, hs]
    · simp [ha, hs, Watch.disarm]
  · have : s.watch.armed = false := by simpa using ha
    simp [this]

theorem inv_check {s : State} (h : Inv s) : Inv { s with watch := (s.watch.check s.salt).1 } := by
  obtain ⟨_, h2, h3, _⟩ := check_eff s
  rcases h3 with h3 | ⟨h3, _⟩
  · rw [h3]; exact h
  · constructor
    · exact h.closed
    · exact h.bf_le
    · intro hwe; obtain ⟨a, b, _⟩ := h.empty hwe; exact ⟨a, b, by rw [h3]; rfl⟩
    · exact h.filled
    · intro ha; rw [h3] at ha; exact absurd ha (by simp [Watch.disarm])
    · rw [h2]; exact h.eff_le
    · intro hd; rw [h2]; exact h.chain hd
    · intro hd hb hm; rw [h2]; exact h.caught hd hb hm

/-! ### incremental capture -/

theorem rebuilt_snoc {s s' : State} {seg : List Frame} (hb : s'.base = s.base)
    (hs : s'.segs = s.segs ++ [seg]) : s'.rebuilt = ckpt s.rebuilt seg := by
  simp [State.rebuilt, hb, hs, List.foldl_append]

def armedState (s1 : State) (seg : List Frame) : State :=
  { pinnedState s1 with watch := Watch.arm s1.salt s1.mx, armGen := s1.gen, segs := s1.segs ++ [seg] }
def truncKept (ns : Nat → Nat) (s1 : State) (seg : List Frame) : State :=
  { truncState ns s1 with watch := Watch.disarm, segs := s1.segs ++ [seg] }

theorem captureFinish_busy (s1 : State) (reset : Bool) (seg : List Frame) (b' : Nat) (hlt : b' < s1.mx) :
    captureFinish s1.salt reset seg (busyState s1 b', ⟨1, s1.mx, b'⟩) =
      (busyState s1 b', ⟨⟨1, s1.mx, b'⟩, reset, .busy, none⟩) := by
  have h1 : ¬ (s1.mx ≤ b') := by omega
  simp [captureFinish, branches, List.find?, Cond.holds, applyBranch, Ret.err, hlt]

theorem captureFinish_pinned (s1 : State) (reset : Bool) (seg : List Frame) :
    captureFinish s1.salt reset seg (pinnedState s1, ⟨1, s1.mx, s1.mx⟩) =
      (armedState s1 seg, ⟨⟨1, s1.mx, s1.mx⟩, reset, .none, some seg⟩) := by
  simp [captureFinish, branches, List.find?, Cond.holds, applyBranch, pinnedState, armedState]

theorem captureFinish_trunc (ns : Nat → Nat) (s1 : State) (reset : Bool) (seg : List Frame) :
    captureFinish s1.salt reset seg (truncState ns s1, ⟨0, 0, 0⟩) =
      (truncKept ns s1 seg, ⟨⟨0, 0, 0⟩, reset, .none, some seg⟩) := by
  simp [captureFinish, branches, List.find?, Cond.holds, applyBranch, truncState, truncKept]

theorem inv_armedState {s1 : State} (h1 : Inv s1) (hnw : s1.walEmpty = false) (seg : List Frame)
    (hseg : ckpt s1.rebuilt seg = s1.logical) : Inv (armedState s1 seg) := by
  have he : eff (armedState s1 seg) = s1.mx := by
    simp [eff, Watch.arm, pinnedState, armedState]
  have hrb : (armedState s1 seg).rebuilt = ckpt s1.rebuilt seg := rebuilt_snoc (s := s1) rfl rfl
  constructor
  · exact h1.closed
  · exact Nat.le_refl _
  · intro hwe; exact absurd (hnw ▸ hwe) (by simp)
  · intro _; exact ckpt_idem _ h1.closed
  · intro _
    refine ⟨Nat.le_refl _, Nat.le_refl _, ?_⟩
    simp [Watch.arm, pinnedState, armedState]
  · rw [he]; exact Nat.le_refl _
  · intro _
    rw [he, hrb, hseg]
    show ckpt s1.logical (s1.frames.drop s1.mx) = ckpt (ckpt s1.file s1.frames) s1.frames
    simp only [State.mx, List.drop_length, ckpt_nil, State.logical, ckpt_idem _ h1.closed]
  · intro _ _ _; exact he

theorem inv_truncKept (ns : Nat → Nat) {s1 : State} (seg : List Frame)
    (hseg : ckpt s1.rebuilt seg = s1.logical) : Inv (truncKept ns s1 seg) := by
  have hrb : (truncKept ns s1 seg).rebuilt = ckpt s1.rebuilt seg := rebuilt_snoc (s := s1) rfl rfl
  constructor
  · exact closed_nil
  · exact Nat.le_refl _
  · intro _; exact ⟨rfl, rfl, rfl⟩
  · intro _; exact ckpt_nil _
  · intro h0; exact absurd h0 (by simp [Watch.disarm, truncKept])
  · simp [eff, Watch.disarm, State.mx, truncState, truncKept]
  · intro _
    rw [hrb, hseg]
    show ckpt s1.logical (([] : List Frame).drop _) = ckpt (ckpt s1.file s1.frames) []
    simp [ckpt_nil, State.logical]
  · intro _ _ hm; simp [State.mx, truncState, truncKept] at hm

/-- the bookkeeping after the pragma, from a state satisfying the invariant, given that the
segment written before the pragma completes the chain to the live database -/
theorem inv_captureFinish (ns : Nat → Nat) {s1 : State} (h1 : Inv s1) (hnw : s1.walEmpty = false)
    (reset : Bool) (seg : List Frame) (hseg : ckpt s1.rebuilt seg = s1.logical) :
    Inv (captureFinish s1.salt reset seg (sqliteCheckpoint ns s1)).1 := by
  rcases sqliteCheckpoint_cases ns s1 h1.bf_le with ⟨b', hlt, hr⟩ | ⟨_, hr⟩ | hr
  · rw [hr, captureFinish_busy _ _ _ _ hlt]
    exact inv_busy h1 hnw b' hlt s1.dueFull (fun x => x)
  · rw [hr, captureFinish_pinned]
    exact inv_armedState h1 hnw seg hseg
  · rw [hr, captureFinish_trunc]
    exact inv_truncKept ns seg hseg

theorem capture_tail_closed {s : State} (h : Inv s) :
    committed (s.frames.drop (s.watch.check s.salt).2.1) = s.frames.drop (s.watch.check s.salt).2.1 :=
  committed_of_closed (closed_drop h.closed _)

theorem inv_capture (ns : Nat → Nat) {s : State} (h : Inv s)
    (hd : s.dueFull = false) : Inv (doCapture ns s).1 := by
  unfold doCapture
  by_cases hwe : s.walEmpty = true
  · simp only [hwe, if_true]
    exact h
  · have hnw : s.walEmpty = false := by simpa using hwe
    rw [if_neg hwe]
    dsimp only
    rw [if_neg (by simp [capture_tail_closed h])]
    obtain ⟨hst, heq, _, _⟩ := check_eff s
    have h1 := inv_check h
    have hchain := h1.chain hd
    rw [heq] at hchain
    have hseg : ckpt (State.rebuilt { s with watch := (s.watch.check s.salt).1 })
        (compact (s.frames.drop (s.watch.check s.salt).2.1)) =
        State.logical { s with watch := (s.watch.check s.salt).1 } := by
      rw [ckpt_compact _ (closed_drop h.closed _), hst]; exact hchain
    exact inv_captureFinish ns h1 hnw _ _ hseg

/-! ### full snapshot attempt -/

theorem inv_full (ns : Nat → Nat) {s : State} (h : Inv s) (hdue : s.dueFull = true) : Inv (doFull ns s).1 := by
  unfold doFull
  by_cases hwe : s.walEmpty = true
  · simp only [hwe, if_true]
    obtain ⟨hf, hb, _⟩ := h.empty hwe
    constructor
    · exact h.closed
    · exact h.bf_le
    · intro _; exact ⟨hf, hb, rfl⟩
    · exact h.filled
    · intro h0; exact absurd h0 (by simp [Watch.disarm])
    · simp [eff, Watch.disarm]
    · intro _
      simp [eff, Watch.disarm, State.rebuilt, State.logical, hf, ckpt_nil]
    · intro _ _ hm; simp [State.mx, hf] at hm
  · have hnw : s.walEmpty = false := by simpa using hwe
    simp only [hnw, Bool.false_eq_true, if_false]
    rcases sqliteCheckpoint_cases ns s h.bf_le with ⟨b', hlt, hr⟩ | ⟨_, hr⟩ | hr
    · rw [hr]
      have e : (fullFinish (busyState s b', ⟨1, s.mx, b'⟩)).1 = { busyState s b' with dueFull := true } := by
        simp [fullFinish, busyState, hdue]
      rw [e]
      exact inv_busy h hnw b' hlt true (fun x => absurd x (by simp))
    · rw [hr]
      have e : (fullFinish (pinnedState s, ⟨1, s.mx, s.mx⟩)).1 = { pinnedState s with dueFull := true } := by
        simp [fullFinish, pinnedState, hdue]
      rw [e]
      exact inv_full_pinned h hnw
    · rw [hr]
      have e : (fullFinish (truncState ns s, ⟨0, 0, 0⟩)).1 =
          { truncState ns s with watch := Watch.disarm, base := (truncState ns s).file, segs := [], dueFull := false } := by
        simp [fullFinish]
      rw [e]
      constructor
      · exact closed_nil
      · exact Nat.le_refl _
      · intro _; exact ⟨rfl, rfl, rfl⟩
      · intro _; exact ckpt_nil _
      · intro h0; exact absurd h0 (by simp [Watch.disarm])
      · simp [eff, Watch.disarm, State.mx, truncState]
      · intro _; simp [eff, Watch.disarm, State.rebuilt, State.logical, ckpt_nil, truncState]
      · intro _ _ hm; simp [State.mx, truncState] at hm

/-! ### the step interpreter computes `doCapture` / `doCaptureCloseFail` -/

theorem sqliteCheckpoint_segs (ns : Nat → Nat) (s : State) : (sqliteCheckpoint ns s).1.segs = s.segs := by
  unfold sqliteCheckpoint; split
  · rfl
  · split <;> rfl

/-- the bookkeeping either keeps the segment (no error) or leaves the chain alone (error) -/
theorem captureFinish_shape (pre : Nat) (reset : Bool) (seg : List Frame) (r : State × CkptMeta) :
    ((captureFinish pre reset seg r).2.err = CkErr.none ∧ (captureFinish pre reset seg r).2.seg = some seg ∧
      (captureFinish pre reset seg r).1.segs = r.1.segs ++ [seg]) ∨
    ((captureFinish pre reset seg r).2.err ≠ CkErr.none ∧ (captureFinish pre reset seg r).2.seg = none ∧
      (captureFinish pre reset seg r).1.segs = r.1.segs) := by
  unfold captureFinish
  by_cases h1 : r.2.rc = 0
  · left; simp [branches, List.find?, Cond.holds, applyBranch, h1]
  · by_cases h2 : r.2.moved < r.2.pages
    · right; simp [branches, List.find?, Cond.holds, applyBranch, h1, h2]
    · by_cases h3 : r.2.moved = r.2.pages
      · left; simp [branches, List.find?, Cond.holds, applyBranch, h1, h2, h3]
      · right; simp [branches, List.find?, Cond.holds, h1, h2, h3]

theorem State.segs_append_nil (s : State) : { s with segs := s.segs ++ [] } = s := by
  cases s; simp

/-- the fold over `incSteps` on a non-empty WAL, in closed form: only the checkpoint's result
decides how far the function gets -/
theorem incFold_nonempty (ns : Nat → Nat) (ok : Bool) (s : State) (hnw : s.walEmpty = false) :
    incSteps.foldl (incStep ns ok) { st := s } =
      if (cmCheckpoint ns s).2.1.err ≠ CkErr.none then
        { st := (cmCheckpoint ns s).1, out := (cmCheckpoint ns s).2.1, file := some (cmCheckpoint ns s).2.2,
          closed := false, deferred := true, returned := true }
      else if ok then
        { st := (cmCheckpoint ns s).1, out := (cmCheckpoint ns s).2.1, file := some (cmCheckpoint ns s).2.2,
          closed := true, deferred := true, returned := false }
      else
        { st := { (cmCheckpoint ns s).1 with dueFull := true },
          out := { (cmCheckpoint ns s).2.1 with err := CkErr.closeFailed }, file := some (cmCheckpoint ns s).2.2,
          closed := false, deferred := true, returned := true } := by
  generalize hcm : cmCheckpoint ns s = r
  by_cases he : r.2.1.err ≠ CkErr.none
  · simp [incSteps, List.foldl, incStep, hnw, hcm, he]
  · have he' : r.2.1.err = CkErr.none := by simpa using he
    cases ok <;> simp [incSteps, List.foldl, incStep, hnw, hcm, he']

theorem incFold_empty (ns : Nat → Nat) (ok : Bool) (s : State) (hwe : s.walEmpty = true) :
    incSteps.foldl (incStep ns ok) { st := s } = { st := s, returned := true } := by
  simp [incSteps, List.foldl, incStep, hwe]

/-- `cmCheckpoint` is `doCapture` minus the chain -/
theorem cmCheckpoint_spec (ns : Nat → Nat) (s : State) (hnw : s.walEmpty = false) :
    ((cmCheckpoint ns s).2.1.err = CkErr.none ∧
      doCapture ns s = ({ (cmCheckpoint ns s).1 with segs := (cmCheckpoint ns s).1.segs ++ [(cmCheckpoint ns s).2.2] },
                        { (cmCheckpoint ns s).2.1 with seg := some (cmCheckpoint ns s).2.2 })) ∨
    ((cmCheckpoint ns s).2.1.err ≠ CkErr.none ∧
      doCapture ns s = ((cmCheckpoint ns s).1, { (cmCheckpoint ns s).2.1 with seg := none })) := by
  have hwe : ¬ s.walEmpty = true := by simp [hnw]
  unfold cmCheckpoint doCapture
  rw [if_neg hwe]
  dsimp only
  by_cases hc : committed (s.frames.drop (s.watch.check s.salt).2.1) ≠ s.frames.drop (s.watch.check s.salt).2.1
  · right; rw [if_pos hc, if_pos hc]; exact ⟨by simp, rfl⟩
  · rw [if_neg hc, if_neg hc]
    have hseg := sqliteCheckpoint_segs ns { s with watch := (s.watch.check s.salt).1 }
    generalize hR : captureFinish s.salt (s.watch.check s.salt).2.2 (compact (s.frames.drop (s.watch.check s.salt).2.1))
        (sqliteCheckpoint ns { s with watch := (s.watch.check s.salt).1 }) = R
    have hsh := captureFinish_shape s.salt (s.watch.check s.salt).2.2 (compact (s.frames.drop (s.watch.check s.salt).2.1))
        (sqliteCheckpoint ns { s with watch := (s.watch.check s.salt).1 })
    rw [hR, hseg] at hsh
    obtain ⟨R1, R2⟩ := R
    rcases hsh with ⟨he, hs, hsegs⟩ | ⟨he, hs, hsegs⟩
    · left
      refine ⟨he, ?_⟩
      simp only at he hs hsegs ⊢
      cases R1; cases R2
      simp_all
    · right
      refine ⟨he, ?_⟩
      simp only at he hs hsegs ⊢
      cases R1; cases R2
      simp_all

/-- **the step list computes the attempt**: running `incSteps` (Close succeeding), then the
deferred Cancel, is `doCapture` -/
theorem runInc_ok (ns : Nat → Nat) (s : State) : runInc ns true incSteps s = doCapture ns s := by
  unfold runInc
  by_cases hwe : s.walEmpty = true
  · rw [incFold_empty ns true s hwe]
    cases s; simp_all [doCapture]
  · have hnw : s.walEmpty = false := by simpa using hwe
    rw [incFold_nonempty ns true s hnw]
    rcases cmCheckpoint_spec ns s hnw with ⟨he, hd⟩ | ⟨he, hd⟩
    · rw [hd]; simp [he]
    · rw [hd]; simp [he, State.segs_append_nil]

theorem runInc_closeFail (ns : Nat → Nat) (s : State) : runInc ns false incSteps s = doCaptureCloseFail ns s := by
  unfold runInc doCaptureCloseFail
  by_cases hwe : s.walEmpty = true
  · rw [incFold_empty ns false s hwe]
    cases s; simp_all [doCapture]
  · have hnw : s.walEmpty = false := by simpa using hwe
    rw [incFold_nonempty ns false s hnw]
    have hcs : (cmCheckpoint ns s).1.segs = s.segs := by
      unfold cmCheckpoint; dsimp only; split <;> rfl
    rcases cmCheckpoint_spec ns s hnw with ⟨he, hd⟩ | ⟨he, hd⟩
    · rw [hd]; simp [he, hcs]
    · rw [hd]; simp [he, State.segs_append_nil]

theorem inv_captureCloseFail (ns : Nat → Nat) {s : State} (h : Inv s) (hd : s.dueFull = false) :
    Inv (doCaptureCloseFail ns s).1 := by
  have h' := inv_capture ns h hd
  unfold doCaptureCloseFail
  cases hs : (doCapture ns s).2.seg with
  | none => simpa [hs] using h'
  | some sg =>
    simp only [hs]
    exact ⟨h'.closed, h'.bf_le, h'.empty, h'.filled, h'.salt, h'.eff_le,
      fun hd' => absurd hd' (by simp), fun hd' => absurd hd' (by simp)⟩

/-! ### every reachable state satisfies the invariant -/

theorem inv_next (ns : Nat → Nat) (hns : ∀ x, x < ns x) {s : State} (h : Inv s) (op : Op) :
    Inv (next ns s op) := by
  cases op with
  | write fs =>
    simp only [next]; split
    · exact inv_write ns hns h fs ‹_›
    · exact h
  | rstart id =>
    simp only [next]; split
    · exact h
    · exact inv_readers h _
  | rstop id => exact inv_readers h _
  | capture =>
    simp only [next]; split
    · exact h
    · rw [runInc_ok]; exact inv_capture ns h (by simpa using ‹¬ s.dueFull = true›)
  | captureCloseFails =>
    simp only [next]; split
    · exact h
    · rw [runInc_closeFail]; exact inv_captureCloseFail ns h (by simpa using ‹¬ s.dueFull = true›)
  | full =>
    simp only [next]; split
    · exact inv_full ns h ‹_›
    · exact h
  | needFull =>
    exact ⟨h.closed, h.bf_le, h.empty, h.filled, h.salt, h.eff_le, fun hd => absurd hd (by simp [next]),
      fun hd => absurd hd (by simp [next])⟩

theorem inv_run (ns : Nat → Nat) (hns : ∀ x, x < ns x) {s : State} (h : Inv s) (ops : List Op) :
    Inv (run ns s ops) := by
  induction ops generalizing s with
  | nil => exact h
  | cons op ops ih => exact ih (inv_next ns hns h op)



/-- the state after `Check` -/
def checked (s : State) : State := { s with watch := (s.watch.check s.salt).1 }
/-- the segment a capture writes: the compacted frames from the resume index on -/
def capSeg (s : State) : List Frame := compact (s.frames.drop (s.watch.check s.salt).2.1)

/-- the three outcomes of an incremental attempt on a non-empty WAL -/
theorem doCapture_cases (ns : Nat → Nat) {s : State} (h : Inv s) (hnw : s.walEmpty = false) :
    (∃ b', b' < s.mx ∧ doCapture ns s =
        (busyState (checked s) b', ⟨⟨1, s.mx, b'⟩, (s.watch.check s.salt).2.2, .busy, none⟩)) ∨
    (doCapture ns s =
        (armedState (checked s) (capSeg s), ⟨⟨1, s.mx, s.mx⟩, (s.watch.check s.salt).2.2, .none, some (capSeg s)⟩)) ∨
    (doCapture ns s =
        (truncKept ns (checked s) (capSeg s), ⟨⟨0, 0, 0⟩, (s.watch.check s.salt).2.2, .none, some (capSeg s)⟩)) := by
  have hwe : ¬ s.walEmpty = true := by simp [hnw]
  have hbf : (checked s).backfill ≤ (checked s).mx := h.bf_le
  unfold doCapture
  rw [if_neg hwe]
  dsimp only
  rw [if_neg (by simp [capture_tail_closed h])]
  rcases sqliteCheckpoint_cases ns (checked s) hbf with ⟨b', hlt, hr⟩ | ⟨_, hr⟩ | hr
  · left
    refine ⟨b', hlt, ?_⟩
    have := captureFinish_busy (checked s) (s.watch.check s.salt).2.2 (capSeg s) b' hlt
    rw [← hr] at this
    exact this
  · right; left
    have := captureFinish_pinned (checked s) (s.watch.check s.salt).2.2 (capSeg s)
    rw [← hr] at this
    exact this
  · right; right
    have := captureFinish_trunc ns (checked s) (s.watch.check s.salt).2.2 (capSeg s)
    rw [← hr] at this
    exact this

theorem capSeg_completes {s : State} (h : Inv s) (hd : s.dueFull = false) :
    ckpt (checked s).rebuilt (capSeg s) = s.logical := by
  obtain ⟨hst, heq, _, _⟩ := check_eff s
  have hchain := (inv_check h).chain hd
  rw [heq] at hchain
  unfold capSeg
  rw [ckpt_compact _ (closed_drop h.closed _), hst]
  exact hchain


end RqModel.WalCkpt

/-
C35  Arbitrary bytes on the inter-node port cannot crash a node.

Property theorems only. Models: RqModel/Model/Frame.lean (mux header routing and
the frame reader with an explicit allocation counter) and RqModel/Model/Wire.lean
(per-command statement IR regenerated from cluster/service.go handleConn).
-/
import RqModel.Model.Frame
import RqModel.Lemmas.Frame
import RqModel.Lemmas.Wire
import RqModel.Props.C18
namespace C35
open RqModel RqModel.Frame

/-! ### frame reader: allocation is bounded by what was received -/

/-- additive constant of the bound: the initial buffer or one growth step's slack -/
def K (cfg : Cfg) : Nat := max cfg.initCap cfg.slack

def Inv (cfg : Cfg) (st : RState) : Prop :=
  st.cap ≤ 2 * buffered st + K cfg ∧ buffered st ≤ st.received ∧ st.phase ≠ .crashed

theorem inv_init (cfg : Cfg) : Inv cfg {} := by
  simp [Inv, buffered]

theorem inv_feed (cfg : Cfg) (hinc : cfg.eager = false)
    (hg : ∀ c, cfg.grow c ≤ 2 * c + cfg.slack) (st : RState) (b : Nat)
    (h : Inv cfg st) : Inv cfg (feed cfg st b) := by
  obtain ⟨hcap, hrec, hnc⟩ := h
  have hK1 : cfg.initCap ≤ K cfg := Nat.le_max_left _ _
  have hK2 : cfg.slack ≤ K cfg := Nat.le_max_right _ _
  unfold feed
  cases hp : st.phase with
  | closed => simp only; exact ⟨hcap, hrec, hnc⟩
  | crashed => exact absurd hp hnc
  | header got =>
    simp only
    have hb0 : buffered st = 0 := by simp [buffered, hp]
    rw [hb0] at hcap
    split
    · refine ⟨?_, ?_, ?_⟩ <;> simp [buffered] <;> omega
    · unfold startPayload
      simp only [hinc, Bool.false_eq_true, if_false]
      split
      · refine ⟨?_, ?_, ?_⟩ <;> simp [buffered] <;> omega
      · split
        · refine ⟨?_, ?_, ?_⟩ <;> simp [deliver, buffered]
        · refine ⟨?_, ?_, ?_⟩ <;> simp [buffered] <;> omega
  | payload need buf =>
    simp only
    have hb : buffered st = buf.length := by simp [buffered, hp]
    rw [hb] at hcap hrec
    split
    · refine ⟨?_, ?_, ?_⟩ <;> simp [deliver, buffered]
    · refine ⟨?_, ?_, ?_⟩
      · simp only [buffered, List.length_append, List.length_singleton, hinc, Bool.not_false,
          Bool.true_and]
        split
        · rename_i hfull
          have := hg st.cap
          simp only [ge_iff_le, decide_eq_true_eq] at hfull
          omega
        · omega
      · simp only [buffered, List.length_append, List.length_singleton]; omega
      · simp

theorem inv_feedAll (cfg : Cfg) (hinc : cfg.eager = false)
    (hg : ∀ c, cfg.grow c ≤ 2 * c + cfg.slack) (bs : List Nat) :
    ∀ st, Inv cfg st → Inv cfg (feedAll cfg st bs) := by
  induction bs with
  | nil => intro st h; simpa [feedAll] using h
  | cons b r ih =>
    intro st h
    have : feedAll cfg st (b :: r) = feedAll cfg (feed cfg st b) r := by simp [feedAll]
    rw [this]
    exact ih _ (inv_feed cfg hinc hg st b h)

/-- ∀ byte stream a peer can send (any length, any content, delivered in any
chunking), ∀ growth function obeying the `append` law: at every point the memory
the incremental reader has allocated for the frame being read is at most twice the
payload bytes actually received for that frame plus a constant — in particular at
most `2 * received + K` — whatever length the prefix announces; and the reader never
reaches the `crashed` state. -/
theorem alloc_bounded_by_bytes_received (cfg : Cfg) (hinc : cfg.eager = false)
    (hg : ∀ c, cfg.grow c ≤ 2 * c + cfg.slack) (bs : List Nat) :
    (feedAll cfg {} bs).cap ≤ 2 * buffered (feedAll cfg {} bs) + K cfg ∧
    (feedAll cfg {} bs).cap ≤ 2 * (feedAll cfg {} bs).received + K cfg ∧
    (feedAll cfg {} bs).phase ≠ .crashed := by
  obtain ⟨h1, h2, h3⟩ := inv_feedAll cfg hinc hg bs {} (inv_init cfg)
  exact ⟨h1, by omega, h3⟩

/-- every byte the reader consumes is counted, and nothing else -/
theorem received_le_sent (cfg : Cfg) (bs : List Nat) :
    ∀ st, (feedAll cfg st bs).received ≤ st.received + bs.length := by
  induction bs with
  | nil => intro st; simp [feedAll]
  | cons b r ih =>
    intro st
    have : feedAll cfg st (b :: r) = feedAll cfg (feed cfg st b) r := by simp [feedAll]
    rw [this]
    have h1 := ih (feed cfg st b)
    have h2 : (feed cfg st b).received ≤ st.received + 1 := by
      unfold feed
      cases hp : st.phase with
      | closed => simp
      | crashed => simp
      | header got =>
        simp only
        split
        · simp
        · unfold startPayload
          split <;> split <;> (try split) <;> simp [deliver]
      | payload need buf =>
        simp only
        split <;> simp [deliver]
    simp only [List.length_cons]
    omega

/-! ### well-formed frames are delivered exactly -/

/-- ∀ list of payloads (each of a length the prefix can express and the reader
accepts): feeding the concatenation of their frames to the incremental reader hands
exactly those payloads, in order, to the decoder, and leaves the reader at a frame
boundary holding no buffer. -/
theorem frames_roundtrip (cfg : Cfg) (hinc : cfg.eager = false) (h8 : cfg.lenSize = 8)
    (ps : List (List Nat)) (hps : ∀ p ∈ ps, p.length ≤ cfg.maxLen ∧ p.length < 256 ^ 8) :
    ∀ st : RState, st.phase = .header [] → st.cap = 0 →
      (feedAll cfg st (ps.flatMap encode)).frames = st.frames ++ ps ∧
      (feedAll cfg st (ps.flatMap encode)).phase = .header [] ∧
      (feedAll cfg st (ps.flatMap encode)).cap = 0 := by
  induction ps with
  | nil => intro st hp hc; simp [feedAll, hp, hc]
  | cons p ps ih =>
    intro st hp hc
    have hp1 := hps p (by simp)
    have ih' := ih (fun q hq => hps q (by simp [hq]))
    have hflat : (p :: ps).flatMap encode = leBytes 8 p.length ++ (p ++ ps.flatMap encode) := by
      simp [encode, List.flatMap_cons]
    rw [hflat, feedAll_append, feedAll_append]
    have hhdr := feed_header cfg (leBytes 8 p.length) st [] hp
      (by intro h; have := congrArg List.length h; simp [leBytes_length] at this)
      (by simp [leBytes_length, h8])
    simp only [List.nil_append, leBytes_length, leValue_leBytes 8 p.length hp1.2] at hhdr
    rw [hhdr]
    unfold startPayload
    simp only [hinc, Bool.false_eq_true, if_false]
    have hnot : ¬ p.length > cfg.maxLen := by omega
    simp only [hnot, if_false]
    by_cases h0 : p.length = 0
    · have hpnil : p = [] := List.eq_nil_of_length_eq_zero h0
      subst hpnil
      simp only [List.length_nil, if_true, feedAll, List.foldl_nil]
      have := ih' (deliver { st with received := st.received + 8 } []) rfl rfl
      simp only [feedAll, deliver] at this ⊢
      obtain ⟨h1, h2, h3⟩ := this
      exact ⟨by rw [h1]; simp, h2, h3⟩
    · simp only [h0, if_false]
      have hpne : p ≠ [] := fun h => h0 (by simp [h])
      obtain ⟨q1, q2, q3, _⟩ := feed_payload cfg p
        { st with received := st.received + 8, phase := .payload p.length [], cap := cfg.initCap }
        p.length [] rfl hpne (by simp)
      obtain ⟨h1, h2, h3⟩ := ih' _ q1 q3
      refine ⟨?_, h2, h3⟩
      rw [h1, q2]
      simp

/-- from a fresh connection, with the default incremental configuration -/
theorem frames_roundtrip_fresh (ps : List (List Nat)) (hps : ∀ p ∈ ps, p.length < 2 ^ 63) :
    (feedAll { eager := false } {} (ps.flatMap encode)).frames = ps ∧
    (feedAll { eager := false } {} (ps.flatMap encode)).phase = .header [] := by
  have h := frames_roundtrip { eager := false } rfl rfl ps
    (fun p hp => ⟨by have := hps p hp; show p.length ≤ 2 ^ 63 - 1; omega,
                  by have := hps p hp; omega⟩) {} rfl rfl
  exact ⟨by simpa using h.1, h.2.1⟩

/-- fact obligation: the source reads the payload with the incremental strategy
(the statement that creates the buffer handed to pb.Unmarshal), so `eager = false`
is the configuration that models it; the length prefix is 8 bytes. -/
theorem frame_reader_fact :
    Gen.ClusterCmds.frameAllocIsClientSized = some false ∧
    Gen.ClusterCmds.frameReader = "p, err := io.ReadAll(io.LimitReader(conn, int64(sz)))" ∧
    Gen.ClusterCmds.protoBufferLengthSize = some 8 := by decide

/-- why the fact matters: under the eager strategy (`make([]byte, sz)` before
reading) nine bytes make the node hold a 1 GiB buffer, and a length of 2^63 kills
the process. -/
theorem eager_alloc_witness :
    (feedAll { eager := true } {} (leBytes 8 (2^30))).cap = 2^30 ∧
    (feedAll { eager := true } {} (leBytes 8 (2^30))).received = 8 ∧
    (feedAll { eager := true } {} (leBytes 8 (2^63))).phase = .crashed := by decide +kernel

/-- the same inputs under the incremental strategy -/
example :
    (feedAll { eager := false } {} (leBytes 8 (2^30) ++ [1, 2, 3])).cap = 512 ∧
    (feedAll { eager := false } {} (leBytes 8 (2^63))).phase = .closed ∧
    (feedAll { eager := false } {} (encode [7, 8, 9] ++ encode [] ++ [5])).frames = [[7, 8, 9], []] := by
  decide +kernel

/-- hypotheses of `alloc_bounded_by_bytes_received` are satisfiable: the default configuration -/
example : ∀ c, ({ eager := false } : Cfg).grow c ≤ 2 * c + ({ eager := false } : Cfg).slack := by
  intro c; show 2 * c ≤ 2 * c + 8192; omega

/-! ### mux -/

/-- a connection whose first byte is not a registered header is closed and no
listener sees any of its bytes; a registered one is handed over with exactly the
remaining bytes -/
theorem mux_routes_only_registered (reg : List Nat) (h : Nat) (rest : List Nat) :
    (reg.contains h = false → muxRoute reg (h :: rest) = .closed) ∧
    (reg.contains h = true → muxRoute reg (h :: rest) = .handler h rest) := by
  constructor <;> intro hc <;> simp only [muxRoute, hc] <;> simp

/-! ### commands with a missing payload -/

theorem nil_cases_checked :
    Gen.ClusterCmds.cmds.all (fun c => Wire.checkNilSafe c.body) = true := by decide +kernel

/-- ∀ command case of the regenerated handleConn, ∀ credentials / credential store,
∀ outcomes of every other condition: a command that carries no payload of the
expected kind is never dereferenced in handleConn and never handed to the database
or manager. -/
theorem nil_payload_never_dereferenced (c : Gen.ClusterCmds.Cmd) (hc : c ∈ Gen.ClusterCmds.cmds)
    (env : Wire.Env) (hnil : env .payloadNil = true) :
    Wire.nilSafe (Wire.runCmd env c.body) = true := by
  have h := nil_cases_checked
  rw [List.all_eq_true] at h
  exact Wire.checkNilSafe_sound c.body (h c hc) env hnil

/-- the same for a concrete request against a concrete credential store -/
theorem nil_payload_never_dereferenced_creds (c : Gen.ClusterCmds.Cmd) (hc : c ∈ Gen.ClusterCmds.cmds)
    (store : Option Auth.Store) (u p : String) (voter : Bool) (oq : Nat → Bool) :
    Wire.nilSafe (Wire.runCmd (Wire.envOf store u p true voter oq) c.body) = true :=
  nil_payload_never_dereferenced c hc _ rfl

/-- no state change without passing the permission check (C18's theorem, restated:
a request that is not authorised performs no action at all) -/
theorem no_state_change_without_perm
    (c : Gen.ClusterCmds.Cmd) (hc : c ∈ Gen.ClusterCmds.cmds) (req : Gen.ClusterCmds.BExp)
    (hreq : Wire.requiredOf c.name = some (some req))
    (store : Option Auth.Store) (u p : String) (payloadNil voter : Bool) (oq : Nat → Bool)
    (hden : Wire.authorised (Wire.envOf store u p payloadNil voter oq) req = false) :
    Wire.refusedOK (Wire.runCmd (Wire.envOf store u p payloadNil voter oq) c.body) = true :=
  C18.cluster_no_action_no_data_when_denied c hc req hreq store u p payloadNil voter oq hden

/-! ### no state change when no permission check passes

`no_state_change_without_perm` above is relative to the expectation table, which
declares HIGHWATER_MARK_UPDATE public because rqlite defines no permission for it.
Read literally, the property also demands that a caller for whom NO permission check
passes cannot change the node's state at all. That statement is false of the code:
the highwater-mark update is delivered to the CDC service (which then deletes queued
change events up to the given mark) without any check. It is kept visible here,
proved under the exclusion of that one command, and refuted at a concrete input. -/

/-- full statement (C18.every_state_change_needs_permission_full): whatever the
command, if every permission check fails, nothing is changed -/
def no_unauthenticated_state_change_full : Prop := C18.every_state_change_needs_permission_full

/-- ∀ command case other than HIGHWATER_MARK_UPDATE, ∀ payload, ∀ outcomes of the
other conditions: when every permission check fails, no state-changing action runs,
nothing is streamed and nothing crashes. -/
theorem no_unauthenticated_state_change_partial (c : Gen.ClusterCmds.Cmd) (hc : c ∈ Gen.ClusterCmds.cmds)
    (hx : c.name ≠ "HIGHWATER_MARK_UPDATE") (env : Wire.Env) (h : ∀ p, env (.perm p) = false) :
    Wire.noMutation (Wire.runCmd env c.body) = true :=
  C18.every_state_change_needs_permission_partial c hc hx env h

/-- witness: a highwater-mark update with a payload, no credentials accepted for
anything, the update channel registered and not full: the value is sent to the CDC
service. -/
theorem no_unauthenticated_state_change_witness : ¬ no_unauthenticated_state_change_full :=
  C18.every_state_change_needs_permission_witness

/-! ### lengths the reader refuses, and what it does not model -/

/-- ∀ reader state at the end of a length prefix: a length that does not fit an int64
closes the connection without allocating anything (incremental strategy) -/
theorem oversize_length_closes (cfg : Cfg) (hinc : cfg.eager = false) (st : RState) (sz : Nat)
    (h : sz > cfg.maxLen) :
    (startPayload cfg st sz).phase = .closed ∧ (startPayload cfg st sz).cap = st.cap := by
  unfold startPayload
  simp [hinc, h]

/-- once closed, further bytes change nothing -/
theorem closed_is_final (cfg : Cfg) (st : RState) (hc : st.phase = .closed) (bs : List Nat) :
    feedAll cfg st bs = st := by
  induction bs with
  | nil => rfl
  | cons b r ih =>
    have : feed cfg st b = st := by unfold feed; simp [hc]
    simp only [feedAll, List.foldl_cons, this]
    exact ih

end C35

/-
C32  Membership changes keep node IDs and addresses unique.

Model: RqModel/Model/Membership.lean — Store.Join / Remove / Notify / reaping on top
of raft's nextConfiguration + checkConfiguration (transcribed; the RaftSem dependency
is that raft installs no configuration that did not come out of nextConfiguration or
BootstrapCluster). Lemmas: RqModel/Lemmas/Membership.lean.

`role_as_requested` was FALSE of the unchanged tree (a re-join with the same id and
address but another role was ignored); `role_old_witness` keeps that visible. After
the `fix:` commit it is proved for every configuration and request.
-/
import RqModel.Lemmas.Membership
import RqModel.Gen.ReadPath
namespace C32
open RqModel.Membership

/-! ### raft's check is exactly well-formedness (dependency, transcribed) -/

/-- `checkConfiguration` accepts a configuration iff ids are pairwise distinct,
addresses are pairwise distinct, no id or address is empty and there is a voter -/
theorem check_iff (c : Config) : checkConfiguration c = true ↔ WellFormed c :=
  ⟨check_sound c, check_complete c⟩

/-! ### every operation keeps the configuration unchanged or well-formed -/

theorem join_good (e : Env) (c : Config) (id addr : String) (v : Bool) :
    Good c (storeJoin e c id addr v).1 := by
  unfold storeJoin
  split
  · exact Good.refl _
  split
  · exact Good.refl _
  split
  · exact Good.refl _
  split
  · rename_i r h
    exact (joinLoop_good id addr v c c).1 r.1 r.2 h
  · rename_i cur h
    have hg := (joinLoop_good id addr v c c).2 cur h
    unfold finishJoin
    cases hn : nextConfiguration cur (addChange id addr v) with
    | none => exact hg
    | some c' => exact Or.inr (next_some _ _ _ hn).2

theorem remove_good (e : Env) (c : Config) (id : String) : Good c (storeRemove e c id).1 := by
  unfold storeRemove
  split
  · exact Good.refl _
  split
  · exact Good.refl _
  split
  · exact Good.refl _
  · rename_i c' hn
    exact Or.inr (next_some _ _ _ hn).2

theorem reap_good (e : Env) (c : Config) (id : String) (d t r : Int) : Good c (storeReap e c id d t r).1 := by
  unfold storeReap
  split
  · exact remove_good e c id
  · exact Good.refl _

theorem bootstrap_good (ex : Bool) (self : String) (servers c' : Config)
    (h : bootstrap ex self servers = some c') : checkConfiguration c' = true := by
  unfold bootstrap at h
  split at h
  · cases h
  split at h
  · cases h
  rename_i hc
  split at h
  · cases h
  · cases h; simpa using hc

theorem step_good (c : Config) (op : Op) : Good c (stepOp c op) := by
  cases op with
  | join e id addr v => exact join_good e c id addr v
  | remove e id => exact remove_good e c id
  | reap e id d t r => exact reap_good e c id d t r
  | bootstrap ex self servers =>
    simp only [stepOp]
    split
    · cases hb : bootstrap ex self servers with
      | none => exact Good.refl _
      | some c' => exact Or.inr (bootstrap_good _ _ _ _ hb)
    · exact Good.refl _
  | notify op hl rs ex self ns id addr =>
    simp only [stepOp]
    unfold storeNotify
    split
    · exact Good.refl _
    split
    · exact Good.refl _
    split
    · exact Good.refl _
    split
    · exact Good.refl _
    simp only
    split
    · exact Good.refl _
    · split
      · rename_i c' hb
        exact Or.inr (bootstrap_good _ _ _ _ hb)
      · exact Good.refl _

/-- the invariant: the configuration is empty (node not bootstrapped) or well-formed -/
def Valid (c : Config) : Prop := c = [] ∨ WellFormed c

theorem valid_step (c : Config) (op : Op) (h : Valid c) : Valid (stepOp c op) := by
  rcases step_good c op with he | hc
  · rw [he]; exact h
  · exact Or.inr (check_sound _ hc)

theorem valid_run (c : Config) (ops : List Op) (h : Valid c) : Valid (runOps c ops) := by
  induction ops generalizing c with
  | nil => exact h
  | cons op ops ih => exact ih _ (valid_step c op h)

/-- **Uniqueness.** After ANY sequence of bootstraps, discovery-driven `Notify` calls (with any
notify bookkeeping), joins (new nodes, re-joins with a
new address, new ids on used addresses, used ids on new addresses, on leaders and
non-leaders, resolvable or not), removals and reaping decisions, starting from a node
without configuration, no two entries of the configuration share an id and no two
share an address. -/
theorem ids_and_addrs_unique (ops : List Op) : Unique (runOps [] ops) := by
  rcases valid_run [] ops (Or.inl rfl) with h | h
  · rw [h]; exact ⟨List.nodup_nil, List.nodup_nil⟩
  · exact h.unique

/-- ... and the cluster never loses its last voter nor gains an empty id/address -/
theorem configuration_well_formed (ops : List Op) :
    runOps [] ops = [] ∨ WellFormed (runOps [] ops) := valid_run [] ops (Or.inl rfl)

/-! ### a node has the role it asked for -/

/-- **Role.** If `Store.Join(id, addr, voter)` reports success — it joined the node, or it
ignored the request because the node is already a member — then the resulting
configuration holds an entry with that id, that address and exactly the requested
suffrage (and, by uniqueness, no other entry with that id or address). For every
unique configuration and every request. -/
theorem role_as_requested (e : Env) (c : Config) (id addr : String) (voter : Bool)
    (hu : Unique c) (c' : Config) (o : JoinOut)
    (h : storeJoin e c id addr voter = (c', o)) (hok : o = .ok ∨ o = .ignored) :
    ∃ s ∈ c', s.id = id ∧ s.addr = addr ∧ (s.suf = .voter ↔ voter = true) := by
  unfold storeJoin at h
  split at h
  · cases h; rcases hok with h | h <;> cases h
  split at h
  · cases h; rcases hok with h | h <;> cases h
  split at h
  · cases h; rcases hok with h | h <;> cases h
  split at h
  · -- early return of the loop
    rename_i r hl
    cases h
    rcases hok with ho | ho
    · -- the loop never returns `ok`
      exfalso
      have : ∀ (snap cur : Config) r', joinLoop id addr voter snap cur = .inl (r', JoinOut.ok) → False := by
        intro snap
        induction snap with
        | nil => intro cur r' h; simp [joinLoop] at h
        | cons srv rest ih =>
          intro cur r' h
          unfold joinLoop at h
          split at h
          · split at h
            · cases h
            · split at h
              · cases h
              · exact ih _ _ h
          · exact ih _ _ h
      exact this c c c' (by rw [hl, ← ho])
    · -- ignored: the very same node with the requested role is in the snapshot; nothing
      -- before it matches (uniqueness), so nothing was removed
      have hl' : joinLoop id addr voter c c = .inl (c', .ignored) := by rw [hl, ← ho]
      obtain ⟨srv, hs, hid, haddr, hrole⟩ := joinLoop_ignored id addr voter c c c' hl'
      obtain ⟨pre, post, hsplit⟩ := List.append_of_mem hs
      have hpre : ∀ s ∈ pre, ¬ (s.id = id ∨ s.addr = addr) := by
        intro s hsp hm
        rw [hsplit] at hu
        obtain ⟨hn1, hn2⟩ := hu
        simp only [ids, addrs, List.map_append, List.map_cons] at hn1 hn2
        rcases hm with hm | hm
        · have := (List.nodup_append.1 hn1).2.2 s.id (List.mem_map.2 ⟨s, hsp, rfl⟩) srv.id (by simp)
          exact this (by rw [hm, hid])
        · have := (List.nodup_append.1 hn2).2.2 s.addr (List.mem_map.2 ⟨s, hsp, rfl⟩) srv.addr (by simp)
          exact this (by rw [hm, haddr])
      have hgen : ∀ cur, joinLoop id addr voter (pre ++ srv :: post) cur = .inl (cur, .ignored) := by
        intro cur
        rw [joinLoop_skip_prefix id addr voter pre (srv :: post) cur hpre]
        simp [joinLoop, hid, haddr, hrole]
      have hrun : joinLoop id addr voter c c = .inl (c, .ignored) := by
        have := hgen c
        rw [← hsplit] at this
        exact this
      rw [hrun] at hl'
      cases hl'
      refine ⟨srv, hs, hid, haddr, ?_⟩
      cases voter <;> simpa using hrole
  · -- the loop ran to completion, then AddVoter / AddNonvoter
    rename_i cur hl
    unfold finishJoin at h
    cases hn : nextConfiguration cur (addChange id addr voter) with
    | none => rw [hn] at h; cases h; rcases hok with h | h <;> cases h
    | some cnew =>
      rw [hn] at h
      cases h
      obtain ⟨happ, _⟩ := next_some _ _ _ hn
      cases voter with
      | true =>
        simp only [addChange, if_true] at happ
        obtain ⟨s, hs, h1, h2, h3⟩ := addVoterGo_spec id addr cur
        refine ⟨s, ?_, h1, h2, by simp [h3]⟩
        rw [happ]; exact hs
      | false =>
        simp only [addChange, Bool.false_eq_true, if_false] at happ
        have hab : id ∉ ids cur :=
          joinLoop_inr_id_absent id addr false c c cur hl hu.1
            (fun hm => by
              obtain ⟨s, hs, hse⟩ := List.mem_map.1 hm
              exact ⟨s, hs, hse⟩)
        refine ⟨⟨id, addr, .nonvoter⟩, ?_, rfl, rfl, by simp⟩
        rw [happ]
        simp [applyChange, addNonvoterGo_none_of_absent id addr cur hab]

/-- **Same node, new address.** In a well-formed configuration, a member that re-joins
with an address nobody uses is removed and added again: the call succeeds and the
result is the old configuration without its old entry plus ONE entry with the new
address and the requested role (provided another voter remains while it is out). -/
theorem rejoin_new_address (c : Config) (hwf : WellFormed c) (s : Server) (hs : s ∈ c)
    (a' : String) (hnew : a' ∉ addrs c) (ha' : a' ≠ "") (v : Bool)
    (hvoter : ∃ t ∈ c, t.suf = .voter ∧ t.id ≠ s.id) :
    storeJoin {} c s.id a' v = (removeGo s.id c ++ [⟨s.id, a', roleOf v⟩], .ok) := by
  obtain ⟨pre, post, hsplit⟩ := List.append_of_mem hs
  have hu := hwf.unique
  -- nobody else has this id, nobody has this address
  have hother : ∀ t ∈ c, t ≠ s → ¬ (t.id = s.id ∨ t.addr = a') := by
    intro t ht hne hm
    rcases hm with hm | hm
    · -- two entries with the same id
      rw [hsplit] at hu ht
      have hn := hu.1
      simp only [ids, List.map_append, List.map_cons] at hn
      rcases List.mem_append.1 ht with hp | hp
      · exact (List.nodup_append.1 hn).2.2 t.id (List.mem_map.2 ⟨t, hp, rfl⟩) s.id (by simp) hm
      · rcases List.mem_cons.1 hp with he | hp
        · exact hne he
        · have := (List.nodup_cons.1 (List.nodup_append.1 hn).2.1).1
          exact this (by rw [← hm]; exact List.mem_map.2 ⟨t, hp, rfl⟩)
    · exact hnew (by rw [← hm]; exact List.mem_map.2 ⟨t, ht, rfl⟩)
  have hpre : ∀ t ∈ pre, ¬ (t.id = s.id ∨ t.addr = a') := by
    intro t ht
    apply hother t (by rw [hsplit]; simp [ht])
    intro he; subst he
    rw [hsplit] at hu
    have hn := hu.1
    simp only [ids, List.map_append, List.map_cons] at hn
    exact (List.nodup_append.1 hn).2.2 t.id (List.mem_map.2 ⟨t, ht, rfl⟩) t.id (by simp) rfl
  have hpost : ∀ t ∈ post, ¬ (t.id = s.id ∨ t.addr = a') := by
    intro t ht
    apply hother t (by rw [hsplit]; simp [ht])
    intro he; subst he
    rw [hsplit] at hu
    have hn := hu.1
    simp only [ids, List.map_append, List.map_cons] at hn
    exact (List.nodup_cons.1 (List.nodup_append.1 hn).2.1).1 (List.mem_map.2 ⟨t, ht, rfl⟩)
  have hsaddr : s.addr ≠ a' := fun e => hnew (by rw [← e]; exact List.mem_map.2 ⟨s, hs, rfl⟩)
  -- the removal is accepted
  have hwf1 : WellFormed (removeGo s.id c) := by
    refine ⟨unique_sublist (removeGo_sublist _ _) hu, ?_, ?_⟩
    · intro t ht; exact hwf.nonempty_fields t ((removeGo_sublist _ _).subset ht)
    · obtain ⟨t, ht, htv, hne⟩ := hvoter
      exact ⟨t, removeGo_mem_of_ne _ _ _ ht hne, htv⟩
  have hrm : nextConfiguration c (.removeServer s.id) = some (removeGo s.id c) := by
    simp [nextConfiguration, applyChange, check_complete _ hwf1]
  have hab : s.id ∉ ids (removeGo s.id c) := removeGo_not_mem _ _ hu.1
  -- the add is accepted
  have hwf2 : WellFormed (removeGo s.id c ++ [⟨s.id, a', roleOf v⟩]) := by
    refine ⟨⟨?_, ?_⟩, ?_, ?_⟩
    · simp only [ids, List.map_append, List.map_cons, List.map_nil]
      rw [List.nodup_append]
      refine ⟨hwf1.unique.1, by simp, ?_⟩
      intro x hx y hy
      simp only [List.mem_singleton] at hy
      subst hy
      intro e; subst e; exact hab hx
    · simp only [addrs, List.map_append, List.map_cons, List.map_nil]
      rw [List.nodup_append]
      refine ⟨hwf1.unique.2, by simp, ?_⟩
      intro x hx y hy
      simp only [List.mem_singleton] at hy
      subst hy
      intro e; subst e
      exact hnew ((addrs_sublist (removeGo_sublist _ _)).subset hx)
    · intro t ht
      rcases List.mem_append.1 ht with h | h
      · exact hwf1.nonempty_fields t h
      · simp only [List.mem_singleton] at h
        subst h
        exact ⟨(hwf.nonempty_fields s hs).1, ha'⟩
    · obtain ⟨t, ht, htv⟩ := hwf1.has_voter
      exact ⟨t, by simp [ht], htv⟩
  have hloop : joinLoop s.id a' v c c = .inr (removeGo s.id c) := by
    have h1 : ∀ cur, joinLoop s.id a' v (pre ++ s :: post) cur = joinLoop s.id a' v (s :: post) cur :=
      fun cur => joinLoop_skip_prefix s.id a' v pre (s :: post) cur hpre
    have h2 := h1 c
    rw [← hsplit] at h2
    rw [h2]
    simp only [joinLoop, true_or, if_true, hsaddr, false_and, if_false, hrm]
    exact joinLoop_nomatch s.id a' v post _ hpost
  unfold storeJoin
  simp only [Bool.not_true, Bool.false_eq_true, if_false, hloop, finishJoin, nextConfiguration,
    applyChange_add_absent _ _ _ _ hab, check_complete _ hwf2, if_true]

/-- before the `fix:` commit: a voter re-joining with its own id and address as a
non-voter was told "ok" and stayed a voter (and vice versa) -/
theorem role_old_witness :
    let c : Config := [⟨"n0", "a0", .voter⟩, ⟨"n1", "a1", .voter⟩, ⟨"n2", "a2", .nonvoter⟩]
    storeJoinOld {} c "n1" "a1" false = (c, .ignored) ∧
    storeJoinOld {} c "n2" "a2" true = (c, .ignored) ∧
    storeJoin {} c "n1" "a1" false = ([⟨"n0", "a0", .voter⟩, ⟨"n2", "a2", .nonvoter⟩, ⟨"n1", "a1", .nonvoter⟩], .ok) ∧
    storeJoin {} c "n2" "a2" true = ([⟨"n0", "a0", .voter⟩, ⟨"n1", "a1", .voter⟩, ⟨"n2", "a2", .voter⟩], .ok) := by
  decide

/-- **Why `Store.Join` removes first.** raft's AddNonvoter on a server that is currently a VOTER
only rewrites its address and leaves the suffrage (transcribed in `addNonvoterGo`). Without
the removal step (`finishJoin` applied directly to the configuration), a voter that re-joins
on a new address asking to be a non-voter is reported as joined and stays a voter; with the
loop of `Store.Join` it gets the role it asked for. -/
theorem role_needs_remove_witness :
    let c : Config := [⟨"n0", "a0", .voter⟩, ⟨"n1", "a1", .voter⟩, ⟨"n2", "a2", .voter⟩]
    finishJoin c "n1" "b1" false = ([⟨"n0", "a0", .voter⟩, ⟨"n1", "b1", .voter⟩, ⟨"n2", "a2", .voter⟩], .ok) ∧
    storeJoin {} c "n1" "b1" false = ([⟨"n0", "a0", .voter⟩, ⟨"n2", "a2", .voter⟩, ⟨"n1", "b1", .nonvoter⟩], .ok) ∧
    -- the other direction needs no removal: AddVoter promotes in place
    finishJoin [⟨"n0", "a0", .voter⟩, ⟨"n1", "a1", .nonvoter⟩] "n1" "b1" true =
      ([⟨"n0", "a0", .voter⟩, ⟨"n1", "b1", .voter⟩], .ok) := by decide

/-! ### reaping -/

/-- **Reaping.** The reap branch removes a node only if that node is a member, the
timeout configured for ITS role is enabled (> 0) and the time since its last contact
exceeds that timeout. -/
theorem reaped_only_after_timeout (c : Config) (id : String) (dur rt rro : Int)
    (h : reapDecision c id dur rt rro = true) :
    ∃ s ∈ c, s.id = id ∧
      ((s.suf = .nonvoter ∧ rro > 0 ∧ dur > rro) ∨ (s.suf = .voter ∧ rt > 0 ∧ dur > rt)) := by
  unfold reapDecision isReadReplica at h
  by_cases hid : id = ""
  · simp [hid] at h
  · simp only [hid, if_false] at h
    cases hf : c.find? (fun s => decide (s.id = id)) with
    | none => simp [hf] at h
    | some s =>
      simp only [hf] at h
      have hmem := List.mem_of_find?_eq_some hf
      have hsid : s.id = id := by simpa using List.find?_some hf
      refine ⟨s, hmem, hsid, ?_⟩
      cases hs : s.suf <;> simp [hs] at h ⊢ <;> exact h

/-- a reaping decision changes nothing, or removes exactly the failing node -/
theorem reap_touches_only_that_node (e : Env) (c : Config) (id : String) (dur rt rro : Int) :
    ∀ s ∈ c, s.id ≠ id → s ∈ (storeReap e c id dur rt rro).1 := by
  intro s hs hne
  unfold storeReap
  split
  · unfold storeRemove
    split
    · exact hs
    split
    · exact hs
    split
    · exact hs
    · rename_i c' hn
      rw [(next_some _ _ _ hn).1]
      exact removeGo_mem_of_ne id c s hs hne
  · exact hs

/-- (unfolding lemma) without a positive decision the configuration is untouched -/
theorem no_reap_without_decision (e : Env) (c : Config) (id : String) (dur rt rro : Int)
    (h : reapDecision c id dur rt rro = false) : (storeReap e c id dur rt rro).1 = c := by
  simp [storeReap, h]

/-! ### frame and persistence of roles; Notify -/

theorem addVoterGo_keeps (id addr : String) (c : Config) (t : Server) (ht : t ∈ c) (hne : t.id ≠ id) :
    t ∈ (addVoterGo id addr c).getD (c ++ [⟨id, addr, .voter⟩]) := by
  induction c with
  | nil => simp at ht
  | cons x rest ih =>
    unfold addVoterGo
    by_cases hx : x.id = id
    · simp only [hx, if_true, Option.getD_some]
      rcases List.mem_cons.1 ht with rfl | h
      · exact absurd hx hne
      · exact List.mem_cons_of_mem _ h
    · simp only [hx, if_false]
      cases hg : addVoterGo id addr rest with
      | none =>
        simp only [Option.map_none, Option.getD_none]
        exact List.mem_append_left _ ht
      | some r =>
        simp only [Option.map_some, Option.getD_some]
        rcases List.mem_cons.1 ht with rfl | h
        · exact List.mem_cons_self ..
        · have := ih h
          rw [hg] at this
          exact List.mem_cons_of_mem _ (by simpa using this)

theorem addNonvoterGo_keeps (id addr : String) (c : Config) (t : Server) (ht : t ∈ c) (hne : t.id ≠ id) :
    t ∈ (addNonvoterGo id addr c).getD (c ++ [⟨id, addr, .nonvoter⟩]) := by
  induction c with
  | nil => simp at ht
  | cons x rest ih =>
    unfold addNonvoterGo
    by_cases hx : x.id = id
    · simp only [hx, if_true, Option.getD_some]
      rcases List.mem_cons.1 ht with rfl | h
      · exact absurd hx hne
      · exact List.mem_cons_of_mem _ h
    · simp only [hx, if_false]
      cases hg : addNonvoterGo id addr rest with
      | none =>
        simp only [Option.map_none, Option.getD_none]
        exact List.mem_append_left _ ht
      | some r =>
        simp only [Option.map_some, Option.getD_some]
        rcases List.mem_cons.1 ht with rfl | h
        · exact List.mem_cons_self ..
        · have := ih h
          rw [hg] at this
          exact List.mem_cons_of_mem _ (by simpa using this)

theorem applyChange_keeps (c : Config) (ch : Change) (t : Server) (ht : t ∈ c)
    (hne : ∀ id, (ch = .removeServer id ∨ (∃ a, ch = .addVoter id a) ∨ ∃ a, ch = .addNonvoter id a) → t.id ≠ id) :
    t ∈ applyChange c ch := by
  cases ch with
  | addVoter id a => exact addVoterGo_keeps id a c t ht (hne id (Or.inr (Or.inl ⟨a, rfl⟩)))
  | addNonvoter id a => exact addNonvoterGo_keeps id a c t ht (hne id (Or.inr (Or.inr ⟨a, rfl⟩)))
  | removeServer id => exact removeGo_mem_of_ne id c t ht (hne id (Or.inl rfl))

theorem joinLoop_keeps (id addr : String) (v : Bool) (snap cur : Config) (t : Server) (ht : t ∈ cur) (hne : t.id ≠ id) :
    (∀ r o, joinLoop id addr v snap cur = .inl (r, o) → t ∈ r) ∧
    (∀ r, joinLoop id addr v snap cur = .inr r → t ∈ r) := by
  induction snap generalizing cur with
  | nil => constructor <;> intro r <;> simp [joinLoop] <;> intros <;> simp_all
  | cons srv rest ih =>
    unfold joinLoop
    by_cases hm : srv.id = id ∨ srv.addr = addr
    · simp only [hm, if_true]
      by_cases hi : srv.addr = addr ∧ srv.id = id ∧ decide (srv.suf = .voter) = v
      · simp only [hi, and_self, if_true]
        constructor
        · intro r o h; cases h; exact ht
        · intro r h; cases h
      · simp only [hi, if_false]
        cases hn : nextConfiguration cur (.removeServer id) with
        | none =>
          constructor
          · intro r o h; cases h; exact ht
          · intro r h; cases h
        | some c' =>
          have hc' : t ∈ c' := by
            rw [(next_some _ _ _ hn).1]; exact removeGo_mem_of_ne id cur t ht hne
          exact ih c' hc'
    · simp only [hm, if_false]
      exact ih cur ht

/-- **Frame.** A Join for node `id` — whatever its outcome — leaves the entry (address AND role)
of every other node untouched. -/
theorem join_keeps_others (e : Env) (c : Config) (id addr : String) (v : Bool) (t : Server)
    (ht : t ∈ c) (hne : t.id ≠ id) : t ∈ (storeJoin e c id addr v).1 := by
  unfold storeJoin
  split
  · exact ht
  split
  · exact ht
  split
  · exact ht
  split
  · rename_i r h
    exact (joinLoop_keeps id addr v c c t ht hne).1 r.1 r.2 h
  · rename_i cur h
    have hcur := (joinLoop_keeps id addr v c c t ht hne).2 cur h
    unfold finishJoin
    cases hn : nextConfiguration cur (addChange id addr v) with
    | none => exact hcur
    | some c' =>
      rw [(next_some _ _ _ hn).1]
      cases v
      · exact addNonvoterGo_keeps id addr cur t hcur hne
      · exact addVoterGo_keeps id addr cur t hcur hne

theorem remove_keeps_others (e : Env) (c : Config) (id : String) (t : Server)
    (ht : t ∈ c) (hne : t.id ≠ id) : t ∈ (storeRemove e c id).1 := by
  unfold storeRemove
  split
  · exact ht
  split
  · exact ht
  split
  · exact ht
  · rename_i c' hn
    rw [(next_some _ _ _ hn).1]; exact removeGo_mem_of_ne id c t ht hne

/-- the node id an operation is about -/
def opTarget : Op → Option String
  | .join _ id _ _ => some id
  | .remove _ id => some id
  | .reap _ id _ _ _ => some id
  | .bootstrap _ _ _ => none
  | .notify _ _ _ _ _ _ _ _ => none

/-- **The role persists.** Once a node's entry (id, address, role) is in the configuration, it
stays exactly as it is through ANY later sequence of joins, removals, reaping decisions and
bootstrap attempts that are about OTHER node ids. -/
theorem role_persists (c : Config) (ops : List Op) (t : Server) (ht : t ∈ c)
    (hother : ∀ op ∈ ops, opTarget op ≠ some t.id) : t ∈ runOps c ops := by
  induction ops generalizing c with
  | nil => exact ht
  | cons op ops ih =>
    have hop := hother op (by simp)
    have hrest : ∀ op' ∈ ops, opTarget op' ≠ some t.id := fun op' h => hother op' (by simp [h])
    apply ih _ _ hrest
    cases op with
    | join e id addr v =>
      exact join_keeps_others e c id addr v t ht (fun h => hop (by simp [opTarget, h]))
    | remove e id =>
      exact remove_keeps_others e c id t ht (fun h => hop (by simp [opTarget, h]))
    | reap e id d r ro =>
      exact reap_touches_only_that_node e c id d r ro t ht (fun h => hop (by simp [opTarget, h]))
    | bootstrap ex self servers =>
      simp only [stepOp]
      have : c.isEmpty = false := by cases c <;> simp_all
      simp [this]; exact ht
    | notify op hl rs ex self ns id addr =>
      -- a node that has a configuration cannot be bootstrapped again
      have hne : c.isEmpty = false := by cases c <;> simp_all
      simp only [stepOp, hne, Bool.not_false, Bool.or_true]
      unfold storeNotify
      split
      · exact ht
      split
      · exact ht
      split
      · exact ht
      split
      · exact ht
      simp only
      split
      · exact ht
      · have : bootstrap true self (List.map (fun p => ({ id := p.1, addr := p.2, suf := Suffrage.voter } : Server))
            (ns.notifying ++ [(id, addr)])) = none := by
          unfold bootstrap; split
          · rfl
          · split
            · rfl
            · rfl
        simp only [this]
        exact ht

/-- **Notify-driven bootstrap** keeps the configuration empty or well-formed, and a repeated
notification from the same id changes nothing. -/
theorem notify_valid (opened hasLeader resolvable existing : Bool) (self : String) (ns : NotifyState)
    (c : Config) (id addr : String) (hv : Valid c) :
    Valid (storeNotify opened hasLeader resolvable existing self ns c id addr).2.1 := by
  unfold storeNotify
  split
  · exact hv
  split
  · exact hv
  split
  · exact hv
  split
  · exact hv
  simp only
  split
  · exact hv
  · split
    · rename_i c' hb
      exact Or.inr (check_sound _ (bootstrap_good _ _ _ _ hb))
    · exact hv

theorem notify_idempotent (hasLeader resolvable existing : Bool) (self : String) (ns : NotifyState)
    (c : Config) (id addr : String) (hin : ns.notifying.any (fun p => p.1 = id) = true) :
    storeNotify true hasLeader resolvable existing self ns c id addr = (ns, c, .noop) := by
  unfold storeNotify
  simp only [Bool.not_true, Bool.false_eq_true, if_false]
  split
  · rfl
  · simp_all

/-- the raft dependency whose `nextConfiguration` / `checkConfiguration` are transcribed is the
version this tree builds against (regenerated from go.mod) -/
theorem raft_version_pinned : RqModel.Gen.ReadPath.raftVersion = "v1.7.3" := by decide

/-! ### non-vacuity -/

-- same node, new address: the old entry is replaced, not duplicated
example :
    storeJoin {} [⟨"n0", "a0", .voter⟩, ⟨"n1", "a1", .voter⟩] "n1" "b1" true =
      ([⟨"n0", "a0", .voter⟩, ⟨"n1", "b1", .voter⟩], .ok) := by decide

-- a new id on a used address is refused by raft's check (after a no-op removal)
example :
    storeJoin {} [⟨"n0", "a0", .voter⟩, ⟨"n1", "a1", .voter⟩] "x" "a1" true =
      ([⟨"n0", "a0", .voter⟩, ⟨"n1", "a1", .voter⟩], .errAdd) := by decide

-- a node re-joining with a new address that another member uses is removed and not re-added
example :
    storeJoin {} [⟨"n0", "a0", .voter⟩, ⟨"n1", "a1", .voter⟩, ⟨"n2", "a2", .voter⟩] "n1" "a2" true =
      ([⟨"n0", "a0", .voter⟩, ⟨"n2", "a2", .voter⟩], .errAdd) := by decide

-- the last voter cannot be removed
example : storeRemove {} [⟨"n0", "a0", .voter⟩, ⟨"n1", "a1", .nonvoter⟩] "n0" =
    ([⟨"n0", "a0", .voter⟩, ⟨"n1", "a1", .nonvoter⟩], .err) := by decide

-- reaping: a non-voter silent for 6 minutes with timeouts 10 min / 5 min goes, a voter stays
example :
    let c : Config := [⟨"n0", "a0", .voter⟩, ⟨"n1", "a1", .voter⟩, ⟨"n2", "a2", .nonvoter⟩]
    reapDecision c "n2" 360000000000 600000000000 300000000000 = true ∧
    reapDecision c "n1" 360000000000 600000000000 300000000000 = false ∧
    reapDecision c "n1" 360000000000 0 300000000000 = false := by decide

example : Unique (runOps [] [.bootstrap false "n0" [⟨"n0", "a0", .voter⟩], .join {} "n1" "a1" true,
    .join {} "n1" "b1" false, .join {} "x" "a0" true, .remove {} "n0"]) := ids_and_addrs_unique _

end C32

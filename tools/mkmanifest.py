#!/usr/bin/env python3
"""Regenerate MANIFEST.json from checks/*.json (one file per claimed property) and
tools/not_applicable.json. Keeps MANIFEST.json valid at all times."""
import glob, json, os
root = os.path.join(os.path.dirname(os.path.abspath(__file__)), "..")
checks = []
hold_path = os.path.join(root, "tools", "hold.json")
hold = json.load(open(hold_path)) if os.path.exists(hold_path) else {}
for p in sorted(glob.glob(os.path.join(root, "checks", "C*.json"))):
    c = json.load(open(p))
    cid = c["id"]
    if cid in hold:
        continue
    if c.get("technique", "wip") == "wip" or not c.get("required_theorems"):
        hold[cid] = "work in progress (no property theorems registered yet)"
        continue
    checks.append({
        "property_id": cid,
        "quick_cmd": "./check %s --tier quick" % cid,
        "thorough_cmd": "./check %s --tier thorough" % cid,
        "evidence_file": "/verif/evidence/%s.json" % cid,
        "replay_cmd_template": "./check %s --replay {path}" % cid,
        "engine": "lean4-model+correspondence",
        "level_claimed": {"category": "proof", "text": c["level_text"], "design_ref": c.get("design_ref", "DESIGN.md section 6")},
        "level_note": c["level_note"],
        "technique": c["technique"],
    })
claimed = {c["property_id"] for c in checks}
na_path = os.path.join(root, "tools", "not_applicable.json")
na = json.load(open(na_path)) if os.path.exists(na_path) else {}
props = [json.loads(l)["id"] for l in open(os.path.join(root, "properties.jsonl"))]
not_app = []
for pid in props:
    if pid not in claimed:
        if pid in hold:
            not_app.append({"property_id": pid, "reason": "check built but held back from the manifest: " + hold[pid]})
            continue
        not_app.append({"property_id": pid, "reason": na.get(pid, "not yet covered by a check (work in progress; see DESIGN.md section 6 for the planned model)")})
hooks = json.load(open(os.path.join(root, "tools", "hooks.json")))
m = {
    "version": 1,
    "setup_cmd": "./setup.sh",
    "hooks": hooks,
    "engines": [
        {"name": "lean4-model+correspondence", "path": "/verif/check",
         "serves_properties": sorted(claimed),
         "kind_free_text": "Lean 4 executable models + property theorems (lean/RqModel), facts regenerated from /repo by a go/ast translator (harness/extract), and differential correspondence runs of the compiled model driver rqdrv against the real Go code added by go test -overlay"}
    ],
    "checks": checks,
    "notes": "All checks go through ./check <ID>; per-property configuration in checks/<ID>.json; known findings (and fixed entries naming the /repo fix: commits) in known_findings.json and known_findings.d/<ID>.json; seeded changes and the detection matrix in seeded/; design, trusted base and limits in DESIGN.md.",
    "not_applicable": not_app,
}
json.dump(m, open(os.path.join(root, "MANIFEST.json"), "w"), indent=1)
print("MANIFEST.json: %d checks, %d not claimed" % (len(checks), len(not_app)))

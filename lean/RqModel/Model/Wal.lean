/-
Byte-level model of db/wal (C05): reader.go (header / frame parsing, SQLite running
checksum, valid-prefix rule), compacting_section_scanner.go (scan, compaction,
ErrOpenTransaction), writer.go (re-checksummed output), full_scanner.go, and a model
of SQLite's checkpoint (`ckpt`).

A WAL is a byte list. `Reader.ReadHeader`:
  < 32 bytes → io.EOF; magic ∉ {0x377f0682 (LE checksums), 0x377f0683 (BE)} → error;
  header checksum mismatch → io.EOF; version ≠ 3007000 → error.
`Reader.ReadFrame(data)`:
  < 24 header bytes → io.EOF; salt ≠ header salt → io.EOF;
  data ≠ nil (fullScan): < pageSize bytes → io.EOF; checksum over hdr[:8] ++ data chained
  from the previous frame (misaligned page size → error); mismatch → io.EOF;
  data = nil (fast): page data skipped by Seek (seeking past the end is not an error, so
  a frame whose page data is cut short is still accepted; reading it later fails);
  pgno = 0 → ErrZeroPageNumber.
`scan`: frames are read to the first io.EOF; `waitingForCommit` is decided by the LAST
frame read; the two maps (`txFrames`, `frames`) + sort by offset produce, for each page,
its last frame, in file order: `scanLiteral` is that algorithm (maps as functions from page
number to frame index); `compactFrames` is its specification and `Lemmas/Wal` proves
`scanLiteral = compactFrames` whenever the list does not end in an open transaction.
`Writer.WriteTo`: header copied (version constant), every frame re-checksummed from
the header's checksum.

fullScan=false, startFrame ≥ 0 is what db/checkpoint_manager.go uses.
-/
import RqModel.Model.Util
namespace RqModel.Wal
open RqModel.Util

abbrev Bytes := List UInt8

def be32 : Bytes → Nat
  | a :: b :: c :: d :: _ => a.toNat * 16777216 + b.toNat * 65536 + c.toNat * 256 + d.toNat
  | _ => 0

def le32 : Bytes → Nat
  | a :: b :: c :: d :: _ => d.toNat * 16777216 + c.toNat * 65536 + b.toNat * 256 + a.toNat
  | _ => 0

def enc32 (n : Nat) : Bytes :=
  [UInt8.ofNat (n / 16777216 % 256), UInt8.ofNat (n / 65536 % 256), UInt8.ofNat (n / 256 % 256), UInt8.ofNat (n % 256)]

/-- `WALChecksum` over whole 8-byte units (callers check alignment) -/
def cksum (le : Bool) : UInt32 → UInt32 → Bytes → UInt32 × UInt32
  | s0, s1, a0 :: a1 :: a2 :: a3 :: b0 :: b1 :: b2 :: b3 :: rest =>
    let w0 := UInt32.ofNat (if le then le32 [a0, a1, a2, a3] else be32 [a0, a1, a2, a3])
    let w1 := UInt32.ofNat (if le then le32 [b0, b1, b2, b3] else be32 [b0, b1, b2, b3])
    let s0' := s0 + (w0 + s1)
    let s1' := s1 + (w1 + s0')
    cksum le s0' s1' rest
  | s0, s1, _ => (s0, s1)

def magicLE : Nat := 0x377f0682
def magicBE : Nat := 0x377f0683
def walVersion : Nat := 3007000

structure Header where
  magic    : Nat
  pageSize : Nat
  seq      : Nat
  salt1    : Nat
  salt2    : Nat
  chk1     : UInt32
  chk2     : UInt32
deriving DecidableEq, Repr

def Header.le (h : Header) : Bool := h.magic == magicLE

inductive HdrRes
  | ok (h : Header)
  | eof
  | badMagic
  | badVersion
deriving DecidableEq, Repr

def parseHeader (bs : Bytes) : HdrRes :=
  if bs.length < 32 then .eof
  else
    let magic := be32 bs
    if magic ≠ magicLE ∧ magic ≠ magicBE then .badMagic
    else
      let c := cksum (magic == magicLE) 0 0 (bs.take 24)
      let chk1 := be32 (bs.drop 24)
      let chk2 := be32 (bs.drop 28)
      if c.1.toNat ≠ chk1 ∨ c.2.toNat ≠ chk2 then .eof
      else if be32 (bs.drop 4) ≠ walVersion then .badVersion
      else .ok { magic := magic, pageSize := be32 (bs.drop 8), seq := be32 (bs.drop 12),
                 salt1 := be32 (bs.drop 16), salt2 := be32 (bs.drop 20), chk1 := c.1, chk2 := c.2 }

structure Frame where
  pgno   : Nat
  commit : Nat
  data   : Bytes
deriving DecidableEq, Repr

inductive ScanEnd
  | eof
  | zeroPage
  | misaligned
deriving DecidableEq, Repr

/-- the `ReadFrame` loop from a byte position to the first io.EOF / error.
`fuel` bounds the number of frames (any value ≥ the byte length is enough). -/
def readFrames (full : Bool) (h : Header) : Nat → UInt32 × UInt32 → Bytes → List Frame × ScanEnd
  | 0, _, _ => ([], .eof)
  | fuel + 1, chk, bs =>
    if bs.length < 24 then ([], .eof)
    else
      let rest := bs.drop 24
      if be32 (bs.drop 8) ≠ h.salt1 ∨ be32 (bs.drop 12) ≠ h.salt2 then ([], .eof)
      else
        let pgno := be32 bs
        let commit := be32 (bs.drop 4)
        if full then
          if rest.length < h.pageSize then ([], .eof)
          else if h.pageSize % 8 ≠ 0 then ([], .misaligned)
          else
            let data := rest.take h.pageSize
            let c1 := cksum h.le chk.1 chk.2 (bs.take 8)
            let c := cksum h.le c1.1 c1.2 data
            if c.1.toNat ≠ be32 (bs.drop 16) ∨ c.2.toNat ≠ be32 (bs.drop 20) then ([], .eof)
            else if pgno = 0 then ([], .zeroPage)
            else
              let r := readFrames full h fuel c (rest.drop h.pageSize)
              (⟨pgno, commit, data⟩ :: r.1, r.2)
        else
          if pgno = 0 then ([], .zeroPage)
          else
            let r := readFrames full h fuel chk (rest.drop h.pageSize)
            (⟨pgno, commit, rest.take h.pageSize⟩ :: r.1, r.2)

/-! ### compaction -/

/-- keep, for every page, only its last frame; file order is preserved -/
def compactFrames : List Frame → List Frame
  | [] => []
  | f :: rest => if rest.any (fun g => g.pgno == f.pgno) then compactFrames rest else f :: compactFrames rest

/-- `waitingForCommit` at the end of `scan` -/
def openTx (fs : List Frame) : Bool :=
  match fs.getLast? with
  | none => false
  | some f => f.commit == 0


/-! literal `scan`: two Go maps keyed by page number (as functions), values = frame index
(the file offset is `start + index * frameSize`, so index order is offset order) -/

def upd (m : Nat → Option Nat) (k v : Nat) : Nat → Option Nat := fun p => if p = k then some v else m p

/-- `maps.Copy(frames, txFrames)` -/
def mapsCopy (frames tx : Nat → Option Nat) : Nat → Option Nat :=
  fun p => match tx p with | some v => some v | none => frames p

def scanLoop : List Frame → Nat → (Nat → Option Nat) → (Nat → Option Nat) → (Nat → Option Nat)
  | [], _, _, frames => frames
  | f :: rest, i, tx, frames =>
    let tx' := upd tx f.pgno i
    if f.commit == 0 then scanLoop rest (i + 1) tx' frames
    else scanLoop rest (i + 1) (fun _ => none) (mapsCopy frames tx')

/-- keep the frames whose index is a value of the final map, in index (= offset) order:
what collecting the map's values and `sort.Sort` by Offset produces -/
def keepValues (m : Nat → Option Nat) : List Frame → Nat → List Frame
  | [], _ => []
  | f :: rest, i => if m f.pgno = some i then f :: keepValues m rest (i + 1) else keepValues m rest (i + 1)

def scanLiteral (fs : List Frame) : List Frame :=
  keepValues (scanLoop fs 0 (fun _ => none) (fun _ => none)) fs 0


/-! ### writer -/

def serializeHeader (h : Header) : Bytes :=
  enc32 h.magic ++ enc32 walVersion ++ enc32 h.pageSize ++ enc32 h.seq ++ enc32 h.salt1 ++ enc32 h.salt2 ++
    enc32 h.chk1.toNat ++ enc32 h.chk2.toNat

def serializeFrames (h : Header) : UInt32 × UInt32 → List Frame → Bytes
  | _, [] => []
  | chk, f :: rest =>
    let hd8 := enc32 f.pgno ++ enc32 f.commit
    let c1 := cksum h.le chk.1 chk.2 hd8
    let c := cksum h.le c1.1 c1.2 f.data
    hd8 ++ enc32 h.salt1 ++ enc32 h.salt2 ++ enc32 c.1.toNat ++ enc32 c.2.toNat ++ f.data ++
      serializeFrames h c rest

def serialize (h : Header) (fs : List Frame) : Bytes :=
  serializeHeader h ++ serializeFrames h (h.chk1, h.chk2) fs

inductive CompRes
  | ok (out : Bytes)
  | hdrEof
  | badMagic
  | badVersion
  | badArgs
  | zeroPage
  | misaligned
  | openTx
  | shortRead
deriving DecidableEq, Repr

/-- errors `Writer.WriteTo` meets while pulling frames from the scanner: `Next` reads the
page (short read if the file ends inside it), `writeFrame` checksums it (alignment) -/
def writeCheck (pageSize : Nat) : List Frame → Option CompRes
  | [] => none
  | f :: rest =>
    if f.data.length < pageSize then some .shortRead
    else if pageSize % 8 ≠ 0 then some .misaligned
    else writeCheck pageSize rest

def frameSize (h : Header) : Nat := 24 + h.pageSize

/-- the frames `scan` accepts from 0-based frame index `start` -/
def scanFrames (full : Bool) (h : Header) (start : Nat) (wal : Bytes) : List Frame × ScanEnd :=
  let body := wal.drop (32 + start * frameSize h)
  readFrames full h (body.length + 1) (h.chk1, h.chk2) body

/-- `NewCompactingFrameScanner(wal, start, full)` followed by `NewWriter(s).WriteTo` -/
def compact (full : Bool) (start : Nat) (wal : Bytes) : CompRes :=
  match parseHeader wal with
  | .eof => .hdrEof
  | .badMagic => .badMagic
  | .badVersion => .badVersion
  | .ok h =>
    if full ∧ start ≠ 0 then .badArgs
    else
      match scanFrames full h start wal with
      | (_, .zeroPage) => .zeroPage
      | (_, .misaligned) => .misaligned
      | (fs, .eof) =>
        if openTx fs then .openTx
        else
          let kept := scanLiteral fs
          match writeCheck h.pageSize kept with
          | some e => e
          | none => .ok (serialize h kept)

/-! ### SQLite checkpoint (model) -/

/-- frames up to and including the last commit frame -/
def committed : List Frame → List Frame
  | [] => []
  | f :: rest =>
    let r := committed rest
    if r ≠ [] then f :: r else if f.commit ≠ 0 then [f] else []

/-- data of the last frame for page `p` -/
def latest (p : Nat) : List Frame → Option Bytes
  | [] => none
  | f :: rest =>
    match latest p rest with
    | some d => some d
    | none => if f.pgno = p then some f.data else none

/-- database size (pages) recorded by the last commit frame -/
def finalSize (fs : List Frame) : Option Nat :=
  match (committed fs).getLast? with
  | none => none
  | some f => some f.commit

/-- checkpoint: every page ≤ the final size takes its last committed frame, other pages
keep the database's content (zeros beyond its old end); the file is cut/extended to the
final size. A WAL without a commit leaves the database unchanged. -/
def ckpt (pageSize : Nat) (db : List Bytes) (fs : List Frame) : List Bytes :=
  match finalSize fs with
  | none => db
  | some n =>
    (List.range n).map fun i =>
      match latest (i + 1) (committed fs) with
      | some d => d
      | none => db.getD i (List.replicate pageSize 0)

/-! ### line protocol (component `wal`)
`compact <full 0|1> <start> <walhex>` → `ok <hex>` | `err-…`
`frames <full 0|1> <start> <walhex>`  → `<end> pgno:commit,…` (frames the scan accepts)
`ckpt <pagesize> <dbhex> <walhex>`    → db bytes after checkpointing the checksum-valid
                                         frames of the WAL (`-` when the header is invalid) -/

structure DState where
  unit : Unit := ()

def compResStr : CompRes → String
  | .ok out => "ok " ++ hexOfBytes out
  | .hdrEof => "err-header-eof"
  | .badMagic => "err-magic"
  | .badVersion => "err-version"
  | .badArgs => "err-args"
  | .zeroPage => "err-zero-page"
  | .misaligned => "err-misaligned"
  | .openTx => "err-open-tx"
  | .shortRead => "err-short-read"

def scanEndStr : ScanEnd → String
  | .eof => "eof"
  | .zeroPage => "zero-page"
  | .misaligned => "misaligned"

def chunkPages (pageSize : Nat) : Nat → Bytes → List Bytes
  | 0, _ => []
  | fuel + 1, bs => if bs = [] ∨ pageSize = 0 then [] else bs.take pageSize :: chunkPages pageSize fuel (bs.drop pageSize)

def step (s : DState) (line : String) : DState × String :=
  match words line with
  | ["compact", f, st, w] =>
    match (if f == "1" then some true else if f == "0" then some false else none), st.toNat?, tokBytes w with
    | some f, some st, some w => (s, compResStr (compact f st w))
    | _, _, _ => (s, "bad-op")
  | ["frames", f, st, w] =>
    match (if f == "1" then some true else if f == "0" then some false else none), st.toNat?, tokBytes w with
    | some f, some st, some w =>
      match parseHeader w with
      | .ok h =>
        let r := scanFrames f h st w
        (s, scanEndStr r.2 ++ " " ++ ",".intercalate (r.1.map fun fr => s!"{fr.pgno}:{fr.commit}"))
      | _ => (s, "no-header")
    | _, _, _ => (s, "bad-op")
  | ["ckpt", ps, db, w] =>
    match ps.toNat?, tokBytes db, tokBytes w with
    | some ps, some db, some w =>
      match parseHeader w with
      | .ok h =>
        let fs := (scanFrames true h 0 w).1
        (s, hexOfBytes (ckpt ps (chunkPages ps (db.length + 1) db) fs).flatten)
      | _ => (s, "-")
    | _, _, _ => (s, "bad-op")
  | _ => (s, "bad-op")

def init : DState := {}

end RqModel.Wal
--! driver: wal RqModel.Wal

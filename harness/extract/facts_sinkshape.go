package main

// SinkShape (C09): the order of the steps of snapshot/sink.go (*Sink).Close and where the
// full-needed requirement is examined.

import (
	"go/ast"
	"sort"
	"strings"
)

func init() {
	register("SinkShape", func(x *X) {
		x.Comment("snapshot/sink.go (*Sink).Close: the state-changing steps in source order")
		var steps []string
		if fd := x.Func("snapshot", "Sink", "Close"); fd != nil {
			ast.Inspect(fd.Body, func(n ast.Node) bool {
				c, ok := n.(*ast.CallExpr)
				if !ok {
					return true
				}
				src := x.Src(c)
				switch {
				case strings.HasPrefix(src, "s.stc.DueNext("):
					steps = append(steps, "recheck-DueNext")
				case strings.HasPrefix(src, "os.Rename(s.localWALDir,"):
					steps = append(steps, "rename-waldir-into-tmp")
				case strings.Contains(src, ".MoveWALFilesTo(s.snapTmpDirPath)"):
					steps = append(steps, "move-wal-files")
				case src == "s.sinkW.Close()":
					steps = append(steps, "fullsink-close")
				case strings.HasPrefix(src, "writeMeta(s.snapTmpDirPath,"):
					steps = append(steps, "write-meta")
				case src == "os.Rename(s.snapTmpDirPath, s.snapDirPath)":
					steps = append(steps, "rename-tmp-to-final")
				case src == "s.stc.SetDueNext(Incremental)":
					steps = append(steps, "clear-full-needed-unconditionally")
				case src == "s.stc.ClearFullNeeded(s.fullNeededToken)":
					steps = append(steps, "clear-captured-requirement")
				}
				return true
			})
		}
		x.DefStrings("closeSteps", steps)

		x.Comment("(*Sink).Write, IncrementalFile header case: is s.stc.DueNext() == Full refused?")
		var gate, found bool
		if fd := x.Func("snapshot", "Sink", "Write"); fd != nil {
			ast.Inspect(fd.Body, func(n ast.Node) bool {
				cc, ok := n.(*ast.CaseClause)
				if !ok || len(cc.List) != 1 || x.Src(cc.List[0]) != "*proto.SnapshotHeader_IncrementalFile" {
					return true
				}
				found = true
				for _, st := range cc.Body {
					if is, ok := st.(*ast.IfStmt); ok && len(x.Calls(is, "DueNext")) == 1 {
						ast.Inspect(is, func(m ast.Node) bool {
							if in, ok := m.(*ast.IfStmt); ok && x.Src(in.Cond) == "dueNext == Full" {
								for _, b := range in.Body.List {
									if _, ok := b.(*ast.ReturnStmt); ok {
										gate = true
									}
								}
							}
							return true
						})
					}
				}
				return false
			})
		}
		x.DefOptBool("writeGateRefusesIncrementalWhenFullDue", gate, found)

		x.Comment("(*Sink).Close clears the requirement only for a full snapshot that carries a token: the guard of the ClearFullNeeded call")
		guard := ""
		if fd := x.Func("snapshot", "Sink", "Close"); fd != nil {
			ast.Inspect(fd.Body, func(n ast.Node) bool {
				if is, ok := n.(*ast.IfStmt); ok && len(x.Calls(is.Body, "ClearFullNeeded")) == 1 && is.Init == nil {
					guard = x.Src(is.Cond)
					return false
				}
				return true
			})
		}
		x.DefString("clearGuard", guard)

		x.Comment("every call of SetDueNext with an argument other than Full, anywhere in the non-test sources (file:function)")
		var callers []string
		for _, dir := range []string{"snapshot", "store", "http", "cluster", "cmd/rqlited"} {
			for fname, f := range x.Pkg(dir) {
				for _, d := range f.Decls {
					fd, ok := d.(*ast.FuncDecl)
					if !ok || fd.Body == nil {
						continue
					}
					for _, c := range x.Calls(fd.Body, "SetDueNext") {
						if len(c.Args) == 1 {
							a := x.Src(c.Args[0])
							if a != "snapshot.Full" && a != "Full" {
								callers = append(callers, dir+"/"+fname+":"+fd.Name.Name+"("+a+")")
							}
						}
					}
				}
			}
		}
		sort.Strings(callers)
		x.DefStrings("setDueNextNonFullCallers", callers)

		x.Comment("Store.ClearFullNeeded and SetDueNext hold fullNeededMu for their whole body; ClearFullNeeded compares the token before removing")
		lockOK := func(name string) bool {
			fd := x.Func("snapshot", "Store", name)
			if fd == nil || len(fd.Body.List) < 2 {
				return false
			}
			return x.Src(fd.Body.List[0]) == "s.fullNeededMu.Lock()" && x.Src(fd.Body.List[1]) == "defer s.fullNeededMu.Unlock()"
		}
		cmp := false
		if fd := x.Func("snapshot", "Store", "ClearFullNeeded"); fd != nil {
			ast.Inspect(fd.Body, func(n ast.Node) bool {
				if is, ok := n.(*ast.IfStmt); ok && x.Src(is.Cond) == "string(b) != token" {
					for _, st := range is.Body.List {
						if r, ok := st.(*ast.ReturnStmt); ok && len(r.Results) == 1 && x.Src(r.Results[0]) == "nil" {
							cmp = true
						}
					}
				}
				return true
			})
		}
		x.DefBool("requirementChangesSerialized", lockOK("SetDueNext") && lockOK("ClearFullNeeded") && lockOK("FullNeededToken"))
		x.DefBool("clearComparesToken", cmp)
	})
}

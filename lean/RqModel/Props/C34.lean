/-
C34  Coordination primitives are safe and make progress.

Property theorems only. Models: RqModel/Model/Rsync.lean; client-protocol
transition systems and invariants: RqModel/Lemmas/Rsync.lean. Every theorem
quantifies over ALL finite step sequences by any number of clients.
-/
import RqModel.Lemmas.Rsync
import RqModel.Lemmas.LockFacts
import RqModel.Gen.ReadyTarget
namespace C34
open RqModel.Rsync

/-! ### the snapshot/backup/integrity-check gate (`CheckAndSet`) -/

/-- **At most one holder.** Whatever clients do (any number of `Begin` attempts
with any owner names, `End` by holders), at most one client is between a
successful `Begin` and its `End`, and the gate's flag is set exactly then. -/
theorem cas_at_most_one_holder (steps : List CasStep) :
    (casRun {} steps).holders.length ≤ 1 ∧
    ((casRun {} steps).c.state = true ↔ (casRun {} steps).holders.length = 1) :=
  casRun_inv {} steps ⟨by simp, by simp⟩

/-- `Begin` succeeds exactly when nobody holds the gate -/
theorem cas_begin_iff_free (steps : List CasStep) (o : String) :
    (((casRun {} steps).c.begin o).2 = .ok ↔ (casRun {} steps).holders = []) := by
  obtain ⟨h1, h2⟩ := cas_at_most_one_holder steps
  simp only [Cas.begin]
  cases hs : (casRun {} steps).c.state
  · simp only [Bool.false_eq_true, if_false, true_iff]
    have : ¬ (casRun {} steps).holders.length = 1 := fun e => by simp [h2.2 e] at hs
    exact List.eq_nil_of_length_eq_zero (by omega)
  · simp only [if_true, reduceCtorEq, false_iff]
    intro e; have := h2.1 hs; rw [e] at this; cases this

/-- **Progress.** Once the holder calls `End`, the next `Begin` succeeds. -/
theorem cas_free_after_end (steps : List CasStep) (cl : Nat) (o : String)
    (h : cl ∈ (casRun {} steps).holders) :
    ((casStep (casRun {} steps) (.end_ cl)).c.begin o).2 = .ok := by
  simp [casStep, h, Cas.end_, Cas.begin]

example : (casRun {} [.begin 1 "snapshot", .begin 2 "backup", .end_ 1, .begin 2 "backup"]).holders = [2] := by
  decide

/-! ### the snapshot store lock (`MultiRSW`) -/

theorem mrsw_inv (steps : List MStep) : MInv (mRun {} steps) := mRun_inv {} steps mInit_inv

/-- **Readers xor one writer.** At most one writer holds the lock, and while it
does no reader holds it. -/
theorem mrsw_readers_xor_writer (steps : List MStep) :
    (mRun {} steps).writers.length ≤ 1 ∧
    ((mRun {} steps).writers ≠ [] → (mRun {} steps).readers = []) :=
  ⟨(mrsw_inv steps).one, (mrsw_inv steps).excl⟩

/-- **The reader count is exactly the number of read holders**: never negative,
and none of the `panic` branches ("reader count went negative", "write done
received but no write is active", "upgrade attempted with no readers") is ever
reached by protocol-following clients. -/
theorem reader_count_nonneg (steps : List MStep) :
    (mRun {} steps).m.numReaders = ((mRun {} steps).readers.length : Int) ∧
    0 ≤ (mRun {} steps).m.numReaders ∧ (mRun {} steps).panicked = false := by
  have h := mrsw_inv steps
  exact ⟨h.count, by rw [h.count]; omega, h.noPanic⟩

/-- a blocking acquirer is enabled exactly when the holders it waits for are gone -/
theorem blocking_enabled_iff (steps : List MStep) :
    ((mRun {} steps).m.writeEnabled = true ↔
      (mRun {} steps).readers = [] ∧ (mRun {} steps).writers = []) ∧
    ((mRun {} steps).m.readEnabled = true ↔ (mRun {} steps).writers = []) := by
  have h := mrsw_inv steps
  have hw : (mRun {} steps).m.owner = "" ↔ (mRun {} steps).writers = [] := by
    constructor
    · intro e
      have : ¬ (mRun {} steps).writers.length = 1 := fun l => (h.owner.2 l) e
      have := h.one
      exact List.eq_nil_of_length_eq_zero (by omega)
    · intro e
      by_cases ho : (mRun {} steps).m.owner = ""
      · exact ho
      · have := h.owner.1 ho; rw [e] at this; cases this
  constructor
  · simp only [Mrsw.writeEnabled, Bool.and_eq_true, beq_iff_eq, decide_eq_true_eq, hw, h.count]
    constructor
    · rintro ⟨a, b⟩
      exact ⟨List.eq_nil_of_length_eq_zero (by omega), a⟩
    · rintro ⟨a, b⟩
      exact ⟨b, by rw [a]; simp⟩
  · simp only [Mrsw.readEnabled, beq_iff_eq, hw]

/-- number of holders: the progress measure -/
def holders (s : MSys) : Nat := s.readers.length + s.writers.length

/-- every release by a holder lowers the measure by exactly one -/
theorem release_decreases (steps : List MStep) (c : Nat) :
    (c ∈ (mRun {} steps).readers →
      holders (mStep (mRun {} steps) (.endRead c)) + 1 = holders (mRun {} steps)) ∧
    (c ∈ (mRun {} steps).writers →
      holders (mStep (mRun {} steps) (.endWrite c)) + 1 = holders (mRun {} steps)) := by
  constructor
  · intro hm
    have hpos := List.length_pos_of_mem hm
    simp only [mStep, hm, if_true, holders, notePanic]
    split <;> simp only [List.length_erase_of_mem hm] <;> omega
  · intro hm
    have hpos := List.length_pos_of_mem hm
    simp only [mStep, hm, if_true, holders, notePanic]
    split <;> simp only [List.length_erase_of_mem hm] <;> omega

/-- **Progress (safety form).** From any reachable state, once the finitely many
current holders have released (measure `holders` reaches 0), a blocking writer
and a blocking reader are enabled. -/
theorem blocked_acquirer_enabled_after_releases (steps : List MStep) :
    holders (mRun {} steps) = 0 →
      (mRun {} steps).m.writeEnabled = true ∧ (mRun {} steps).m.readEnabled = true := by
  intro h0
  have hr : (mRun {} steps).readers = [] := List.eq_nil_of_length_eq_zero (by simp only [holders] at h0; omega)
  have hw : (mRun {} steps).writers = [] := List.eq_nil_of_length_eq_zero (by simp only [holders] at h0; omega)
  obtain ⟨e1, e2⟩ := blocking_enabled_iff steps
  exact ⟨e1.2 ⟨hr, hw⟩, e2.2 hw⟩

/-- **Progress for every schedule of releases.** From any reachable state, let the current
holders release in ANY order, interleaved with any number of spurious release attempts by
non-holders (which do nothing): as soon as every holder's release has happened (fairness:
each holder eventually releases), the lock is idle and a blocked writer and a blocked reader
are both enabled. -/
theorem releases_in_any_order_unblock (steps sched : List MStep)
    (hrel : ∀ st ∈ sched, IsRelease st = true)
    (hr : ∀ c, (mRun {} steps).readers.count c ≤ sched.count (.endRead c))
    (hw : ∀ c, (mRun {} steps).writers.count c ≤ sched.count (.endWrite c)) :
    (mRun {} (steps ++ sched)).m.writeEnabled = true ∧ (mRun {} (steps ++ sched)).m.readEnabled = true := by
  have hrun : mRun {} (steps ++ sched) = mRun (mRun {} steps) sched := by simp [mRun, List.foldl_append]
  obtain ⟨h1, h2⟩ := run_releases sched (mRun {} steps) hrel hr hw
  apply blocked_acquirer_enabled_after_releases
  simp only [holders, hrun, h1, h2, List.length_nil]

/-- "after a successful `UpgradeToWriter` the lock is held" — for every owner argument -/
def C34_upgrade_full : Prop :=
  ∀ (m : Mrsw) (o : String), (m.upgrade o).2 = .ok →
    (m.upgrade o).1.writeEnabled = false ∧ (m.upgrade o).1.readEnabled = false

/-- it holds for every non-empty owner name (decidable exclusion: `o ≠ ""`) -/
theorem upgrade_partial (m : Mrsw) (o : String) (ho : o ≠ "") (h : (m.upgrade o).2 = .ok) :
    (m.upgrade o).1.writeEnabled = false ∧ (m.upgrade o).1.readEnabled = false := by
  unfold Mrsw.upgrade at h ⊢
  by_cases h1 : m.owner ≠ ""
  · simp [h1] at h
  · by_cases h2 : m.numReaders > 1
    · simp [h1, h2] at h
    · by_cases h3 : m.numReaders = 0
      · simp [h1, h2, h3] at h
      · simp [h1, h2, h3, Mrsw.writeEnabled, Mrsw.readEnabled, ho]

theorem upgrade_witness : ¬ C34_upgrade_full := by
  intro h
  have := h (({} : Mrsw).beginRead).1 "" (by decide)
  revert this
  decide

/-- `UpgradeToWriter` does not check its owner argument: with an empty name the
reader count is zeroed while no writer is recorded — the lock looks free to
everyone although the caller believes it holds the write lock. (Not called
anywhere in rqlite; stated so the protocol assumption "non-empty owner" is visible.) -/
theorem upgrade_empty_owner_witness :
    let m := ((({} : Mrsw).beginRead).1.upgrade "").1
    ((({} : Mrsw).beginRead).1.upgrade "").2 = .ok ∧ m.writeEnabled = true := by decide

example : (mRun {} [.beginRead 1, .beginRead 2, .beginWriteBlocking 3 "reap", .endRead 1, .endRead 2,
    .beginWriteBlocking 3 "reap", .beginRead 4]).writers = [3] ∧
    (mRun {} [.beginRead 1, .beginRead 2, .beginWriteBlocking 3 "reap", .endRead 1, .endRead 2,
    .beginWriteBlocking 3 "reap", .beginRead 4]).readers = [] := by decide

/-! ### index waiters (`ReadyTarget`) -/

theorem rt_inv (steps : List RtStep) : RtInv (rtRun {} steps) := rtRun_inv {} steps rtInit_inv

/-- **Never before.** Every channel that has been closed was closed at a moment
when the current index had reached its target. -/
theorem never_before (steps : List RtStep) :
    ∀ c ∈ (rtRun {} steps).r.closed, c.target ≤ c.at_ := (rt_inv steps).never

/-- **Woken exactly when the target is reached.** For every subscription that is
still live (made since the last `Reset`, not unsubscribed): its channel is
closed iff the current index has reached its target; otherwise it is still
registered and will be closed by the first `Signal` that reaches it. -/
theorem waiter_woken_iff_target_reached (steps : List RtStep) :
    ∀ l ∈ (rtRun {} steps).live,
      ((rtRun {} steps).r.isClosed l.id = true ↔ l.target ≤ (rtRun {} steps).r.current) ∧
      ((rtRun {} steps).r.isClosed l.id = false → l ∈ (rtRun {} steps).r.subs) := by
  intro l hl
  have h := rt_inv steps
  obtain ⟨ha, hb⟩ := h.liveInv l hl
  by_cases hle : l.target ≤ (rtRun {} steps).r.current
  · exact ⟨⟨fun _ => hle, ha⟩, fun hf => by rw [ha hle] at hf; exact absurd hf (by decide)⟩
  · have hm := hb (by omega)
    have hopen := h.subsOpen l hm
    exact ⟨⟨fun hc => by rw [hopen] at hc; exact absurd hc (by decide), fun h' => absurd h' hle⟩, fun _ => hm⟩

/-- a registered subscriber is woken by the first signal that reaches its target -/
theorem signal_wakes (steps : List RtStep) (idx : Nat) :
    ∀ l ∈ (rtRun {} steps).live, l.target ≤ idx →
      (rtStep (rtRun {} steps) (.signal idx)).r.isClosed l.id = true := by
  intro l hl hle
  have h := rtStep_inv _ (.signal idx) (rt_inv steps)
  have hl' : l ∈ (rtStep (rtRun {} steps) (.signal idx)).live := by simpa [rtStep] using hl
  apply (h.liveInv l hl').1
  simp only [rtStep, Rt.signal]
  split
  · omega
  · exact hle

/-- no registered subscriber has a target that is already reached, and a channel
that is registered has not been closed (so no channel is ever closed twice) -/
theorem registered_are_pending (steps : List RtStep) :
    ∀ x ∈ (rtRun {} steps).r.subs,
      (rtRun {} steps).r.current < x.target ∧ (rtRun {} steps).r.isClosed x.id = false :=
  fun x hx => ⟨(rt_inv steps).pending x hx, (rt_inv steps).subsOpen x hx⟩

example :
    let s := rtRun {} [.subscribe 5, .subscribe 3, .signal 4, .subscribe 2, .unsubscribe 0, .signal 4]
    s.r.isClosed 1 = true ∧ s.r.isClosed 0 = false ∧ s.r.isClosed 2 = true ∧ s.r.subs = [] := by decide

/-- the property's waiter clause at full strength: EVERY subscription that was made and not
unsubscribed is woken once the index has reached its target -/
def C34_waiters_full : Prop :=
  ∀ steps : List RtStep, ∀ l ∈ (rtRun {} steps).ever,
    l.target ≤ (rtRun {} steps).r.current → (rtRun {} steps).r.isClosed l.id = true

/-- it holds for every history without a `Reset` (decidable exclusion) ... -/
theorem waiters_woken_partial (steps : List RtStep) (hnr : ∀ st ∈ steps, st ≠ RtStep.reset) :
    ∀ l ∈ (rtRun {} steps).ever,
      ((rtRun {} steps).r.isClosed l.id = true ↔ l.target ≤ (rtRun {} steps).r.current) := by
  intro l hl
  rw [ever_eq_live steps {} rfl hnr] at hl
  exact (waiter_woken_iff_target_reached steps l hl).1

/-- ... and fails with one: a waiter registered before a `Reset` is never woken. The exclusion
is justified for rqlite by `reset_only_on_closed_store` below (Reset runs only inside
`Store.Open` on a store that is not open; the only subscriber runs on an open store). -/
theorem waiters_woken_witness : ¬ C34_waiters_full := by
  intro h
  have := h [.subscribe 5, .reset, .signal 9] ⟨0, 5⟩ (by decide) (by decide)
  revert this
  decide

/-- `Reset` drops subscribers without closing their channels: a waiter that was registered
before a `Reset` is NOT woken when its target is reached afterwards (it is outside `live`). -/
theorem reset_strands_waiter_witness :
    (rtRun {} [.subscribe 5, .reset, .signal 9]).r.isClosed 0 = false ∧
    (rtRun {} [.subscribe 5, .reset, .signal 9]).live = [] ∧
    (rtRun {} [.subscribe 5, .signal 9]).r.isClosed 0 = true := by decide

/-- **Where rqlite can reset its index targets** (regenerated from store/): only inside
`Store.Open`, after its `if s.open.Is() { return ErrOpen }` guard, i.e. only on a store that
is not open; the only subscriber is `waitForLinearizableRead`, which runs on an open store;
and rqlited opens its store exactly once. So no waiter of a running node is ever dropped by
`Reset`; only a read still in flight across a Close/re-Open of the same `Store` object (tests)
could be, and it then ends by its own timeout. -/
theorem reset_only_on_closed_store :
    RqModel.Gen.ReadyTarget.resetCallers = ["Store.Open", "Store.Open"] ∧
    RqModel.Gen.ReadyTarget.resetOnlyAfterNotOpenGuard = true ∧
    RqModel.Gen.ReadyTarget.subscribers = ["Store.waitForLinearizableRead"] ∧
    RqModel.Gen.ReadyTarget.storeOpenCallsInRqlited = 1 := by decide

/-- the release methods wake the parked acquirers: `EndRead` and `EndWrite` each contain exactly
one `cond.Broadcast()` (the model has no Broadcast — a `Wait` loop is a guarded step — so this
regenerated fact is what ties "the guard became true" to "the parked goroutine re-checks it") -/
theorem releases_broadcast :
    RqModel.LockFacts.broadcasts "internal/rsync.MultiRSW.EndRead" = some 1 ∧
    RqModel.LockFacts.broadcasts "internal/rsync.MultiRSW.EndWrite" = some 1 ∧
    RqModel.LockFacts.broadcasts "internal/rsync.MultiRSW.UpgradeToWriter" = some 0 := by decide

/-- the blocking acquirers wait in ONE loop on the whole guard (regenerated): the model's
"enabled exactly when `owner = "" ∧ numReaders ≤ 0` holds at the moment of acquisition" is one
atomic re-check; two sequential loops (readers first, then the writer) would not be -/
theorem wait_conditions :
    RqModel.LockFacts.waitConds "internal/rsync.MultiRSW.BeginWriteBlocking" =
      some ["r.owner != \"\" || r.numReaders > 0"] ∧
    RqModel.LockFacts.waitConds "internal/rsync.MultiRSW.BeginReadBlocking" = some ["r.owner != \"\""] := by
  decide

/-! ### regenerated facts: each method is one critical section -/
theorem lock_discipline :
    RqModel.LockFacts.wholeBody "internal/rsync.CheckAndSet.Begin" = true ∧
    RqModel.LockFacts.wholeBody "internal/rsync.CheckAndSet.End" = true ∧
    RqModel.LockFacts.wholeBody "internal/rsync.CheckAndSet.Owner" = true ∧
    RqModel.LockFacts.lockFree "internal/rsync.CheckAndSet.BeginWithRetry" = true ∧
    RqModel.LockFacts.wholeBody "internal/rsync.MultiRSW.BeginRead" = true ∧
    RqModel.LockFacts.wholeBody "internal/rsync.MultiRSW.BeginReadBlocking" [] true = true ∧
    RqModel.LockFacts.wholeBody "internal/rsync.MultiRSW.EndRead" = true ∧
    RqModel.LockFacts.wholeBody "internal/rsync.MultiRSW.BeginWrite" = true ∧
    -- the empty-owner check (an `if` that panics) precedes the lock
    RqModel.LockFacts.wholeBody "internal/rsync.MultiRSW.BeginWriteBlocking" ["if"] true = true ∧
    RqModel.LockFacts.wholeBody "internal/rsync.MultiRSW.EndWrite" = true ∧
    RqModel.LockFacts.wholeBody "internal/rsync.MultiRSW.UpgradeToWriter" = true ∧
    -- `ch := make(chan struct{})` precedes the lock
    RqModel.LockFacts.wholeBody "internal/rsync.ReadyTarget.Subscribe" ["assign"] = true ∧
    RqModel.LockFacts.wholeBody "internal/rsync.ReadyTarget.Unsubscribe" = true ∧
    RqModel.LockFacts.wholeBody "internal/rsync.ReadyTarget.Signal" = true ∧
    RqModel.LockFacts.wholeBody "internal/rsync.ReadyTarget.Reset" = true ∧
    RqModel.LockFacts.wholeBody "internal/rsync.ReadyTarget.Len" = true := by decide

end C34

/-
Invariants of the StoreSM node model (RqModel/Model/StoreSM.lean), used by the C22,
C33, C03 and C01 property files.
-/
import RqModel.Model.StoreSM
namespace RqModel.StoreSM

/-- what the durable state stands for: the newest installed snapshot plus the log after it -/
def truth (n : Node) : Db :=
  match n.snap with
  | some (i, d) => replay d (n.hist.drop i)
  | none => replay [] n.hist

theorem replay_append (d : Db) (a b : List Cmd) : replay d (a ++ b) = replay (replay d a) b := by
  simp [replay, List.foldl_append]

theorem replay_nil (d : Db) : replay d [] = d := rfl

theorem replay_snoc (d : Db) (a : List Cmd) (c : Cmd) : replay d (a ++ [c]) = applyCmd (replay d a) c := by
  simp [replay, List.foldl_append]

/-- invariant of the DURABLE state; holds in every state, also half-way through an
operation and after a crash -/
structure DurInv (n : Node) : Prop where
  snap_le : ∀ i d, n.snap = some (i, d) → i ≤ n.hist.length ∧ n.logStart ≤ i
  nosnap  : n.snap = none → n.logStart = 0
  /-- a marker that exists and was written for the NEWEST snapshot vouches for the database file -/
  fp_ok   : n.fp = true → n.dbFileOk = true → ∀ i d, n.snap = some (i, d) → n.fpIdx = i → n.dbFile = d
  /-- a marker is never for a snapshot newer than the newest one -/
  fp_le   : n.fp = true → n.fpIdx ≤ newestIdx n

/-- a node that is up and between operations -/
structure Quiet (n : Node) : Prop where
  up      : n.up = true
  applied : n.applied = n.hist.length
  live    : n.live = truth n
  notmp   : n.snapTmp = none
  fileok  : n.dbFileOk = true
  nopeers : n.peersFile = none

theorem durInv_init : DurInv {} := by
  constructor
  · intro i d h; cases h
  · intro _; rfl
  · intro h; cases h
  · intro h; cases h

theorem quiet_init : Quiet {} := ⟨rfl, rfl, rfl, rfl, rfl, rfl⟩

/-! ### writes -/

theorem truth_appendEntry (n : Node) (c : Cmd) (h : DurInv n) :
    truth (appendEntry n c) = applyCmd (truth n) c := by
  unfold truth appendEntry
  cases hs : n.snap with
  | none => simp [replay_snoc]
  | some p =>
    obtain ⟨i, d⟩ := p
    have hi := (h.snap_le i d hs).1
    simp only
    rw [List.drop_append_of_le_length hi, replay_snoc]

theorem durInv_appendEntry {n : Node} (h : DurInv n) (c : Cmd) : DurInv (appendEntry n c) := by
  constructor
  · intro i d hs
    have := h.snap_le i d hs
    refine ⟨?_, this.2⟩
    show i ≤ (n.hist ++ [c]).length
    simp only [List.length_append, List.length_singleton]; omega
  · exact h.nosnap
  · exact h.fp_ok
  · exact h.fp_le

theorem swapRun_valid (n : Node) (d : Db) :
    swapRun swapSteps (some d) n = { n with dbFile := d, dbFileOk := true, live := d } := by
  simp [swapRun, swapSteps, List.foldl, swapStep]

theorem swapRun_invalid (n : Node) : swapRun swapSteps none n = n := by
  simp [swapRun, swapSteps, List.foldl, swapStep]

theorem fsmApply_fields (n : Node) (c : Cmd) :
    (fsmApply n c).hist = n.hist ∧ (fsmApply n c).snap = n.snap ∧ (fsmApply n c).logStart = n.logStart ∧
    (fsmApply n c).live = applyCmd n.live c ∧ (fsmApply n c).applied = n.applied + 1 ∧
    (fsmApply n c).up = n.up ∧ (fsmApply n c).snapTmp = n.snapTmp ∧ (n.dbFileOk = true → (fsmApply n c).dbFileOk = true) ∧
    (fsmApply n c).peersFile = n.peersFile ∧ (fsmApply n c).config = n.config := by
  cases c <;> simp [fsmApply, swapRun_valid, swapRun_invalid, applyCmd]

theorem durInv_fsmApply {n : Node} (h : DurInv n) (c : Cmd) : DurInv (fsmApply n c) := by
  obtain ⟨h1, h2, h3, _⟩ := fsmApply_fields n c
  constructor
  · intro i d hs; rw [h2] at hs; rw [h1, h3]; exact h.snap_le i d hs
  · intro hs; rw [h2] at hs; rw [h3]; exact h.nosnap hs
  · cases c with
    | exec tx ss => exact h.fp_ok
    | load d => intro hf; simp [fsmApply, swapRun_valid] at hf
    | loadBad => exact h.fp_ok
    | noop => exact h.fp_ok
  · cases c with
    | exec tx ss => exact h.fp_le
    | load d => intro hf; simp [fsmApply, swapRun_valid] at hf
    | loadBad => exact h.fp_le
    | noop => exact h.fp_le

theorem truth_fsmApply (n : Node) (c : Cmd) : truth (fsmApply n c) = truth n := by
  obtain ⟨h1, h2, _⟩ := fsmApply_fields n c
  unfold truth; rw [h1, h2]

theorem quiet_write {n : Node} (h : DurInv n) (q : Quiet n) (c : Cmd) :
    Quiet (write n c) ∧ DurInv (write n c) ∧ truth (write n c) = applyCmd (truth n) c := by
  have hd := durInv_fsmApply (durInv_appendEntry h c) c
  have ht : truth (write n c) = applyCmd (truth n) c := by
    unfold write; rw [truth_fsmApply, truth_appendEntry n c h]
  obtain ⟨f1, f2, f3, f4, f5, f6, f7, f8, f9, _⟩ := fsmApply_fields (appendEntry n c) c
  refine ⟨⟨?_, ?_, ?_, ?_, ?_, ?_⟩, hd, ht⟩
  · show (fsmApply (appendEntry n c) c).up = true; rw [f6]; exact q.up
  · show (fsmApply (appendEntry n c) c).applied = (fsmApply (appendEntry n c) c).hist.length
    rw [f5, f1]
    show n.applied + 1 = (n.hist ++ [c]).length
    simp [q.applied]
  · show (fsmApply (appendEntry n c) c).live = truth (write n c)
    rw [ht, f4]; show applyCmd n.live c = _; rw [q.live]
  · show (fsmApply (appendEntry n c) c).snapTmp = none; rw [f7]; exact q.notmp
  · show (fsmApply (appendEntry n c) c).dbFileOk = true; exact f8 q.fileok
  · show (fsmApply (appendEntry n c) c).peersFile = none; rw [f9]; exact q.nopeers

/-! ### snapshot micro-steps -/

theorem durInv_snapCheckpoint {n : Node} (h : DurInv n) : DurInv (snapCheckpoint n) := by
  constructor
  · exact h.snap_le
  · exact h.nosnap
  · intro hf hok i d hs hi
    simp only [snapCheckpoint, Bool.and_eq_true, decide_eq_true_eq] at hf
    have hd := h.fp_ok hf.1 hok i d hs hi
    show n.live = d; rw [← hf.2]; exact hd
  · intro hf
    simp only [snapCheckpoint, Bool.and_eq_true, decide_eq_true_eq] at hf
    exact h.fp_le hf.1

theorem quiet_snapCheckpoint {n : Node} (q : Quiet n) : Quiet (snapCheckpoint n) ∧ truth (snapCheckpoint n) = truth n :=
  ⟨⟨q.up, q.applied, q.live, q.notmp, q.fileok, q.nopeers⟩, rfl⟩

theorem snapPersist_eq (n : Node) : snapPersist n = { n with snapTmp := some (n.applied, n.live) } := by
  simp [snapPersist, persistSteps, List.foldl, persistStep]

theorem snapFingerprint_eq (n : Node) : snapFingerprint n = { n with fp := true, fpIdx := newestIdx n } := by
  simp [snapFingerprint, sinkStep]

theorem durInv_snapPersist {n : Node} (h : DurInv n) : DurInv (snapPersist n) :=
  ⟨h.snap_le, h.nosnap, h.fp_ok, h.fp_le⟩

/-- what a snapshot needs from the state it starts in (the live database need NOT be what
the durable state stands for: a boot snapshots right after swapping a foreign database in) -/
structure SnapPre (n : Node) : Prop where
  up      : n.up = true
  applied : n.applied = n.hist.length
  notmp   : n.snapTmp = none
  fileok  : n.dbFileOk = true
  nopeers : n.peersFile = none

theorem Quiet.snapPre {n : Node} (q : Quiet n) : SnapPre n := ⟨q.up, q.applied, q.notmp, q.fileok, q.nopeers⟩

/-- the state half-way through a snapshot: the temp directory holds the current state -/
structure MidSnap (n : Node) : Prop where
  up      : n.up = true
  applied : n.applied = n.hist.length
  tmp     : n.snapTmp = some (n.hist.length, n.live)
  file    : n.dbFile = n.live
  fileok  : n.dbFileOk = true
  nopeers : n.peersFile = none

theorem midSnap_persist {n : Node} (q : SnapPre n) : MidSnap (snapPersist (snapCheckpoint n)) :=
  ⟨q.up, q.applied, by simp [snapPersist_eq, snapCheckpoint, q.applied], rfl, q.fileok, q.nopeers⟩

theorem snapInstall_eq {n : Node} (m : MidSnap n) :
    snapInstall n = { n with snap := some (n.hist.length, n.live), snapTmp := none, fullNeeded := false } := by
  simp [snapInstall, sinkCloseSteps, List.take, List.foldl, sinkStep, m.tmp]

theorem truth_install {n : Node} (m : MidSnap n) : truth (snapInstall n) = n.live := by
  rw [snapInstall_eq m]
  show replay n.live (n.hist.drop n.hist.length) = n.live
  rw [List.drop_length, replay_nil]

theorem durInv_snapInstall {n : Node} (h : DurInv n) (m : MidSnap n) : DurInv (snapInstall n) := by
  rw [snapInstall_eq m]
  constructor
  · intro i d hs
    simp only [Option.some.injEq, Prod.mk.injEq] at hs
    obtain ⟨rfl, rfl⟩ := hs
    refine ⟨Nat.le_refl _, ?_⟩
    show n.logStart ≤ n.hist.length
    cases hs' : n.snap with
    | none => rw [h.nosnap hs']; exact Nat.zero_le _
    | some p => obtain ⟨j, e⟩ := p; have := h.snap_le j e hs'; omega
  · intro hs; cases hs
  · intro hf hok i d hs _
    simp only [Option.some.injEq, Prod.mk.injEq] at hs
    obtain ⟨rfl, rfl⟩ := hs
    exact m.file
  · intro hf
    show n.fpIdx ≤ n.hist.length
    have := h.fp_le hf
    cases hs' : n.snap with
    | none => simp [newestIdx, hs'] at this; omega
    | some p =>
      obtain ⟨j, e⟩ := p
      simp only [newestIdx, hs'] at this
      have := h.snap_le j e hs'; omega

/-- after the install the database file equals the newest snapshot -/
structure PostInstall (n : Node) : Prop where
  up      : n.up = true
  applied : n.applied = n.hist.length
  live    : n.live = truth n
  notmp   : n.snapTmp = none
  snap    : n.snap = some (n.hist.length, n.dbFile)
  fileok  : n.dbFileOk = true
  nopeers : n.peersFile = none

theorem postInstall {n : Node} (m : MidSnap n) : PostInstall (snapInstall n) := by
  have ht := truth_install m
  rw [snapInstall_eq m] at ht ⊢
  exact ⟨m.up, m.applied, ht.symm, rfl,
    by show some (n.hist.length, n.live) = some (n.hist.length, n.dbFile); rw [m.file], m.fileok, m.nopeers⟩

theorem durInv_snapFingerprint {n : Node} (h : DurInv n) (p : PostInstall n) : DurInv (snapFingerprint n) := by
  rw [snapFingerprint_eq]
  refine ⟨h.snap_le, h.nosnap, ?_, fun _ => Nat.le_refl _⟩
  intro _ _ i d hs _
  have hs' : n.snap = some (i, d) := hs
  rw [p.snap] at hs'
  simp only [Option.some.injEq, Prod.mk.injEq] at hs'
  exact hs'.2

theorem quiet_snapFingerprint {n : Node} (p : PostInstall n) :
    Quiet (snapFingerprint n) ∧ truth (snapFingerprint n) = truth n :=
  ⟨⟨p.up, p.applied, p.live, p.notmp, p.fileok, p.nopeers⟩, rfl⟩

theorem snapCompact_fields (n : Node) (t : Nat) :
    (snapCompact n t).hist = n.hist ∧ (snapCompact n t).live = n.live ∧ (snapCompact n t).snap = n.snap ∧
    (snapCompact n t).fullNeeded = n.fullNeeded ∧ (snapCompact n t).config = n.config ∧
    (snapCompact n t).dbFile = n.dbFile ∧ (snapCompact n t).fp = n.fp := by
  cases hs : n.snap with
  | none => simp [snapCompact, hs]
  | some p => simp [snapCompact, hs]

theorem snapCompact_spec {n : Node} (h : DurInv n) (t : Nat) :
    DurInv (snapCompact n t) ∧ truth (snapCompact n t) = truth n ∧ (Quiet n → Quiet (snapCompact n t)) := by
  cases hs : n.snap with
  | none =>
    have e : snapCompact n t = n := by simp [snapCompact, hs]
    rw [e]; exact ⟨h, rfl, fun q => q⟩
  | some p =>
    obtain ⟨i, d⟩ := p
    have e : snapCompact n t = { n with logStart := max n.logStart (i - t) } := by simp [snapCompact, hs]
    rw [e]
    have hle := h.snap_le i d hs
    refine ⟨⟨?_, ?_, ?_, ?_⟩, ?_, ?_⟩
    · intro j e2 hs2
      have hs2' : n.snap = some (j, e2) := hs2
      rw [hs] at hs2'
      simp only [Option.some.injEq, Prod.mk.injEq] at hs2'
      obtain ⟨rfl, rfl⟩ := hs2'
      refine ⟨hle.1, ?_⟩
      show max n.logStart (i - t) ≤ i
      omega
    · intro hs2; have hs2' : n.snap = none := hs2; rw [hs] at hs2'; cases hs2'
    · exact h.fp_ok
    · exact h.fp_le
    · rfl
    · intro q
      exact ⟨q.up, q.applied, q.live, q.notmp, q.fileok, q.nopeers⟩

/-- a complete snapshot: whatever database is live becomes the newest snapshot, the database
file and (from then on) what the durable state stands for -/
theorem snapshot_gen {n : Node} (h : DurInv n) (q : SnapPre n) (t : Nat) :
    DurInv (snapshot n t) ∧ Quiet (snapshot n t) ∧ truth (snapshot n t) = n.live ∧
    (snapshot n t).hist = n.hist ∧ (snapshot n t).live = n.live ∧
    (snapshot n t).snap = some (n.hist.length, n.live) ∧ (snapshot n t).fullNeeded = false ∧
    (snapshot n t).config = n.config ∧ (snapshot n t).fp = true ∧ (snapshot n t).dbFile = n.live := by
  have h1 := durInv_snapCheckpoint h
  have h2 := durInv_snapPersist h1
  have m2 := midSnap_persist q
  have h3 := durInv_snapInstall h2 m2
  have p3 := postInstall m2
  have t3 := truth_install m2
  have h4 := durInv_snapFingerprint h3 p3
  have q4 := quiet_snapFingerprint p3
  have c5 := snapCompact_spec h4 t
  obtain ⟨f1, f2, f3, f4, f5, f6, f7⟩ := snapCompact_fields (snapFingerprint (snapInstall (snapPersist (snapCheckpoint n)))) t
  have hin := snapInstall_eq m2
  refine ⟨c5.1, c5.2.2 q4.1, ?_, ?_, ?_, ?_, ?_, ?_, ?_, ?_⟩
  · show truth (snapCompact _ t) = _
    rw [c5.2.1, q4.2, t3]; rfl
  · show (snapCompact _ t).hist = _; rw [f1, snapFingerprint_eq, hin]; rfl
  · show (snapCompact _ t).live = _; rw [f2, snapFingerprint_eq, hin]; rfl
  · show (snapCompact _ t).snap = _; rw [f3, snapFingerprint_eq, hin]; rfl
  · show (snapCompact _ t).fullNeeded = _; rw [f4, snapFingerprint_eq, hin]
  · show (snapCompact _ t).config = _; rw [f5, snapFingerprint_eq, hin]; rfl
  · show (snapCompact _ t).fp = _; rw [f7, snapFingerprint_eq]
  · show (snapCompact _ t).dbFile = _; rw [f6, snapFingerprint_eq, hin]; rfl

/-- a complete snapshot from a quiet state changes nothing clients or restarts can see -/
theorem snapshot_spec {n : Node} (h : DurInv n) (q : Quiet n) (t : Nat) :
    DurInv (snapshot n t) ∧ Quiet (snapshot n t) ∧ truth (snapshot n t) = truth n ∧
    (snapshot n t).hist = n.hist ∧ (snapshot n t).live = n.live ∧
    (snapshot n t).snap = some (n.hist.length, n.live) ∧ (snapshot n t).fullNeeded = false ∧
    (snapshot n t).config = n.config := by
  obtain ⟨a, b, c, d, e, f, g, i, _⟩ := snapshot_gen h q.snapPre t
  exact ⟨a, b, by rw [c, q.live], d, e, f, g, i⟩

/-- `ReadFrom`: after the NOOP entry the foreign database is swapped in, then snapshotted -/
theorem boot_spec {n : Node} (h : DurInv n) (q : Quiet n) (d : Db) :
    DurInv (boot n d) ∧ Quiet (boot n d) ∧ (boot n d).live = d ∧ truth (boot n d) = d ∧
    (boot n d).snap = some ((boot n d).hist.length, d) ∧ (boot n d).fullNeeded = false := by
  obtain ⟨q1, h1, _⟩ := quiet_write h q .noop
  have h2 : DurInv { write n .noop with live := d, dbFile := d, fp := false, fullNeeded := true } :=
    ⟨h1.snap_le, h1.nosnap, fun hf => Bool.noConfusion hf, fun hf => Bool.noConfusion hf⟩
  have p2 : SnapPre { write n .noop with live := d, dbFile := d, fp := false, fullNeeded := true } :=
    ⟨q1.up, q1.applied, q1.notmp, q1.fileok, q1.nopeers⟩
  obtain ⟨a, b, c, hh, e, f, g, _⟩ := snapshot_gen h2 p2 1
  have eb : boot n d = snapshot { write n .noop with live := d, dbFile := d, fp := false, fullNeeded := true } 1 := rfl
  rw [eb]
  exact ⟨a, b, e, c, by rw [f, hh], g⟩

/-! ### crash and open -/

theorem durInv_crash {n : Node} (h : DurInv n) : DurInv (crash n) := ⟨h.snap_le, h.nosnap, h.fp_ok, h.fp_le⟩

theorem truth_crash (n : Node) : truth (crash n) = truth n := rfl

/-- the common tail of every open path: the FSM is at a state that equals the history up to
`applied`, the log still holds everything after it -/
theorem replayLog_truth {n : Node} (hA : n.logStart ≤ n.applied) (hL : n.applied ≤ n.hist.length)
    (hlive : match n.snap with
      | some (i, d) => i ≤ n.applied ∧ n.live = replay d ((n.hist.drop i).take (n.applied - i))
      | none => n.live = replay [] (n.hist.take n.applied)) :
    (replayLog n).live = truth n := by
  unfold replayLog truth
  simp only
  rw [Nat.max_eq_left hA]
  cases hs : n.snap with
  | none =>
    rw [hs] at hlive
    simp only at hlive ⊢
    rw [hlive, ← replay_append, List.take_append_drop]
  | some p =>
    obtain ⟨i, d⟩ := p
    rw [hs] at hlive
    simp only at hlive ⊢
    obtain ⟨hi, hl⟩ := hlive
    rw [hl, ← replay_append]
    congr 1
    have : n.hist.drop n.applied = (n.hist.drop i).drop (n.applied - i) := by
      rw [List.drop_drop]; congr 1; omega
    rw [this, List.take_append_drop]

theorem replayLog_fields (n : Node) :
    (replayLog n).hist = n.hist ∧ (replayLog n).snap = n.snap ∧ (replayLog n).logStart = n.logStart ∧
    (replayLog n).fp = n.fp ∧ (replayLog n).dbFile = n.dbFile ∧ (replayLog n).dbFileOk = n.dbFileOk ∧
    (replayLog n).snapTmp = n.snapTmp ∧ (replayLog n).up = n.up ∧ (replayLog n).peersFile = n.peersFile ∧
    (replayLog n).config = n.config ∧ (replayLog n).applied = n.hist.length ∧ truth (replayLog n) = truth n :=
  ⟨rfl, rfl, rfl, rfl, rfl, rfl, rfl, rfl, rfl, rfl, rfl, rfl⟩

theorem durInv_replayLog {n : Node} (h : DurInv n) : DurInv (replayLog n) := ⟨h.snap_le, h.nosnap, h.fp_ok, h.fp_le⟩

theorem durInv_openPrep {n : Node} (h : DurInv n) : DurInv (openPrep n) := ⟨h.snap_le, h.nosnap, h.fp_ok, h.fp_le⟩

/-- fast path: needs a matching fingerprint -/
theorem openFast_spec {n : Node} (h : DurInv n) (i : Nat) (d : Db) (hs : n.snap = some (i, d))
    (hf : n.fp = true) (hok : n.dbFileOk = true) (hidx : n.fpIdx = i) :
    (openFast n i).live = truth n ∧ DurInv (openFast n i) := by
  have hfile := h.fp_ok hf hok i d hs hidx
  have hle := h.snap_le i d hs
  unfold openFast
  constructor
  · have := replayLog_truth (n := { n with live := n.dbFile, applied := i }) hle.2 hle.1
      (by simp [hs, hfile, replay])
    rw [this]; rfl
  · exact ⟨h.snap_le, h.nosnap, h.fp_ok, h.fp_le⟩

theorem restoreNewest_some {n : Node} {i : Nat} {d : Db} (hs : n.snap = some (i, d)) :
    restoreNewest n = { n with dbFile := d, dbFileOk := true, fp := true, fpIdx := i, live := d, applied := i } := by
  simp [restoreNewest, hs, restoreSteps, List.foldl, restoreStep, newestIdx]

theorem restoreNewest_none {n : Node} (hs : n.snap = none) :
    restoreNewest n = { n with dbFile := [], dbFileOk := true, fp := false, live := [], applied := 0 } := by
  simp [restoreNewest, hs]

theorem truth_restoreNewest (n : Node) : truth (restoreNewest n) = truth n := by
  cases hs : n.snap with
  | none => rw [restoreNewest_none hs]; rfl
  | some p => obtain ⟨i, d⟩ := p; rw [restoreNewest_some hs]; rfl

theorem restoreNewest_fields (n : Node) :
    (restoreNewest n).hist = n.hist ∧ (restoreNewest n).snap = n.snap ∧ (restoreNewest n).logStart = n.logStart ∧
    (restoreNewest n).config = n.config ∧ (restoreNewest n).peersFile = n.peersFile ∧ (restoreNewest n).up = n.up ∧
    (restoreNewest n).snapTmp = n.snapTmp ∧ (restoreNewest n).dbFileOk = true := by
  cases hs : n.snap with
  | none => rw [restoreNewest_none hs]; exact ⟨rfl, hs, rfl, rfl, rfl, rfl, rfl, rfl⟩
  | some p => obtain ⟨i, d⟩ := p; rw [restoreNewest_some hs]; exact ⟨rfl, hs, rfl, rfl, rfl, rfl, rfl, rfl⟩

/-- rebuild path: from any durable state -/
theorem openRebuild_spec {n : Node} (h : DurInv n) :
    (openRebuild n).live = truth n ∧ DurInv (openRebuild n) ∧ (openRebuild n).dbFileOk = true := by
  unfold openRebuild
  cases hs : n.snap with
  | none =>
    have hl0 := h.nosnap hs
    have e := restoreNewest_none hs
    rw [e]
    refine ⟨?_, ⟨?_, ?_, ?_, ?_⟩, rfl⟩
    · have := replayLog_truth (n := { n with dbFile := [], dbFileOk := true, fp := false, live := [], applied := 0 })
        (by show n.logStart ≤ 0; omega) (Nat.zero_le _) (by simp [hs, replay])
      rw [this]; rfl
    · exact h.snap_le
    · exact h.nosnap
    · intro hf; cases hf
    · intro hf; cases hf
  | some p =>
    obtain ⟨i, d⟩ := p
    have hle := h.snap_le i d hs
    have e := restoreNewest_some hs
    rw [e]
    refine ⟨?_, ⟨?_, ?_, ?_, ?_⟩, rfl⟩
    · have := replayLog_truth (n := { n with dbFile := d, dbFileOk := true, fp := true, fpIdx := i, live := d, applied := i })
        hle.2 hle.1 (by simp [hs, replay])
      rw [this]; rfl
    · exact h.snap_le
    · exact h.nosnap
    · intro _ _ j e hs2 _
      have hs2' : n.snap = some (j, e) := hs2
      rw [hs] at hs2'
      simp only [Option.some.injEq, Prod.mk.injEq] at hs2'
      exact hs2'.2
    · intro _
      show i ≤ newestIdx (replayLog { n with dbFile := d, dbFileOk := true, fp := true, fpIdx := i, live := d, applied := i })
      have : newestIdx (replayLog { n with dbFile := d, dbFileOk := true, fp := true, fpIdx := i, live := d, applied := i }) = i := by
        simp [newestIdx, replayLog, hs]
      omega

theorem openNode_nopeers {n : Node} (hp : n.peersFile = none) :
    openNode n = match n.snap with
      | some (i, _) => if n.fp && n.dbFileOk && n.fpIdx == i then openFast (openPrep n) i else openRebuild (openPrep n)
      | none => openRebuild (openPrep n) := by
  unfold openNode; rw [hp]; rfl

/-- `Open` without a recovery request, from ANY durable state satisfying the invariant:
the node comes up with exactly `truth`, on the fast path and on the rebuild path -/
theorem open_truth {n : Node} (h : DurInv n) (hp : n.peersFile = none) :
    (openNode n).live = truth n ∧ truth (openNode n) = truth n ∧ DurInv (openNode n) ∧ Quiet (openNode n) ∧
    (openNode n).hist = n.hist ∧ (openNode n).config = n.config := by
  have hprep := durInv_openPrep h
  have htp : truth (openPrep n) = truth n := rfl
  rw [openNode_nopeers hp]
  cases hs : n.snap with
  | none =>
    simp only
    obtain ⟨l, dd, fok⟩ := openRebuild_spec hprep
    have ht : truth (openRebuild (openPrep n)) = truth n := by
      unfold openRebuild; rw [(replayLog_fields _).2.2.2.2.2.2.2.2.2.2.2]
      exact truth_restoreNewest _
    refine ⟨by rw [l, htp], ht, dd, ⟨?_, ?_, by rw [l, htp, ht], ?_, fok, ?_⟩, ?_, ?_⟩ <;>
      simp [openRebuild, replayLog, restoreNewest, restoreSteps, restoreStep, openPrep, hs, hp]
  | some p =>
    obtain ⟨i, d⟩ := p
    simp only
    by_cases hfast : (n.fp && n.dbFileOk && n.fpIdx == i) = true
    · rw [if_pos hfast]
      simp only [Bool.and_eq_true, beq_iff_eq] at hfast
      obtain ⟨l, dd⟩ := openFast_spec hprep i d hs hfast.1.1 hfast.1.2 hfast.2
      have ht : truth (openFast (openPrep n) i) = truth n := rfl
      refine ⟨by rw [l, htp], ht, dd, ⟨rfl, rfl, by rw [l, htp, ht], rfl, hfast.1.2, hp⟩, rfl, rfl⟩
    · rw [if_neg hfast]
      obtain ⟨l, dd, fok⟩ := openRebuild_spec hprep
      have ht : truth (openRebuild (openPrep n)) = truth n := by
        unfold openRebuild; rw [(replayLog_fields _).2.2.2.2.2.2.2.2.2.2.2]
        exact truth_restoreNewest _
      refine ⟨by rw [l, htp], ht, dd, ⟨?_, ?_, by rw [l, htp, ht], ?_, fok, ?_⟩, ?_, ?_⟩ <;>
        simp [openRebuild, replayLog, restoreNewest, restoreSteps, restoreStep, openPrep, hs, hp]

theorem recoverNode_spec {n : Node} (h : DurInv n) (peers : Config) :
    DurInv (recoverNode n peers) ∧ truth (recoverNode n peers) = truth n ∧
    (recoverNode n peers).snap = some (n.hist.length, truth n) ∧
    (recoverNode n peers).logStart = n.hist.length ∧ (recoverNode n peers).config = peers ∧
    (recoverNode n peers).peersFile = none ∧ (recoverNode n peers).hist = n.hist := by
  have hrec : replay (n.snap.getD (0, [])).2 (n.hist.drop (max (n.snap.getD (0, [])).1 n.logStart)) = truth n := by
    unfold truth
    cases hs : n.snap with
    | none => simp [h.nosnap hs]
    | some p =>
      obtain ⟨i, d⟩ := p
      have := (h.snap_le i d hs).2
      simp [Nat.max_eq_left this]
  have e : recoverNode n peers = { n with snap := some (n.hist.length, truth n), logStart := n.hist.length, config := peers, peersFile := none, fp := false, fullNeeded := false } := by
    unfold recoverNode; simp only [hrec]
  rw [e]
  refine ⟨⟨?_, ?_, ?_, ?_⟩, ?_, rfl, rfl, rfl, rfl, rfl⟩
  · intro i d hs
    simp only [Option.some.injEq, Prod.mk.injEq] at hs
    obtain ⟨rfl, rfl⟩ := hs
    exact ⟨Nat.le_refl _, Nat.le_refl _⟩
  · intro hs; cases hs
  · intro hf; cases hf
  · intro hf; cases hf
  · simp [truth, replay_nil]

/-- a peers file that fails `checkRaftConfiguration`: `Open` fails, nothing but the fingerprint
(already removed) changes, the node stays down and keeps standing for the same database -/
theorem open_invalid_peers {n : Node} (h : DurInv n) (peers : Config) (hp : n.peersFile = some peers)
    (hv : checkConfig peers = false) :
    openNode n = { n with fp := false } ∧ DurInv (openNode n) ∧ truth (openNode n) = truth n := by
  have e : openNode n = { n with fp := false } := by unfold openNode; rw [hp]; simp [hv]
  rw [e]
  exact ⟨rfl, ⟨h.snap_le, h.nosnap, fun hf => Bool.noConfusion hf, fun hf => Bool.noConfusion hf⟩, rfl⟩

/-- `Open` with a valid peers file: `RecoverNode`, then the normal start-up (never the fast path) -/
theorem open_recover_truth {n : Node} (h : DurInv n) (peers : Config) (hp : n.peersFile = some peers)
    (hv : checkConfig peers = true) :
    (openNode n).live = truth n ∧ (openNode n).snap = some (n.hist.length, truth n) ∧
    (openNode n).logStart = n.hist.length ∧ (openNode n).config = peers ∧ (openNode n).peersFile = none ∧
    DurInv (openNode n) ∧ Quiet (openNode n) ∧ truth (openNode n) = truth n ∧ (openNode n).hist = n.hist := by
  have hprep := durInv_openPrep h
  obtain ⟨rd, rt, rs, rl, rc, rp, rh⟩ := recoverNode_spec hprep peers
  obtain ⟨l, dd, fok⟩ := openRebuild_spec rd
  have e : openNode n = openRebuild (recoverNode (openPrep n) peers) := by unfold openNode; rw [hp]; simp [hv]
  rw [e]
  have hflds : ∀ m : Node, (openRebuild m).snap = m.snap ∧ (openRebuild m).logStart = m.logStart ∧
      (openRebuild m).config = m.config ∧ (openRebuild m).peersFile = m.peersFile ∧ (openRebuild m).hist = m.hist ∧
      (openRebuild m).up = m.up ∧ (openRebuild m).snapTmp = m.snapTmp ∧ (openRebuild m).applied = m.hist.length := by
    intro m
    cases hs : m.snap with
    | none => simp [openRebuild, restoreNewest, replayLog, hs]
    | some p => simp [openRebuild, restoreNewest, restoreSteps, restoreStep, replayLog, hs]
  obtain ⟨g1, g2, g3, g4, g5, g6, g7, g8⟩ := hflds (recoverNode (openPrep n) peers)
  have htp : truth (openPrep n) = truth n := rfl
  have ht : truth (openRebuild (recoverNode (openPrep n) peers)) = truth n := by
    unfold truth; rw [g1, g5, rs, rh]; simp [replay_nil, openPrep]; rfl
  refine ⟨by rw [l, rt, htp], by rw [g1, rs, htp]; rfl, by rw [g2, rl]; rfl, by rw [g3, rc], by rw [g4, rp], dd,
    ⟨by rw [g6]; rfl, by rw [g8, g5], by rw [l, rt, htp, ht], by rw [g7]; rfl, fok, by rw [g4, rp]⟩, ht, by rw [g5, rh]; rfl⟩

end RqModel.StoreSM

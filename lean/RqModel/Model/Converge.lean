/-
Converge: model for C01 (replicas converge).

Code modelled:
* http/service.go write endpoints: `execute`, `queuedExecute`, `handleRequest` call the SQL
  rewriter (`sql.Process`) on the request's statements before handing them to the
  store/proxy; so does `handleLoad`'s SQL-text branch since the `fix:` commit 706f645
  (before it, the body was handed over as written — the C01 oracle found the divergence).
  Table `rewrites`, tied to the source by the regenerated facts in Gen/StoreOrder.lean.
* command/sql/processor.go `Process` at the abstraction "every non-deterministic call is
  replaced by the value it has at the leader, at rewrite time" (the rewriter itself is
  modelled and proved in C14 by agent a5; here it is the assumed law `Sem.rewritten_indep`,
  plus a small executable instance for the driver and the witnesses).
* the apply paths: live apply, restart replay, snapshot install + log suffix, recovery
  replay — all are "apply the logged statements in index order", each entry at the
  wall-clock time and with the random source of the node and moment that applies it.
-/
import RqModel.Model.StoreSM
namespace RqModel.Converge
open RqModel.Util RqModel.StoreSM

/-- what an apply path can observe besides the database and the statement -/
structure Env where
  now : Nat      -- wall clock
  rnd : Nat      -- state of the random source
deriving Repr, DecidableEq

/-- SQLite seen from the log: executing a statement may consult the environment. `Covered` are
the statements the rewriter makes deterministic (C01's grammar: parsable, RANDOM()/RANDOMBLOB()
outside ORDER BY, RANDOMBLOB with a literal size, …); for the others — which the rewriter passes
through unchanged or only partly rewritten — nothing is claimed. -/
structure Sem (D S : Type) where
  exec    : Env → D → S → D
  rewrite : Env → S → S
  Covered : S → Prop
  /-- the C14 law: a COVERED statement that went through the rewriter does not consult the
  environment. For the real rewriter's model this is DERIVED (Props/C01 `sqlSem`) from
  C14.no_nondet_left; it is a hypothesis only for an arbitrary `Sem`. -/
  rewritten_indep : ∀ (le : Env) (s : S), Covered s →
    ∀ (e1 e2 : Env) (d : D), exec e1 d (rewrite le s) = exec e2 d (rewrite le s)

inductive Endpoint where
  | execute        -- POST /db/execute
  | queued         -- POST /db/execute?queue
  | request        -- POST /db/request
  | loadText       -- POST /db/load with a body that is not a SQLite file
  | queryStrong    -- GET/POST /db/query at level strong: the query travels through the log
deriving Repr, DecidableEq

/-- the rewriter / forwarding calls of the endpoint's handler, in source order. These lists ARE
what harness/extract reads from http/service.go (Props/C01 `code_write_endpoints`). -/
def endpointCalls : Endpoint → List String
  | .execute => ["sql.Process", "s.proxy.Execute"]
  | .queued => ["sql.Process", "s.stmtQueue.Write"]
  | .request => ["sql.Process", "s.proxy.Request"]
  | .loadText => ["db.IsValidSQLiteData", "s.proxy.Load", "sql.Process", "s.proxy.Execute"]
  | .queryStrong => ["sql.Process", "s.proxy.Query"]

/-- the call that hands the statements on towards the log -/
def forwardCall : Endpoint → String
  | .execute => "s.proxy.Execute"
  | .queued => "s.stmtQueue.Write"
  | .request => "s.proxy.Request"
  | .loadText => "s.proxy.Execute"
  | .queryStrong => "s.proxy.Query"

/-- does the endpoint run the rewriter before the statements reach the log? Computed from the
call list: `sql.Process` occurs before the forwarding call. -/
def rewrites (ep : Endpoint) : Bool :=
  ((endpointCalls ep).takeWhile (fun c => c != forwardCall ep)).contains "sql.Process"

/-- what reaches the log for a request received at `le` through `ep` -/
def logged {D S : Type} (M : Sem D S) (ep : Endpoint) (le : Env) (ss : List S) : List S :=
  if rewrites ep then ss.map (M.rewrite le) else ss

/-- an apply path: entry `i` is executed in environment `envs i` -/
def applyFrom {D S : Type} (M : Sem D S) (envs : Nat → Env) (i : Nat) (d : D) : List S → D
  | [] => d
  | s :: ss => applyFrom M envs (i + 1) (M.exec (envs i) d s) ss

/-! ### observers of commits (change data capture)

store/store.go `fsmApply` registers, on a node with CDC enabled, `cdcStreamer.CommitHook` as
SQLite's commit hook (`db.RegisterCommitHook`). SQLite asks the hook at every COMMIT and turns
the COMMIT into a ROLLBACK when the answer is non-zero. The hook's answer may depend on
node-local state nobody else shares (how full the consumer's channel is). Restart replay,
snapshot install and recovery run without that state. So convergence DEPENDS on: the observer
cannot veto. Here that dependency is explicit: `Observer` with an arbitrary private state and
verdict, `execObserved` = SQLite's rule, `NoVeto` = the hypothesis, `cdcObserver` = the model
of db/cdc.go whose verdicts are tied to the source by regenerated facts (Props/C01
`code_commit_hook_cannot_veto`). -/

/-- a node-local observer of commits: private state `O`; at each commit it sees the database the
statement produced and the statement, updates its state and says whether the commit may stand -/
structure Observer (D S : Type) where
  O : Type
  hook : O → D → S → O × Bool

/-- SQLite with a commit hook: the statement's effect is kept iff the hook lets the commit stand -/
def execObserved {D S : Type} (M : Sem D S) (ob : Observer D S) (e : Env) (o : ob.O) (d : D) (s : S) : ob.O × D :=
  let d' := M.exec e d s
  let r := ob.hook o d' s
  (r.1, if r.2 then d' else d)

/-- live apply on a node with an observer attached -/
def applyObserved {D S : Type} (M : Sem D S) (ob : Observer D S) (envs : Nat → Env) (i : Nat) (o : ob.O) (d : D) : List S → ob.O × D
  | [] => (o, d)
  | s :: ss =>
    let r := execObserved M ob (envs i) o d s
    applyObserved M ob envs (i + 1) r.1 r.2 ss

/-- THE hypothesis about observers: whatever its state, the hook lets every commit stand -/
structure NoVeto {D S : Type} (ob : Observer D S) : Prop where
  stands : ∀ (o : ob.O) (d : D) (s : S), (ob.hook o d s).2 = true

/-- the return sites of `(*CDCStreamer).CommitHook`, in source order -/
inductive HookSite where
  | noEvents      -- `if len(s.pending.Events) == 0 { return true }`
  | afterSend     -- after the non-blocking send (delivered or dropped)
deriving Repr, DecidableEq

def hookSites : List HookSite := [.noEvents, .afterSend]

/-- the verdict CommitHook returns at each site -/
def cdcVerdict : HookSite → Bool
  | .noEvents => true
  | .afterSend => true

/-- `db.RegisterCommitHook`'s callback: hook verdict → SQLite return code -/
def hookRC (verdict : Bool) : Nat := if verdict then 0 else 1

/-- SQLite's law for commit hooks: the commit stands iff the callback returned zero -/
def commitStands (rc : Nat) : Bool := rc == 0

/-- model values compared with the regenerated facts -/
def boolSrc : Bool → String
  | true => "true"
  | false => "false"
def rcSrc : Nat → String
  | 0 => "0"
  | 1 => "1"
  | _ => "?"
def cdcHookReturns : List String := hookSites.map fun s => boolSrc (cdcVerdict s)
def registerMapping : List String := ["if hook(): return " ++ rcSrc (hookRC true), "return " ++ rcSrc (hookRC false)]

/-- db/cdc.go as an observer: the private state is the number of event groups sitting in the
consumer's channel of capacity `cap` (never drained here: the worst case); `changes s` says
whether the statement produced row events. A full channel drops the group and still answers at
site `afterSend`. -/
def cdcObserver {D S : Type} (cap : Nat) (changes : S → Bool) : Observer D S where
  O := Nat
  hook := fun o _ s =>
    if changes s then (if o < cap then o + 1 else o, commitStands (hookRC (cdcVerdict .afterSend)))
    else (o, commitStands (hookRC (cdcVerdict .noEvents)))

/-- an observer that answers "not delivered" when its channel is full (what CommitHook must NOT do) -/
def vetoingObserver {D S : Type} (cap : Nat) (changes : S → Bool) : Observer D S where
  O := Nat
  hook := fun o _ s =>
    if changes s then (if o < cap then o + 1 else o, commitStands (hookRC (decide (o < cap))))
    else (o, true)

/-! ### a small executable instance (driver, witnesses) -/

inductive Expr where
  | lit (v : Int)
  | random                 -- RANDOM()
  | nowSecs                -- unixepoch('now') and friends
  | add (a b : Expr)
deriving Repr, DecidableEq

def Expr.eval (e : Env) : Expr → Int
  | .lit v => v
  | .random => Int.ofNat e.rnd
  | .nowSecs => Int.ofNat e.now
  | .add a b => a.eval e + b.eval e

def Expr.rewrite (le : Env) : Expr → Expr
  | .lit v => .lit v
  | .random => .lit (Int.ofNat le.rnd)
  | .nowSecs => .lit (Int.ofNat le.now)
  | .add a b => .add (a.rewrite le) (b.rewrite le)

inductive XStmt where
  | put (k : Nat) (v : Expr)
  | del (k : Nat)
deriving Repr, DecidableEq

def XStmt.exec (e : Env) (d : Db) : XStmt → Db
  | .put k v => dbPut d k (v.eval e)
  | .del k => dbDel d k

def XStmt.rewrite (le : Env) : XStmt → XStmt
  | .put k v => .put k (v.rewrite le)
  | .del k => .del k

theorem Expr.eval_rewrite (le e : Env) (x : Expr) : (x.rewrite le).eval e = x.eval le := by
  induction x with
  | lit v => rfl
  | random => rfl
  | nowSecs => rfl
  | add a b iha ihb => simp [Expr.rewrite, Expr.eval, iha, ihb]

def miniSem : Sem Db XStmt where
  exec := XStmt.exec
  rewrite := XStmt.rewrite
  Covered := fun _ => True
  rewritten_indep := by
    intro le s _ e1 e2 d
    cases s with
    | put k v => simp [XStmt.rewrite, XStmt.exec, Expr.eval_rewrite]
    | del k => rfl

/-! ### line protocol (`rqdrv converge`)
`endpoint <execute|queued|request|loadtext|querystrong>` → `true|false`   does it rewrite?
`logged <endpoint> <now> <rnd> <stmt,…>`  → the statements that reach the log
   statements: `p:<k>:<expr>` / `d:<k>`; expr: `r` random, `n` now, integer literal, `a+b`
`paths <now1> <rnd1> <now2> <rnd2> <stmt,…>` → `same|differ` two apply paths over the same log
`observed <cap> <stmt,…>` → `same|differ`  live apply with the CDC observer on a never-drained
   channel of capacity `cap` versus plain apply of the same log -/

structure DState where
  unit : Unit := ()

def init : DState := {}

def parseEndpoint : String → Option Endpoint
  | "execute" => some .execute
  | "queued" => some .queued
  | "request" => some .request
  | "loadtext" => some .loadText
  | "querystrong" => some .queryStrong
  | _ => none

def parseAtom (t : String) : Option Expr :=
  if t == "r" then some .random
  else if t == "n" then some .nowSecs
  else (StoreSM.parseInt t).map .lit

def parseExpr (t : String) : Option Expr :=
  match (t.splitOn "+").mapM parseAtom with
  | some (a :: rest) => some (rest.foldl .add a)
  | _ => none

def parseXStmt (t : String) : Option XStmt :=
  match t.splitOn ":" with
  | ["p", k, e] => do let k ← k.toNat?; let e ← parseExpr e; pure (.put k e)
  | ["d", k] => do let k ← k.toNat?; pure (.del k)
  | _ => none

def showExpr : Expr → String
  | .lit v => toString v
  | .random => "r"
  | .nowSecs => "n"
  | .add a b => showExpr a ++ "+" ++ showExpr b

def showXStmt : XStmt → String
  | .put k v => s!"p:{k}:{showExpr v}"
  | .del k => s!"d:{k}"

def step (d : DState) (line : String) : DState × String :=
  match words line with
  | ["endpoint", e] =>
    match parseEndpoint e with
    | some ep => (d, boolStr (rewrites ep))
    | none => (d, "bad-op")
  | ["logged", e, now, rnd, ss] =>
    match parseEndpoint e, now.toNat?, rnd.toNat?, (ss.splitOn ",").mapM parseXStmt with
    | some ep, some now, some rnd, some ss =>
      (d, joinWith "," ((logged miniSem ep ⟨now, rnd⟩ ss).map showXStmt))
    | _, _, _, _ => (d, "bad-op")
  | ["paths", n1, r1, n2, r2, ss] =>
    match n1.toNat?, r1.toNat?, n2.toNat?, r2.toNat?, (ss.splitOn ",").mapM parseXStmt with
    | some n1, some r1, some n2, some r2, some ss =>
      let a := applyFrom miniSem (fun i => ⟨n1 + i, r1 + i⟩) 0 [] ss
      let b := applyFrom miniSem (fun i => ⟨n2 + i, r2 + i⟩) 0 [] ss
      (d, if a = b then "same" else "differ")
    | _, _, _, _, _ => (d, "bad-op")
  | ["observed", cap, ss] =>
    match cap.toNat?, (ss.splitOn ",").mapM parseXStmt with
    | some cap, some ss =>
      let a := (applyObserved miniSem (cdcObserver cap (fun _ => true)) (fun _ => ⟨0, 0⟩) 0 (0 : Nat) [] ss).2
      let b := applyFrom miniSem (fun _ => ⟨0, 0⟩) 0 [] ss
      (d, if a = b then "same" else "differ")
    | _, _ => (d, "bad-op")
  | _ => (d, "bad-op")

end RqModel.Converge
--! driver: converge RqModel.Converge

/-
C04  Snapshot store plus log always rebuilds the applied state.

Model: RqModel/Model/SnapSM.lean (store/store.go fsmSnapshot / OnRelease / fsmRestore / LOAD /
ReadFrom / Open as of the `fix:` commits 6482ad3, bb0a5c5 and the requirement-token commit = code level 3; snapshot sink incl. its
re-check of the full-needed requirement, ResolveFiles, Restore). Lemmas: RqModel/Lemmas/SnapSM.lean.

Histories are arbitrary lists of `Op`: write batches, no-ops, FSM.Snapshot() (`snapBegin`) and —
after any number of further writes / loads / no-ops, as hashicorp/raft allows (a Persist that blocks
forever is a `snapBegin` never followed by its `snapEnd`) — its Persist+Close or
Release (`snapEnd` with any `Outcome`: installed; Persist not invoked; Persist failing before /
after the staged WAL is consumed — the latter being the sink's fatal exit, i.e. a restart), an
FSM.Snapshot() that checkpoints but cannot stage its WAL, user snapshots, loads, boots, snapshot
installs (also while a local snapshot is in flight), reaps, restarts.
-/
import RqModel.Lemmas.SnapSM
import RqModel.Gen.StoreStaging
import RqModel.Gen.SinkShape
namespace C04
open RqModel.SnapSM

/-- For every history: restoring the newest snapshot (one full database followed by its chain
of WAL segments, each checkpointed into exactly the database it was cut from) and replaying the
log after it yields exactly the applied database; unless a full snapshot is due anyway (the
FULL_NEEDED flag or the modification-time guard), the staged WAL segments are exactly the changes
between that restored snapshot and the database file — so the next incremental snapshot extends
the chain correctly; and a snapshot that has been captured but not yet persisted will satisfy
both when it is installed, whatever was applied in between. -/
theorem chain_inv (ops : List Op) : ChainInv (run 3 {} ops) :=
  run_inv ops {} chainInv_init

/-- Hence a node restarting from the snapshot store after any history opens and holds exactly
what it had applied … -/
theorem restart_rebuilds_applied_state (ops : List Op) :
    let s := run 3 {} ops
    (step 3 s .restart).2 = "ok" ∧ (step 3 s .restart).1.db = s.db := by
  intro s
  have h := chain_inv ops
  have hre := h.restore
  cases hr : resolve (run 3 {} ops).snaps with
  | none => have := h.resolves; rw [hr] at this; cases this
  | some r =>
    rw [hr] at hre
    have hr' : resolve s.snaps = some r := hr
    have hre' : replay (some r) s.tail = some s.db := hre
    simp only [step, restartSM, hr', hre']
    exact ⟨trivial, trivial⟩

/-- Two machines. The leader has any history `lops`; a follower with any history `fops` — also
one with a local snapshot captured and not yet persisted, which raft does not exclude — is sent the
leader's newest snapshot (the database it restores to) and installs it, then receives the leader's
log entries after that snapshot. The follower ends up with exactly the leader's applied database,
its own newest snapshot restores to what was sent, and nothing stale is staged for its next
incremental snapshot. -/
theorem follower_install_then_replay_equals_leader (lops fops : List Op) :
    let L := run 3 {} lops
    ∃ r, resolve L.snaps = some r ∧
      let F := (step 3 (run 3 {} fops) (.install r)).1
      resolve F.snaps = some r ∧ F.db = r ∧ F.staged = [] ∧ replay (some F.db) L.tail = some L.db := by
  intro L
  have h := chain_inv lops
  cases hr : resolve (run 3 {} lops).snaps with
  | none => have := h.resolves; rw [hr] at this; cases this
  | some r =>
    refine ⟨r, rfl, ?_⟩
    have hre := h.restore
    rw [hr] at hre
    have h30 : ¬ ((3 : Nat) = 0) := by decide
    have h31 : (3 : Nat) ≥ 1 := by decide
    simp only [step, h30, decide_false, Bool.false_and, Bool.false_eq_true, if_false, h31, if_true]
    refine ⟨resolve_full_last _ _, trivial, trivial, ?_⟩
    simpa using hre

/-- … and whatever then becomes of the follower's own snapshot that was in flight (installed below
the leader's, not invoked, failing, or — an incremental whose staged WAL files fsmRestore has
removed — ending in Sink.Close's fatal exit and a process restart), the follower's newest snapshot
still restores to what was sent, and it still holds the leader's database: the superseded snapshot
changes nothing that a restore can see. -/
theorem superseded_local_snapshot_is_harmless (fops : List Op) (r : C) (o : Outcome) :
    let F := (step 3 (run 3 {} fops) (.install r)).1
    let F' := (step 3 F (.snapEnd o)).1
    resolve F'.snaps = some r ∧ F'.db = r ∧ F'.tail = [] := by
  intro F F'
  have hF : ChainInv F := step_inv _ (chain_inv fops) _
  have h30 : ¬ ((3 : Nat) = 0) := by decide
  have h31 : (3 : Nat) ≥ 1 := by decide
  have hsn : F.snaps = (run 3 {} fops).snaps ++ [.full r] := by
    simp only [F, step, h30, decide_false, Bool.false_and, Bool.false_eq_true, if_false, h31, if_true]
  have hdb : F.db = r := by
    simp only [F, step, h30, decide_false, Bool.false_and, Bool.false_eq_true, if_false, h31, if_true]
  have htl : F.tail = [] := by
    simp only [F, step, h30, decide_false, Bool.false_and, Bool.false_eq_true, if_false, h31, if_true]
  have hres : resolve F.snaps = some r := by rw [hsn]; exact resolve_full_last _ _
  have hpend : F.pend = none ∨ ∃ x, F.pend = some (.stale x) := by
    simp only [F, step, h30, decide_false, Bool.false_and, Bool.false_eq_true, if_false, h31, if_true]
    cases (run 3 {} fops).pend with
    | none => exact Or.inl rfl
    | some p => cases p <;> exact Or.inr ⟨_, rfl⟩
  show resolve (snapEnd 3 F o).1.snaps = some r ∧ (snapEnd 3 F o).1.db = r ∧ (snapEnd 3 F o).1.tail = []
  rcases hpend with hp | ⟨x, hp⟩
  · simp only [snapEnd, hp]
    exact ⟨hres, hdb, htl⟩
  · unfold snapEnd
    simp only [hp]
    cases x with
    | none =>
      cases o with
      | ok =>
        simp only [restartSM, hres, htl, replay, List.foldl_nil]
        exact ⟨trivial, trivial, trivial⟩
      | notInvoked => exact ⟨hres, hdb, htl⟩
      | failBefore => exact ⟨hres, hdb, htl⟩
      | failAfter => exact ⟨hres, hdb, htl⟩
    | some a =>
      cases o with
      | ok =>
        refine ⟨?_, hdb, htl⟩
        show resolve (insertBelowNewest F.snaps (.full a)) = some r
        rw [hsn, resolve_insertBelow, resolve_full_last]
      | notInvoked => exact ⟨hres, hdb, htl⟩
      | failBefore => exact ⟨hres, hdb, htl⟩
      | failAfter => exact ⟨hres, hdb, htl⟩

/-- An install is two steps — the leader's snapshot is put into the follower's snapshot store (its
sink is closed), then fsmRestore replaces the database. If the process dies in between, the next
start must come up with the database of the newest snapshot, which is now the installed one; the
old database file (and a clean-snapshot marker that still matches it: the fast-restart path of
Store.Open, C03) must not be reused. In the model the start restores from the snapshot store;
the correspondence run makes this start an ORDINARY one (marker left in place) on the real store. -/
theorem interrupted_install_restart_holds_installed_snapshot (ops : List Op) (c : C) :
    let r := step 3 (run 3 {} ops) (.installCrash c)
    r.2 = "ok" ∧ r.1.db = c ∧ resolve r.1.snaps = some c ∧ r.1.tail = [] ∧ r.1.staged = [] := by
  intro r
  have hres : resolve ((run 3 {} ops).snaps ++ [Snap.full c]) = some c := resolve_full_last _ _
  simp only [r, step, restartSM, hres, replay, List.foldl_nil, fileAfter, hasLoad, List.any_nil, Bool.or_false]
  exact ⟨trivial, trivial, trivial, trivial, trivial⟩

/-! ### the defects repaired in /repo, kept as checked counterexamples on the older code levels -/

/-- 6482ad3 (level 0 → 1): a staged WAL left by a snapshot that was not persisted survives the full
snapshot after a load, resp. a snapshot install, and is packaged into the next incremental. -/
def staleAfterLoad : List Op :=
  [.write 1, .snapshot .ok, .write 2, .snapshot .notInvoked, .load [3], .write 4, .snapshot .ok,
   .write 5, .snapshot .ok]

def staleAfterInstall : List Op :=
  [.write 1, .snapshot .ok, .write 2, .snapshot .failBefore, .install [3], .write 4, .snapshot .ok]

theorem stale_staged_wal_witness :
    (step 0 (run 0 {} staleAfterLoad) .restart).2 = "corrupt" ∧
    resolve (run 0 {} staleAfterLoad).snaps = none ∧
    (step 0 (run 0 {} staleAfterInstall) .restart).2 = "corrupt" ∧
    (step 3 (run 3 {} staleAfterLoad) .restart).2 = "ok" ∧
    (run 3 {} staleAfterLoad).db = [3, 4, 5] ∧
    (step 3 (run 3 {} staleAfterInstall) .restart).2 = "ok" := by decide

/-- bb0a5c5 (level 1 → 2): a full snapshot of database A is captured; a load of B is applied before
it is persisted; the sink installs full(A) and clears FULL_NEEDED; from here only the
modification-time guard remembers the load. The next (full) snapshot is captured but not persisted
— fsmSnapshot records the new modification time — and the one after it is taken as an incremental
on top of full(A). -/
def guardLost : List Op :=
  [.write 1, .snapBegin, .load [2], .snapEnd .ok, .write 3, .snapBegin, .snapEnd .notInvoked,
   .write 4, .snapshot .ok]

theorem mtime_guard_lost_witness :
    (step 1 (run 1 {} guardLost) .restart).2 = "corrupt" ∧
    (step 2 (run 2 {} guardLost) .restart).2 = "ok" ∧
    (step 3 (run 3 {} guardLost) .restart).2 = "ok" ∧ (run 3 {} guardLost).db = [2, 3, 4] := by decide

/-- The requirement-token commit (level 2 → 3): up to level 2 the sink, installing the full
snapshot of A captured before load B was applied, cleared the requirement the load had raised,
and only the modification-time guard remembered the load (`after_racing_close…`: the next
FSM.Snapshot() is still a full one). From level 3 on the requirement survives. -/
theorem racing_close_witness :
    let h := [Op.write 1, .snapBegin, .load [2], .snapEnd .ok, .write 3]
    (run 2 {} h).fullNeeded = false ∧ (run 2 {} h).modified = true ∧ (snapBegin 2 (run 2 {} h)).2 = "full" ∧
    (run 3 {} h).fullNeeded = true ∧ (snapBegin 3 (run 3 {} h)).2 = "full" := by decide

/-- … also when the modification-time guard is unavailable (what a coarse file-system clock, or a
change like "LOAD records the swapped file's time", amounts to): with the guard forced off after
the racing Close, level 2 takes an incremental snapshot on top of full(A); level 3 does not. -/
theorem requirement_survives_without_mtime_guard :
    let h := [Op.write 1, .snapBegin, .load [2], .snapEnd .ok, .write 3]
    (snapBegin 2 { run 2 {} h with modified := false }).2 = "incremental" ∧
    (snapBegin 3 { run 3 {} h with modified := false }).2 = "full" := by decide

/-- 4670e70 (levels ≤ 2 → 3; found and repaired under C06): the incremental path of fsmSnapshot
checkpoints the WAL into the database file and then fails to write its frames to wal-staging. Before
the fix nothing recorded the gap and the next incremental snapshot was cut from a database the
store's chain does not lead to; now a full snapshot is required. -/
def stageFails : List Op :=
  [.write 1, .snapshot .ok, .write 2, .snapBeginStageFails, .write 3, .snapshot .ok]

theorem stage_failure_witness :
    (step 2 (run 2 {} stageFails) .restart).2 = "corrupt" ∧
    (step 3 (run 3 {} stageFails) .restart).2 = "ok" ∧ (run 3 {} stageFails).db = [1, 2, 3] ∧
    resolve (run 3 {} stageFails).snaps = some [1, 2, 3] := by decide

/-- Not a violation of this property, but a consequence of `fix:` 6482ad3 worth knowing: a snapshot
from the leader installed between a follower's FSM.Snapshot() of an INCREMENTAL snapshot and its
Persist+Close makes that Close fail on the removed staging directory, which is the sink's fatal
exit; the process restarts and holds the leader's database (before 6482ad3 the stale WAL was
installed as an incremental below the leader's snapshot instead). -/
def installDuringIncremental : List Op :=
  [.write 1, .snapshot .ok, .write 2, .snapBegin, .noop, .install [9], .snapEnd .ok]

theorem install_during_incremental_persist_exits_witness :
    (step 3 (run 3 {} (installDuringIncremental.take 6)) (.snapEnd .ok)).2 = "fatal-exit" ∧
    (run 3 {} installDuringIncremental).db = [9] ∧
    resolve (run 3 {} installDuringIncremental).snaps = some [9] ∧
    (run 3 {} installDuringIncremental).pend = none := by decide

/-- In general, not only on that history: with the requirement tokens, after ANY history, whenever
the modification-time guard would fire (the database file changed after the recorded time) the
FULL_NEEDED flag is set as well — so `snapshotDueNext` decides the same with the guard switched
off, and the staged WAL segments are the delta to the database file whenever the FLAG is clear
(`ChainInv.staged` without its guard hypothesis). -/
theorem mtime_guard_implied_by_flag (ops : List Op) :
    let s := run 3 {} ops
    (s.modified = true → s.fullNeeded = true) ∧
    fullDue { s with modified := false } = fullDue s ∧
    (s.fullNeeded = false → s.snaps ≠ [] → s.staged.foldl applySeg (resolve s.snaps) = some s.file) := by
  intro s
  have hg : GuardInv s := guard_run ops {} guardInv_init
  have hc : ChainInv s := chain_inv ops
  have hmod : s.fullNeeded = false → s.modified = false := by
    intro hf
    cases hm : s.modified with
    | false => rfl
    | true => rw [hg.flag hm] at hf; cases hf
  refine ⟨hg.flag, ?_, fun hf hne => hc.staged hf (hmod hf) hne⟩
  cases hm : s.modified with
  | false => simp [fullDue, hm]
  | true => simp [fullDue, hm, hg.flag hm]

/-! ### tie to the source (regenerated on every run) -/

/-- the places the model drops the staging directory / raises the requirement are in the source:
the full-snapshot branch of fsmSnapshot (unconditionally, before the checkpoint), fsmRestore
(after the swap) and Open; a full snapshot carries the requirement token read at capture time; the
sink clears the requirement only for a full snapshot with a token, by compare-and-clear under the
store's lock; nothing else in the sources lowers the requirement -/
theorem staging_dropped_in_source :
    RqModel.Gen.StoreStaging.fullSnapshotDropsStaging = some true ∧
    RqModel.Gen.StoreStaging.fullSnapshotAlwaysRequiresFull = some true ∧
    RqModel.Gen.StoreStaging.restoreDropsStaging = some true ∧
    RqModel.Gen.StoreStaging.openDropsStaging = some true ∧
    RqModel.Gen.StoreStaging.fullSnapshotCapturesToken = some true ∧
    RqModel.Gen.SinkShape.clearGuard = "s.stc != nil && s.localWALDir == \"\" && s.hasFullNeededToken" ∧
    RqModel.Gen.SinkShape.clearComparesToken = true ∧
    RqModel.Gen.SinkShape.requirementChangesSerialized = true ∧
    RqModel.Gen.SinkShape.setDueNextNonFullCallers = [] := by decide

/-! ### non-vacuity: a history with every kind of operation -/

def exHistory : List Op :=
  [.write 1, .snapshot .ok, .write 2, .snapshot .notInvoked, .write 3, .snapshot .failBefore, .write 4,
   .snapshot .ok, .reap, .load [5], .write 6, .snapshot .failAfter, .snapshot .ok, .boot [7], .write 8,
   .snapBegin, .write 9, .load [10], .snapEnd .ok, .write 11, .snapBegin, .noop, .snapEnd .ok,
   .write 14, .snapBeginStageFails, .write 15, .snapshot .ok, .write 16, .snapBegin, .write 17, .snapEnd .failAfter,
   .write 18, .snapBegin, .noop, .install [12], .snapEnd .ok, .write 13, .snapshot .ok, .restart]

example : (run 3 {} exHistory).db = [12, 13] ∧ resolve (run 3 {} exHistory).snaps = some [12, 13] := by decide

end C04

package http

// C21 (part d): the HTTP surface. GET /db/backup streams the backup into the response. When
// the backup fails AFTER part of it has been written (local store failure, or a relayed
// transfer that breaks), the HTTP client must be able to tell: an error status, or a
// transport error while reading the body — never a complete-looking 200 response.

import (
	"time"
	"errors"
	"fmt"
	"io"
	"net/http"
	"testing"

	command "github.com/rqlite/rqlite/v10/command/proto"
	"github.com/rqlite/rqlite/v10/proxy"
	"github.com/rqlite/rqlite/v10/store"
)

func TestVerifC21HTTP(t *testing.T) {
	rep := vfNewReport("C21", "real http.Service GET /db/backup over a store double whose Backup writes k bytes of a 64 KB backup and then fails (k = 0, 1, 100, 5000, 40000), locally and relayed (store says not-leader, the cluster client double fails after k bytes); a case is non-trivial when k > 0; distinct by (path, k)")
	defer rep.Write()
	m := &MockStore{leaderAddr: "leader:4002"}
	c := &mockClusterService{apiAddr: "http://leader:4001"}
	s := New("127.0.0.1:0", m, c, proxy.New(m, c), nil)
	if err := s.Start(); err != nil {
		t.Fatalf("start: %v", err)
	}
	defer s.Close()
	full := make([]byte, 65536)
	for i := range full {
		full[i] = byte(i * 7)
	}
	host := fmt.Sprintf("http://%s", s.Addr().String())
	var ops, impl []string
	for _, relayed := range []bool{false, true} {
		for _, k := range []int{-1, 0, 1, 100, 5000, 40000} {
			fn := func(dst io.Writer) error {
				if k < 0 {
					_, err := dst.Write(full)
					return err
				}
				if k > 0 {
					dst.Write(full[:k])
				}
				return errors.New("c21: scripted backup failure")
			}
			if relayed {
				m.backupFn = func(br *command.BackupRequest, dst io.Writer) error { return store.ErrNotLeader }
				c.backupFn = func(br *command.BackupRequest, addr string, t time.Duration, w io.Writer) error { return fn(w) }
			} else {
				m.backupFn = func(br *command.BackupRequest, dst io.Writer) error { return fn(dst) }
			}
			path := "local"
			if relayed {
				path = "relayed"
			}
			resp, err := (&http.Client{}).Get(host + "/db/backup")
			var body []byte
			var rerr error
			status := 0
			if err == nil {
				status = resp.StatusCode
				body, rerr = io.ReadAll(resp.Body)
				resp.Body.Close()
			}
			sawError := err != nil || rerr != nil || status != http.StatusOK
			if k < 0 {
				ops = append(ops, fmt.Sprintf("http 1 %d 0", len(full)))
			} else {
				ops = append(ops, fmt.Sprintf("http 1 %d 1", k))
			}
			stTok := fmt.Sprint(status)
			if err != nil || rerr != nil {
				stTok = "-" // the response broke: before or after the status line
			}
			impl = append(impl, fmt.Sprintf("status=%s clean=%v error-visible=%v", stTok, err == nil && rerr == nil, sawError))
			rep.Case(fmt.Sprintf("%s:%d", path, k), k > 0)
			rep.Count(fmt.Sprintf("http:%s:status=%d:transport-error=%v", path, status, err != nil || rerr != nil))
			if k < 0 {
				if sawError || len(body) != len(full) {
					rep.Fail("http:complete-backup-reported-as-error", fmt.Sprintf("%s: status %d, %d bytes, %v %v", path, status, len(body), err, rerr), nil)
				}
				continue
			}
			if !sawError {
				when := "after-first-byte"
				if k == 0 {
					when = "before-first-byte"
				}
				rep.Fail(fmt.Sprintf("http:failed-backup-answered-200-with-complete-looking-body:%s:%s", path, when),
					fmt.Sprintf("%s backup failed after %d of %d bytes; the HTTP client got status 200 and a body of %d bytes that ended normally", path, k, len(full), len(body)),
					map[string]interface{}{"path": path, "fail_after": k, "status": status, "body_bytes": len(body)})
			}
		}
	}
	rep.vfCompare("backup", ops, impl, nil)
}

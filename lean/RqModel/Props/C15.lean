/-
C15  No request can change rqlite-critical SQLite settings.

Property theorems only. Model: RqModel/Model/Pragma.lean (db/state.go sqlTokens +
IsBreakingPragma after the `fix:` commit). The declarative specification below
says which token sequences are dangerous; the theorem is that the guard's
single-pass scan flags exactly those, for every SQL text.
-/
import RqModel.Model.Pragma
import RqModel.Lemmas.Pragma
import RqModel.Gen.StoreGuards
namespace C15
open RqModel RqModel.Pragma

/-! ### specification: dangerous statements, over tokens -/

def IsExplainPrefix (e : List Tok) : Prop :=
  e = [] ∨ e = [.word wExplain] ∨ e = [.word wExplain, .word wQuery, .word wPlan]

/-- `[EXPLAIN [QUERY PLAN]] PRAGMA [schema .] name …` with a critical name, given a
value by `=` or `(` — or `wal_checkpoint`, which runs in every form. Without a
schema the name is not followed by a dot (otherwise it *is* the schema). -/
def DangerStmt (stmt : List Tok) : Prop :=
  ∃ (e sch : List Tok) (n : Tok) (t : List Nat) (rest : List Tok),
    stmt = e ++ Tok.word wPragma :: (sch ++ n :: rest) ∧
    IsExplainPrefix e ∧
    ((sch = [] ∧ rest.head? ≠ some (.punct 46)) ∨ (∃ s, (nameOf s).isSome = true ∧ sch = [s, .punct 46])) ∧
    nameOf n = some t ∧ t ∈ critical ∧ (t = wWalCheckpoint ∨ valueFollows rest = true)

/-- a token sequence is dangerous when a dangerous statement starts at its beginning
or right after a `;` token — wherever in the text that is -/
def Dangerous (ts : List Tok) : Prop :=
  DangerStmt ts ∨ ∃ pre stmt, ts = pre ++ Tok.punct 59 :: stmt ∧ DangerStmt stmt

/-! ### the guard's statement-head test is the specification -/

theorem wPragma_ne_wExplain : (wPragma == wExplain) = false := by decide
theorem wPragma_ne_wQuery : (wPragma == wQuery) = false := by decide

theorem skipExplain_of_prefix (e : List Tok) (he : IsExplainPrefix e) (tail : List Tok) :
    skipExplain (e ++ Tok.word wPragma :: tail) = Tok.word wPragma :: tail := by
  rcases he with rfl | rfl | rfl
  · simp [skipExplain, wPragma_ne_wExplain]
  · simp only [List.cons_append, List.nil_append, skipExplain, beq_self_eq_true, if_true]
    cases tail with
    | nil => rfl
    | cons a as =>
      cases a with
      | word p => simp [wPragma_ne_wQuery]
      | quoted p => rfl
      | punct c => rfl
  · simp [skipExplain]

theorem skipExplain_spec (ts : List Tok) :
    ∃ e, IsExplainPrefix e ∧ ts = e ++ skipExplain ts := by
  unfold skipExplain
  split
  · rename_i e rest
    split
    · rename_i he
      have he' : e = wExplain := by simpa using he
      split
      · rename_i q p rest'
        split
        · rename_i hq
          have : q = wQuery ∧ p = wPlan := by simpa using hq
          exact ⟨[.word wExplain, .word wQuery, .word wPlan], Or.inr (Or.inr rfl), by simp [he', this.1, this.2]⟩
        · exact ⟨[.word wExplain], Or.inr (Or.inl rfl), by simp [he']⟩
      · exact ⟨[.word wExplain], Or.inr (Or.inl rfl), by simp [he']⟩
    · exact ⟨[], Or.inl rfl, by simp⟩
  · exact ⟨[], Or.inl rfl, by simp⟩

/-- after PRAGMA: the specification of `[schema .] name …` -/
def AfterSpec (ts : List Tok) : Prop :=
  ∃ (sch : List Tok) (n : Tok) (t : List Nat) (rest : List Tok),
    ts = sch ++ n :: rest ∧
    ((sch = [] ∧ rest.head? ≠ some (.punct 46)) ∨ (∃ s, (nameOf s).isSome = true ∧ sch = [s, .punct 46])) ∧
    nameOf n = some t ∧ t ∈ critical ∧ (t = wWalCheckpoint ∨ valueFollows rest = true)

theorem tail_spec_iff (n : Tok) (rest : List Tok) :
    (match nameOf n with
      | some t => critical.contains t && (t == wWalCheckpoint || valueFollows rest)
      | none => false) = true ↔
    ∃ t, nameOf n = some t ∧ t ∈ critical ∧ (t = wWalCheckpoint ∨ valueFollows rest = true) := by
  cases hn : nameOf n with
  | none => simp
  | some t => simp

theorem afterPragma_iff (ts : List Tok) : afterPragma ts = true ↔ AfterSpec ts := by
  unfold afterPragma AfterSpec
  -- shapes of ts with respect to skipSchema
  match ts with
  | [] => simp [skipSchema]
  | [n] =>
    simp only [skipSchema]
    refine (tail_spec_iff n []).trans ?_
    constructor
    · rintro ⟨t, h1, h2, h3⟩
      exact ⟨[], n, t, [], rfl, Or.inl ⟨rfl, by simp⟩, h1, h2, h3⟩
    · rintro ⟨sch, n', t, rest, hts, hs, h1, h2, h3⟩
      rcases hs with ⟨rfl, _⟩ | ⟨s, _, rfl⟩
      · simp at hts; obtain ⟨rfl, rfl⟩ := hts; exact ⟨t, h1, h2, h3⟩
      · simp at hts
  | n :: m :: r =>
    by_cases hdot : m = .punct 46
    · subst hdot
      by_cases hname : (nameOf n).isSome = true
      · -- schema prefix skipped
        simp only [skipSchema, hname, if_true]
        constructor
        · intro h
          match r, h with
          | n' :: rest, h =>
            simp only at h
            obtain ⟨t, h1, h2, h3⟩ := (tail_spec_iff n' rest).1 h
            exact ⟨[n, .punct 46], n', t, rest, rfl, Or.inr ⟨n, hname, rfl⟩, h1, h2, h3⟩
        · rintro ⟨sch, n', t, rest, hts, hs, h1, h2, h3⟩
          rcases hs with ⟨rfl, hnd⟩ | ⟨s, _, rfl⟩
          · simp at hts; obtain ⟨rfl, rfl⟩ := hts; simp at hnd
          · simp at hts
            obtain ⟨_, rfl⟩ := hts
            simp only
            exact (tail_spec_iff n' rest).2 ⟨t, h1, h2, h3⟩
      · -- first token is not a name: neither side holds
        have hnone : nameOf n = none := by
          cases h : nameOf n with
          | none => rfl
          | some x => simp [h] at hname
        simp only [skipSchema, hname]
        simp only [Bool.false_eq_true, if_false, hnone]
        constructor
        · intro h; simp at h
        · rintro ⟨sch, n', t, rest, hts, hs, h1, h2, h3⟩
          rcases hs with ⟨rfl, _⟩ | ⟨s, hs', rfl⟩
          · simp at hts; obtain ⟨rfl, _⟩ := hts; simp [hnone] at h1
          · simp at hts; obtain ⟨rfl, _⟩ := hts; simp [hnone] at hs'
    · -- no dot after the first token: no schema prefix
      have hss : skipSchema (n :: m :: r) = n :: m :: r := by
        unfold skipSchema
        split
        · rename_i n0 rest0 heq
          simp at heq
          exact absurd heq.2.1 hdot
        · rfl
      rw [hss]
      simp only
      refine (tail_spec_iff n (m :: r)).trans ?_
      constructor
      · rintro ⟨t, h1, h2, h3⟩
        refine ⟨[], n, t, m :: r, rfl, Or.inl ⟨rfl, ?_⟩, h1, h2, h3⟩
        simp only [List.head?_cons, ne_eq, Option.some.injEq]
        exact hdot
      · rintro ⟨sch, n', t, rest, hts, hs, h1, h2, h3⟩
        rcases hs with ⟨rfl, _⟩ | ⟨s, _, rfl⟩
        · simp at hts; obtain ⟨rfl, rfl⟩ := hts; exact ⟨t, h1, h2, h3⟩
        · simp at hts; exact absurd hts.2.1 hdot

theorem headDanger_iff (stmt : List Tok) : headDanger stmt = true ↔ DangerStmt stmt := by
  constructor
  · intro h
    obtain ⟨e, he, hdecomp⟩ := skipExplain_spec stmt
    unfold headDanger at h
    cases hs : skipExplain stmt with
    | nil => simp [hs] at h
    | cons a rest =>
      cases a with
      | word w =>
        simp only [hs, Bool.and_eq_true, beq_iff_eq] at h
        obtain ⟨hw, hafter⟩ := h
        obtain ⟨sch, n, t, rest', hr, h1, h2, h3, h4⟩ := (afterPragma_iff rest).1 hafter
        refine ⟨e, sch, n, t, rest', ?_, he, h1, h2, h3, h4⟩
        rw [hdecomp, hs, hw, hr]
      | quoted w => simp [hs] at h
      | punct c => simp [hs] at h
  · rintro ⟨e, sch, n, t, rest, hst, he, h1, h2, h3, h4⟩
    unfold headDanger
    rw [hst, skipExplain_of_prefix e he]
    simp only [beq_self_eq_true, Bool.true_and]
    exact (afterPragma_iff _).2 ⟨sch, n, t, rest, rfl, h1, h2, h3, h4⟩

/-! ### the scan finds a dangerous statement wherever it is -/

theorem scan_iff (ts : List Tok) : ∀ b, scan b ts = true ↔
    (b = true ∧ headDanger ts = true) ∨
    ∃ pre stmt, ts = pre ++ Tok.punct 59 :: stmt ∧ headDanger stmt = true := by
  induction ts with
  | nil =>
    intro b
    simp [scan, headDanger, skipExplain]
  | cons t r ih =>
    intro b
    simp only [scan, Bool.or_eq_true, Bool.and_eq_true]
    rw [ih]
    constructor
    · rintro (h | h | ⟨pre, stmt, hr, hd⟩)
      · exact Or.inl h
      · obtain ⟨ht, hd⟩ := h
        have : t = Tok.punct 59 := by simpa using ht
        exact Or.inr ⟨[], r, by simp [this], hd⟩
      · exact Or.inr ⟨t :: pre, stmt, by simp [hr], hd⟩
    · rintro (h | ⟨pre, stmt, hts, hd⟩)
      · exact Or.inl h
      · cases pre with
        | nil =>
          simp at hts
          obtain ⟨rfl, rfl⟩ := hts
          exact Or.inr (Or.inl ⟨by simp, hd⟩)
        | cons p pre' =>
          simp at hts
          obtain ⟨rfl, rfl⟩ := hts
          exact Or.inr (Or.inr ⟨pre', stmt, rfl, hd⟩)

/-- ∀ SQL text (any bytes): the guard flags it exactly when, after SQLite-style
tokenisation (which removes whitespace, comments and quoting and folds case), a
dangerous statement starts at the beginning of the text or after any `;`.
Completeness is the direction the property needs; soundness says the guard refuses
nothing else. -/
theorem guard_complete (t : List Nat) : Pragma.guard t = true ↔ Dangerous (lex t) := by
  unfold Pragma.guard Dangerous
  rw [scan_iff]
  constructor
  · rintro (⟨_, h⟩ | ⟨pre, stmt, hts, h⟩)
    · exact Or.inl ((headDanger_iff _).1 h)
    · exact Or.inr ⟨pre, stmt, hts, (headDanger_iff _).1 h⟩
  · rintro (h | ⟨pre, stmt, hts, h⟩)
    · exact Or.inl ⟨rfl, (headDanger_iff _).2 h⟩
    · exact Or.inr ⟨pre, stmt, hts, (headDanger_iff _).2 h⟩



/-! ### letter case, leading filler and position do not matter -/

/-- ∀ SQL text: the guard's verdict depends only on the ASCII-lower-cased text, so
two texts that differ only in letter case get the same verdict. -/
theorem guard_case_insensitive (t1 t2 : List Nat) (h : t1.map lower = t2.map lower) :
    Pragma.guard t1 = Pragma.guard t2 := by
  unfold Pragma.guard
  rw [← lex_lower t1, ← lex_lower t2, h]

/-- whitespace, `-- …` line comments and `/* … */` block comments (any body that holds no `*/`:
stars, slashes, `/*`, a body that starts with a slash or ends in a star are all allowed - SQLite's
rule: the comment runs to the first `*/` after the opener) in any number and order -/
inductive Filler : List Nat → Prop where
  | nil : Filler []
  | space (c : Nat) (rest : List Nat) : isSpace c = true → Filler rest → Filler (c :: rest)
  | line (body rest : List Nat) : 10 ∉ body → Filler rest → Filler (45 :: 45 :: (body ++ 10 :: rest))
  | block (body rest : List Nat) : NoClose body = true → Filler rest → Filler (47 :: 42 :: (body ++ 42 :: 47 :: rest))

/-- ∀ filler, ∀ SQL text: filler in front of a text changes neither its tokens nor
the guard's verdict. -/
theorem leading_filler_invisible (f : List Nat) (hf : Filler f) (t : List Nat) :
    lex (f ++ t) = lex t ∧ Pragma.guard (f ++ t) = Pragma.guard t := by
  have hl : lex (f ++ t) = lex t := by
    induction hf with
    | nil => rfl
    | space c rest hc _ ih => rw [List.cons_append, lex_space c hc, ih]
    | line body rest hb _ ih =>
      have : (45 :: 45 :: (body ++ 10 :: rest)) ++ t = 45 :: 45 :: (body ++ 10 :: (rest ++ t)) := by simp
      rw [this, lex_line_comment body hb, ih]
    | block body rest hb _ ih =>
      have : (47 :: 42 :: (body ++ 42 :: 47 :: rest)) ++ t = 47 :: 42 :: (body ++ 42 :: 47 :: (rest ++ t)) := by simp
      rw [this, lex_block_comment_general body hb, ih]
  exact ⟨hl, by unfold Pragma.guard; rw [hl]⟩

/-- ∀ token sequences: a statement the guard refuses is refused wherever it stands
after a `;` in a longer text. -/
theorem position_independent (before stmt : List Tok) (h : scan true stmt = true) :
    scan true (before ++ Tok.punct 59 :: stmt) = true := by
  rw [scan_iff] at h ⊢
  rcases h with ⟨_, hd⟩ | ⟨pre, s, hs, hd⟩
  · exact Or.inr ⟨before, stmt, rfl, hd⟩
  · exact Or.inr ⟨before ++ Tok.punct 59 :: pre, s, by simp [hs], hd⟩

example : Filler (bytesOf " \t-- x\n/* c */\n") := by
  apply Filler.space 32 _ (by decide)
  apply Filler.space 9 _ (by decide)
  exact Filler.line (bytesOf " x") _ (by decide)
    (Filler.block (bytesOf " c ") _ (by decide) (Filler.space 10 _ (by decide) Filler.nil))

/-- the comments the seeded change C15d mis-skips are fillers: `/*/ */`, `/*/*/`, `/***/`, `/* /* */` -/
example : Filler (bytesOf "/*/ */") ∧ Filler (bytesOf "/*/*/") ∧ Filler (bytesOf "/***/") ∧ Filler (bytesOf "/* /* */") :=
  ⟨Filler.block (bytesOf "/ ") [] (by decide) Filler.nil, Filler.block (bytesOf "/") [] (by decide) Filler.nil,
   Filler.block (bytesOf "*") [] (by decide) Filler.nil, Filler.block (bytesOf " /* ") [] (by decide) Filler.nil⟩

/-- so a critical PRAGMA behind such a comment is refused like the bare one -/
example : Pragma.guard ((47 :: 42 :: (bytesOf "/ " ++ 42 :: 47 :: [])) ++ bytesOf "PRAGMA synchronous=2") = true := by
  rw [(leading_filler_invisible _ (Filler.block (bytesOf "/ ") [] (by decide) Filler.nil) _).2]; decide

/-! ### the guard is applied to every request (regenerated facts) -/

/-- fact obligation: in Store.Execute, Store.Query and Store.Request the pragma
check is the first guard dominating every call that touches the local database or
appends to the Raft log; the check ranges over every statement of the request and
calls IsBreakingPragma on its SQL text; the helper `execute` only appends to the
log. (Every HTTP endpoint and inter-node command that carries SQL - execute, query,
request, queued writes, SQL-text loads - reaches one of these three functions.) -/
theorem guard_applied_everywhere :
    Gen.StoreGuards.sinks.map (fun s => (s.1, s.2.1)) =
      [("Execute", "s.execute"), ("Query", "s.raft.Apply"), ("Query", "s.db.QueryWithContext"),
       ("Request", "s.db.QueryWithContext"), ("Request", "s.raft.Apply")] ∧
    Gen.StoreGuards.sinks.all (fun s => s.2.2.head? == some "guard:err := p.Check(); err != nil => err") = true ∧
    Gen.StoreGuards.executeHelperSinks = ["s.raft.Apply"] ∧
    Gen.StoreGuards.pragmaCheckCoversEveryStatement = true ∧
    -- `p` is the Request of the function's own request parameter, defined once
    Gen.StoreGuards.pragmaCheckSubject.map (fun t => (t.1, t.2.2 == "p := (*PragmaCheckRequest)(" ++ t.2.1 ++ ".Request)")) =
      [("Execute", true), ("Query", true), ("Request", true)] ∧
    -- Check is exactly: nil receiver passes; every statement, unconditionally, through the guard
    Gen.StoreGuards.pragmaCheckBody =
      ["if p == nil { return nil }", "for _, stmt := range p.Statements", "return nil"] ∧
    Gen.StoreGuards.pragmaCheckLoopBody =
      ["if sql.IsBreakingPragma(stmt.Sql) { return fmt.Errorf(\"disallowed pragma\") }"] := by decide

/-- fact obligation: the model's critical names are the keys of db.BreakingPragmas -/
theorem critical_names_match_source :
    Gen.StoreGuards.breakingPragmaKeys.map bytesOf = critical := by decide +kernel

/-! ### the recorded bypasses of the old guard are all refused (kernel-evaluated) -/

def refused (s : String) : Bool := Pragma.guard (bytesOf s)

/-- every spelling that took effect on the write connection of the unchanged tree -/
theorem known_bypasses_refused :
    ["PRAGMA synchronous(1)", "PRAGMA query_only(1)", "PRAGMA main.wal_autocheckpoint=7",
     "/* c */ PRAGMA synchronous=2", "SELECT 1; PRAGMA synchronous=1", "PRAGMA \"synchronous\"=3",
     "PRAGMA main . synchronous = 2", "PRAGMA/**/wal_checkpoint(TRUNCATE)",
     "EXPLAIN PRAGMA synchronous=1", "EXPLAIN QUERY PLAN PRAGMA synchronous=3",
     "PRAGMA 'synchronous'=1", "PRAGMA `synchronous`=3", "PRAGMA [synchronous]=1",
     "PRAGMA synchronous -- x\n = 3", ";;PRAGMA synchronous=1", "pragma\tSYNCHRONOUS\n=\r1",
     "CREATE TABLE x(a); PRAGMA query_only=1", "PRAGMA \"main\".\"query_only\"(true)",
     "PRAGMA journal_mode=DELETE", "PRAGMA wal_checkpoint", "PRAGMA main.wal_checkpoint",
     "PRAGMA main\x0c\x0b.synchronous(1)", "PRAGMA \x0bsynchronous = 2"].all refused = true := by
  decide +kernel

/-- the guard does not refuse reads of the settings, quoted text that merely
mentions a PRAGMA, or the strings the package's own tests require to pass -/
theorem harmless_accepted :
    ["PRAGMA synchronous", "PRAGMA main.journal_mode", "PRAGMA foreign_keys=1", "PRAGMA synchronous.foo=1",
     "SELECT * FROM foo WHERE s=\"PRAGMA wal_autocheckpoint = 1000\"", "SELECT 'x; PRAGMA synchronous=1'",
     "-- PRAGMA synchronous=1\nSELECT 1", "/* ; PRAGMA synchronous=1 */ SELECT 1",
     "X   PRAGMA JOURNAL_MODE=", "FOO PRAGMA main.synchronous=OFF", "INSERT INTO t VALUES('a;b'); SELECT 2",
     "EXPLAIN QUERY PRAGMA synchronous=1"].all (fun s => !refused s) = true := by
  decide +kernel

/-- non-vacuity of the specification: a concrete dangerous token sequence -/
example : Dangerous (lex (bytesOf "SELECT 1; pragma Main.Synchronous (0)")) := by
  rw [← guard_complete]; decide +kernel

end C15

package cluster

// C20 (inter-node client): the answer a forwarded request gets must be the leader's
// answer to THAT request. The real cluster.Client (pooled connections) talks to a
// real cluster.Service whose database echoes a tag taken from the request. A
// latency-injecting Dialer (the Client's public Dialer interface) makes chosen
// requests "slow": every read on the client's connections is delayed beyond the
// request's timeout, so the client gives up while the leader's answer is still on
// its way. Sequences of execute / query / unified requests and highwater-mark
// broadcasts, some of them slow, are run through one Client; every successful
// answer must carry the tag of the request it was returned for. The model
// `clientpool` (RqModel/Model/ClientPool.lean) predicts ok:<tag> / timeout.

import (
	"context"
	"encoding/binary"
	"fmt"
	"io"
	"net"
	"os"
	"strconv"
	"strings"
	"sync"
	"sync/atomic"
	"testing"
	"time"

	"github.com/rqlite/rqlite/v10/auth"
	"github.com/rqlite/rqlite/v10/cluster/proto"
	command "github.com/rqlite/rqlite/v10/command/proto"
	pb "google.golang.org/protobuf/proto"
)

type c20Net struct {
	delayUntil atomic.Int64 // unix nanos: reads on client connections block until then
}

type c20Conn struct {
	net.Conn
	n  *c20Net
	mu sync.Mutex
	dl time.Time // read deadline
}

func (c *c20Conn) SetDeadline(t time.Time) error {
	c.mu.Lock()
	c.dl = t
	c.mu.Unlock()
	return c.Conn.SetDeadline(t)
}
func (c *c20Conn) SetReadDeadline(t time.Time) error {
	c.mu.Lock()
	c.dl = t
	c.mu.Unlock()
	return c.Conn.SetReadDeadline(t)
}
func (c *c20Conn) Read(b []byte) (int, error) {
	for {
		du := time.Unix(0, c.n.delayUntil.Load())
		now := time.Now()
		if !now.Before(du) {
			break
		}
		c.mu.Lock()
		dl := c.dl
		c.mu.Unlock()
		if !dl.IsZero() && dl.Before(du) {
			if d := time.Until(dl); d > 0 {
				time.Sleep(d)
			}
			return 0, os.ErrDeadlineExceeded // the answer is still on its way
		}
		time.Sleep(du.Sub(now))
	}
	return c.Conn.Read(b)
}

type c20Dialer struct {
	inner Dialer
	n     *c20Net
}

func (d *c20Dialer) Dial(addr string, timeout time.Duration) (net.Conn, error) {
	conn, err := d.inner.Dial(addr, timeout)
	if err != nil {
		return nil, err
	}
	return &c20Conn{Conn: conn, n: d.n}, nil
}

const c20ServerDelay = 700 * time.Millisecond

func c20Tag(sql string) int64 {
	v, _ := strconv.ParseInt(strings.TrimPrefix(sql, "tag:"), 10, 64)
	return v
}

type c20Op struct {
	kind    string // execute | query | request | hwm
	tag     int64
	slow    bool
	retries int // the caller's retries argument (0 = the HTTP API's default)
}

func TestVerifC20Client(t *testing.T) {
	rep := vfNewReport("C20", "inter-node client: sequences of 6 forwarded requests (execute, query, unified request, highwater-mark broadcast; each slow with probability 1/4: every read on the client's connections is delayed past the request's timeout by a latency-injecting Dialer) through ONE real cluster.Client against a real cluster.Service whose database echoes the request's tag; plus directed sequences (slow then fast of every kind pair); non-trivial when the sequence contains a slow request followed by another request; distinct by the sequence")
	defer rep.Write()
	r := vfNewRng(2020)

	tn := mustNewMockTransport()
	var exMu sync.Mutex
	var executed []int64  // leader side: every command the database was asked to run, in order
	var slowTags sync.Map // tags the leader answers only after c20ServerDelay (concurrent part)
	note := func(tag int64) {
		exMu.Lock()
		executed = append(executed, tag)
		exMu.Unlock()
		if _, ok := slowTags.Load(tag); ok {
			time.Sleep(c20ServerDelay)
		}
	}
	db := &mockDatabase{
		executeFn: func(er *command.ExecuteRequest) ([]*command.ExecuteQueryResponse, uint64, error) {
			tag := c20Tag(er.Request.Statements[0].Sql)
			note(tag)
			return []*command.ExecuteQueryResponse{{Result: &command.ExecuteQueryResponse_E{E: &command.ExecuteResult{LastInsertId: tag}}}}, uint64(tag), nil
		},
		queryFn: func(qr *command.QueryRequest) ([]*command.QueryRows, uint64, error) {
			tag := c20Tag(qr.Request.Statements[0].Sql)
			note(tag)
			return []*command.QueryRows{{Columns: []string{fmt.Sprint(tag)}}}, uint64(tag), nil
		},
		requestFn: func(rr *command.ExecuteQueryRequest) ([]*command.ExecuteQueryResponse, uint64, uint64, error) {
			tag := c20Tag(rr.Request.Statements[0].Sql)
			note(tag)
			return []*command.ExecuteQueryResponse{{Result: &command.ExecuteQueryResponse_E{E: &command.ExecuteResult{LastInsertId: tag}}}}, 0, uint64(tag), nil
		},
	}
	s := New(tn, db, mustNewMockManager(), nil)
	s.logger.SetOutput(io.Discard)
	hwmC := make(chan uint64, 1024)
	s.RegisterHWMUpdate(hwmC)
	if err := s.Open(); err != nil {
		t.Fatalf("open: %v", err)
	}
	defer s.Close()

	timeout := 200 * time.Millisecond
	req := func(tag int64) *command.Request {
		return &command.Request{Statements: []*command.Statement{{Sql: fmt.Sprintf("tag:%d", tag)}}}
	}

	var seqs [][]c20Op
	kinds := []string{"execute", "query", "request", "hwm"}
	tag := int64(100)
	next := func() int64 { tag++; return tag }
	for _, k1 := range kinds {
		for _, k2 := range kinds {
			if k2 == "hwm" {
				continue // the answer to a broadcast carries no tag
			}
			seqs = append(seqs, []c20Op{{k1, next(), true, 0}, {k2, next(), false, 0}, {k2, next(), false, 0}})
		}
	}
	// a caller that asks for retries
	seqs = append(seqs, []c20Op{{"execute", next(), true, 1}, {"execute", next(), false, 0}})
	for i := 0; i < vfScale(4, 60); i++ {
		var sq []c20Op
		for j := 0; j < 6; j++ {
			k := kinds[r.Intn(len(kinds))]
			rt := 0
			if k != "hwm" && r.Intn(5) == 0 {
				rt = 1
			}
			sq = append(sq, c20Op{k, next(), r.Intn(4) == 0, rt})
		}
		seqs = append(seqs, sq)
	}

	var ops, impl []string
	for si, sq := range seqs {
		nw := &c20Net{}
		cl := NewClient(&c20Dialer{inner: tn, n: nw}, 5*time.Second)
		seqStart := len(ops)
		inconclusive := false
		ops = append(ops, "reset")
		impl = append(impl, "ok")
		var desc []string
		for _, op := range sq {
			desc = append(desc, fmt.Sprintf("%s(tag %d%s%s)", op.kind, op.tag, map[bool]string{true: ", answer arrives after the timeout", false: ""}[op.slow], map[bool]string{true: fmt.Sprintf(", retries=%d", op.retries), false: ""}[op.retries > 0]))
		}
		nontrivial := false
		for j, op := range sq {
			if op.slow && j < len(sq)-1 {
				nontrivial = true
			}
		}
		rep.Case(strings.Join(desc, " ; "), nontrivial)
		exMu.Lock()
		executed = nil
		exMu.Unlock()
		for j, op := range sq {
			if op.slow {
				nw.delayUntil.Store(time.Now().Add(time.Duration(3+op.retries)*timeout + 100*time.Millisecond).UnixNano())
			}
			got := int64(-1)
			var err error
			ctx := context.Background()
			switch op.kind {
			case "execute":
				var res []*command.ExecuteQueryResponse
				res, _, err = cl.Execute(ctx, &command.ExecuteRequest{Request: req(op.tag)}, s.Addr(), nil, timeout, op.retries)
				if err == nil && len(res) == 1 && res[0].GetE() != nil {
					got = res[0].GetE().LastInsertId
				}
			case "query":
				var res []*command.QueryRows
				res, _, err = cl.Query(ctx, &command.QueryRequest{Request: req(op.tag)}, s.Addr(), nil, timeout, op.retries)
				if err == nil && len(res) == 1 && len(res[0].Columns) == 1 {
					got, _ = strconv.ParseInt(res[0].Columns[0], 10, 64)
				}
			case "request":
				var res []*command.ExecuteQueryResponse
				res, _, _, err = cl.Request(ctx, &command.ExecuteQueryRequest{Request: req(op.tag)}, s.Addr(), nil, timeout, op.retries)
				if err == nil && len(res) == 1 && res[0].GetE() != nil {
					got = res[0].GetE().LastInsertId
				}
			case "hwm":
				resp, e := cl.BroadcastHWM(ctx, uint64(op.tag), 0, timeout, s.Addr())
				err = e
				if e == nil {
					if rr := resp[s.Addr()]; rr == nil || rr.Error != "" {
						err = fmt.Errorf("broadcast: %v", rr)
					} else {
						got = op.tag
					}
				}
			}
			obs := ""
			switch {
			case err != nil && (strings.Contains(err.Error(), "timeout") || strings.Contains(err.Error(), "deadline")):
				obs = "timeout"
			case err != nil:
				obs = "error:" + err.Error()
			default:
				obs = fmt.Sprintf("ok:%d", got)
			}
			mk := "op"
			if op.kind == "hwm" {
				mk = "hwm"
			}
			if !op.slow && obs == "timeout" {
				// the machine is so loaded that a request the leader answers at once took longer than the
				// timeout: nothing can be concluded from this sequence (it is not a property failure)
				inconclusive = true
				break
			}
			ops = append(ops, fmt.Sprintf("%s %d %s %d", mk, op.tag, map[bool]string{true: "1", false: "0"}[op.slow], op.retries))
			impl = append(impl, obs)
			rep.Count("kind:" + op.kind)
			if op.slow {
				rep.Count("slow-requests")
			}
			if err == nil && got != op.tag {
				what := fmt.Sprintf("the answer to request %d", got)
				if got < 0 {
					what = "an answer that is not this request's (no result with its tag)"
				}
				rep.Fail("client:"+op.kind+":answer-belongs-to-another-request",
					fmt.Sprintf("one cluster.Client, requests in order [%s]: request %d (%s, tag %d) was answered with %s", strings.Join(desc, " ; "), j+1, op.kind, op.tag, what),
					map[string]interface{}{"sequence": desc, "failing_request": j + 1, "tag_sent": op.tag, "tag_in_answer": got})
			}
			if op.slow {
				// the leader finishes what it was sent; how often did it execute this request?
				time.Sleep(30 * time.Millisecond)
				exMu.Lock()
				n := 0
				for _, e := range executed {
					if e == op.tag {
						n++
					}
				}
				exMu.Unlock()
				if n > 1 && op.kind != "hwm" {
					sig := "client:" + op.kind + ":executed-more-than-once-on-the-leader-without-retries-requested"
					if op.retries > 0 {
						sig = "client:" + op.kind + ":executed-again-on-the-leader-for-a-caller-requested-retry"
					}
					rep.Fail(sig, fmt.Sprintf("one cluster.Client, requests in order [%s]: request %d (%s, tag %d, retries=%d) whose answer was late was sent %d times and the leader executed it %d times", strings.Join(desc, " ; "), j+1, op.kind, op.tag, op.retries, n, n),
						map[string]interface{}{"sequence": desc, "request": j + 1, "tag": op.tag, "retries": op.retries, "executions_on_leader": n})
				}
				// let the late answers arrive before the next request
				if d := time.Until(time.Unix(0, nw.delayUntil.Load())); d > 0 {
					time.Sleep(d)
				}
				time.Sleep(60 * time.Millisecond)
			}
		}
		if inconclusive {
			ops, impl = ops[:seqStart], impl[:seqStart]
			rep.Count("sequences-inconclusive-under-load")
			time.Sleep(time.Until(time.Unix(0, nw.delayUntil.Load())) + 50*time.Millisecond)
			continue
		}
		// the leader-side execution log of the whole sequence (broadcasts do not reach the database)
		time.Sleep(20 * time.Millisecond)
		exMu.Lock()
		var ex []string
		mine := map[int64]bool{}
		for _, op := range sq {
			mine[op.tag] = true
		}
		for _, e := range executed {
			if mine[e] { // under heavy load an execution of the previous sequence can land here late
				ex = append(ex, fmt.Sprint(e))
			}
		}
		exMu.Unlock()
		ops = append(ops, "executed")
		if len(ex) == 0 {
			impl = append(impl, "-")
		} else {
			impl = append(impl, strings.Join(ex, ","))
		}
		rep.TracesValidated++
		if si < 2 {
			rep.Sample(map[string]interface{}{"sequence": desc})
		}
	}
	for len(hwmC) > 0 {
		<-hwmC
	}
	rep.vfCompare("clientpool", ops, impl, nil)

	// ---- a connection that breaks AFTER the leader executed the command and before its answer:
	// not a deadline error, so Client.retry still makes its forced-new attempt even with retries = 0
	// and the command is executed a second time (C20.executed_once_reset_witness).
	{
		ln, err := net.Listen("tcp", "127.0.0.1:0")
		if err != nil {
			t.Fatalf("listen: %v", err)
		}
		defer ln.Close()
		var rmu sync.Mutex
		received := 0
		go func() {
			for {
				conn, err := ln.Accept()
				if err != nil {
					return
				}
				go func(conn net.Conn) {
					defer conn.Close()
					hdr := make([]byte, 8)
					if _, err := io.ReadFull(conn, hdr); err != nil {
						return
					}
					body := make([]byte, binary.LittleEndian.Uint64(hdr))
					if _, err := io.ReadFull(conn, body); err != nil {
						return
					}
					rmu.Lock()
					received++ // the leader has the whole command: it executes it
					n := received
					rmu.Unlock()
					if n == 1 {
						return // ... and the connection breaks before the answer
					}
					p, _ := pb.Marshal(&proto.CommandExecuteResponse{})
					writeBytesWithLength(conn, p)
				}(conn)
			}
		}()
		cl := NewClient(&c20Dialer{inner: tn, n: &c20Net{}}, 5*time.Second)
		_, _, err = cl.Execute(context.Background(), &command.ExecuteRequest{Request: req(next())}, ln.Addr().String(), nil, 2*time.Second, 0)
		rmu.Lock()
		n := received
		rmu.Unlock()
		rep.Case("execute, retries=0, connection breaks after the leader received the command", true)
		if n > 1 {
			rep.Fail("client:execute:executed-again-after-a-broken-connection-without-retries-requested",
				fmt.Sprintf("execute with retries=0: the first connection broke after the leader had received the command; the client sent it again on a new connection (error returned to the caller: %v): the leader received and executes it %d times", err, n),
				map[string]interface{}{"commands_received_by_leader": n, "client_error": fmt.Sprint(err)})
		}
	}

	// ---- the caller's credentials decide on the leader, for every request on a pooled connection:
	// a leader with a credential store; through ONE client (so through the same pooled connection)
	// first user u with the right password, then u with a wrong password, for every forwarded kind.
	// The second must be refused ("unauthorized") and must not be executed.
	{
		cs := auth.NewCredentialsStore()
		if err := cs.Load(strings.NewReader(`[{"username":"u","password":"right","perms":["all"]}]`)); err != nil {
			t.Fatalf("credential store: %v", err)
		}
		tn2 := mustNewMockTransport()
		s2 := New(tn2, db, mustNewMockManager(), cs)
		s2.logger.SetOutput(io.Discard)
		if err := s2.Open(); err != nil {
			t.Fatalf("open: %v", err)
		}
		defer s2.Close()
		good := &proto.Credentials{Username: "u", Password: "right"}
		forward := func(cl *Client, kind string, tg int64, creds *proto.Credentials) error {
			ctx := context.Background()
			switch kind {
			case "execute":
				_, _, err := cl.Execute(ctx, &command.ExecuteRequest{Request: req(tg)}, s2.Addr(), creds, 5*time.Second, 0)
				return err
			case "query":
				_, _, err := cl.Query(ctx, &command.QueryRequest{Request: req(tg)}, s2.Addr(), creds, 5*time.Second, 0)
				return err
			}
			_, _, _, err := cl.Request(ctx, &command.ExecuteQueryRequest{Request: req(tg)}, s2.Addr(), creds, 5*time.Second, 0)
			return err
		}
		for _, k1 := range []string{"execute", "query", "request"} {
			for _, k2 := range []string{"execute", "query", "request"} {
				for _, bad := range []*proto.Credentials{{Username: "u", Password: "wrong"}, {Username: "u", Password: ""}, nil} {
					cl := NewClient(&c20Dialer{inner: tn2, n: &c20Net{}}, 5*time.Second)
					exMu.Lock()
					executed = nil
					exMu.Unlock()
					t1, t2, t3 := next(), next(), next()
					e1 := forward(cl, k1, t1, good)
					e2 := forward(cl, k2, t2, bad)
					e3 := forward(cl, k2, t3, good)
					exMu.Lock()
					ex := append([]int64(nil), executed...)
					exMu.Unlock()
					ran := func(tg int64) bool {
						for _, e := range ex {
							if e == tg {
								return true
							}
						}
						return false
					}
					badDesc := "no credentials"
					if bad != nil {
						badDesc = fmt.Sprintf("u with password %q", bad.Password)
					}
					key := fmt.Sprintf("one client: %s as u/right, then %s as %s, then %s as u/right", k1, k2, badDesc, k2)
					rep.Case(key, true)
					rep.Count("credentials-on-pooled-connection")
					if e1 != nil || !ran(t1) || e3 != nil || !ran(t3) {
						rep.Fail("client-creds:"+k2+":authorised-request-refused", fmt.Sprintf("%s: the correctly authenticated requests gave %v / %v", key, e1, e3), map[string]interface{}{"sequence": key})
					}
					if e2 == nil || e2.Error() != "unauthorized" || ran(t2) {
						rep.Fail("client-creds:"+k2+":executed-on-the-leader-with-wrong-credentials-after-a-good-request-on-the-connection",
							fmt.Sprintf("%s: the second request returned error %v and was executed on the leader: %v", key, e2, ran(t2)),
							map[string]interface{}{"sequence": key, "error": fmt.Sprint(e2), "executed": ran(t2)})
					}
				}
			}
		}
	}

	// ---- concurrency: several goroutines forward through ONE client (one shared pool); one of them
	// times out (the leader answers it late) while the others keep sending, also after the late answer
	// has been written. Model: C20.concurrent_answers_belong_and_execute_once (any interleaving).
	rounds := vfScale(3, 40)
	for round := 0; round < rounds; round++ {
		cl := NewClient(&c20Dialer{inner: tn, n: &c20Net{}}, 5*time.Second)
		exMu.Lock()
		executed = nil
		exMu.Unlock()
		type outcome struct {
			kind string
			tag  int64
			got  int64
			err  error
		}
		var omu sync.Mutex
		var outs []outcome
		var wg sync.WaitGroup
		do := func(kind string, tg int64) {
			got := int64(-1)
			var err error
			ctx := context.Background()
			switch kind {
			case "execute":
				var res []*command.ExecuteQueryResponse
				res, _, err = cl.Execute(ctx, &command.ExecuteRequest{Request: req(tg)}, s.Addr(), nil, timeout, 0)
				if err == nil && len(res) == 1 && res[0].GetE() != nil {
					got = res[0].GetE().LastInsertId
				}
			case "query":
				var res []*command.QueryRows
				res, _, err = cl.Query(ctx, &command.QueryRequest{Request: req(tg)}, s.Addr(), nil, timeout, 0)
				if err == nil && len(res) == 1 && len(res[0].Columns) == 1 {
					got, _ = strconv.ParseInt(res[0].Columns[0], 10, 64)
				}
			default:
				var res []*command.ExecuteQueryResponse
				res, _, _, err = cl.Request(ctx, &command.ExecuteQueryRequest{Request: req(tg)}, s.Addr(), nil, timeout, 0)
				if err == nil && len(res) == 1 && res[0].GetE() != nil {
					got = res[0].GetE().LastInsertId
				}
			}
			omu.Lock()
			outs = append(outs, outcome{kind, tg, got, err})
			omu.Unlock()
		}
		slowKind := []string{"execute", "query", "request"}[round%3]
		slowTag := next()
		slowTags.Store(slowTag, true)
		wg.Add(1)
		go func() { defer wg.Done(); do(slowKind, slowTag) }()
		nWorkers := 3
		for w := 0; w < nWorkers; w++ {
			var tags []int64
			for i := 0; i < 8; i++ {
				tags = append(tags, next())
			}
			wg.Add(1)
			go func(w int, tags []int64) {
				defer wg.Done()
				for i, tg := range tags {
					do([]string{"execute", "query", "request"}[(w+i)%3], tg)
					time.Sleep(time.Duration(90+20*w) * time.Millisecond) // spread over ~1 s: before, during and after the late answer
				}
			}(w, tags)
		}
		wg.Wait()
		time.Sleep(c20ServerDelay) // let the leader finish the slow request
		exMu.Lock()
		count := map[int64]int{}
		for _, e := range executed {
			count[e]++
		}
		exMu.Unlock()
		rep.Case(fmt.Sprintf("concurrent round %d: slow %s + %d workers x 8 requests", round, slowKind, nWorkers), true)
		for _, o := range outs {
			rep.Count("concurrent:" + o.kind)
			if o.err == nil && o.got != o.tag {
				rep.Fail("client-concurrent:"+o.kind+":answer-belongs-to-another-request",
					fmt.Sprintf("round %d: %d goroutines share one cluster.Client while request %d (%s) times out: request tag %d (%s) was answered with tag %d", round, nWorkers+1, slowTag, slowKind, o.tag, o.kind, o.got),
					map[string]interface{}{"round": round, "slow_tag": slowTag, "tag_sent": o.tag, "tag_in_answer": o.got})
			}
			if o.tag == slowTag && o.err == nil {
				rep.Note("round %d: the slow request %d was answered in time (machine too slow for the timing?)", round, slowTag)
			}
			if count[o.tag] != 1 {
				rep.Fail("client-concurrent:"+o.kind+":not-executed-exactly-once-on-the-leader",
					fmt.Sprintf("round %d: request tag %d (%s, error %v) was executed %d times on the leader", round, o.tag, o.kind, o.err, count[o.tag]),
					map[string]interface{}{"round": round, "tag": o.tag, "executions": count[o.tag], "error": fmt.Sprint(o.err)})
			}
		}
		rep.TracesValidated++
	}
}

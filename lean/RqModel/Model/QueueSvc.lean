/-
Model of the queued-write path of http/service.go (C23): `queuedExecute`
(producer side: `stmtQueue.Write(stmts, fc)`, optional wait on `fc`) and
`runQueue` (the single consumer) on top of the queue LTS of
RqModel/Model/Queue.lean.

    for { select { case <-closeCh: return
                   case req := <-stmtQueue.C:
        if req.Objects != nil {
            for { select { case <-closeCh: return; default: }
                  _, _, _, err = proxy.Execute(.., er, ..)
                  if err == nil { break }
                  ... log ...; time.Sleep(retryDelay) } }
        atomic.StoreInt64(&s.seqNum, req.SequenceNumber)
        req.Close() } }

Statements are `Nat`s (identities). `Execute` is external: each call either
succeeds (`execOk`), fails without effect (`execFail`), or fails from the
caller's point of view although the batch was committed and applied
(`execFailCommitted`: raft.ErrLeadershipLost / a lost response of a forwarded
request; `runQueue` retries on EVERY error, so such a batch is applied again).
Nothing is assumed about how often it fails. `applied` records every time a batch
reached the database. `req.Objects == nil`
exactly when the merged request has no statements (`append` of empty slices to
a nil slice stays nil), and then `Execute` is skipped.
-/
import RqModel.Model.Queue
namespace RqModel.QueueSvc
open RqModel.Util RqModel.Queue

structure Svc where
  q : S
  cur : Option Req := none          -- taken from C, Execute not yet successful
  done : List Req := []             -- fully processed requests, in order
  applied : List (List Nat) := []   -- statement lists of the successful Execute calls, in order
  failed : Nat := 0                 -- failed Execute calls so far
  lostAcks : Nat := 0               -- Execute calls that returned an error although the batch WAS applied
  lastSeq : Int := 0                -- s.seqNum
  stopped : Bool := false           -- runQueue returned
deriving Repr

def mk (maxSize : Nat) (batchSize timeout : Int) : Svc := { q := Queue.mk maxSize batchSize timeout }

/-- post-write processing: store the sequence number, `req.Close()` -/
def finish (v : Svc) (r : Req) : Svc :=
  { v with q := Queue.next v.q (.closeReq v.done.length), done := v.done ++ [r], cur := none, lastSeq := r.seq }

/-- how `runQueue` classifies a failed `Execute` (for its log line and counters ONLY) -/
inductive ErrKind where
  | leaderNotFound      -- errors.Is(err, proxy.ErrLeaderNotFound)
  | leadershipLost      -- "leadership lost while committing log"
  | notLeader           -- "not leader"
  | other               -- anything else: connection refused, i/o timeout, store not open, ...
deriving Repr, DecidableEq

inductive Step where
  | queue (st : Queue.Step)   -- any producer / run-loop / timer step of the queue (not the consumer's)
  | take                      -- `case req := <-s.stmtQueue.C`
  | execFail (k : ErrKind)    -- Execute returned an error of ANY kind: count it, sleep, retry the same batch.
                              -- The retry loop is left only by success (`execOk`) or shutdown (`stop`).
  | execOk                    -- Execute returned nil
  | execFailCommitted         -- Execute returned an error (e.g. "leadership lost while committing log",
                              -- a lost forward response) but raft did commit and apply the batch
  | stop                      -- `case <-s.closeCh: return`
deriving Repr, DecidableEq

/-- the consumer's own queue steps are not available to the environment -/
def envStep : Queue.Step → Bool
  | .consume => false
  | .closeReq _ => false
  | _ => true

def step (v : Svc) : Step → Option Svc
  | .queue st => if envStep st then some { v with q := Queue.next v.q st } else none
  | .take =>
    if v.stopped || v.cur.isSome then none else
    match v.q.sendCh with
    | none => none
    | some r =>
      let v1 := { v with q := Queue.next v.q .consume }
      if r.objs.isEmpty then some (finish v1 r) else some { v1 with cur := some r }
  | .execFail _ =>
    if v.stopped then none else
    match v.cur with
    | some _ => some { v with failed := v.failed + 1 }
    | none => none
  | .execFailCommitted =>
    if v.stopped then none else
    match v.cur with
    | some r => some { v with applied := v.applied ++ [r.objs], failed := v.failed + 1, lostAcks := v.lostAcks + 1 }
    | none => none
  | .execOk =>
    if v.stopped then none else
    match v.cur with
    | some r => some (finish { v with applied := v.applied ++ [r.objs] } r)
    | none => none
  | .stop => some { v with stopped := true }

def next (v : Svc) (st : Step) : Svc := (step v st).getD v

def run (v : Svc) (steps : List Step) : Svc := steps.foldl next v

/-! ### line protocol (component `queuesvc`)
`new <maxSize> <batchSize> <timeout>` → `ok`
`write <stmts|-> <flushId|->` → `<seq>` | `blocked` | `closed`
`flush` `recv` `fire` `send` → `ok` | `disabled` | `blocked`
`take` `execfail` `execfailcommitted` `execok` `stop` → `ok` | `disabled`
`applied` → `a,b|c|...` or `-` ;  `closedflush` → ids | `-` ; `failed` → n ; `lastseq` → n -/

structure DState where
  v : Svc := mk 0 0 0

def init : DState := {}

def optStep (d : DState) (r : Option Svc) : DState × String :=
  match r with
  | some v' => ({ v := v' }, "ok")
  | none => (d, "disabled")

def qStep (d : DState) (r : Option S) (no : String) : DState × String :=
  match r with
  | some q' => ({ v := { d.v with q := q' } }, "ok")
  | none => (d, no)

def step' (d : DState) (line : String) : DState × String :=
  match words line with
  | ["new", m, b, t] =>
    match m.toNat?, b.toInt?, t.toInt? with
    | some m, some b, some t => ({ v := mk m b t }, "ok")
    | _, _, _ => (d, "bad-op")
  | ["write", os, f] =>
    let fl : Option (Option Nat) := if f == "-" then some none else f.toNat?.map some
    match natList os, fl with
    | some os, some fl =>
      if d.v.q.done then (d, "closed") else
      match Queue.write d.v.q os fl with
      | some q' => ({ v := { d.v with q := q' } }, toString q'.seqNum)
      | none => (d, "blocked")
    | _, _ => (d, "bad-op")
  | ["flush"] => qStep d (Queue.flush d.v.q) "blocked"
  | ["recv"] => qStep d (Queue.recv d.v.q) "disabled"
  | ["fire"] => qStep d (Queue.fire d.v.q) "disabled"
  | ["send"] => qStep d (Queue.send d.v.q) "disabled"
  | ["take"] => optStep d (step d.v .take)
  | ["execfail"] => optStep d (step d.v (.execFail .other))
  | ["execfail", k] =>
    match k with
    | "leader-not-found" => optStep d (step d.v (.execFail .leaderNotFound))
    | "leadership-lost" => optStep d (step d.v (.execFail .leadershipLost))
    | "not-leader" => optStep d (step d.v (.execFail .notLeader))
    | "other" => optStep d (step d.v (.execFail .other))
    | _ => (d, "bad-op")
  | ["execok"] => optStep d (step d.v .execOk)
  | ["execfailcommitted"] => optStep d (step d.v .execFailCommitted)
  | ["stop"] => optStep d (step d.v .stop)
  | ["applied"] =>
    (d, if d.v.applied.isEmpty then "-" else "|".intercalate (d.v.applied.map natsStr))
  | ["closedflush"] => (d, natsStr d.v.q.closedFlush)
  | ["failed"] => (d, toString d.v.failed)
  | ["lastseq"] => (d, toString d.v.lastSeq)
  | _ => (d, "bad-op")

end RqModel.QueueSvc

namespace RqModel.QueueSvcDrv
abbrev DState := RqModel.QueueSvc.DState
def init : DState := RqModel.QueueSvc.init
def step := RqModel.QueueSvc.step'
end RqModel.QueueSvcDrv
--! driver: queuesvc RqModel.QueueSvcDrv

/-
C04  Snapshot store plus log always rebuilds the applied state.

Model: RqModel/Model/SnapSM.lean (store/store.go fsmSnapshot / OnRelease / fsmRestore / LOAD /
ReadFrom / Open as of the `fix:` commit 6482ad3; snapshot sink, ResolveFiles, Restore).
Lemmas: RqModel/Lemmas/SnapSM.lean.

Histories are arbitrary lists of `Op`: write batches, no-ops, snapshots with any `Outcome`
(installed; Persist not invoked; Persist failing before / after the staged WAL is consumed),
loads, boots, snapshot installs, reaps, restarts.
-/
import RqModel.Lemmas.SnapSM
import RqModel.Gen.StoreStaging
namespace C04
open RqModel.SnapSM

/-- For every history: restoring the newest snapshot (one full database followed by its chain
of WAL segments, each checkpointed into exactly the database it was cut from) and replaying the
log after it yields exactly the applied database; and, unless a full snapshot is required
anyway, the staged WAL segments are exactly the changes between that restored snapshot and the
database file — so the next incremental snapshot extends the chain correctly. -/
theorem chain_inv (ops : List Op) : ChainInv (run true {} ops) :=
  run_inv ops {} chainInv_init

/-- Hence a node restarting from the snapshot store after any history opens and holds exactly
what it had applied … -/
theorem restart_rebuilds_applied_state (ops : List Op) :
    let s := run true {} ops
    (step true s .restart).2 = "ok" ∧ (step true s .restart).1.db = s.db := by
  intro s
  have h := chain_inv ops
  have hre := h.restore
  cases hr : resolve (run true {} ops).snaps with
  | none => have := h.resolves; rw [hr] at this; cases this
  | some r =>
    rw [hr] at hre
    have hr' : resolve s.snaps = some r := hr
    have hre' : replay (some r) s.tail = some s.db := hre
    simp only [step, hr', hre']
    exact ⟨trivial, trivial⟩

/-- … and a follower that has a snapshot installed holds exactly the snapshot's database, with
nothing stale left to leak into its next incremental snapshot. -/
theorem install_gives_snapshot_state (ops : List Op) (c : C) :
    let s := (step true (run true {} ops) (.install c)).1
    resolve s.snaps = some c ∧ s.db = c ∧ s.staged = [] := by
  simp [step, resolve_snoc, resolveStep]

/-- the history of the design pass: full snapshot; write; an incremental snapshot that is never
persisted; load; write; snapshot; write; snapshot -/
def witnessHistory : List Op :=
  [.write 1, .snapshot .ok, .write 2, .snapshot .notInvoked, .load [3], .write 4, .snapshot .ok,
   .write 5, .snapshot .ok]

def witnessInstall : List Op :=
  [.write 1, .snapshot .ok, .write 2, .snapshot .failBefore, .install [3], .write 4, .snapshot .ok]

/-- The defect repaired by 6482ad3, on the code as it was (`fixed = false`): the stale staged
segment is packaged into the incremental snapshot after the load's full snapshot (resp. after the
install) and the newest snapshot no longer restores; with the fix the same histories restart. -/
theorem stale_staged_wal_witness :
    (step false (run false {} witnessHistory) .restart).2 = "corrupt" ∧
    resolve (run false {} witnessHistory).snaps = none ∧
    (step false (run false {} witnessInstall) .restart).2 = "corrupt" ∧
    (step true (run true {} witnessHistory) .restart).2 = "ok" ∧
    (run true {} witnessHistory).db = [3, 4, 5] ∧
    (step true (run true {} witnessInstall) .restart).2 = "ok" := by decide

/-! ### tie to the source (regenerated on every run) -/

/-- the three places the model drops the staging directory are in the source: the full-snapshot
branch of fsmSnapshot (before the checkpoint, keeping a full snapshot required), fsmRestore
(after the swap) and Open -/
theorem staging_dropped_in_source :
    RqModel.Gen.StoreStaging.fullSnapshotDropsStaging = some true ∧
    RqModel.Gen.StoreStaging.restoreDropsStaging = some true ∧
    RqModel.Gen.StoreStaging.openDropsStaging = some true := by decide

/-! ### non-vacuity: a history with every kind of operation; its invariant instance is not trivial -/

def exHistory : List Op :=
  [.write 1, .snapshot .ok, .write 2, .snapshot .notInvoked, .write 3, .snapshot .failBefore, .write 4,
   .snapshot .ok, .reap, .load [5], .write 6, .snapshot .failAfter, .snapshot .ok, .boot [7], .write 8,
   .snapshot .notInvoked, .install [9], .write 10, .snapshot .ok, .restart]

example : (run true {} exHistory).db = [9, 10] ∧ (run true {} exHistory).snaps.length = 5 ∧
    resolve (run true {} exHistory).snaps = some [9, 10] := by decide

end C04

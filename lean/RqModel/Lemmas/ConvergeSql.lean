/-
C01 over the REAL rewriter model: statements are the trees of a5's C14 model
(RqModel/Model/Rewrite.lean: `Node`, `rewrite` = `Rewriter.Do`), evaluated by C14's own
denotational `eval` (RqModel/Lemmas/RewriteMeaning.lean) extended with a random source.

Here it is proved that a tree which is `clean` (C14: no clock read is left) and holds no
random()/randomblob() call evaluates to the same value in every environment. Together with
C14.no_nondet_left (the rewriter's output is clean) this gives the C01 rewrite law for the
statements the property covers.
-/
import RqModel.Lemmas.RewriteMeaning
import RqModel.Model.Converge
namespace RqModel.Converge
open RqModel.Rewrite

/-- a compositional semantics of statement trees with an explicit random source: C14's `Sem`
(which has the clock) plus the value of a random()/randomblob() call given the state of the
random source -/
structure ESem (V : Type) extends Rewrite.Sem V where
  rnd : Nat → String → List V → List V → V

def isRandName (name : String) : Bool :=
  decide (classify name = .random) || decide (classify name = .randomblob)

/-- C14's semantics as seen with the random source in state `r` -/
def semAt {V : Type} (S : ESem V) (r : Nat) : Rewrite.Sem V :=
  { S.toSem with app := fun name a x => if isRandName name then S.rnd r name a x else S.app name a x }

/-- the value of a statement tree in an environment: C14's `eval` at the environment's clock,
with the environment's random source -/
def evalE {V : Type} (S : ESem V) (e : Env) (n : Node) : V := eval (semAt S e.rnd) e.now n

mutual
/-- no random()/randomblob() call anywhere in the tree -/
def noRand : Node → Bool
  | .call name args extra => !isRandName name && noRandL args && noRandL extra
  | .lit _ _ => true
  | .ident _ => true
  | .ord kids => noRandL kids
  | .ret kids => noRandL kids
  | .other _ kids => noRandL kids
def noRandL : Nodes → Bool
  | .nil => true
  | .cons n ns => noRand n && noRandL ns
end

/-! ### (A) without random calls the random source is never consulted -/

mutual
theorem eval_rnd_indep {V : Type} (S : ESem V) (r1 r2 t : Nat) :
    ∀ n : Node, noRand n = true → eval (semAt S r1) t n = eval (semAt S r2) t n
  | .call name args extra, h => by
    simp only [noRand, Bool.and_eq_true, Bool.not_eq_true'] at h
    rw [eval, eval, evalArgs_rnd_indep S r1 r2 t args _ _ h.1.2, evalList_rnd_indep S r1 r2 t extra h.2]
    simp [semAt, h.1.1]
  | .lit _ _, _ => by simp [eval, semAt]
  | .ident _, _ => by simp [eval, semAt]
  | .ord kids, h => by
    simp only [noRand] at h
    rw [eval, eval, evalList_rnd_indep S r1 r2 t kids h]; rfl
  | .ret kids, h => by
    simp only [noRand] at h
    rw [eval, eval, evalList_rnd_indep S r1 r2 t kids h]; rfl
  | .other _ kids, h => by
    simp only [noRand] at h
    rw [eval, eval, evalList_rnd_indep S r1 r2 t kids h]; rfl
theorem evalList_rnd_indep {V : Type} (S : ESem V) (r1 r2 t : Nat) :
    ∀ ns : Nodes, noRandL ns = true → evalList (semAt S r1) t ns = evalList (semAt S r2) t ns
  | .nil, _ => by simp [evalList]
  | .cons n ns, h => by
    simp only [noRandL, Bool.and_eq_true] at h
    rw [evalList, evalList, eval_rnd_indep S r1 r2 t n h.1, evalList_rnd_indep S r1 r2 t ns h.2]
theorem evalArgs_rnd_indep {V : Type} (S : ESem V) (r1 r2 t : Nat) :
    ∀ (ns : Nodes) (k : FnKind) (i : Nat), noRandL ns = true →
      evalArgs (semAt S r1) t k i ns = evalArgs (semAt S r2) t k i ns
  | .nil, k, i, _ => by simp [evalArgs, semAt]
  | .cons a as, k, i, h => by
    simp only [noRandL, Bool.and_eq_true] at h
    rw [evalArgs, evalArgs, eval_rnd_indep S r1 r2 t a h.1, evalArgs_rnd_indep S r1 r2 t as k (i + 1) h.2]
    simp [semAt]
end

/-! ### (B) a `clean` tree (C14) never reads the clock -/

/-- no argument position of the list is one where `evalArgs` reads the clock -/
def noClock (k : FnKind) : Nat → Nodes → Bool
  | i, .nil => !implicitPos k i
  | i, .cons a as => !(timePos k i && isNow a) && noClock k (i + 1) as

theorem noClock_ge2 (k : FnKind) : ∀ (as : Nodes) (i : Nat), i ≥ 2 → noClock k i as = true
  | .nil, i, h => by simp [noClock, (pos_ge2 k i h).2]
  | .cons a as, i, h => by simp [noClock, (pos_ge2 k i h).1, noClock_ge2 k as (i + 1) (by omega)]

theorem noClock_other : ∀ (as : Nodes) (i : Nat), noClock .other i as = true
  | .nil, i => by simp [noClock, (pos_other i).2]
  | .cons a as, i => by simp [noClock, (pos_other i).1, noClock_other as (i + 1)]

theorem noClock_five_ge1 : ∀ (as : Nodes) (i : Nat), i ≥ 1 → noClock .five i as = true
  | .nil, i, h => by simp [noClock, (pos_five_ge1 i h).2]
  | .cons a as, i, h => by simp [noClock, (pos_five_ge1 i h).1, noClock_five_ge1 as (i + 1) (by omega)]

/-- a call C14 calls deterministic has no clock-reading argument position -/
theorem noClock_of_not_nondet (u : Bool) (name : String) (args : Nodes)
    (h : nondetCall u name args = false) : noClock (evalKind name args) 0 args = true := by
  unfold nondetCall at h
  unfold evalKind
  cases hc : classify name with
  | five =>
    rw [hc] at h
    cases args with
    | nil => simp at h
    | cons a rest =>
      simp only at h
      simp [noClock, h, noClock_five_ge1 rest 1 (by omega)]
  | strftime =>
    rw [hc] at h
    cases args with
    | nil => simp [noClock, implicitPos]
    | cons f rest =>
      cases rest with
      | nil => simp at h
      | cons b rest2 =>
        simp only at h
        simp [noClock, timePos, h, noClock_ge2 .strftime rest2 2 (by omega)]
  | timediff =>
    rw [hc] at h
    cases args with
    | nil => simp [Nodes.length, noClock_other]
    | cons a rest =>
      cases rest with
      | nil => simp [Nodes.length, noClock_other]
      | cons b rest2 =>
        simp only [Bool.or_eq_false_iff] at h
        simp [Nodes.length, noClock, timePos, h.1, h.2, noClock_ge2 .timediff rest2 2 (by omega)]
  | random => simp [noClock_other]
  | randomblob => simp [noClock_other]
  | other => simp [noClock_other]

mutual
theorem eval_clock_indep {V : Type} (s : Rewrite.Sem V) (t1 t2 : Nat) :
    ∀ (n : Node) (u : Bool), clean u n = true → eval s t1 n = eval s t2 n
  | .call name args extra, u, h => by
    simp only [clean, Bool.and_eq_true, Bool.not_eq_true'] at h
    rw [eval, eval,
      evalArgs_clock_indep s t1 t2 args u (evalKind name args) 0 h.1.2 (noClock_of_not_nondet u name args h.1.1),
      evalList_clock_indep s t1 t2 extra u h.2]
  | .lit _ _, _, _ => by simp [eval]
  | .ident _, _, _ => by simp [eval]
  | .ord kids, _, h => by
    simp only [clean] at h
    rw [eval, eval, evalList_clock_indep s t1 t2 kids true h]
  | .ret kids, u, h => by
    simp only [clean] at h
    rw [eval, eval, evalList_clock_indep s t1 t2 kids u h]
  | .other _ kids, u, h => by
    simp only [clean] at h
    rw [eval, eval, evalList_clock_indep s t1 t2 kids u h]
theorem evalList_clock_indep {V : Type} (s : Rewrite.Sem V) (t1 t2 : Nat) :
    ∀ (ns : Nodes) (u : Bool), cleanList u ns = true → evalList s t1 ns = evalList s t2 ns
  | .nil, _, _ => by simp [evalList]
  | .cons n ns, u, h => by
    simp only [cleanList, Bool.and_eq_true] at h
    rw [evalList, evalList, eval_clock_indep s t1 t2 n u h.1, evalList_clock_indep s t1 t2 ns u h.2]
theorem evalArgs_clock_indep {V : Type} (s : Rewrite.Sem V) (t1 t2 : Nat) :
    ∀ (ns : Nodes) (u : Bool) (k : FnKind) (i : Nat), cleanList u ns = true → noClock k i ns = true →
      evalArgs s t1 k i ns = evalArgs s t2 k i ns
  | .nil, _, k, i, _, hn => by
    simp only [noClock, Bool.not_eq_true'] at hn
    simp [evalArgs, hn]
  | .cons a as, u, k, i, h, hn => by
    simp only [cleanList, Bool.and_eq_true] at h
    simp only [noClock, Bool.and_eq_true, Bool.not_eq_true'] at hn
    rw [evalArgs, evalArgs, eval_clock_indep s t1 t2 a u h.1, evalArgs_clock_indep s t1 t2 as u k (i + 1) h.2 hn.2]
    simp [hn.1]
end

/-- **a clean tree without random calls has one value**, whatever the clock and the random
source of the node evaluating it -/
theorem evalE_indep {V : Type} (S : ESem V) (n : Node) (hc : clean false n = true) (hr : noRand n = true)
    (e1 e2 : Env) : evalE S e1 n = evalE S e2 n := by
  unfold evalE
  rw [eval_clock_indep (semAt S e1.rnd) e1.now e2.now n false hc, eval_rnd_indep S e1.rnd e2.rnd e2.now n hr]

/-! ### (C) what the property covers, and that the rewriter leaves no random call in it -/

mutual
/-- the statements C01 is about: random() and randomblob() occur only outside ORDER BY, and
randomblob() only with an argument for which the rewriter's model pins a length
(`Rewrite.blobLenOfArgs`, the model's top-level function: a number literal, possibly under a
unary sign; the property text excludes RANDOM() inside ORDER BY; a computed byte count is left
alone by the rewriter by design) -/
def covered : Node → Bool
  | .call name args extra =>
    match classify name with
    | .random => true
    | .randomblob => (blobLenOfArgs args).isSome
    | _ => coveredL args && coveredL extra
  | .lit _ _ => true
  | .ident _ => true
  | .ord kids => noRandL kids
  | .ret kids => coveredL kids
  | .other _ kids => coveredL kids
def coveredL : Nodes → Bool
  | .nil => true
  | .cons n ns => covered n && coveredL ns
end

theorem noRand_jd (c : Cfg) : noRand (jdLit c) = true := by simp [jdLit, noRand]

theorem noRandL_applyTr (c : Cfg) (tr : ArgTr) (a : Nodes) (h : noRandL a = true) : noRandL (applyTr c tr a) = true := by
  cases tr with
  | none => simpa [applyTr] using h
  | five =>
    cases a with
    | nil => simp [applyTr, noRandL, noRand_jd]
    | cons x rest =>
      simp only [noRandL, Bool.and_eq_true] at h
      simp only [applyTr, replNow0, noRandL, Bool.and_eq_true]
      refine ⟨?_, h.2⟩
      split
      · exact noRand_jd c
      · exact h.1
  | strftime =>
    cases a with
    | nil => simpa [applyTr, replNow1] using h
    | cons f rest =>
      cases rest with
      | nil =>
        simp only [noRandL, Bool.and_eq_true] at h
        simp [applyTr, noRandL, noRand_jd, h.1]
      | cons b rest2 =>
        simp only [noRandL, Bool.and_eq_true] at h
        simp only [applyTr, replNow1, noRandL, Bool.and_eq_true]
        refine ⟨h.1, ?_, h.2.2⟩
        split
        · exact noRand_jd c
        · exact h.2.1
  | timediff =>
    cases a with
    | nil => simp [applyTr, replNow0, replNow1, noRandL]
    | cons x rest =>
      cases rest with
      | nil =>
        simp only [noRandL, Bool.and_eq_true] at h
        simp only [applyTr, replNow0, replNow1, noRandL, Bool.and_eq_true, and_true]
        split
        · exact noRand_jd c
        · exact h.1
      | cons y rest2 =>
        simp only [noRandL, Bool.and_eq_true] at h
        simp only [applyTr, replNow0, replNow1, noRandL, Bool.and_eq_true]
        refine ⟨?_, ?_, h.2.2⟩
        · split
          · exact noRand_jd c
          · exact h.1
        · split
          · exact noRand_jd c
          · exact h.2.1

/-- a call that is neither random() nor randomblob() is kept by `Visit` -/
theorem visitCall_keeps_nonrand (c : Cfg) (st : St) (name : String) (args : Nodes) (h : isRandName name = false) :
    ∃ tr st1, visitCall c st name args = .keep tr st1 ∧ st1.ordered = st.ordered := by
  unfold isRandName at h
  simp only [Bool.or_eq_false_iff, decide_eq_false_iff_not] at h
  unfold visitCall
  cases hc : classify name with
  | five => simp only; split <;> exact ⟨_, _, rfl, rfl⟩
  | strftime => simp only; split <;> exact ⟨_, _, rfl, rfl⟩
  | timediff => simp only; split <;> exact ⟨_, _, rfl, rfl⟩
  | random => exact absurd hc h.1
  | randomblob => exact absurd hc h.2
  | other => exact ⟨_, _, rfl, rfl⟩

mutual
/-- the rewriter never introduces a random call -/
theorem walk_noRand (c : Cfg) : ∀ (n : Node) (st : St), noRand n = true → noRand (walk c st n).1 = true
  | .call name args extra, st, h => by
    simp only [noRand, Bool.and_eq_true, Bool.not_eq_true'] at h
    obtain ⟨tr, st1, hv, _⟩ := visitCall_keeps_nonrand c st name args h.1.1
    rw [walk, hv]
    simp only [noRand, Bool.and_eq_true, Bool.not_eq_true']
    exact ⟨⟨h.1.1, noRandL_applyTr c tr _ (walkList_noRand c args st1 h.1.2)⟩, walkList_noRand c extra _ h.2⟩
  | .lit _ _, st, _ => by simp [walk, noRand]
  | .ident _, st, _ => by simp [walk, noRand]
  | .ord kids, st, h => by
    simp only [noRand] at h
    rw [walk]; simp only [noRand]
    exact walkList_noRand c kids _ h
  | .ret kids, st, h => by
    simp only [noRand] at h
    rw [walk]; simp only [noRand]
    exact walkList_noRand c kids _ h
  | .other _ kids, st, h => by
    simp only [noRand] at h
    rw [walk]; simp only [noRand]
    exact walkList_noRand c kids _ h
theorem walkList_noRand (c : Cfg) : ∀ (ns : Nodes) (st : St), noRandL ns = true → noRandL (walkList c st ns).1 = true
  | .nil, st, _ => by simp [walkList, noRandL]
  | .cons n ns, st, h => by
    simp only [noRandL, Bool.and_eq_true] at h
    rw [walkList]; simp only [noRandL, Bool.and_eq_true]
    exact ⟨walk_noRand c n st h.1, walkList_noRand c ns _ h.2⟩
end

mutual
/-- in a covered statement every random call sits where the rewriter replaces it -/
theorem walk_covered (c : Cfg) (hr : c.rwRand = true) :
    ∀ (n : Node) (st : St), st.ordered = 0 → covered n = true → noRand (walk c st n).1 = true
  | .call name args extra, st, ho, h => by
    unfold covered at h
    cases hc : classify name with
    | random =>
      have : visitCall c st name args =
          .replace (.lit "randnum" (toString (c.rand st.randK))) { st with modified := true, randK := st.randK + 1 } := by
        simp [visitCall, hc, ho, hr]
      rw [walk, this]; simp [noRand]
    | randomblob =>
      rw [hc] at h
      cases hp : blobLenOfArgs args with
      | none => rw [hp] at h; simp at h
      | some m =>
        have : visitCall c st name args =
            .replace (.lit "randblob" (toString m)) { st with modified := true } := by
          simp [visitCall, hc, ho, hr, hp]
        rw [walk, this]; simp [noRand]
    | five =>
      rw [hc] at h; simp only [Bool.and_eq_true] at h
      have hn : isRandName name = false := by simp [isRandName, hc]
      obtain ⟨tr, st1, hv, ho1⟩ := visitCall_keeps_nonrand c st name args hn
      rw [walk, hv]; simp only [noRand, Bool.and_eq_true, Bool.not_eq_true']
      have hoa : (walkList c st1 args).2.ordered = 0 := by rw [walkList_ordered, ho1, ho]
      exact ⟨⟨hn, noRandL_applyTr c tr _ (walkList_covered c hr args st1 (by rw [ho1, ho]) h.1)⟩,
        walkList_covered c hr extra _ hoa h.2⟩
    | strftime =>
      rw [hc] at h; simp only [Bool.and_eq_true] at h
      have hn : isRandName name = false := by simp [isRandName, hc]
      obtain ⟨tr, st1, hv, ho1⟩ := visitCall_keeps_nonrand c st name args hn
      rw [walk, hv]; simp only [noRand, Bool.and_eq_true, Bool.not_eq_true']
      have hoa : (walkList c st1 args).2.ordered = 0 := by rw [walkList_ordered, ho1, ho]
      exact ⟨⟨hn, noRandL_applyTr c tr _ (walkList_covered c hr args st1 (by rw [ho1, ho]) h.1)⟩,
        walkList_covered c hr extra _ hoa h.2⟩
    | timediff =>
      rw [hc] at h; simp only [Bool.and_eq_true] at h
      have hn : isRandName name = false := by simp [isRandName, hc]
      obtain ⟨tr, st1, hv, ho1⟩ := visitCall_keeps_nonrand c st name args hn
      rw [walk, hv]; simp only [noRand, Bool.and_eq_true, Bool.not_eq_true']
      have hoa : (walkList c st1 args).2.ordered = 0 := by rw [walkList_ordered, ho1, ho]
      exact ⟨⟨hn, noRandL_applyTr c tr _ (walkList_covered c hr args st1 (by rw [ho1, ho]) h.1)⟩,
        walkList_covered c hr extra _ hoa h.2⟩
    | other =>
      rw [hc] at h; simp only [Bool.and_eq_true] at h
      have hn : isRandName name = false := by simp [isRandName, hc]
      obtain ⟨tr, st1, hv, ho1⟩ := visitCall_keeps_nonrand c st name args hn
      rw [walk, hv]; simp only [noRand, Bool.and_eq_true, Bool.not_eq_true']
      have hoa : (walkList c st1 args).2.ordered = 0 := by rw [walkList_ordered, ho1, ho]
      exact ⟨⟨hn, noRandL_applyTr c tr _ (walkList_covered c hr args st1 (by rw [ho1, ho]) h.1)⟩,
        walkList_covered c hr extra _ hoa h.2⟩
  | .lit _ _, st, _, _ => by simp [walk, noRand]
  | .ident _, st, _, _ => by simp [walk, noRand]
  | .ord kids, st, _, h => by
    simp only [covered] at h
    rw [walk]; simp only [noRand]
    exact walkList_noRand c kids _ h
  | .ret kids, st, ho, h => by
    simp only [covered] at h
    rw [walk]; simp only [noRand]
    exact walkList_covered c hr kids _ ho h
  | .other _ kids, st, ho, h => by
    simp only [covered] at h
    rw [walk]; simp only [noRand]
    exact walkList_covered c hr kids _ ho h
theorem walkList_covered (c : Cfg) (hr : c.rwRand = true) :
    ∀ (ns : Nodes) (st : St), st.ordered = 0 → coveredL ns = true → noRandL (walkList c st ns).1 = true
  | .nil, st, _, _ => by simp [walkList, noRandL]
  | .cons n ns, st, ho, h => by
    simp only [coveredL, Bool.and_eq_true] at h
    rw [walkList]; simp only [noRandL, Bool.and_eq_true]
    exact ⟨walk_covered c hr n st ho h.1, walkList_covered c hr ns _ (by rw [walk_ordered, ho]) h.2⟩
end

/-- the rewritten form of a covered statement holds no random call -/
theorem rewrite_noRand (c : Cfg) (hr : c.rwRand = true) (n : Node) (h : covered n = true) :
    noRand (rewrite c n).1 = true := walk_covered c hr n {} rfl h

end RqModel.Converge

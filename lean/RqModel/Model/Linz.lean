/-
Linearizability of keyed-register histories and an executable certificate checker (C02).

A client history is a list of operations with invocation / response instants (any
strictly increasing clock). A write whose outcome the client never learnt has
`resp = none` ("possibly applied"): a linearization may contain it or leave it out.
Reads that failed are simply not part of the history.

`checkWitness h order` is the executable checker that the Go harness calls through
`rqdrv linz` with the order found by its search; `C02.checkWitness_sound` proves that
acceptance implies `Linearizable h`.
-/
import RqModel.Model.Util
namespace RqModel.Linz
open RqModel.Util

inductive Kind
  | write (k v : Nat)
  | read (k : Nat) (res : Option Nat)    -- `none`: the key had no row
deriving DecidableEq, Repr

structure Op where
  inv  : Nat
  resp : Option Nat
  kind : Kind
deriving DecidableEq, Repr

instance : Inhabited Op := ⟨⟨0, none, .write 0 0⟩⟩

abbrev History := List Op

def opAt (h : History) (i : Nat) : Op := h.getD i default

/-! ### the sequential specification: one table `key ↦ value` -/

abbrev St := List (Nat × Nat)

def applyKind (s : St) : Kind → Option St
  | .write k v => some ((k, v) :: s)
  | .read k res => if s.lookup k = res then some s else none

def legalFrom (s : St) : List Kind → Bool
  | [] => true
  | op :: rest =>
    match applyKind s op with
    | some s' => legalFrom s' rest
    | none => false

/-! ### linearizability, declaratively -/

/-- `x` returned before `y` was invoked -/
def precedes (h : History) (x y : Nat) : Prop :=
  ∃ t, (opAt h x).resp = some t ∧ t < (opAt h y).inv

structure IsLinearization (h : History) (order : List Nat) : Prop where
  /-- every operation at most once -/
  nodup : order.Nodup
  inRange : ∀ i ∈ order, i < h.length
  /-- every operation whose response the client saw is there -/
  complete : ∀ i, i < h.length → (opAt h i).resp ≠ none → i ∈ order
  /-- real-time order is respected: nothing is placed before an operation that had
  already returned before it was invoked -/
  realTime : order.Pairwise (fun a b => ¬ precedes h b a)
  /-- the sequence is a legal run of one sequential key/value table -/
  legal : legalFrom [] (order.map (fun i => (opAt h i).kind)) = true

def Linearizable (h : History) : Prop := ∃ order, IsLinearization h order

/-! ### the checker -/

/-- one pass with the running maximum of the invocation instants seen so far -/
def rtOk (h : History) : List Nat → Nat → Bool
  | [], _ => true
  | i :: rest, m =>
    (match (opAt h i).resp with
     | none => true
     | some t => decide (m ≤ t)) && rtOk h rest (max m (opAt h i).inv)

def checkWitness (h : History) (order : List Nat) : Bool :=
  order.all (fun i => decide (i < h.length)) &&
  decide order.Nodup &&
  (List.range h.length).all (fun i => (opAt h i).resp.isNone || order.contains i) &&
  rtOk h order 0 &&
  legalFrom [] (order.map (fun i => (opAt h i).kind))

/-! ### a history laid out along a single log (used by `C02.history_linearizable`) -/

/-- the state of the table after the writes among a list of operations, in that order -/
def runWrites (h : History) : List Nat → St → St
  | [], s => s
  | i :: rest, s =>
    match (opAt h i).kind with
    | .write k v => runWrites h rest ((k, v) :: s)
    | .read _ _ => runWrites h rest s

/-- interleave the log operations (in log order) with the blocks of local reads:
`reads q` are the reads answered from the state after `q` log operations -/
def build (reads : Nat → List Nat) : Nat → List Nat → List Nat
  | p, [] => reads p
  | p, x :: rest => reads p ++ x :: build reads (p + 1) rest

def kindsOf (h : History) (l : List Nat) : List Kind := l.map (fun i => (opAt h i).kind)

/-! ### line protocol
`reset` → `ok`
`w INV RESP|- K V` → `ok`      (append a write)
`r INV RESP K V|-` → `ok`      (append a completed read; `-` = no row)
`check i1,i2,...` → `true|false`   (`check -` = empty order)
`len` → number of operations -/

structure DState where
  h : History := []

def optNat (t : String) : Option (Option Nat) :=
  if t == "-" then some none else t.toNat?.map some

def step (d : DState) (line : String) : DState × String :=
  match words line with
  | ["reset"] => ({}, "ok")
  | ["len"] => (d, toString d.h.length)
  | ["w", inv, resp, k, v] =>
    match inv.toNat?, optNat resp, k.toNat?, v.toNat? with
    | some inv, some resp, some k, some v => ({ h := d.h ++ [⟨inv, resp, .write k v⟩] }, "ok")
    | _, _, _, _ => (d, "bad-op")
  | ["r", inv, resp, k, v] =>
    match inv.toNat?, resp.toNat?, k.toNat?, optNat v with
    | some inv, some resp, some k, some v => ({ h := d.h ++ [⟨inv, some resp, .read k v⟩] }, "ok")
    | _, _, _, _ => (d, "bad-op")
  | ["check", l] =>
    match natList l with
    | some order => (d, boolStr (checkWitness d.h order))
    | none => (d, "bad-op")
  | _ => (d, "bad-op")

def init : DState := {}

end RqModel.Linz
--! driver: linz RqModel.Linz

package http

// C21 (part d): the HTTP surface. GET /db/backup streams the backup into the response. When
// the backup fails AFTER part of it has been written (local store failure, or a relayed
// transfer that breaks), the HTTP client must be able to tell: an error status, or a
// transport error while reading the body — never a complete-looking 200 response.

import (
	"bytes"
	"compress/gzip"
	"context"
	"net"
	"time"
	"errors"
	"fmt"
	"io"
	"net/http"
	"testing"

	"github.com/rqlite/rqlite/v10/cluster"
	clstrPB "github.com/rqlite/rqlite/v10/cluster/proto"
	command "github.com/rqlite/rqlite/v10/command/proto"
	"github.com/rqlite/rqlite/v10/proxy"
	"github.com/rqlite/rqlite/v10/store"
)

func TestVerifC21HTTP(t *testing.T) {
	rep := vfNewReport("C21", "real http.Service GET /db/backup over a store double whose Backup writes k bytes of a 64 KB backup and then fails (k = 0, 1, 100, 5000, 40000), locally and relayed (store says not-leader, the cluster client double fails after k bytes); a case is non-trivial when k > 0; distinct by (path, k)")
	defer rep.Write()
	m := &MockStore{leaderAddr: "leader:4002"}
	c := &mockClusterService{apiAddr: "http://leader:4001"}
	s := New("127.0.0.1:0", m, c, proxy.New(m, c), nil)
	if err := s.Start(); err != nil {
		t.Fatalf("start: %v", err)
	}
	defer s.Close()
	full := make([]byte, 65536)
	for i := range full {
		full[i] = byte(i * 7)
	}
	host := fmt.Sprintf("http://%s", s.Addr().String())
	var ops, impl []string
	for _, relayed := range []bool{false, true} {
		for _, k := range []int{-1, 0, 1, 100, 5000, 40000} {
			fn := func(dst io.Writer) error {
				// like Store.Backup and cluster.Client.Backup: io.Copy from a source, so that any
				// ReaderFrom / WriterTo fast path of the destination is exercised too
				if k < 0 {
					_, err := io.Copy(dst, bytes.NewReader(full))
					return err
				}
				_, err := io.Copy(dst, &c21FailingReader{data: full[:k]})
				return err
			}
			if relayed {
				m.backupFn = func(br *command.BackupRequest, dst io.Writer) error { return store.ErrNotLeader }
				c.backupFn = func(br *command.BackupRequest, addr string, t time.Duration, w io.Writer) error { return fn(w) }
			} else {
				m.backupFn = func(br *command.BackupRequest, dst io.Writer) error { return fn(dst) }
			}
			path := "local"
			if relayed {
				path = "relayed"
			}
			resp, err := (&http.Client{}).Get(host + "/db/backup")
			var body []byte
			var rerr error
			status := 0
			if err == nil {
				status = resp.StatusCode
				body, rerr = io.ReadAll(resp.Body)
				resp.Body.Close()
			}
			sawError := err != nil || rerr != nil || status != http.StatusOK
			if k < 0 {
				ops = append(ops, fmt.Sprintf("http 1 %d 0", len(full)))
			} else {
				ops = append(ops, fmt.Sprintf("http 1 %d 1", k))
			}
			stTok := fmt.Sprint(status)
			if err != nil || rerr != nil {
				stTok = "-" // the response broke: before or after the status line
			}
			impl = append(impl, fmt.Sprintf("status=%s clean=%v error-visible=%v", stTok, err == nil && rerr == nil, sawError))
			rep.Case(fmt.Sprintf("%s:%d", path, k), k > 0)
			rep.Count(fmt.Sprintf("http:%s:status=%d:transport-error=%v", path, status, err != nil || rerr != nil))
			if k < 0 {
				if sawError || len(body) != len(full) {
					rep.Fail("http:complete-backup-reported-as-error", fmt.Sprintf("%s: status %d, %d bytes, %v %v", path, status, len(body), err, rerr), nil)
				}
				continue
			}
			if !sawError {
				when := "after-first-byte"
				if k == 0 {
					when = "before-first-byte"
				}
				rep.Fail(fmt.Sprintf("http:failed-backup-answered-200-with-complete-looking-body:%s:%s", path, when),
					fmt.Sprintf("%s backup failed after %d of %d bytes; the HTTP client got status 200 and a body of %d bytes that ended normally", path, k, len(full), len(body)),
					map[string]interface{}{"path": path, "fail_after": k, "status": status, "body_bytes": len(body)})
			}
		}
	}
	rep.vfCompare("backup", ops, impl, nil)
}

// c21FailingReader yields data and then an error (a source that fails part way).
type c21FailingReader struct {
	data []byte
	pos  int
}

func (r *c21FailingReader) Read(p []byte) (int, error) {
	if r.pos >= len(r.data) {
		return 0, errors.New("c21: scripted source failure")
	}
	n := copy(p, r.data[r.pos:])
	r.pos += n
	return n, nil
}

// ---- a leader that cuts the backup stream: real cluster.Service over doubles ---------------

type c21LeaderDB struct {
	payload []byte
	failAt  int // the source fails after this many payload bytes (-1: never)
}

func (d *c21LeaderDB) Execute(ctx context.Context, er *command.ExecuteRequest) ([]*command.ExecuteQueryResponse, uint64, error) {
	return nil, 0, nil
}
func (d *c21LeaderDB) Query(ctx context.Context, qr *command.QueryRequest) ([]*command.QueryRows, command.ConsistencyLevel, uint64, error) {
	return nil, command.ConsistencyLevel_NONE, 0, nil
}
func (d *c21LeaderDB) Request(ctx context.Context, rr *command.ExecuteQueryRequest) ([]*command.ExecuteQueryResponse, uint64, uint64, error) {
	return nil, 0, 0, nil
}
func (d *c21LeaderDB) Load(ctx context.Context, lr *command.LoadRequest) error { return nil }
func (d *c21LeaderDB) Backup(ctx context.Context, br *command.BackupRequest, dst io.Writer) error {
	// what Store.Backup does with compression forced on: gzip into dst, closed only on success
	zw, _ := gzip.NewWriterLevel(dst, gzip.BestSpeed)
	if d.failAt >= 0 {
		zw.Write(d.payload[:d.failAt])
		zw.Flush()
		return errors.New("c21: the leader's backup source failed")
	}
	if _, err := zw.Write(d.payload); err != nil {
		return err
	}
	return zw.Close()
}

type c21LeaderMgr struct{}

func (c21LeaderMgr) LeaderAddr() (string, error)                                  { return "", nil }
func (c21LeaderMgr) CommitIndex() (uint64, error)                                 { return 0, nil }
func (c21LeaderMgr) Remove(ctx context.Context, rn *command.RemoveNodeRequest) error { return nil }
func (c21LeaderMgr) Notify(n *command.NotifyRequest) error                        { return nil }
func (c21LeaderMgr) Join(n *command.JoinRequest) error                            { return nil }
func (c21LeaderMgr) Stepdown(wait bool, id string) error                          { return nil }

type c21Dialer struct{}

func (c21Dialer) Dial(addr string, timeout time.Duration) (net.Conn, error) {
	return net.DialTimeout("tcp", addr, timeout)
}

// c21RealCluster: the package's cluster double, except that Backup is the REAL cluster client
type c21RealCluster struct {
	*mockClusterService
	cl *cluster.Client
}

func (c *c21RealCluster) Backup(ctx context.Context, br *command.BackupRequest, addr string, creds *clstrPB.Credentials, timeout time.Duration, w io.Writer) error {
	return c.cl.Backup(ctx, br, addr, creds, timeout, w)
}

// TestVerifC21HTTPRelay: real http.Service -> real proxy -> real cluster.Client -> real
// cluster.Service of a "leader" whose backup source fails after a fraction of the payload, for
// compress on and off. The HTTP client must see an error whenever the backup is incomplete.
func TestVerifC21HTTPRelay(t *testing.T) {
	rep := vfNewReport("C21", "real http.Service GET /db/backup on a non-leader: real proxy, real cluster.Client, real cluster.Service of the leader over TCP; the leader's backup source fails after 0, 1, 30%, 60%, 99% of a 300 KB payload or not at all; compress=on/off. A case is non-trivial when the source fails after the first byte; distinct by (compress, fraction)")
	defer rep.Write()
	ln, err := net.Listen("tcp", "127.0.0.1:0")
	if err != nil {
		t.Fatalf("listen: %v", err)
	}
	ldb := &c21LeaderDB{failAt: -1}
	lsvc := cluster.New(ln, ldb, c21LeaderMgr{}, nil)
	if err := lsvc.Open(); err != nil {
		t.Fatalf("leader service: %v", err)
	}
	defer lsvc.Close()

	m := &MockStore{leaderAddr: lsvc.Addr()}
	m.backupFn = func(br *command.BackupRequest, dst io.Writer) error { return store.ErrNotLeader }
	c := &c21RealCluster{mockClusterService: &mockClusterService{apiAddr: "http://leader:4001"}, cl: cluster.NewClient(c21Dialer{}, 60*time.Second)}
	s := New("127.0.0.1:0", m, c, proxy.New(m, c), nil)
	if err := s.Start(); err != nil {
		t.Fatalf("start: %v", err)
	}
	defer s.Close()
	payload := make([]byte, 300000)
	for i := range payload {
		payload[i] = byte((i * 31) ^ (i >> 7)) // poorly compressible: the stream spans many TCP writes
	}
	ldb.payload = payload
	host := fmt.Sprintf("http://%s", s.Addr().String())
	var ops, impl []string
	for _, compress := range []bool{false, true} {
		for _, frac := range []int{-1, 0, 1, 30, 60, 99} {
			switch {
			case frac < 0:
				ldb.failAt = -1
			case frac == 1:
				ldb.failAt = 1
			default:
				ldb.failAt = len(payload) * frac / 100
			}
			// (a fresh inter-node client per request: after a failed transfer the pooled connection
			// is dead on the leader's side and the next request on it fails once with a broken pipe —
			// reported as an error, so not this property's concern)
			c.cl = cluster.NewClient(c21Dialer{}, 60*time.Second)
			url := host + "/db/backup"
			if compress {
				url += "?compress"
			}
			resp, err := (&http.Client{}).Get(url)
			var body []byte
			var rerr error
			status := 0
			if err == nil {
				status = resp.StatusCode
				body, rerr = io.ReadAll(resp.Body)
				resp.Body.Close()
			}
			sawError := err != nil || rerr != nil || status != http.StatusOK
			name := fmt.Sprintf("compress=%v,source-fails-at=%d%%", compress, frac)
			rep.Case(name, frac > 0)
			rep.Count(fmt.Sprintf("http-relay:compress=%v:error-visible=%v", compress, sawError))
			stTok := fmt.Sprint(status)
			if err != nil || rerr != nil {
				stTok = "-"
			}
			if frac < 0 {
				ops = append(ops, fmt.Sprintf("http 1 %d 0", len(body)))
				impl = append(impl, fmt.Sprintf("status=%s clean=%v error-visible=%v", stTok, err == nil && rerr == nil, sawError))
				want := payload
				if compress {
					zr, zerr := gzip.NewReader(bytes.NewReader(body))
					if zerr == nil {
						body, zerr = io.ReadAll(zr)
					}
					if zerr != nil {
						rep.Fail("http-relay:complete-compressed-backup-unreadable", zerr.Error(), nil)
					}
				}
				if sawError || !bytes.Equal(body, want) {
					rep.Fail("http-relay:complete-backup-reported-as-error-or-wrong", fmt.Sprintf("%s: status %d, %d bytes, %v %v body=%q", name, status, len(body), err, rerr, string(body[:min(len(body), 120)])), nil)
				}
				continue
			}
			if !sawError {
				rep.Fail(fmt.Sprintf("http:failed-backup-answered-200-with-complete-looking-body:relayed-real-client:compress=%v", compress),
					fmt.Sprintf("the leader's backup source failed after %d of %d bytes; the HTTP client of the relaying node got status 200 and a body of %d bytes that ended normally", ldb.failAt, len(payload), len(body)),
					map[string]interface{}{"compress": compress, "fail_at": ldb.failAt, "body_bytes": len(body)})
			}
		}
	}
	rep.vfCompare("backup", ops, impl, nil)
}

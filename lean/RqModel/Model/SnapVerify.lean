/-
Model of snapshot integrity checking (C12): snapshot/store.go (`ensureVerified`,
`checkCRCs`, `Open`, `reapInternal`), snapshot/snapshot.go (`ChecksummedFile`, catalog scan),
snapshot/sidecar, streamer.go (`NewHeaderFromChecksummedFile`).

A store is a list of data files (the full snapshot's database first, then the WAL files in
apply order; `chain = false` marks files of older snapshots, which are verified but not
streamed or consolidated). Each file has its current bytes and its sidecar as the
sidecar package reads it: a recorded CRC, `disabled`, or unreadable (`bad`: missing,
not JSON, wrong type, CRC not 8 hex digits).

* catalog scan (`getSnapshots`, every Open / reap / check): fails if a sidecar is `bad` or
  a data file does not start like a SQLite database / WAL.
* `checkCRCs`: scan, then CRC of every file with a recorded CRC must equal it
  (`disabled` is skipped).
* `ensureVerified`: `sync.Once` — the first caller runs `checkCRCs`, the verdict is cached
  and returned to every later caller, good or bad.
* `Open` (newest snapshot): ensureVerified; scan; header from the RECORDED CRC of every chain
  file (live CRC when the sidecar is `disabled`) and its current size; the stream carries
  the current bytes. The receiver (Sink / Restore, see SnapStream/C10) recomputes each CRC.
* reap: ensureVerified; scan; when there are WALs to consolidate: (since the `fix:` commit)
  every file to be consolidated is checked against its recorded CRC; then the WALs are
  checkpointed into the database (`replay`, SQLite, external) and a FRESH sidecar is
  computed for the result.
-/
import RqModel.Model.SnapStream
namespace RqModel.SnapVerify
open RqModel.Util
open RqModel.SnapStream

inductive Sidecar
  | crc (n : Nat)
  | disabled
  | bad
deriving DecidableEq, Repr

structure DataFile where
  content : Bytes
  side    : Sidecar
  isDb    : Bool
  chain   : Bool := true
  /-- which snapshot directory the file lives in (a full snapshot installed from a leader
  carries its own WAL files in the same directory) -/
  snap    : Nat := 0
deriving DecidableEq, Repr

structure XExt where
  crc      : Bytes → Nat
  validDb  : Bytes → Bool
  validWal : Bytes → Bool
  /-- SQLite checkpointing the WALs into the database -/
  replay   : Bytes → List Bytes → Bytes
  /-- whether SQLite's checkpoint and the plan's integrity check (VerifyDB) go through on these
  files (they can refuse a damaged database on their own) -/
  replayOk : Bytes → List Bytes → Bool := fun _ _ => true

structure Store where
  files   : List DataFile
  verdict : Option Bool := none
  /-- an interrupted reap plan on disk: how many of the chain's WAL files the interrupted run
  had already checkpointed into the database (they no longer exist; the database's sidecar is
  then stale by construction) -/
  plan    : Option Nat := none
deriving DecidableEq, Repr

def fileScanOk (E : XExt) (f : DataFile) : Bool :=
  f.side != .bad && (if f.isDb then E.validDb f.content else E.validWal f.content)

def scanOk (E : XExt) (fs : List DataFile) : Bool := fs.all (fileScanOk E)

/-- `ChecksummedFile.Check` -/
def fileCrcOk (E : XExt) (f : DataFile) : Bool :=
  match f.side with
  | .crc n => E.crc f.content == n
  | .disabled => true
  | .bad => false

def checkOk (E : XExt) (fs : List DataFile) : Bool := scanOk E fs && fs.all (fileCrcOk E)

def ensureVerified (E : XExt) (s : Store) : Store × Bool :=
  match s.verdict with
  | some v => (s, v)
  | none => let v := checkOk E s.files; ({ s with verdict := some v }, v)

/-- `NewHeaderFromChecksummedFile` -/
def headerOf (E : XExt) (f : DataFile) : FileHdr :=
  { size := f.content.length,
    crc := match f.side with
      | .crc n => n
      | .disabled => E.crc f.content
      | .bad => 0 }

def chainFiles (s : Store) : List DataFile := s.files.filter (·.chain)

/-- `Store.Open` of the newest snapshot: the header entries and the bytes streamed -/
def openNewest (E : XExt) (s : Store) : Store × Option (List FileHdr × List Bytes) :=
  let (s1, v) := ensureVerified E s
  if !v then (s1, none)
  else if !scanOk E s1.files then (s1, none)
  else (s1, some ((chainFiles s1).map (headerOf E), (chainFiles s1).map (·.content)))

/-- what Sink / Restore do with the stream (C10): every file's CRC is recomputed and
compared with the header's -/
def receiverAccepts (E : XExt) (hdrs : List FileHdr) (files : List Bytes) : Bool :=
  (files.zip hdrs).all (fun p => E.crc p.1 == p.2.crc)

inductive ReapRes
  | err
  | noop
  | ok
deriving DecidableEq, Repr

/-- number of snapshot directories (`snapSet.Len()`) -/
def snapCount (fs : List DataFile) : Nat := (fs.map (·.snap)).eraseDups.length

def reap (E : XExt) (s : Store) : Store × ReapRes :=
  let (s1, v) := ensureVerified E s
  if !v then (s1, .err)
  else if !scanOk E s1.files then (s1, .err)
  else
    match chainFiles s1 with
    | [] => if s1.files = [] then (s1, .noop) else (s1, .err)   -- empty store / "no full snapshot found"
    | db :: wals =>
      -- "Single full snapshot with nothing newer — nothing to do" (even if it has WAL files)
      if snapCount s1.files ≤ 1 then (s1, .noop)
      else if wals = [] then ({ s1 with files := [db] }, .ok)   -- only older snapshots to remove
      else if !(db :: wals).all (fileCrcOk E) then (s1, .err)
      else
        let out := E.replay db.content (wals.map (·.content))
        ({ s1 with files := [{ content := out, side := .crc (E.crc out), isDb := true, snap := db.snap }] }, .ok)

/-! ### resuming an interrupted reap plan (`Store.check` at start, `reapInternal`)

The plan's checkpoint operation consumes the chain's WAL files one by one; a crash leaves the
plan file, the database (already containing the consumed WALs) and the remaining WALs. Since
the `fix:` commit the resume first checks every remaining WAL against its sidecar, and the
database too when nothing has been consumed yet; then it checkpoints the rest and records a
fresh CRC. No `ensureVerified` runs on this path (the store is in a half-reaped state). -/

def resumePlan (E : XExt) (s : Store) : Store × ReapRes :=
  match s.plan with
  | none => (s, .noop)
  | some consumed =>
    match chainFiles s with
    | [] => ({ s with plan := none }, .noop)
    | db :: wals =>
      let inputs := if consumed = 0 then db :: wals else wals
      if !inputs.all (fileCrcOk E) then (s, .err)
      else if !E.replayOk db.content (wals.map (·.content)) then (s, .err)
      else
        let out := E.replay db.content (wals.map (·.content))
        ({ s with plan := none,
                  files := [{ content := out, side := .crc (E.crc out), isDb := true, snap := db.snap }] }, .ok)

/-! ### the consumers as programs

`Open` and `reapInternal` written as the sequence of steps the Go functions execute, with an
interpreter; `Props/C12` proves that `openNewest` / `reap` ARE these programs, and that the
call order extracted from the current source (Gen/SnapVerify.lean) maps onto them. -/

inductive Step
  | ensureVerified   -- s.ensureVerified()
  | scan             -- s.getSnapshots() (catalog scan)
  | buildStream      -- ResolveFiles + NewChecksummedSnapshotStreamer
  | checkInputs      -- inputs.Check() before the checkpoint
  | consolidate      -- plan: checkpoint, fresh CRC, remove, rename
deriving DecidableEq, Repr

structure Run where
  s      : Store
  failed : Bool := false
  out    : Option (List FileHdr × List Bytes) := none
  res    : ReapRes := .noop

def stepRun (E : XExt) (r : Run) (st : Step) : Run :=
  if r.failed then r
  else match st with
    | .ensureVerified => let p := ensureVerified E r.s; { r with s := p.1, failed := !p.2 }
    | .scan => if !scanOk E r.s.files then { r with failed := true } else r
    | .buildStream =>
      { r with out := some ((chainFiles r.s).map (headerOf E), (chainFiles r.s).map (·.content)) }
    | .checkInputs =>
      match chainFiles r.s with
      | [] => if r.s.files = [] then r else { r with failed := true }
      | db :: wals =>
        if snapCount r.s.files ≤ 1 then r
        else if wals = [] then r
        else if !(db :: wals).all (fileCrcOk E) then { r with failed := true } else r
    | .consolidate =>
      match chainFiles r.s with
      | [] => r
      | db :: wals =>
        if snapCount r.s.files ≤ 1 then r
        else if wals = [] then { r with s := { r.s with files := [db] }, res := .ok }
        else
          let out := E.replay db.content (wals.map (·.content))
          { r with s := { r.s with files := [{ content := out, side := .crc (E.crc out), isDb := true, snap := db.snap }] },
                   res := .ok }

def runProgram (E : XExt) (prog : List Step) (s : Store) : Run := prog.foldl (stepRun E) { s := s }

def openProgram : List Step := [.ensureVerified, .scan, .buildStream]
def reapProgram : List Step := [.ensureVerified, .scan, .checkInputs, .consolidate]
def ensureProgram : List Step := [.ensureVerified]

/-- source call names → model steps (calls that are not steps of the model map to `none`) -/
def stepOfCall (c : String) : Option Step :=
  if c = "ensureVerified" then some .ensureVerified
  else if c = "getSnapshots" then some .scan
  else if c = "NewChecksummedSnapshotStreamer" then some .buildStream
  else if c = "Check" then some .checkInputs
  else if c = "AddCheckpoint" then some .consolidate
  else none

/-! ### line protocol (component `snapverify`)
`new` → ok;  `file db|wal|olddb|oldwal <snapdir#> <contenthex> <side>` → ok   (side: `c<decimal>` | `d` | `b`)
`setc <i> <hex>` / `sets <i> <side>` → ok | bad-op    (late or early corruption of file i)
`ensure` → ok | err
`plan <k>` → ok (an interrupted reap plan is on disk, k chain WALs already consumed);  `resume <replayhex | sqlite-refuses>` → err | noop | ok
`open` → `err` | `ok <size:crc,…> accept=<bool>`
`reap <replayhex>` → err | noop | ok   (`replayhex`: what SQLite's checkpoint of the current
                                         files yields; used as the value of `replay`) -/

structure DState where
  s : Store := { files := [] }

def drvX (rep : Bytes) (ok : Bool := true) : XExt :=
  { crc := crc32c, validDb := validDbC, validWal := validWalC, replay := fun _ _ => rep, replayOk := fun _ _ => ok }

def sideTok (t : String) : Option Sidecar :=
  if t == "d" then some .disabled
  else if t == "b" then some .bad
  else match t.toList with
    | 'c' :: rest => (String.ofList rest).toNat?.map .crc
    | _ => none

def setAt {α} (l : List α) (i : Nat) (f : α → α) : Option (List α) :=
  if i < l.length then some (l.mapIdx (fun j x => if j = i then f x else x)) else none

def step (d : DState) (line : String) : DState × String :=
  match words line with
  | ["new"] => ({}, "ok")
  | ["file", kind, sn, c, sd] =>
    match sn.toNat?, tokBytes c, sideTok sd with
    | some sn, some c, some sd =>
      let mk (isDb chain : Bool) : DState × String :=
        ({ s := { d.s with files := d.s.files ++ [{ content := c, side := sd, isDb := isDb, chain := chain, snap := sn }] } }, "ok")
      if kind == "db" then mk true true
      else if kind == "wal" then mk false true
      else if kind == "olddb" then mk true false
      else if kind == "oldwal" then mk false false
      else (d, "bad-op")
    | _, _, _ => (d, "bad-op")
  | ["setc", i, c] =>
    match i.toNat?, tokBytes c with
    | some i, some c =>
      match setAt d.s.files i (fun f => { f with content := c }) with
      | some fs => ({ s := { d.s with files := fs } }, "ok")
      | none => (d, "bad-op")
    | _, _ => (d, "bad-op")
  | ["sets", i, sd] =>
    match i.toNat?, sideTok sd with
    | some i, some sd =>
      match setAt d.s.files i (fun f => { f with side := sd }) with
      | some fs => ({ s := { d.s with files := fs } }, "ok")
      | none => (d, "bad-op")
    | _, _ => (d, "bad-op")
  | ["plan", k] =>
    match k.toNat? with
    | some k => ({ s := { d.s with plan := some k } }, "ok")
    | none => (d, "bad-op")
  | ["resume", rep] =>
    match (if rep == "sqlite-refuses" then some ([], false) else (tokBytes rep).map (fun b => (b, true))) with
    | some (rep, ok) =>
      let (s', r) := resumePlan (drvX rep ok) d.s
      ({ s := s' }, match r with | .err => "err" | .noop => "noop" | .ok => "ok")
    | none => (d, "bad-op")
  | ["ensure"] =>
    let (s', v) := ensureVerified (drvX []) d.s
    ({ s := s' }, if v then "ok" else "err")
  | ["open"] =>
    let E := drvX []
    let (s', r) := openNewest E d.s
    ({ s := s' },
      match r with
      | none => "err"
      | some (hs, fs) =>
        "ok " ++ ",".intercalate (hs.map fun h => s!"{h.size}:{h.crc}") ++ " accept=" ++ boolStr (receiverAccepts E hs fs))
  | ["reap", rep] =>
    match tokBytes rep with
    | some rep =>
      let (s', r) := reap (drvX rep) d.s
      ({ s := s' }, match r with | .err => "err" | .noop => "noop" | .ok => "ok")
    | none => (d, "bad-op")
  | _ => (d, "bad-op")

def init : DState := {}

end RqModel.SnapVerify
--! driver: snapverify RqModel.SnapVerify

package http

// C30 correspondence + spec oracle: the value path of the HTTP API on the real code vs.
// the Lean model `values` (RqModel/Model/Values.lean).
//
//   JSON request text ─ParseRequest/makeParameter→ proto Parameter ─(protobuf round trip)→
//   db.Request on real SQLite (bind) … stored in untyped / INTEGER / REAL / TEXT / BLOB columns
//   and expressions … db.Query (driver value, normalizeRowParameters) → encoding.Encoder
//   (array + associative form, base64 + blob_array) → JSON text → decoded again.
//
// What SQLite holds is observed independently of rqlite's conversions through typeof(),
// hex() and quote() (all of which return text/integers).

import (
	"io"
	"sync"
	"time"
	nethttp "net/http"
	"github.com/rqlite/rqlite/v10/proxy"
	"encoding/base64"
	"encoding/hex"
	"encoding/json"
	"fmt"
	"math"
	"os"
	"sort"
	"strconv"
	"strings"
	"testing"

	"github.com/rqlite/rqlite/v10/command/encoding"
	command "github.com/rqlite/rqlite/v10/command/proto"
	"github.com/rqlite/rqlite/v10/db"
	"google.golang.org/protobuf/proto"
)

// c30Val describes one generated JSON parameter.
type c30Val struct {
	json  string // JSON text of the parameter
	tok   string // model token (jparam)
	class string // what SQLite must receive: integer real text blob null | error
	i     int64
	f     float64
	bytes []byte // text bytes or blob bytes
	label string // class of input, for the distribution and signatures
}

func c30FltTok(f float64) string { return strconv.FormatFloat(f, 'g', -1, 64) }

func c30Int(z int64, label string) c30Val {
	s := strconv.FormatInt(z, 10)
	return c30Val{json: s, tok: "num:" + vfHex(s) + ":" + vfHex(c30FltTok(float64(z))), class: "integer", i: z, label: label}
}

func c30Float(lit string, label string) c30Val {
	f, err := strconv.ParseFloat(lit, 64)
	if err != nil {
		// magnitude rounds to infinity: json.Number.Float64 fails and the request is rejected
		return c30Val{json: lit, tok: "num:" + vfHex(lit) + ":" + vfHex("inf"), class: "error", label: label}
	}
	return c30Val{json: lit, tok: "num:" + vfHex(lit) + ":" + vfHex(c30FltTok(f)), class: "real", f: f, label: label}
}

func c30Str(s string, label string) c30Val {
	b, _ := json.Marshal(s)
	v := c30Val{json: string(b), tok: "s:" + vfHex(s), class: "text", bytes: []byte(s), label: label}
	// the documented rule: a string that db.ParseHex accepts is a blob
	t := strings.TrimSpace(s)
	if len(t) >= 3 && (t[0] == 'x' || t[0] == 'X') && t[1] == '\'' && t[len(t)-1] == '\'' {
		if bs, err := hex.DecodeString(t[2 : len(t)-1]); err == nil {
			v.class, v.bytes = "blob", bs
		}
	}
	return v
}

func c30Arr(bs []int, label string) c30Val {
	var js, ts []string
	ok := true
	var out []byte
	for _, b := range bs {
		js = append(js, strconv.Itoa(b))
		ts = append(ts, strconv.Itoa(b))
		if b < 0 || b > 255 {
			ok = false
		}
		out = append(out, byte(b))
	}
	v := c30Val{json: "[" + strings.Join(js, ",") + "]", class: "blob", bytes: out, label: label}
	if len(bs) == 0 {
		v.tok = "a:-"
		v.bytes = []byte{}
	} else {
		v.tok = "a:" + strings.Join(ts, ",")
	}
	if !ok {
		v.class = "error"
	}
	return v
}

func c30Gen(r *vfRng) c30Val {
	switch p := r.Intn(100); {
	case p < 22:
		switch r.Intn(12) {
		case 0:
			return c30Int(math.MaxInt64, "int:max")
		case 1:
			return c30Int(math.MinInt64, "int:min")
		case 2:
			return c30Int(1<<53+1, "int:2^53+1")
		case 3:
			return c30Int(-(1<<53 + 1), "int:-(2^53+1)")
		case 4:
			return c30Int(0, "int:0")
		case 5:
			return c30Int(math.MaxInt64-int64(r.Intn(1000)), "int:near-max")
		case 6:
			// beyond int64: becomes a float by the parser's rule
			return c30Float(r.Pick([]string{"9223372036854775808", "18446744073709551615", "10000000000000000000000"}), "int:beyond-int64")
		case 7:
			return c30Float(r.Pick([]string{"-9223372036854775809", "-18446744073709551616"}), "int:beyond-int64")
		case 8:
			// -0 is an integer literal: bound as INTEGER 0
			v := c30Int(0, "int:minus-zero")
			v.json = "-0"
			v.tok = "num:" + vfHex("-0") + ":" + vfHex("0")
			return v
		default:
			return c30Int(int64(r.U64()), "int:random")
		}
	case p < 38:
		lits := []string{"1.5", "0.1", "1.0", "1e3", "-2.5e-7", "3.141592653589793", "1.7976931348623157e308", "5e-324",
			"123456789.123456789", "1E2", "-0.75", "2.2250738585072014e-308", "100.0", "9007199254740993.0",
			"1E400", "-1e400", "1.7976931348623158e308", "1.7976931348623159e308", "1e-400", "9223372036854775807.0", "1e0", "0e0", "0.30000000000000004"}
		if r.Chance(30) {
			return c30Float(strconv.FormatFloat(math.Float64frombits(r.U64()&^(0x7ff<<52)|uint64(900+r.Intn(250))<<52), 'g', -1, 64), "float:random")
		}
		return c30Float(r.Pick(lits), "float:literal")
	case p < 44:
		if r.Bool() {
			return c30Val{json: "true", tok: "b:1", class: "integer", i: 1, label: "bool"}
		}
		return c30Val{json: "false", tok: "b:0", class: "integer", i: 0, label: "bool"}
	case p < 50:
		return c30Val{json: "null", tok: "n", class: "null", label: "null"}
	case p < 66:
		return c30Str(r.Pick([]string{"hello", "", "héllo wörld", "日本語テキスト", "emoji 😀 ok", "it's \"quoted\"", "line\nbreak\ttab",
			"nul\x00inside", "123", "1.5", "true", "null", " leading and trailing ", " nbsp ", "%s %d", "a'b''c"}), "text")
	case p < 80:
		return c30Str(r.Pick([]string{"x'ab'", "X'AB12'", " x'00ff41' ", "x''", "x'abc'", "x'zz'", "0xAB", "x'ab' and more", "x'", "x",
			"X'00'", "y'ab'", "x\"ab\"", "\tx'0A0b'\n", "x'a b'", " X'FF' ", "x'00FF41'", "xx'ab'"}), "text:hex-looking")
	case p < 96:
		switch r.Intn(6) {
		case 0:
			return c30Arr(nil, "bytes:empty")
		case 1:
			return c30Arr([]int{0}, "bytes")
		case 2:
			return c30Arr([]int{0, 255, 65}, "bytes")
		case 3:
			n := 1 + r.Intn(40)
			var b []int
			for i := 0; i < n; i++ {
				b = append(b, r.Intn(256))
			}
			return c30Arr(b, "bytes:random")
		case 4:
			return c30Arr([]int{1, 256}, "bytes:out-of-range")
		default:
			return c30Arr([]int{-1}, "bytes:out-of-range")
		}
	default:
		switch r.Intn(3) {
		case 0:
			return c30Val{json: `[1.5]`, tok: "a:x", class: "error", label: "bytes:non-integer"}
		case 1:
			return c30Val{json: `["a"]`, tok: "a:x", class: "error", label: "bytes:non-integer"}
		default:
			return c30Val{json: `[[1]]`, tok: "a:x", class: "error", label: "bytes:non-integer"}
		}
	}
}

func c30ParamStr(p *command.Parameter) string {
	switch w := p.GetValue().(type) {
	case *command.Parameter_I:
		return "I:" + strconv.FormatInt(w.I, 10)
	case *command.Parameter_D:
		if math.IsInf(w.D, 0) {
			return "Dinf:" + map[bool]string{true: "1", false: "0"}[w.D < 0]
		}
		return "D:" + vfHex(c30FltTok(w.D))
	case *command.Parameter_B:
		return "B:" + map[bool]string{true: "1", false: "0"}[w.B]
	case *command.Parameter_Y:
		return "Y:" + vfHexB(w.Y)
	case *command.Parameter_S:
		return "S:" + vfHex(w.S)
	case nil:
		return "N"
	}
	return "?"
}

// c30Stored renders what SQLite holds, from typeof()/hex()/quote() output.
func c30Stored(typ, hx, quoted string) string {
	switch typ {
	case "integer":
		return "integer:" + quoted
	case "real":
		f, err := strconv.ParseFloat(quoted, 64)
		if err != nil && !math.IsInf(f, 0) {
			return "real:unparsable:" + quoted
		}
		if math.IsInf(f, 0) {
			return "realinf:" + map[bool]string{true: "1", false: "0"}[f < 0]
		}
		return "real:" + vfHex(c30FltTok(f))
	case "text":
		return "text:x" + strings.ToLower(hx)
	case "blob":
		return "blob:x" + strings.ToLower(hx)
	case "null":
		return "null"
	}
	return "unknown:" + typ
}

// c30JOut canonicalises one decoded JSON response value; storedClass tells a base64 string from text.
func c30JOut(v any, stored string, textTyped bool) string {
	switch x := v.(type) {
	case nil:
		return "null"
	case bool:
		return "bool:" + map[bool]string{true: "1", false: "0"}[x]
	case json.Number:
		s := x.String()
		// JSON does not type its numbers: 100.0 is written 100. A number is read as what SQLite holds.
		if _, err := strconv.ParseInt(s, 10, 64); err == nil && !strings.ContainsAny(s, ".eE") && !strings.HasPrefix(stored, "real") {
			return "num:" + s
		}
		f, err := strconv.ParseFloat(s, 64)
		if err != nil {
			return "badnum:" + s
		}
		return "fnum:" + vfHex(c30FltTok(f))
	case string:
		_ = textTyped // string(empty blob) and base64(empty blob) are the same JSON string: printed b64:x
		if strings.HasPrefix(stored, "blob:") {
			if b, err := base64.StdEncoding.DecodeString(x); err == nil && "blob:"+vfHexB(b) == stored {
				return "b64:" + vfHexB(b)
			}
			// string(blob) through encoding/json: invalid UTF-8 replaced by U+FFFD
			raw := vfUnhex(strings.TrimPrefix(stored, "blob:"))
			if jb, err := json.Marshal(string(raw)); err == nil {
				var back string
				if json.Unmarshal(jb, &back) == nil && back == x {
					return "lossy:" + vfHexB(raw)
				}
			}
		}
		return "str:" + vfHex(x)
	case []any:
		var b []byte
		for _, e := range x {
			n, ok := e.(json.Number)
			if !ok {
				return "badarr"
			}
			i, err := n.Int64()
			if err != nil || i < 0 || i > 255 {
				return "badarr"
			}
			b = append(b, byte(i))
		}
		return "arr:" + vfHexB(b)
	}
	return fmt.Sprintf("unknown:%T", v)
}

// c30Lossless: does the JSON value carry exactly what SQLite holds?
func c30Lossless(stored, jout string) bool {
	sp := strings.SplitN(stored, ":", 2)
	jp := strings.SplitN(jout, ":", 2)
	if stored == "null" {
		return jout == "null"
	}
	if len(sp) != 2 || len(jp) != 2 {
		return false
	}
	switch sp[0] {
	case "integer":
		return jp[0] == "num" && jp[1] == sp[1]
	case "real":
		return jp[0] == "fnum" && jp[1] == sp[1]
	case "text":
		return jp[0] == "str" && jp[1] == sp[1]
	case "blob":
		return ((jp[0] == "b64" || jp[0] == "arr") && jp[1] == sp[1]) 
	}
	return false
}

func c30DecodeJSON(b []byte) (any, error) {
	dec := json.NewDecoder(strings.NewReader(string(b)))
	dec.UseNumber()
	var v any
	err := dec.Decode(&v)
	return v, err
}

// textTyped: db.isTextType(declared type) - the declared type is text-like or empty
var c30Cols = []struct {
	name, decl, label string
	textTyped         bool
}{
	{"u", "", "untyped-column", true}, {"i", "INTEGER", "INTEGER-column", false}, {"r", "REAL", "REAL-column", false},
	{"t", "TEXT", "TEXT-column", true}, {"b", "BLOB", "BLOB-column", false}, {"n", "NUMERIC", "NUMERIC-column", false},
	{"vc", "VARCHAR(20)", "VARCHAR-column", true},
}

func TestVerifC30(t *testing.T) {
	rep := vfNewReport("C30", "generated JSON parameters (int64 extremes and beyond, floats incl. denormal/max, booleans, null, ASCII/non-ASCII/NUL/hex-looking strings, byte arrays incl. empty and malformed; positional and named) through ParseRequest, a protobuf round trip, real SQLite and the JSON encoder in array/associative and base64/blob_array forms; each value is stored in untyped, INTEGER, REAL, TEXT, BLOB, NUMERIC and VARCHAR columns and read back from the columns and from expressions; a case is non-trivial when the parameter is not rejected; distinct by parameter JSON text")
	defer rep.Write()
	r := vfNewRng(30)

	f, err := os.CreateTemp("", "verif-c30-*.db")
	if err != nil {
		t.Fatal(err)
	}
	path := f.Name()
	f.Close()
	defer func() {
		os.Remove(path)
		os.Remove(path + "-wal")
		os.Remove(path + "-shm")
	}()
	dbx, err := db.Open(path, false, true)
	if err != nil {
		t.Fatal(err)
	}
	defer dbx.Close()
	var decls []string
	for _, c := range c30Cols {
		decls = append(decls, strings.TrimSpace(c.name+" "+c.decl))
	}
	if _, err := dbx.ExecuteStringStmt("CREATE TABLE v (id INTEGER PRIMARY KEY, " + strings.Join(decls, ", ") + ")"); err != nil {
		t.Fatal(err)
	}

	var ops, impl []string
	add := func(op, out string) {
		ops = append(ops, op)
		impl = append(impl, out)
	}

	// readCols reads every column of row id (and expressions over them) in all four output
	// forms and checks the read path.
	readCols := func(id int64, what string) {
		var sel []string
		type colRef struct {
			expr, label string
			textTyped   bool
		}
		var refs []colRef
		for _, c := range c30Cols {
			refs = append(refs, colRef{c.name, c.label, c.textTyped})
		}
		refs = append(refs, colRef{"coalesce(u, u)", "expression", true}, colRef{"(SELECT b)", "expression", true})
		for k, c := range refs {
			sel = append(sel, fmt.Sprintf("typeof(%s) AS ty%d, hex(%s) AS hx%d, quote(%s) AS q%d, %s AS val%d", c.expr, k, c.expr, k, c.expr, k, c.expr, k))
		}
		q := fmt.Sprintf("SELECT %s FROM v WHERE id = %d", strings.Join(sel, ", "), id)
		rows, err := dbx.QueryStringStmt(q)
		if err != nil || len(rows) != 1 || rows[0].Error != "" {
			t.Fatalf("read back failed: %v %v", err, rows)
		}
		for _, assoc := range []bool{false, true} {
			for _, blobArray := range []bool{false, true} {
				enc := encoding.Encoder{Associative: assoc, BlobsAsByteArrays: blobArray}
				form := fmt.Sprintf("assoc=%v,blob_array=%v", assoc, blobArray)
				b, err := enc.JSONMarshal(rows)
				if err != nil {
					// which stored value made the encoder fail?
					sig := "encoder-error"
					for k := range refs {
						st := ""
						if len(rows[0].Values) == 1 {
							p := rows[0].Values[0].Parameters
							st = c30Stored(p[4*k].GetS(), p[4*k+1].GetS(), p[4*k+2].GetS())
						}
						if strings.HasPrefix(st, "realinf") {
							sig = "real-infinity-cannot-be-encoded"
						}
					}
					rep.Fail(sig, fmt.Sprintf("%s: reading row of %s failed in the JSON encoder: %v", form, what, err),
						map[string]interface{}{"value": what, "query": q, "form": form})
					if assoc || blobArray {
						continue
					}
					// model: the encoder fails on the infinite value
					for k := range refs {
						p := rows[0].Values[0].Parameters
						st := c30Stored(p[4*k].GetS(), p[4*k+1].GetS(), p[4*k+2].GetS())
						if strings.HasPrefix(st, "realinf") {
							add("read plain 0 0 "+st, "error")
						}
					}
					continue
				}
				dec, err := c30DecodeJSON(b)
				if err != nil {
					rep.Fail("response-not-json", fmt.Sprintf("%s: response is not JSON: %s", form, b), nil)
					continue
				}
				// locate the row in either form
				get := func(k int, col string) (any, bool) {
					top, ok := dec.([]any)
					if !ok || len(top) != 1 {
						return nil, false
					}
					m, ok := top[0].(map[string]any)
					if !ok {
						return nil, false
					}
					if assoc {
						rs, ok := m["rows"].([]any)
						if !ok || len(rs) != 1 {
							return nil, false
						}
						row, ok := rs[0].(map[string]any)
						if !ok {
							return nil, false
						}
						v, ok := row[fmt.Sprintf("%s%d", col, k)]
						return v, ok
					}
					vs, ok := m["values"].([]any)
					if !ok || len(vs) != 1 {
						return nil, false
					}
					row, ok := vs[0].([]any)
					if !ok {
						return nil, false
					}
					idx := map[string]int{"ty": 0, "hx": 1, "q": 2, "val": 3}[col]
					return row[4*k+idx], true
				}
				for k, c := range refs {
					ty, _ := get(k, "ty")
					hx, _ := get(k, "hx")
					qv, _ := get(k, "q")
					val, ok := get(k, "val")
					if !ok {
						rep.Fail("response-shape", fmt.Sprintf("%s: cannot locate column %d in %s", form, k, b), nil)
						continue
					}
					tys, _ := ty.(string)
					hxs, _ := hx.(string)
					qs, _ := qv.(string)
					stored := c30Stored(tys, hxs, qs)
					jout := c30JOut(val, stored, c30IsTextType(rows[0].Types[4*k+3]))
					rep.Count("read:" + tys + "-in-" + c.label)
					if !c30Lossless(stored, jout) {
						rep.Fail("readback-lossy:"+tys+"-in-"+c.label, fmt.Sprintf("%s: SQLite holds %s in %s (%s) but the response carries %s (raw %v)", form, stored, c.expr, what, jout, val),
							map[string]interface{}{"value": what, "column": c.expr, "stored": stored, "returned": jout, "form": form})
					}
					// the declared type rqlite saw for this result column (SQLite reports the declared
					// type of the underlying column even through a subquery; empty for other expressions,
					// then filled in from the first row's converted value)
					textTyped := c30IsTextType(rows[0].Types[4*k+3])
					if textTyped != c.textTyped {
						rep.Count("declared-type-differs-from-expectation:" + c.expr)
					}
					add(fmt.Sprintf("read plain %s %s %s", map[bool]string{true: "1", false: "0"}[textTyped], map[bool]string{true: "1", false: "0"}[blobArray], stored), jout)
				}
			}
		}
	}

	cases := vfScale(1500, 150000)
	id := int64(0)
	for n := 0; n < cases; n++ {
		v := c30Gen(r)
		named := r.Chance(30)
		var body string
		if named {
			body = fmt.Sprintf(`[["INSERT INTO v(u, i, r, t, b, n, vc) VALUES(:p, :p, :p, :p, :p, :p, :p)", {"p": %s}]]`, v.json)
		} else {
			body = fmt.Sprintf(`[["INSERT INTO v(u, i, r, t, b, n, vc) VALUES(?1, ?1, ?1, ?1, ?1, ?1, ?1)", %s]]`, v.json)
		}
		rep.Count("param:" + v.label)
		rep.Count(map[bool]string{true: "named", false: "positional"}[named])
		stmts, perr := ParseRequest(strings.NewReader(body))
		rep.Case(v.json, perr == nil)
		replay := map[string]interface{}{"request": body}

		// stage 1: makeParameter
		if perr != nil || len(stmts) != 1 || len(stmts[0].Parameters) != 1 {
			if v.tok != "" {
				add("param "+v.tok, "error")
			}
			if v.class != "error" {
				rep.Fail("parameter-rejected:"+v.label, fmt.Sprintf("ParseRequest rejected %s: %v", body, perr), replay)
			}
			continue
		}
		p := stmts[0].Parameters[0]
		if v.tok != "" {
			ps := c30ParamStr(p)
			add("param "+v.tok, ps)
		}
		if v.class == "error" {
			rep.Fail("malformed-parameter-accepted:"+v.label, fmt.Sprintf("ParseRequest accepted %s as %s", body, c30ParamStr(p)), replay)
			continue
		}
		if named && p.Name != "p" {
			rep.Fail("parameter-name-lost", fmt.Sprintf("named parameter arrived with name %q", p.Name), replay)
		}

		// the statement travels through the Raft log as protobuf
		if n%2 == 0 {
			bs, err := proto.Marshal(stmts[0])
			if err != nil {
				t.Fatal(err)
			}
			st2 := &command.Statement{}
			if err := proto.Unmarshal(bs, st2); err != nil {
				t.Fatal(err)
			}
			stmts[0] = st2
			rep.Count("via-protobuf-round-trip")
		}

		// stage 2: bind (expression context: no column affinity involved)
		probe := &command.Statement{Sql: "SELECT typeof(?1), hex(?1), quote(?1)", Parameters: stmts[0].Parameters}
		if named {
			probe.Sql = "SELECT typeof(:p), hex(:p), quote(:p)"
		}
		qr, err := dbx.Query(&command.Request{Statements: []*command.Statement{probe}}, false)
		if err != nil || len(qr) != 1 || qr[0].Error != "" || len(qr[0].Values) != 1 {
			rep.Fail("bind-failed:"+v.label, fmt.Sprintf("binding %s failed: %v %v", v.json, err, qr), replay)
			continue
		}
		pr := qr[0].Values[0].Parameters
		got := c30Stored(pr[0].GetS(), pr[1].GetS(), pr[2].GetS())
		add("bind "+c30ParamStr(stmts[0].Parameters[0]), got)
		var want string
		switch v.class {
		case "integer":
			want = "integer:" + strconv.FormatInt(v.i, 10)
		case "real":
			want = "real:" + vfHex(c30FltTok(v.f))
		case "text":
			want = "text:" + vfHexB(v.bytes)
		case "blob":
			want = "blob:" + vfHexB(v.bytes)
		case "null":
			want = "null"
		}
		if got != want {
			rep.Fail("bind-changed-value:"+v.label, fmt.Sprintf("parameter %s reached SQLite as %s, want %s", v.json, got, want), replay)
		}

		// stage 3: store in every column type, read back in every form
		res, err := dbx.Execute(&command.Request{Statements: stmts}, false)
		if err != nil || len(res) != 1 || res[0].GetError() != "" {
			rep.Fail("insert-failed:"+v.label, fmt.Sprintf("insert of %s failed: %v %v", v.json, err, res), replay)
			continue
		}
		id = res[0].GetE().LastInsertId
		readCols(id, v.json)
	}

	// ---- multi-row results with MIXED storage classes in one column / expression ----
	// queryStmtWithConn decides text-vs-blob per VALUE with the column's type string as it is at that
	// moment: the declared type for the first row, the type filled in from the first row's value
	// (populateEmptyTypes) afterwards. Every ordered pair (first row, later row) of classes is read.
	if _, err := dbx.ExecuteStringStmt("CREATE TABLE mr (seq INTEGER PRIMARY KEY, grp INTEGER, u, t TEXT, b BLOB, i INTEGER)"); err != nil {
		t.Fatal(err)
	}
	classLits := map[string][]string{
		"integer": {"7", "-9223372036854775808"}, "real": {"1.5", "1e100"}, "text": {"'txt'", "'héllo'"},
		"blob": {"x'00ff41'", "x'6869'", "x''"}, "null": {"NULL"},
	}
	classNames := []string{"integer", "real", "text", "blob", "null"}
	type mref struct {
		expr, label, ct string
	}
	mrefs := []mref{{"u", "untyped-column", "e"}, {"t", "TEXT-column", "t"}, {"b", "BLOB-column", "o"}, {"i", "INTEGER-column", "o"},
		{"coalesce(u, u)", "expression", "e"}, {"(SELECT b)", "BLOB-column", "o"}}
	grp := 0
	runMulti := func(lits []string) {
		grp++
		for _, l := range lits {
			q := fmt.Sprintf("INSERT INTO mr(grp, u, t, b, i) VALUES(%d, %s, %s, %s, %s)", grp, l, l, l, l)
			if res, err := dbx.ExecuteStringStmt(q); err != nil || res[0].GetError() != "" {
				t.Fatalf("multi insert %q: %v %v", q, err, res)
			}
		}
		var sel []string
		for k, c := range mrefs {
			sel = append(sel, fmt.Sprintf("typeof(%s) AS ty%d, hex(%s) AS hx%d, quote(%s) AS q%d, %s AS val%d", c.expr, k, c.expr, k, c.expr, k, c.expr, k))
		}
		q := fmt.Sprintf("SELECT %s FROM mr WHERE grp = %d ORDER BY seq", strings.Join(sel, ", "), grp)
		rows, err := dbx.QueryStringStmt(q)
		if err != nil || len(rows) != 1 || rows[0].Error != "" {
			t.Fatalf("multi read failed: %v %v", err, rows)
		}
		rep.Count("multi-row-result")
		rep.Case("multi:"+strings.Join(lits, ","), true)
		for _, assoc := range []bool{false, true} {
			for _, blobArray := range []bool{false, true} {
				form := fmt.Sprintf("assoc=%v,blob_array=%v", assoc, blobArray)
				b, err := (&encoding.Encoder{Associative: assoc, BlobsAsByteArrays: blobArray}).JSONMarshal(rows)
				if err != nil {
					rep.Fail("encoder-error", fmt.Sprintf("%s: %v", form, err), nil)
					continue
				}
				dec, err := c30DecodeJSON(b)
				if err != nil {
					rep.Fail("response-not-json", string(b), nil)
					continue
				}
				cell := func(rowIdx, k int, col string) any {
					m := dec.([]any)[0].(map[string]any)
					if assoc {
						return m["rows"].([]any)[rowIdx].(map[string]any)[fmt.Sprintf("%s%d", col, k)]
					}
					return m["values"].([]any)[rowIdx].([]any)[4*k+map[string]int{"ty": 0, "hx": 1, "q": 2, "val": 3}[col]]
				}
				for k, c := range mrefs {
					var stored, jouts []string
					firstClass := ""
					for ri := range lits {
						ty, _ := cell(ri, k, "ty").(string)
						hx, _ := cell(ri, k, "hx").(string)
						qv, _ := cell(ri, k, "q").(string)
						st := c30Stored(ty, hx, qv)
						jo := c30JOut(cell(ri, k, "val"), st, false)
						if ri == 0 {
							firstClass = ty
						}
						stored = append(stored, st)
						jouts = append(jouts, jo)
						rep.Count(fmt.Sprintf("multi:%s-after-first-%s-in-%s", ty, firstClass, c.label))
						if !c30Lossless(st, jo) {
							sig := "readback-lossy:" + ty + "-in-" + c.label
							// with no declared type the column's type is taken from the FIRST row's value: after an
							// integer or real first row a later blob is returned as a blob (not a recorded finding)
							if ri > 0 && c.ct == "e" && (firstClass == "integer" || firstClass == "real") {
								sig += "-after-numeric-first-row"
							}
							rep.Fail(sig, fmt.Sprintf("%s: row %d of %v: SQLite holds %s in %s but the response carries %s", form, ri, lits, st, c.expr, jo),
								map[string]interface{}{"values": lits, "column": c.expr, "row": ri, "stored": st, "returned": jo, "form": form})
						}
					}
					add(fmt.Sprintf("readcol plain %s %s %s", c.ct, map[bool]string{true: "1", false: "0"}[blobArray], strings.Join(stored, ",")), strings.Join(jouts, ","))
				}
			}
		}
	}
	for _, a := range classNames {
		for _, bcl := range classNames {
			runMulti([]string{classLits[a][0], classLits[bcl][len(classLits[bcl])-1], classLits[bcl][0]})
		}
	}
	for n := vfScale(60, 4000); n > 0; n-- {
		var lits []string
		for k := 2 + r.Intn(3); k > 0; k-- {
			cl := classLits[classNames[r.Intn(len(classNames))]]
			lits = append(lits, cl[r.Intn(len(cl))])
		}
		runMulti(lits)
	}

	// stored values that cannot come from a parameter: SQL literals incl. infinity
	for _, lit := range []string{"9e999", "-9e999", "x'00ff41'", "x''", "'text'", "1", "1.0", "NULL", "CAST(x'e4b8ad' AS TEXT)"} {
		res, err := dbx.ExecuteStringStmt(fmt.Sprintf("INSERT INTO v(u, i, r, t, b, n, vc) VALUES(%s, %s, %s, %s, %s, %s, %s)", lit, lit, lit, lit, lit, lit, lit))
		if err != nil || res[0].GetError() != "" {
			t.Fatalf("literal insert failed: %v %v", err, res)
		}
		rep.Count("stored-literal")
		readCols(res[0].GetE().LastInsertId, "SQL literal "+lit)
	}

	// ---- the parameter loop of ParseRequest as a whole: several items, positional and objects mixed ----
	names := []string{"a", "b", "p", "é", "", "a b"}
	for n := vfScale(400, 20000); n > 0; n-- {
		type group struct {
			named bool
			keys  []string // distinct keys of an object (a positional item: one "")
		}
		var items, toks []string
		var groups []group
		wantErr := false
		for k := r.Intn(5); k > 0; k-- {
			if r.Chance(55) {
				v := c30Gen(r)
				items = append(items, v.json)
				toks = append(toks, "p="+v.tok)
				groups = append(groups, group{false, []string{""}})
				wantErr = wantErr || v.class == "error"
				continue
			}
			var ms, mt []string
			last := map[string]string{} // key -> class of its LAST member (Go's decoder keeps that one)
			var order []string
			for m := r.Intn(4); m > 0; m-- {
				key := names[r.Intn(len(names))]
				v := c30Gen(r)
				if r.Chance(8) {
					v = c30Val{json: `{"x": 1}`, tok: "o", class: "error", label: "nested-object"}
				}
				kb, _ := json.Marshal(key)
				ms = append(ms, string(kb)+": "+v.json)
				mt = append(mt, vfHex(key)+"="+v.tok)
				if _, seen := last[key]; !seen {
					order = append(order, key)
				}
				last[key] = v.class
			}
			for _, c := range last {
				wantErr = wantErr || c == "error"
			}
			items = append(items, "{"+strings.Join(ms, ", ")+"}")
			toks = append(toks, "n="+strings.Join(mt, ";"))
			groups = append(groups, group{true, order})
			if len(order) < len(ms) {
				rep.Count("args:object-with-repeated-key")
			}
		}
		body := `[["SELECT 1"` + strings.Join(append([]string{""}, items...), ", ") + `]]`
		rep.Count(fmt.Sprintf("args:%d-items", len(items)))
		stmts, perr := ParseRequest(strings.NewReader(body))
		rep.Case("args:"+body, perr == nil)
		replay := map[string]interface{}{"request": body}
		op := strings.TrimSpace("args " + strings.Join(toks, " "))
		if perr != nil {
			add(op, "error")
			if !wantErr {
				rep.Fail("parameter-rejected:args", fmt.Sprintf("ParseRequest rejected %s: %v", body, perr), replay)
			}
			continue
		}
		if wantErr {
			rep.Fail("malformed-parameter-accepted:args", fmt.Sprintf("ParseRequest accepted %s", body), replay)
		}
		ps := stmts[0].Parameters
		var out []string
		pos := 0
		shapeOK := true
		for _, g := range groups {
			if pos+len(g.keys) > len(ps) {
				shapeOK = false
				break
			}
			part := append([]*command.Parameter(nil), ps[pos:pos+len(g.keys)]...)
			pos += len(g.keys)
			sort.SliceStable(part, func(i, j int) bool { return part[i].Name < part[j].Name })
			want := append([]string(nil), g.keys...)
			sort.Strings(want)
			for i, q := range part {
				out = append(out, vfHex(q.Name)+"="+c30ParamStr(q))
				if q.Name != want[i] {
					shapeOK = false
				}
			}
		}
		if !shapeOK || pos != len(ps) {
			rep.Fail("parameter-names-or-order-wrong", fmt.Sprintf("%s produced %d parameters %v, items %v", body, len(ps), out, groups), replay)
		}
		if len(out) == 0 {
			add(op, "-")
		} else {
			add(op, strings.Join(out, " "))
		}
	}

	// ---- the associative form on its own: column names incl. repeated ones ----
	colNames := []string{"a", "b", "c", "a b", "é"}
	for n := vfScale(300, 20000); n > 0; n-- {
		k := 1 + r.Intn(5)
		var cols, types, colToks, storeds []string
		var params []*command.Parameter
		for i := 0; i < k; i++ {
			cols = append(cols, colNames[r.Intn(len(colNames))])
			types = append(types, "")
			colToks = append(colToks, vfHex(cols[i]))
			var p *command.Parameter
			var st string
			switch r.Intn(6) {
			case 0:
				z := int64(r.U64())
				p, st = &command.Parameter{Value: &command.Parameter_I{I: z}}, "integer:"+strconv.FormatInt(z, 10)
			case 1:
				f := []float64{1.5, 100, -0.25, 1e100}[r.Intn(4)]
				p, st = &command.Parameter{Value: &command.Parameter_D{D: f}}, "real:"+vfHex(c30FltTok(f))
			case 2:
				t := []string{"txt", "", "héllo", "1"}[r.Intn(4)]
				p, st = &command.Parameter{Value: &command.Parameter_S{S: t}}, "text:"+vfHex(t)
			case 3:
				b := [][]byte{{0, 255, 65}, {}, {104, 105}}[r.Intn(3)]
				p, st = &command.Parameter{Value: &command.Parameter_Y{Y: b}}, "blob:"+vfHexB(b)
			case 4:
				bv := r.Bool()
				p, st = &command.Parameter{Value: &command.Parameter_B{B: bv}}, "bool"
			default:
				p, st = &command.Parameter{}, "null"
			}
			params = append(params, p)
			storeds = append(storeds, st)
		}
		q := &command.QueryRows{Columns: cols, Types: types, Values: []*command.Values{{Parameters: params}}}
		for _, blobArray := range []bool{false, true} {
			// what the ARRAY form holds at each position
			var jouts []string
			ab, err := (&encoding.Encoder{BlobsAsByteArrays: blobArray}).JSONMarshal([]*command.QueryRows{q})
			if err != nil {
				t.Fatal(err)
			}
			adec, err := c30DecodeJSON(ab)
			if err != nil {
				t.Fatal(err)
			}
			arow := adec.([]any)[0].(map[string]any)["values"].([]any)[0].([]any)
			for i := range cols {
				jouts = append(jouts, c30JOut(arow[i], storeds[i], false))
			}
			b, err := (&encoding.Encoder{Associative: true, BlobsAsByteArrays: blobArray}).JSONMarshal([]*command.QueryRows{q})
			if err != nil {
				t.Fatal(err)
			}
			dec, err := c30DecodeJSON(b)
			if err != nil {
				t.Fatal(err)
			}
			row := dec.([]any)[0].(map[string]any)["rows"].([]any)[0].(map[string]any)
			rep.Count("assoc-row")
			seen := map[string]bool{}
			dup := false
			for i, c := range append(append([]string(nil), cols...), "zz") {
				if seen[c] {
					dup = true
					continue
				}
				seen[c] = true
				got := "none"
				if v, ok := row[c]; ok {
					// the stored class of the LAST column of that name decides how a string is read
					st := ""
					for ii := range cols {
						if cols[ii] == c {
							st = storeds[ii]
						}
					}
					got = c30JOut(v, st, false)
				}
				add(fmt.Sprintf("assoc %s %s %s", strings.Join(colToks, ","), strings.Join(jouts, ","), vfHex(c)), got)
				// spec: with distinct names the associative value is the array value of that column
				if i < len(cols) {
					cnt := 0
					for _, o := range cols {
						if o == c {
							cnt++
						}
					}
					if cnt == 1 && got != jouts[i] {
						rep.Fail("associative-differs-from-array", fmt.Sprintf("column %q: array form %s, associative form %s (%s)", c, jouts[i], got, b), nil)
					}
				}
			}
			if dup {
				rep.Count("assoc-row-with-repeated-column-name")
			}
			rep.Case(fmt.Sprintf("assoc:%v:%v:%v", cols, storeds, blobArray), true)
		}
	}

	// ---- the marshalled result is a VALUE: it must not change when something else is marshalled later ----
	// (every response body is what Encoder.JSONMarshal returns; a result that aliases shared memory is
	// overwritten by the next response encoded anywhere in the process)
	{
		var inputs []*command.QueryRows
		for k := 0; k < 40; k++ {
			inputs = append(inputs, &command.QueryRows{
				Columns: []string{"n", "s", "b", "f"}, Types: []string{"integer", "text", "blob", "real"},
				Values: []*command.Values{{Parameters: []*command.Parameter{
					{Value: &command.Parameter_I{I: int64(1000 + k)}},
					{Value: &command.Parameter_S{S: strings.Repeat(fmt.Sprintf("row-%d/", k), 1+k%7*9)}},
					{Value: &command.Parameter_Y{Y: []byte{byte(k), 0, 255, byte(k * 3)}}},
					{Value: &command.Parameter_D{D: float64(k) + 0.5}},
				}}}})
		}
		if rows, err := dbx.QueryStringStmt("SELECT id, u, i, r, t, b FROM v ORDER BY id LIMIT 30"); err == nil {
			inputs = append(inputs, rows...)
		}
		forms := []encoding.Encoder{{}, {Associative: true}, {BlobsAsByteArrays: true}, {Associative: true, BlobsAsByteArrays: true}}
		type held struct {
			b    []byte // what JSONMarshal returned, kept as returned
			copy string // its content at the moment it was returned
			what string
		}
		var all []held
		for fi := range forms {
			for k, in := range inputs {
				b, err := forms[fi].JSONMarshal([]*command.QueryRows{in})
				if err != nil {
					continue // (a stored infinity: recorded finding)
				}
				all = append(all, held{b: b, copy: string(b), what: fmt.Sprintf("form %d input %d", fi, k)})
				rep.Count("marshalled-result-held")
			}
		}
		changed := 0
		for _, h := range all {
			if string(h.b) != h.copy {
				changed++
				if changed == 1 {
					rep.Fail("marshalled-result-changed-afterwards", fmt.Sprintf("the bytes JSONMarshal returned for %s read %.80q when returned and %.80q after %d more results had been marshalled", h.what, h.copy, string(h.b), len(all)),
						map[string]interface{}{"what": h.what})
				}
			}
		}
		rep.Case("marshalled results held while the others are marshalled", true)
		// the same from 8 goroutines at once: every result must be the encoding of ITS input
		if changed == 0 {
			want := map[string]string{} // form/input -> encoding (from the sequential pass)
			for _, h := range all {
				want[h.what] = h.copy
			}
			var wg sync.WaitGroup
			bad := make([]string, 8)
			for g := 0; g < 8; g++ {
				wg.Add(1)
				go func(g int) {
					defer wg.Done()
					var mine []held
					for rnd := 0; rnd < 6; rnd++ {
						for k := range inputs {
							kk := (k*7 + g*13 + rnd) % len(inputs)
							fi := (g + rnd + k) % len(forms)
							b, err := forms[fi].JSONMarshal([]*command.QueryRows{inputs[kk]})
							if err != nil {
								continue
							}
							mine = append(mine, held{b: b, what: fmt.Sprintf("form %d input %d", fi, kk)})
						}
					}
					for _, h := range mine {
						if w, ok := want[h.what]; ok && string(h.b) != w && bad[g] == "" {
							bad[g] = fmt.Sprintf("goroutine %d: %s came back as %.80q, want %.80q", g, h.what, string(h.b), w)
						}
					}
				}(g)
			}
			wg.Wait()
			rep.Count("marshalled-concurrently-by-8-goroutines")
			for _, m := range bad {
				if m != "" {
					rep.Fail("marshalled-result-changed-afterwards:concurrent", m, nil)
					break
				}
			}
		}
	}

	// ---- … and through the real HTTP service: concurrent clients each get THEIR OWN rows back ----
	{
		m := &MockStore{}
		cl := &mockClusterService{}
		m.queryFn = func(qr *command.QueryRequest) ([]*command.QueryRows, uint64, error) {
			n := int64(-1)
			if len(qr.Request.Statements) == 1 {
				fmt.Sscanf(qr.Request.Statements[0].Sql, "SELECT %d", &n)
			}
			return []*command.QueryRows{{Columns: []string{"n", "pad"}, Types: []string{"integer", "text"},
				Values: []*command.Values{{Parameters: []*command.Parameter{
					{Value: &command.Parameter_I{I: n}},
					{Value: &command.Parameter_S{S: strings.Repeat(fmt.Sprintf("<%d>", n), 200)}},
				}}}}}, 0, nil
		}
		svc := New("127.0.0.1:0", m, cl, proxy.New(m, cl), nil)
		if err := svc.Start(); err != nil {
			rep.Count("http-service-section-skipped:cannot-start")
		} else {
			host := fmt.Sprintf("http://%s", svc.Addr().String())
			var wg sync.WaitGroup
			bad := make([]string, 8)
			for g := 0; g < 8; g++ {
				wg.Add(1)
				go func(g int) {
					defer wg.Done()
					client := &nethttp.Client{Timeout: 60 * time.Second}
					for k := 0; k < 25; k++ {
						n := g*1000 + k
						resp, err := client.Get(fmt.Sprintf("%s/db/query?q=SELECT%%20%d", host, n))
						if err != nil {
							continue // (load: not judged)
						}
						body, _ := io.ReadAll(resp.Body)
						resp.Body.Close()
						var dec struct {
							Results []struct {
								Values [][]any `json:"values"`
							} `json:"results"`
						}
						pad := strings.Repeat(fmt.Sprintf("<%d>", n), 200)
						if err := json.Unmarshal(body, &dec); err != nil || len(dec.Results) != 1 || len(dec.Results[0].Values) != 1 ||
							len(dec.Results[0].Values[0]) != 2 || fmt.Sprint(dec.Results[0].Values[0][0]) != fmt.Sprint(float64(n)) || dec.Results[0].Values[0][1] != pad {
							if bad[g] == "" {
								bad[g] = fmt.Sprintf("client %d asked for %d and received %.120q", g, n, string(body))
							}
						}
					}
				}(g)
			}
			wg.Wait()
			svc.Close()
			rep.Count("http-service:8-concurrent-clients")
			rep.Case("8 concurrent clients of /db/query", true)
			for _, mm := range bad {
				if mm != "" {
					rep.Fail("response-carries-another-requests-values", mm, nil)
					break
				}
			}
		}
	}

	rep.vfCompareSegments("values", c30Chunks(ops, 300), c30Chunks(impl, 300))
}

// c30IsTextType mirrors db.isTextType (unexported there).
func c30IsTextType(t string) bool {
	for _, p := range []string{"varchar", "varying character", "nchar", "native character", "nvarchar", "clob"} {
		if strings.HasPrefix(t, p) {
			return true
		}
	}
	return t == "text" || t == "json" || t == ""
}

func c30Chunks(xs []string, n int) [][]string {
	var out [][]string
	for len(xs) > 0 {
		k := n
		if k > len(xs) {
			k = len(xs)
		}
		out = append(out, xs[:k])
		xs = xs[k:]
	}
	return out
}

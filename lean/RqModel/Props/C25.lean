import RqModel.Model.Cdc
namespace C25
open RqModel.Cdc
theorem placeholder : (streamEntry ⟨7, false, [1, 1]⟩).length = 2 := by decide
end C25

package command

// C29 correspondence + spec oracle: the real RequestMarshaler / command.Marshal /
// Unmarshal / UnmarshalSubCommand / load marshalers vs. the Lean model `marshal`
// (RqModel/Model/Marshal.lean).
//
// Generated requests of every command type (QUERY, EXECUTE, EXECUTE_QUERY, LOAD,
// LOAD_CHUNK, NOOP): statement counts at threshold-1/threshold/threshold+1, SQL text
// sizes at size-1/size/size+1 (ASCII and multi-byte UTF-8, compressible and not),
// every parameter kind, all flags; marshalers with default and random thresholds
// (including 0 and negative), forced or not.
//  * model: the compression decision (`decide` op) is compared with the real flag;
//  * property: the log entry bytes decode, through Unmarshal + the same switch as
//    CommandProcessor.Process, to a request proto.Equal to the original; a compressed
//    entry is strictly smaller than its plain form unless forced; an entry is plain when
//    below both thresholds.

import (
	"fmt"
	"math"
	"strings"
	"testing"

	"github.com/rqlite/rqlite/v10/command/proto"
	pb "google.golang.org/protobuf/proto"
)

func c29Text(r *vfRng, n int, mode int) string {
	// returns a valid UTF-8 string of exactly n bytes
	var sb strings.Builder
	switch mode {
	case 0: // highly compressible
		for sb.Len() < n {
			sb.WriteString("INSERT INTO foo(name) VALUES('fiona');")
		}
		return sb.String()[:n]
	case 1: // poorly compressible ASCII
		const alpha = "abcdefghijklmnopqrstuvwxyzABCDEFGHIJKLMNOPQRSTUVWXYZ0123456789+/"
		for sb.Len() < n {
			sb.WriteByte(alpha[r.Intn(len(alpha))])
		}
		return sb.String()
	default: // multi-byte runes, padded with ASCII to the exact byte length
		runes := []string{"é", "ß", "日", "本", "語", "😀", "Ω"}
		for {
			x := runes[r.Intn(len(runes))]
			if sb.Len()+len(x) > n {
				break
			}
			sb.WriteString(x)
		}
		for sb.Len() < n {
			sb.WriteByte('x')
		}
		return sb.String()
	}
}

func c29Param(r *vfRng) *proto.Parameter {
	p := &proto.Parameter{}
	if r.Chance(30) {
		p.Name = c29Text(r, r.Intn(6), 2)
	}
	switch r.Intn(7) {
	case 0:
		p.Value = &proto.Parameter_I{I: int64(r.U64())}
	case 1:
		fs := []float64{0, -0.0, 1.5, math.Inf(1), math.MaxFloat64, math.SmallestNonzeroFloat64, -3.25e-7}
		p.Value = &proto.Parameter_D{D: fs[r.Intn(len(fs))]}
	case 2:
		p.Value = &proto.Parameter_B{B: r.Bool()}
	case 3:
		p.Value = &proto.Parameter_Y{Y: r.Bytes(r.Intn(20))}
	case 4:
		p.Value = &proto.Parameter_S{S: c29Text(r, r.Intn(30), r.Intn(3))}
	case 5:
		p.Value = &proto.Parameter_I{I: math.MinInt64}
	}
	return p
}

func c29Around(r *vfRng, thr int) int {
	n := thr + r.Intn(3) - 1
	if r.Chance(15) {
		n = thr * 2
	}
	if n < 0 {
		n = 0
	}
	return n
}

// c29Request builds a request whose statement count / SQL sizes sit around the thresholds.
func c29Request(r *vfRng, batch, size int) *proto.Request {
	if r.Chance(3) {
		return nil
	}
	req := &proto.Request{Transaction: r.Bool(), RollbackOnError: r.Bool(), QualifyColumns: r.Bool()}
	if r.Chance(50) {
		req.DbTimeout = int64(r.U64() >> uint(r.Intn(64)))
	}
	n := r.Intn(4)
	if r.Chance(40) && batch > 0 && batch <= 600 {
		n = c29Around(r, batch)
	}
	bigAt := -1
	if r.Chance(50) && n > 0 {
		bigAt = r.Intn(n)
	}
	for i := 0; i < n; i++ {
		sz := r.Intn(24)
		if i == bigAt && size > 0 && size <= 10000 {
			sz = c29Around(r, size)
		}
		st := &proto.Statement{Sql: c29Text(r, sz, r.Intn(3)), ForceQuery: r.Chance(10), ForceStall: r.Chance(10), SqlExplain: r.Chance(10)}
		if n < 20 {
			for k := r.Intn(4); k > 0; k-- {
				st.Parameters = append(st.Parameters, c29Param(r))
			}
		}
		req.Statements = append(req.Statements, st)
	}
	return req
}

func c29Level(r *vfRng) proto.ConsistencyLevel { return proto.ConsistencyLevel(r.Intn(5)) }

func c29SqlsTok(req *proto.Request) string {
	if req == nil || len(req.Statements) == 0 {
		return "-"
	}
	parts := make([]string, len(req.Statements))
	for i, s := range req.Statements {
		parts[i] = vfHex(s.Sql)
	}
	return strings.Join(parts, ",")
}

// c29Decode is the decoding half of (*CommandProcessor).Process in
// store/command_processor.go: Unmarshal the Command, then per type the same
// command.Unmarshal* call.
func c29Decode(entry []byte) (pb.Message, proto.Command_Type, error) {
	cmd := &proto.Command{}
	if err := Unmarshal(entry, cmd); err != nil {
		return nil, 0, err
	}
	switch cmd.Type {
	case proto.Command_COMMAND_TYPE_QUERY:
		var m proto.QueryRequest
		return &m, cmd.Type, UnmarshalSubCommand(cmd, &m)
	case proto.Command_COMMAND_TYPE_EXECUTE:
		var m proto.ExecuteRequest
		return &m, cmd.Type, UnmarshalSubCommand(cmd, &m)
	case proto.Command_COMMAND_TYPE_EXECUTE_QUERY:
		var m proto.ExecuteQueryRequest
		return &m, cmd.Type, UnmarshalSubCommand(cmd, &m)
	case proto.Command_COMMAND_TYPE_LOAD:
		var m proto.LoadRequest
		return &m, cmd.Type, UnmarshalLoadRequest(cmd.SubCommand, &m)
	case proto.Command_COMMAND_TYPE_LOAD_CHUNK:
		var m proto.LoadChunkRequest
		return &m, cmd.Type, UnmarshalLoadChunkRequest(cmd.SubCommand, &m)
	case proto.Command_COMMAND_TYPE_NOOP:
		var m proto.Noop
		return &m, cmd.Type, UnmarshalNoop(cmd.SubCommand, &m)
	}
	return nil, cmd.Type, fmt.Errorf("unhandled command: %v", cmd.Type)
}

func TestVerifC29(t *testing.T) {
	rep := vfNewReport("C29", "generated requests of the six command types; statement counts and SQL byte sizes at threshold-1/threshold/threshold+1/2x; default (512/4096) and random marshaler thresholds incl. 0 and negative; forced or not; non-trivial = compression was attempted (a threshold reached); distinct by entry bytes + settings")
	defer rep.Write()
	r := vfNewRng(29)
	n := vfScale(700, 150000)
	var ops, impl []string
	for i := 0; i < n; i++ {
		m := NewRequestMarshaler()
		switch r.Intn(4) {
		case 0: // defaults
		case 1:
			m.BatchThreshold, m.SizeThreshold = 1+r.Intn(6), 1+r.Intn(40)
		case 2:
			m.BatchThreshold, m.SizeThreshold = 5+r.Intn(40), 50+r.Intn(300)
		case 3:
			m.BatchThreshold, m.SizeThreshold = r.Intn(3)-1, 4096
			if r.Bool() {
				m.BatchThreshold, m.SizeThreshold = 512, r.Intn(3)-1
			}
		}
		m.ForceCompression = r.Chance(20)
		typ := r.Intn(6)
		var orig pb.Message
		var entry []byte
		var wantType proto.Command_Type
		replay := map[string]interface{}{"batch": m.BatchThreshold, "size": m.SizeThreshold, "force": m.ForceCompression}
		if typ <= 2 {
			var rq Requester
			req := c29Request(r, m.BatchThreshold, m.SizeThreshold)
			switch typ {
			case 0:
				rq = &proto.QueryRequest{Request: req, Timings: r.Bool(), Level: c29Level(r), Freshness: int64(r.U64() >> 20), FreshnessStrict: r.Bool(), LinearizableTimeout: int64(r.Intn(1 << 30))}
				wantType = proto.Command_COMMAND_TYPE_QUERY
			case 1:
				rq = &proto.ExecuteRequest{Request: req, Timings: r.Bool()}
				wantType = proto.Command_COMMAND_TYPE_EXECUTE
			case 2:
				rq = &proto.ExecuteQueryRequest{Request: req, Timings: r.Bool(), Level: c29Level(r), Freshness: -int64(r.U64() >> 20), FreshnessStrict: r.Bool(), LinearizableTimeout: int64(r.Intn(1 << 30))}
				wantType = proto.Command_COMMAND_TYPE_EXECUTE_QUERY
			}
			orig = pb.Clone(rq)
			b, compressed, err := m.Marshal(rq)
			if err != nil {
				t.Fatalf("Marshal failed on a generated request: %v", err)
			}
			plain, _ := pb.Marshal(rq)
			gz, _ := gzCompress(plain)
			replay["request_hex"] = fmt.Sprintf("%x", plain)
			replay["type"] = wantType.String()
			nst := 0
			maxSql := -1 // no statement: nothing can reach the size threshold
			if req != nil {
				nst = len(req.Statements)
				for _, s := range req.Statements {
					if len(s.Sql) > maxSql {
						maxSql = len(s.Sql)
					}
				}
			}
			attempted := nst >= m.BatchThreshold || (maxSql >= 0 && maxSql >= m.SizeThreshold)
			// model: the decision
			ops = append(ops, fmt.Sprintf("decide %d %d %s %s %d %d", m.BatchThreshold, m.SizeThreshold, map[bool]string{true: "1", false: "0"}[m.ForceCompression], c29SqlsTok(req), len(plain), len(gz)))
			impl = append(impl, vfBool(compressed))
			// property: compression only when smaller or forced
			if compressed && !(len(b) < len(plain) || m.ForceCompression) {
				rep.Fail("compressed-but-not-smaller-and-not-forced", fmt.Sprintf("entry %d bytes, plain %d bytes", len(b), len(plain)), replay)
			}
			if compressed && !attempted {
				rep.Fail("compressed-below-both-thresholds", fmt.Sprintf("%d statements (threshold %d), longest SQL %d (threshold %d)", nst, m.BatchThreshold, maxSql, m.SizeThreshold), replay)
			}
			if !compressed && attempted && len(gz) < len(plain) {
				rep.Fail("threshold-reached-and-smaller-but-not-compressed", fmt.Sprintf("gzip %d < plain %d", len(gz), len(plain)), replay)
			}
			if !compressed && string(b) != string(plain) {
				rep.Fail("plain-entry-differs-from-protobuf", "", replay)
			}
			rep.Count(fmt.Sprintf("attempted=%v compressed=%v forced=%v", attempted, compressed, m.ForceCompression))
			if nst == m.BatchThreshold || nst == m.BatchThreshold-1 {
				rep.Count("statement-count-at-batch-threshold-or-one-below")
			}
			if maxSql == m.SizeThreshold || maxSql == m.SizeThreshold-1 {
				rep.Count("sql-size-at-size-threshold-or-one-below")
			}
			c := &proto.Command{Type: wantType, SubCommand: b, Compressed: compressed}
			entry, err = Marshal(c)
			if err != nil {
				t.Fatal(err)
			}
			rep.Case(fmt.Sprintf("%x|%d|%d|%v", entry, m.BatchThreshold, m.SizeThreshold, m.ForceCompression), attempted)
			if i < 3 {
				rep.Sample(map[string]interface{}{"type": wantType.String(), "statements": nst, "longest_sql": maxSql, "batch": m.BatchThreshold, "size": m.SizeThreshold, "plain_bytes": len(plain), "gzip_bytes": len(gz), "compressed": compressed})
			}
		} else {
			var sub []byte
			var err error
			switch typ {
			case 3:
				lr := &proto.LoadRequest{Data: r.Bytes(r.Intn(3000))}
				if r.Chance(10) {
					lr.Data = nil
				}
				orig = pb.Clone(lr)
				sub, err = MarshalLoadRequest(lr)
				wantType = proto.Command_COMMAND_TYPE_LOAD
			case 4:
				lc := &proto.LoadChunkRequest{StreamId: c29Text(r, r.Intn(40), 1), SequenceNum: int64(r.U64() >> uint(r.Intn(64))), IsLast: r.Bool(), Abort: r.Chance(10), Data: r.Bytes(r.Intn(500))}
				orig = pb.Clone(lc)
				sub, err = MarshalLoadChunkRequest(lc)
				wantType = proto.Command_COMMAND_TYPE_LOAD_CHUNK
			default:
				np := &proto.Noop{Id: c29Text(r, r.Intn(40), r.Intn(3))}
				orig = pb.Clone(np)
				sub, err = MarshalNoop(np)
				wantType = proto.Command_COMMAND_TYPE_NOOP
			}
			if err != nil {
				t.Fatal(err)
			}
			replay["type"] = wantType.String()
			replay["sub_hex"] = fmt.Sprintf("%x", sub)
			entry, err = Marshal(&proto.Command{Type: wantType, SubCommand: sub})
			if err != nil {
				t.Fatal(err)
			}
			rep.Case(fmt.Sprintf("%x", entry), true)
		}
		rep.Count("type=" + wantType.String())
		// property: the entry decodes on another node to an identical request
		got, gotType, err := c29Decode(entry)
		if err != nil {
			rep.Fail("entry-does-not-decode:"+wantType.String(), err.Error(), replay)
			continue
		}
		if gotType != wantType || !pb.Equal(got, orig) {
			rep.Fail("decoded-request-differs:"+wantType.String(), fmt.Sprintf("decoded type %v", gotType), replay)
		}
	}
	bo, bi := c29BreakEven(t, rep, vfNewRng(2905))
	ops, impl = append(ops, bo...), append(impl, bi...)
	rep.vfCompare("marshal", ops, impl, nil)
	c29HighlyCompressible(t, rep, vfNewRng(2904))
	c29Batch(t, rep, vfNewRng(2902))
	c29Concurrent(t, rep, vfNewRng(2903))
}

// c29Item is one request with the bytes its marshaler returned. The bytes are NOT copied:
// they are exactly what the caller of Marshal / MarshalLoadRequest holds.
type c29Item struct {
	orig       pb.Message
	typ        proto.Command_Type
	sub        []byte
	compressed bool
}

func c29MakeItem(r *vfRng, m *RequestMarshaler) *c29Item {
	switch r.Intn(4) {
	case 0:
		lr := &proto.LoadRequest{Data: []byte(c29Text(r, 200+r.Intn(2000), r.Intn(2)))}
		sub, err := MarshalLoadRequest(lr)
		if err != nil {
			panic(err)
		}
		return &c29Item{orig: pb.Clone(lr), typ: proto.Command_COMMAND_TYPE_LOAD, sub: sub}
	default:
		// compressible and above a threshold, so the gzip path is taken
		req := &proto.Request{Transaction: r.Bool()}
		n := 1 + r.Intn(3)
		for i := 0; i < n; i++ {
			req.Statements = append(req.Statements, &proto.Statement{Sql: c29Text(r, m.SizeThreshold+r.Intn(300), 0) + fmt.Sprintf("/*%d*/", r.U64())})
		}
		var rq Requester
		typ := proto.Command_COMMAND_TYPE_EXECUTE
		switch r.Intn(3) {
		case 0:
			rq = &proto.ExecuteRequest{Request: req, Timings: r.Bool()}
		case 1:
			rq = &proto.QueryRequest{Request: req, Level: c29Level(r)}
			typ = proto.Command_COMMAND_TYPE_QUERY
		default:
			rq = &proto.ExecuteQueryRequest{Request: req, Freshness: int64(r.Intn(1000))}
			typ = proto.Command_COMMAND_TYPE_EXECUTE_QUERY
		}
		orig := pb.Clone(rq)
		b, compressed, err := m.Marshal(rq)
		if err != nil {
			panic(err)
		}
		return &c29Item{orig: orig, typ: typ, sub: b, compressed: compressed}
	}
}

func c29CheckItem(it *c29Item) string {
	entry, err := Marshal(&proto.Command{Type: it.typ, SubCommand: it.sub, Compressed: it.compressed})
	if err != nil {
		return "wrap: " + err.Error()
	}
	got, gotType, err := c29Decode(entry)
	if err != nil {
		return "decode: " + err.Error()
	}
	if gotType != it.typ || !pb.Equal(got, it.orig) {
		return "decoded request differs from the one marshalled"
	}
	return ""
}

// c29Batch: marshal a whole batch first, holding every returned byte slice, and only then
// wrap and decode each one. The result of Marshal is a value: later calls must not change it.
func c29Batch(t *testing.T, rep *vfReport, r *vfRng) {
	rounds := vfScale(40, 6000)
	for round := 0; round < rounds; round++ {
		m := NewRequestMarshaler()
		m.SizeThreshold = 64 + r.Intn(200)
		k := 2 + r.Intn(12)
		items := make([]*c29Item, k)
		for i := range items {
			items[i] = c29MakeItem(r, m)
		}
		nComp := 0
		for i, it := range items {
			if it.compressed || it.typ == proto.Command_COMMAND_TYPE_LOAD {
				nComp++
			}
			if msg := c29CheckItem(it); msg != "" {
				rep.Fail("decoded-request-differs:results-held-while-marshalling-others",
					fmt.Sprintf("batch of %d requests marshalled first, then decoded: item %d (%v, compressed=%v): %s", k, i, it.typ, it.compressed, msg),
					map[string]interface{}{"batch_size": k, "item": i, "type": it.typ.String(), "size_threshold": m.SizeThreshold})
			}
		}
		rep.Case(fmt.Sprintf("batch|%d|%d", round, k), nComp >= 2)
		rep.Count("batches-marshalled-before-decoding")
		rep.CountN("batch-items-gzipped", nComp)
	}
}

// c29Concurrent: goroutines marshal and decode their own requests at the same time.
func c29Concurrent(t *testing.T, rep *vfReport, r *vfRng) {
	workers := 8
	iters := vfScale(60, 1500)
	type failure struct{ w, i int; msg string; typ string }
	fails := make(chan failure, workers)
	done := make(chan struct{})
	for w := 0; w < workers; w++ {
		wr := &vfRng{s: r.U64()}
		go func(w int) {
			defer func() { done <- struct{}{} }()
			m := NewRequestMarshaler()
			m.SizeThreshold = 64
			for i := 0; i < iters; i++ {
				it := c29MakeItem(wr, m)
				if msg := c29CheckItem(it); msg != "" {
					select {
					case fails <- failure{w, i, msg, it.typ.String()}:
					default:
					}
					return
				}
			}
		}(w)
	}
	for w := 0; w < workers; w++ {
		<-done
	}
	close(fails)
	for f := range fails {
		rep.Fail("decoded-request-differs:concurrent-marshal",
			fmt.Sprintf("%d goroutines marshalling at once: worker %d iteration %d (%s): %s", workers, f.w, f.i, f.typ, f.msg),
			map[string]interface{}{"workers": workers, "iterations": iters})
	}
	rep.Case(fmt.Sprintf("concurrent|%d|%d", workers, iters), true)
	rep.CountN("concurrent-marshal-decode-round-trips", workers*iters)
}

// c29HighlyCompressible: multi-megabyte uniform payloads, which gzip shrinks by more than
// 1000:1, for every command type that goes through gzip (QUERY / EXECUTE / EXECUTE_QUERY via
// the RequestMarshaler, LOAD via MarshalLoadRequest). gunzip(gzip x) = x has to hold for ALL x:
// the decoding side must not cap how much a compressed entry may inflate to.
func c29HighlyCompressible(t *testing.T, rep *vfReport, r *vfRng) {
	mb := 1 << 20
	sizes := []int{4*mb + 300*1024}
	if vfThorough() {
		sizes = []int{4*mb + 300*1024, 8 * mb, 16 * mb, 24 * mb, 32 * mb}
	}
	for _, sz := range sizes {
		kinds := []string{"execute-hex-literal", "load-zero-filled"}
		if vfThorough() {
			kinds = append(kinds, "query-in-list", "execute-query-repeated-text")
		}
		for _, kind := range kinds {
			var it *c29Item
			m := NewRequestMarshaler()
			switch kind {
			case "execute-hex-literal":
				sql := "INSERT INTO t(b) VALUES(X'" + strings.Repeat("00", sz/2) + "')"
				rq := &proto.ExecuteRequest{Request: &proto.Request{Statements: []*proto.Statement{{Sql: sql}}}}
				orig := pb.Clone(rq)
				b, c, err := m.Marshal(rq)
				if err != nil {
					t.Fatal(err)
				}
				it = &c29Item{orig: orig, typ: proto.Command_COMMAND_TYPE_EXECUTE, sub: b, compressed: c}
			case "query-in-list":
				sql := "SELECT * FROM t WHERE a IN (" + strings.Repeat("0,", sz/2) + "0)"
				rq := &proto.QueryRequest{Request: &proto.Request{Statements: []*proto.Statement{{Sql: sql}}}}
				orig := pb.Clone(rq)
				b, c, err := m.Marshal(rq)
				if err != nil {
					t.Fatal(err)
				}
				it = &c29Item{orig: orig, typ: proto.Command_COMMAND_TYPE_QUERY, sub: b, compressed: c}
			case "execute-query-repeated-text":
				sql := "INSERT INTO t(v) VALUES('" + strings.Repeat("a", sz) + "')"
				rq := &proto.ExecuteQueryRequest{Request: &proto.Request{Statements: []*proto.Statement{{Sql: sql}}}}
				orig := pb.Clone(rq)
				b, c, err := m.Marshal(rq)
				if err != nil {
					t.Fatal(err)
				}
				it = &c29Item{orig: orig, typ: proto.Command_COMMAND_TYPE_EXECUTE_QUERY, sub: b, compressed: c}
			default:
				lr := &proto.LoadRequest{Data: make([]byte, sz)}
				orig := pb.Clone(lr)
				sub, err := MarshalLoadRequest(lr)
				if err != nil {
					t.Fatal(err)
				}
				it = &c29Item{orig: orig, typ: proto.Command_COMMAND_TYPE_LOAD, sub: sub}
			}
			ratio := sz / (len(it.sub) + 1)
			rep.Case(fmt.Sprintf("compressible|%s|%d", kind, sz), true)
			rep.Count("highly-compressible=" + kind)
			if ratio >= 1000 {
				rep.Count("highly-compressible-ratio>=1000")
			}
			if msg := c29CheckItem(it); msg != "" {
				rep.Fail("decoded-request-differs:highly-compressible:"+kind,
					fmt.Sprintf("%s of %d bytes is stored in %d bytes (about %d:1): %s", kind, sz, len(it.sub), ratio, msg),
					map[string]interface{}{"kind": kind, "payload_bytes": sz, "entry_bytes": len(it.sub), "ratio": ratio})
			}
			if !vfThorough() && kind == "load-zero-filled" {
				// the LOAD path needs a larger payload to pass 1000:1 (protobuf bytes compress a little worse)
				lr := &proto.LoadRequest{Data: make([]byte, 16*mb)}
				orig := pb.Clone(lr)
				sub, err := MarshalLoadRequest(lr)
				if err != nil {
					t.Fatal(err)
				}
				it2 := &c29Item{orig: orig, typ: proto.Command_COMMAND_TYPE_LOAD, sub: sub}
				rep.Case("compressible|load|16MB", true)
				if msg := c29CheckItem(it2); msg != "" {
					rep.Fail("decoded-request-differs:highly-compressible:"+kind,
						fmt.Sprintf("zero-filled LoadRequest of 16 MB stored in %d bytes: %s", len(sub), msg),
						map[string]interface{}{"kind": kind, "payload_bytes": 16 * mb, "entry_bytes": len(sub)})
				}
			}
		}
	}
}

// c29BreakEven: a scan for the break-even point of compression. With SizeThreshold = 1 every
// statement is a candidate; as the SQL text grows byte by byte the protobuf size grows by one
// and the gzip size by zero or one, so protobuf size - gzip size passes through -1, 0, +1. Every
// request whose two sizes tie or differ by one goes through the real Marshal, the model's
// decision, the "only if smaller" rule and the round trip.
func c29BreakEven(t *testing.T, rep *vfReport, r *vfRng) (ops, impl []string) {
	texts := []func(n int) string{
		func(n int) string { return c29Text(r, n, 0) },
		func(n int) string { return strings.Repeat("ab", n/2+1)[:n] },
		func(n int) string { h := n / 2; return c29Text(r, h, 1) + strings.Repeat("x", n-h) },
	}
	maxLen := vfScale(300, 1200)
	for shape := 0; shape < 3; shape++ {
		for ti, mk := range texts {
			for n := 1; n <= maxLen; n++ {
				sql := mk(n)
				req := &proto.Request{Statements: []*proto.Statement{{Sql: sql}}}
				var rq Requester
				typ := proto.Command_COMMAND_TYPE_EXECUTE
				switch shape {
				case 0:
					rq = &proto.ExecuteRequest{Request: req}
				case 1:
					rq = &proto.QueryRequest{Request: req, Timings: true}
					typ = proto.Command_COMMAND_TYPE_QUERY
				default:
					rq = &proto.ExecuteQueryRequest{Request: req, Freshness: 7}
					typ = proto.Command_COMMAND_TYPE_EXECUTE_QUERY
				}
				plain, _ := pb.Marshal(rq)
				gz, _ := gzCompress(plain)
				d := len(plain) - len(gz)
				if d < -1 || d > 1 {
					continue
				}
				m := NewRequestMarshaler()
				m.SizeThreshold = 1
				orig := pb.Clone(rq)
				b, compressed, err := m.Marshal(rq)
				if err != nil {
					t.Fatal(err)
				}
				ops = append(ops, fmt.Sprintf("decide %d %d 0 %s %d %d", m.BatchThreshold, m.SizeThreshold, c29SqlsTok(req), len(plain), len(gz)))
				impl = append(impl, vfBool(compressed))
				rep.Count(fmt.Sprintf("break-even:plain-minus-gzip=%d", d))
				rep.Case(fmt.Sprintf("breakeven|%d|%d|%d", shape, ti, n), true)
				info := map[string]interface{}{"type": typ.String(), "sql_bytes": n, "plain_bytes": len(plain), "gzip_bytes": len(gz), "request_hex": fmt.Sprintf("%x", plain)}
				if compressed && !(len(b) < len(plain)) {
					rep.Fail("compressed-but-not-smaller-and-not-forced:break-even", fmt.Sprintf("protobuf %d bytes, gzip %d bytes: entry of %d bytes is flagged compressed", len(plain), len(gz), len(b)), info)
				}
				if !compressed && string(b) != string(plain) {
					rep.Fail("plain-entry-differs-from-protobuf:break-even", "", info)
				}
				if compressed && string(b) != string(gz) {
					rep.Fail("compressed-entry-is-not-the-gzip-bytes:break-even", fmt.Sprintf("protobuf %d bytes, gzip %d bytes, entry %d bytes", len(plain), len(gz), len(b)), info)
				}
				if msg := c29CheckItem(&c29Item{orig: orig, typ: typ, sub: b, compressed: compressed}); msg != "" {
					rep.Fail("decoded-request-differs:break-even", fmt.Sprintf("protobuf %d bytes, gzip %d bytes, flagged compressed=%v: %s", len(plain), len(gz), compressed, msg), info)
				}
			}
		}
	}
	return
}

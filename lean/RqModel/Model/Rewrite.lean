/-
Model of command/sql/processor.go (C14): the AST rewriter `Rewriter.Visit` /
`VisitEnd` driven by `sql.Walk`, and the substring pre-filter
`ContainsTime` / `ContainsRandom`.

The AST is the tree `sql.Walk` traverses, in Walk's child order:
  call name args extra   *sql.Call (args = Args, extra = Filter / Over children)
  lit kind value         NumberLit / StringLit / BlobLit / NullLit / BoolLit / BindExpr …
  ident name             *sql.Ident
  ord kids               *sql.OrderingTerm
  ret kids               *sql.ReturningClause
  other tag kids         every other node type (tag = Go type name + operator)
The rqlite/sql parser and printer are not modelled; the harness records the
tree of the real parsed statement with a recording Visitor.

The clock and the random source are explicit: `now` is the single clock reading
of a statement (the rewriter reads the clock once per `Do`), `rand k` the k-th
value of `randFn`. A pinned time is the literal `lit "jd" "<k>"`, a random
blob of n bytes the literal `lit "randblob" "<n>"`, the number a `random()` call
became `lit "randnum" "<value>"` (a NumberLit in the Go AST; the harness tells
it from an original NumberLit by its position).

This is the code AFTER the C14 `fix:` commits (see known_findings.d/C14.json):
implicit 'now' (zero-argument date/time functions and format-only strftime) is
pinned; the clock is read once per statement; ORDER BY nesting is a depth, not a
flag; CTE bodies and SELECT expressions are walked (the recorded tree contains
them as children of `WithClause` / `SelectExpr`); randomblob's literal argument is read as SQLite reads it (sign, hexadecimal two's complement, float); the pre-filter accepts whitespace, comments and closing quotes between
a function name and its parenthesis.
-/
import RqModel.Model.Util
namespace RqModel.Rewrite
open RqModel.Util

mutual
inductive Node where
  | call (name : String) (args : Nodes) (extra : Nodes)
  | lit (kind : String) (val : String)
  | ident (name : String)
  | ord (kids : Nodes)
  | ret (kids : Nodes)
  | other (tag : String) (kids : Nodes)
inductive Nodes where
  | nil
  | cons (n : Node) (ns : Nodes)
end

mutual
def Node.beq : Node → Node → Bool
  | .call n a e, .call n' a' e' => n == n' && Nodes.beq a a' && Nodes.beq e e'
  | .lit k v, .lit k' v' => k == k' && v == v'
  | .ident n, .ident n' => n == n'
  | .ord k, .ord k' => Nodes.beq k k'
  | .ret k, .ret k' => Nodes.beq k k'
  | .other t k, .other t' k' => t == t' && Nodes.beq k k'
  | _, _ => false
def Nodes.beq : Nodes → Nodes → Bool
  | .nil, .nil => true
  | .cons n ns, .cons n' ns' => Node.beq n n' && Nodes.beq ns ns'
  | _, _ => false
end

def Nodes.length : Nodes → Nat
  | .nil => 0
  | .cons _ ns => ns.length + 1

def Nodes.append : Nodes → Nodes → Nodes
  | .nil, b => b
  | .cons n ns, b => .cons n (ns.append b)

/-- ASCII lower-casing (Go uses strings.EqualFold; identical on ASCII names) -/
def lower (s : String) : String := String.ofList (s.toList.map Char.toLower)

def timeFive : List String := ["date", "time", "datetime", "julianday", "unixepoch"]

/-- `isNow`: the identifier or string literal `now`, any case -/
def isNow : Node → Bool
  | .ident n => lower n == "now"
  | .lit k v => k == "string" && lower v == "now"
  | _ => false

structure St where
  ordered : Nat := 0      -- rw.orderedBy: number of enclosing ORDER BY terms
  randK : Nat := 0        -- calls of randFn so far
  modified : Bool := false
  returning : Bool := false
deriving Repr, DecidableEq

structure Cfg where
  rwRand : Bool
  rwTime : Bool
  rand : Nat → Int        -- randFn, k-th call
  nowTok : String         -- what the pinned clock reading is printed as

def jdLit (c : Cfg) : Node := .lit "jd" c.nowTok

def hexDigitVal (ch : Char) : Option Nat :=
  if '0' ≤ ch ∧ ch ≤ '9' then some (ch.toNat - '0'.toNat)
  else if 'a' ≤ ch ∧ ch ≤ 'f' then some (ch.toNat - 'a'.toNat + 10)
  else if 'A' ≤ ch ∧ ch ≤ 'F' then some (ch.toNat - 'A'.toNat + 10)
  else none

def parseHex (cs : List Char) : Option Nat :=
  if cs.isEmpty then none
  else cs.foldl (fun acc ch => do let a ← acc; let d ← hexDigitVal ch; pure (a * 16 + d)) (some 0)

def digitsVal (cs : List Char) : Option Nat :=
  cs.foldl (fun acc ch => do
    let a ← acc
    if '0' ≤ ch ∧ ch ≤ '9' then pure (a * 10 + (ch.toNat - '0'.toNat)) else none) (some 0)

/-- SQLite's default maximum length of a string or BLOB; `maxBlobLength` in processor.go -/
def maxBlobLength : Nat := 1000000000

def int64Max : Nat := 9223372036854775807

/-- a decimal floating point literal `ddd[.ddd][e[+-]dd]` (at least one mantissa digit) as
`(m, e)` meaning m × 10^e, exactly -/
def parseDecimal (cs : List Char) : Option (Nat × Int) := do
  let mant := cs.takeWhile (fun ch => ch != 'e' && ch != 'E')
  let expPart := (cs.dropWhile (fun ch => ch != 'e' && ch != 'E')).drop 1
  let hasExp := cs.any (fun ch => ch == 'e' || ch == 'E')
  let ip := mant.takeWhile (· != '.')
  let fp := (mant.dropWhile (· != '.')).drop 1
  if ip.isEmpty && fp.isEmpty then none
  let m ← digitsVal (ip ++ fp)
  let (neg, ed) := match expPart with
    | '-' :: r => (true, r)
    | '+' :: r => (false, r)
    | r => (false, r)
  if hasExp && ed.isEmpty then none
  let e ← digitsVal ed
  pure (m, (if neg then -(e : Int) else (e : Int)) - (fp.length : Int))

/-- `strconv.ParseFloat(v) = f, nil ∧ f <= maxBlobLength`, then `int(f)`: the value m × 10^e is
compared and truncated exactly (Go compares the nearest double: the two differ only for literals
within one ulp of the bound or of an integer, which the scanner's callers do not write) -/
def floatBytes (cs : List Char) : Option Nat := do
  let (m, e) ← parseDecimal cs
  if e ≥ 0 then
    let v := m * 10 ^ e.toNat
    if v ≤ maxBlobLength then some v else none
  else
    let d := 10 ^ (-e).toNat
    if m ≤ maxBlobLength * d then some (m / d) else none

/-- what randomblob does with a length SQLite has read as the integer `z`: more than the maximum is an
error on every node (`none`: the call is left alone), less than 1 is ONE byte -/
def bytesOf (z : Int) : Option Nat :=
  if z > (maxBlobLength : Int) then none else if z < 1 then some 1 else some z.toNat

/-- `blobLength` of processor.go on a number literal `v` under an optional minus sign: the number of
bytes SQLite's randomblob produces, `none` = the call is left alone.
  decimal digits within int64                → that integer
  `0x…` with a value below 2^64              → the two's-complement int64 (as SQLite reads it);
                                               `-0x8000000000000000` is left alone (SQLite rejects it)
  otherwise a decimal floating point literal → negative or below 1: one byte; up to the maximum: its
                                               integer part; above: left alone
(the float comparison is exact here, Go compares the nearest double) -/
def blobBytes (neg : Bool) (v : String) : Option Nat :=
  let cs := v.toList
  let sgn (z : Int) : Int := if neg then -z else z
  let floatCase : Option Nat :=
    match parseDecimal cs with
    | none => none
    | some (m, e) =>
      if neg then some 1
      else if e ≥ 0 then
        let x := m * 10 ^ e.toNat
        if x < 1 then some 1 else if x ≤ maxBlobLength then some x else none
      else
        let d := 10 ^ (-e).toNat
        if m < d then some 1 else if m ≤ maxBlobLength * d then some (m / d) else none
  let hexCase (hs : List Char) : Option Nat :=
    match parseHex hs with
    | none => none
    | some u =>
      if u ≥ 18446744073709551616 then none
      else
        let z : Int := if u ≥ 9223372036854775808 then (u : Int) - 18446744073709551616 else (u : Int)
        if neg && z == -9223372036854775808 then none else bytesOf (sgn z)
  match (if cs.isEmpty then none else digitsVal cs) with
  | some n => if n ≤ int64Max then bytesOf (sgn (n : Int)) else floatCase
  | none =>
    match cs with
    | '0' :: 'x' :: hs => hexCase hs
    | '0' :: 'X' :: hs => hexCase hs
    | _ => floatCase

def litNumber : Node → Option String
  | .lit k v => if k = "number" then some v else none
  | _ => none

/-- a number literal, or one under a unary minus / plus: (negated?, literal text) -/
def signedLit : Node → Option (Bool × String)
  | .lit k v => if k = "number" then some (false, v) else none
  | .other tag (.cons x .nil) =>
    if tag = "UnaryExpr:-" then (litNumber x).map fun v => (true, v)
    else if tag = "UnaryExpr:+" then (litNumber x).map fun v => (false, v)
    else none
  | _ => none

/-- the argument of randomblob when it is a literal -/
def blobArg : Nodes → Option (Bool × String)
  | .cons x .nil => signedLit x
  | _ => none

/-- the length the rewriter pins for randomblob's arguments, if it does -/
def blobLenOfArgs (args : Nodes) : Option Nat :=
  match blobArg args with
  | some (neg, v) => blobBytes neg v
  | none => none

/-- replace the first / second argument when it is `now` -/
def replNow0 (c : Cfg) : Nodes → Nodes
  | .nil => .nil
  | .cons a rest => .cons (if isNow a then jdLit c else a) rest

def replNow1 (c : Cfg) : Nodes → Nodes
  | .cons a (.cons b rest) => .cons a (.cons (if isNow b then jdLit c else b) rest)
  | ns => ns

/-- what `Visit` does to the argument list of a call it keeps -/
inductive ArgTr where
  | none
  | five       -- date/time/datetime/julianday/unixepoch: absent time value appended, else Args[0] if now
  | strftime   -- format only: time value appended, else Args[1] if now
  | timediff   -- Args[0] and Args[1] if now
deriving Repr, DecidableEq

def applyTr (c : Cfg) : ArgTr → Nodes → Nodes
  | .none, a => a
  | .five, .nil => .cons (jdLit c) .nil
  | .five, a => replNow0 c a
  | .strftime, .cons f .nil => .cons f (.cons (jdLit c) .nil)
  | .strftime, a => replNow1 c a
  | .timediff, a => replNow1 c (replNow0 c a)

/-- outcome of `Visit` on a `*sql.Call` -/
inductive Action where
  | keep (tr : ArgTr) (st : St)      -- the call stays, arguments transformed by `tr`
  | replace (n : Node) (st : St)     -- the call is replaced by a literal

/-- which of the names compared with `strings.EqualFold` in `Visit` a call has -/
inductive FnKind where
  | five | strftime | timediff | random | randomblob | other
deriving Repr, DecidableEq

def classify (name : String) : FnKind :=
  let nm := lower name
  if timeFive.contains nm then .five
  else if nm == "strftime" then .strftime
  else if nm == "timediff" then .timediff
  else if nm == "random" then .random
  else if nm == "randomblob" then .randomblob
  else .other

/-- the `case *sql.Call:` branch chain of `Visit`. The Go code is an `if / else if` chain
whose conditions each contain one name comparison; the names are distinct constants, so the
chain is a case distinction on the name followed by the remaining conditions of that branch
(a failed condition falls through to branches for OTHER names, i.e. to "leave alone"). -/
def visitCall (c : Cfg) (st : St) (name : String) (args : Nodes) : Action :=
  match classify name with
  | .five =>
    if c.rwTime then .keep .five { st with modified := true } else .keep .none st
  | .strftime =>
    if c.rwTime && decide (args.length > 0) then .keep .strftime { st with modified := true }
    else .keep .none st
  | .timediff =>
    if c.rwTime && decide (args.length > 1) then .keep .timediff { st with modified := true }
    else .keep .none st
  | .random =>
    if st.ordered == 0 && c.rwRand then
      .replace (.lit "randnum" (toString (c.rand st.randK))) { st with modified := true, randK := st.randK + 1 }
    else .keep .none st
  | .randomblob =>
    if st.ordered == 0 && c.rwRand then
      match blobLenOfArgs args with
      | some n => .replace (.lit "randblob" (toString n)) { st with modified := true }
      | none => .keep .none st
    else .keep .none st
  | .other => .keep .none st

/- `sql.Walk` with the rewriter as visitor: Visit, children in order, VisitEnd.
In the Go code `Visit` edits `Args` BEFORE Walk descends into them; here the
children are walked first and the edit applied afterwards. The two agree because
the edit only replaces or appends LEAVES (`now` identifier / string literal → the
pinned literal), on which Walk does nothing, and `isNow` of a walked node equals
`isNow` of the node (lemma `isNow_walk` in Lemmas/Rewrite.lean). The correspondence
run compares against the real order. -/
mutual
def walk (c : Cfg) (st : St) : Node → Node × St
  | .call name args extra =>
    match visitCall c st name args with
    | .replace n st1 => (n, st1)   -- replaced by a literal: no children
    | .keep tr st1 =>
      let (a, st2) := walkList c st1 args
      let (e, st3) := walkList c st2 extra
      (.call name (applyTr c tr a) e, st3)
  | .lit k v => (.lit k v, st)
  | .ident n => (.ident n, st)
  | .ord kids =>
    let (k, st1) := walkList c { st with ordered := st.ordered + 1 } kids
    (.ord k, { st1 with ordered := st1.ordered - 1 })
  | .ret kids =>
    let (k, st1) := walkList c { st with returning := true } kids
    (.ret k, st1)
  | .other tag kids =>
    let (k, st1) := walkList c st kids
    (.other tag k, st1)
def walkList (c : Cfg) (st : St) : Nodes → Nodes × St
  | .nil => (.nil, st)
  | .cons n ns =>
    let (n', st1) := walk c st n
    let (ns', st2) := walkList c st1 ns
    (.cons n' ns', st2)
end

/-- `Rewriter.Do` -/
def rewrite (c : Cfg) (n : Node) : Node × St := walk c {} n

/-! ### pre-filter (on the lower-cased statement text) -/

def isSkip (ch : Char) : Bool :=
  ch == ' ' || ch == '\t' || ch == '\n' || ch == '\r' || ch == '\x0c' || ch == '\x0b' ||
  ch == '"' || ch == '`' || ch == ']'

/-- what may follow a function name (after skipped characters) for `containsCall` to fire -/
def opensCall : List Char → Bool
  | '(' :: _ => true
  | '/' :: '*' :: _ => true
  | '-' :: '-' :: _ => true
  | _ => false

def callAt (name rest : List Char) : Bool :=
  name.isPrefixOf rest && opensCall ((rest.drop name.length).dropWhile isSkip)

/-- some occurrence of `name` in `s` is followed by a (possible) call -/
def containsCall1 (name : List Char) : List Char → Bool
  | [] => callAt name []
  | ch :: cs => callAt name (ch :: cs) || containsCall1 name cs

def containsCall (names : List String) (s : List Char) : Bool :=
  names.any fun n => containsCall1 n.toList s

def timeTargets : List String := ["time", "date", "julianday", "unixepoch", "timediff"]
def randTargets : List String := ["random", "randomblob"]

def containsTime (s : String) : Bool := containsCall timeTargets s.toList
def containsRandom (s : String) : Bool := containsCall randTargets s.toList

/-! ### splitting a statement text into its statements (`splitStatements`)
The text is cut at its semicolon TOKENS (the scanner's: not those inside strings, quoted identifiers
or comments) into pieces. A statement is the SHORTEST run of consecutive pieces, joined by their
semicolons, which the parser accepts as one statement (so the body of a CREATE TRIGGER statement is
found without any knowledge of its syntax here). A piece no run starting at which is accepted is
kept as it is, and the search goes on after it. Empty pieces between statements are skipped.
The parser is a PARAMETER: `accepts`. No token other than the semicolon has a meaning here.
(The code does not try the runs one by one: it lets the parser read one statement from the start of
the piece and looks where it stopped; the correspondence run compares the two.) -/

inductive Tok where
  | semi
  | word (id : Nat)      -- any other token; the number stands for its kind and spelling
deriving Repr, DecidableEq

/-- what lies between the semicolons (never the empty list: a text without semicolon is one piece) -/
def pieces : List Tok → List (List Tok)
  | [] => [[]]
  | .semi :: rest => [] :: pieces rest
  | .word i :: rest =>
    match pieces rest with
    | p :: ps => (.word i :: p) :: ps
    | [] => [[.word i]]

/-- pieces put together again, with the semicolons between them -/
def joinSemi : List (List Tok) → List Tok
  | [] => []
  | [p] => p
  | p :: q :: r => p ++ .semi :: joinSemi (q :: r)

/-- a part of the text after splitting -/
inductive Seg where
  | stmt (run : List (List Tok))   -- a statement, as the pieces it is made of
  | raw (p : List Tok)             -- a piece at which no accepted statement starts
deriving Repr, DecidableEq

def Seg.pieces : Seg → List (List Tok)
  | .stmt run => run
  | .raw p => [p]

def Seg.toks (s : Seg) : List Tok := joinSemi s.pieces

/-- the length of the shortest accepted run `done ++ first pieces of the list` (with at least one of
the latter), if there is one -/
def runLen (accepts : List Tok → Bool) (done : List (List Tok)) : List (List Tok) → Option Nat
  | [] => none
  | p :: rest =>
    if accepts (joinSemi (done ++ [p])) then some (done.length + 1)
    else runLen accepts (done ++ [p]) rest

def groupF (accepts : List Tok → Bool) : Nat → List (List Tok) → List Seg
  | 0, _ => []
  | _ + 1, [] => []
  | fuel + 1, p :: rest =>
    if p.isEmpty then groupF accepts fuel rest
    else
      match runLen accepts [] (p :: rest) with
      | some n => .stmt (p :: rest.take (n - 1)) :: groupF accepts fuel (rest.drop (n - 1))
      | none => .raw p :: groupF accepts fuel rest

/-- the pieces grouped into statements -/
def group (accepts : List Tok → Bool) (ps : List (List Tok)) : List Seg := groupF accepts ps.length ps

/-- `splitStatements`, on the token level -/
def splitToks (accepts : List Tok → Bool) (ts : List Tok) : List Seg := group accepts (pieces ts)

/-! ### line protocol
`rw <rwRand 0|1> <rwTime 0|1> <tree>` → `<modified 0|1> <returning 0|1> <tree>`
`filter <hex lowered text>` → `<containsTime> <containsRandom>`
`split <toks> <accepted>` → the parts, `|`-separated: `S:<toks>` a statement, `R:<toks>` a piece kept as it is; `-` none.
  `<toks>`: tokens separated by `.`, `s` the semicolon, a number any other token (same number = same kind and
  spelling), `-` no token; `<accepted>`: the token lists the parser accepts, `|`-separated, `-` none.
tree tokens (prefix): `C <hexname> <nargs> <nextra> kids…`, `L <kind> <hexval>`, `I <hexname>`,
`O <n> kids…`, `R <n> kids…`, `N <tag> <n> kids…`. `rand k` = 1000 + k, the clock reading prints as `0`. -/

structure DState where
  unit : Unit := ()

mutual
def parseNode : Nat → List String → Option (Node × List String)
  | 0, _ => none
  | fuel + 1, toks =>
    match toks with
    | "C" :: nm :: na :: ne :: rest => do
      let name ← tokString nm
      let na ← na.toNat?
      let ne ← ne.toNat?
      let (a, r1) ← parseNodes fuel na rest
      let (e, r2) ← parseNodes fuel ne r1
      pure (.call name a e, r2)
    | "L" :: k :: v :: rest => do
      let v ← tokString v
      pure (.lit k v, rest)
    | "I" :: nm :: rest => do
      let name ← tokString nm
      pure (.ident name, rest)
    | "O" :: n :: rest => do
      let n ← n.toNat?
      let (k, r) ← parseNodes fuel n rest
      pure (.ord k, r)
    | "R" :: n :: rest => do
      let n ← n.toNat?
      let (k, r) ← parseNodes fuel n rest
      pure (.ret k, r)
    | "N" :: tag :: n :: rest => do
      let n ← n.toNat?
      let (k, r) ← parseNodes fuel n rest
      pure (.other tag k, r)
    | _ => none
def parseNodes : Nat → Nat → List String → Option (Nodes × List String)
  | 0, _, _ => none
  | _ + 1, 0, toks => some (.nil, toks)
  | fuel + 1, n + 1, toks => do
    let (x, r1) ← parseNode fuel toks
    let (xs, r2) ← parseNodes fuel n r1
    pure (.cons x xs, r2)
end

mutual
def printNode : Node → List String
  | .call name a e => ["C", hexOfString name, toString a.length, toString e.length] ++ printNodes a ++ printNodes e
  | .lit k v => ["L", k, hexOfString v]
  | .ident n => ["I", hexOfString n]
  | .ord k => ["O", toString k.length] ++ printNodes k
  | .ret k => ["R", toString k.length] ++ printNodes k
  | .other t k => ["N", t, toString k.length] ++ printNodes k
def printNodes : Nodes → List String
  | .nil => []
  | .cons n ns => printNode n ++ printNodes ns
end

def driverCfg (r t : Bool) : Cfg := ⟨r, t, fun k => 1000 + (k : Int), "0"⟩

def step (d : DState) (line : String) : DState × String :=
  match words line with
  | "rw" :: r :: t :: toks =>
    match (if r == "1" then some true else if r == "0" then some false else none),
          (if t == "1" then some true else if t == "0" then some false else none),
          parseNode (toks.length + 1) toks with
    | some r, some t, some (n, []) =>
      let (n', st) := rewrite (driverCfg r t) n
      (d, " ".intercalate ([boolStr st.modified, boolStr st.returning] ++ printNode n'))
    | _, _, _ => (d, "bad-op")
  | ["split", ts, acc] =>
    let toTok (w : String) : Option Tok :=
      if w == "s" then some .semi else w.toNat?.map .word
    let toToks (l : String) : Option (List Tok) := if l == "-" then some [] else (l.splitOn ".").mapM toTok
    let tokStr : Tok → String
      | .semi => "s"
      | .word i => toString i
    let toksStr (l : List Tok) : String := if l.isEmpty then "-" else ".".intercalate (l.map tokStr)
    match toToks ts, (if acc == "-" then some [] else (acc.splitOn "|").mapM toToks) with
    | some toks, some accepted =>
      let segs := splitToks (fun l => accepted.contains l) toks
      (d, if segs.isEmpty then "-" else "|".intercalate (segs.map fun sg =>
        match sg with
        | .stmt _ => "S:" ++ toksStr sg.toks
        | .raw _ => "R:" ++ toksStr sg.toks))
    | _, _ => (d, "bad-op")
  | ["filter", h] =>
    match tokString h with
    | some s => (d, boolStr (containsTime s) ++ " " ++ boolStr (containsRandom s))
    | none => (d, "bad-op")
  | _ => (d, "bad-op")

def init : DState := {}

end RqModel.Rewrite
--! driver: rewrite RqModel.Rewrite

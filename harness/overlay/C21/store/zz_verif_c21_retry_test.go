package store

// C21 harness plumbing: writes against the live Store that survive a busy machine. A loaded
// machine can make raft lose and regain leadership or time out an enqueue; none of that is the
// property under test, so such errors are retried (for up to c21Patience). A write whose first
// attempt ended in such an error may or may not have been applied: every write of these
// workloads inserts an explicit primary key or creates a named object first, so a repeated
// attempt that fails with a duplicate/already-exists error means the first one was applied
// (and the transaction of the repeated attempt rolled back as a whole).

import (
	"context"
	"fmt"
	"strings"
	"time"
)

const c21Patience = 90 * time.Second

func c21Transient(msg string) bool {
	m := strings.ToLower(msg)
	for _, p := range []string{"not leader", "leadership lost", "leadership transfer", "timeout waiting for leader",
		"timed out enqueuing", "enqueue timeout", "timeout waiting for", "no leader", "leader not known", "raft is already shutdown"} {
		if strings.Contains(m, p) {
			return true
		}
	}
	return false
}

func c21Execute(s *Store, stmts []string, tx bool) error {
	deadline := time.Now().Add(c21Patience)
	ambiguous := false
	for {
		res, _, err := s.Execute(context.Background(), executeRequestFromStrings(stmts, false, tx))
		msg := ""
		if err != nil {
			msg = err.Error()
		} else {
			for _, r := range res {
				if e := r.GetError(); e != "" {
					msg = e
					break
				}
			}
		}
		if msg == "" {
			return nil
		}
		if ambiguous && (strings.Contains(msg, "UNIQUE constraint failed") || strings.Contains(msg, "already exists")) {
			return nil
		}
		if !c21Transient(msg) || time.Now().After(deadline) {
			return fmt.Errorf("%s", msg)
		}
		ambiguous = true
		time.Sleep(100 * time.Millisecond)
		s.WaitForLeader(30 * time.Second)
	}
}

package store

// C38: linearizable reads complete on a healthy leader without further writes.
//
// Live in-process clusters of 1-3 nodes run generated histories of writes, strong
// reads, joins (voter / non-voter), removals, stepdowns, barriers, snapshots and
// no-op commands. After EVERY operation a linearizable read is issued on the
// current leader with no intervening write:
//   * spec oracle: the read must not fail with ErrWaitForFSMTimeout;
//   * correspondence: every node's raft log (entry types read back from its log
//     store), commit index and FSM index are mirrored into the Lean model `linread`
//     (RqModel/Model/LinRead.lean) as append/trunc/commit/drain events, and the
//     model's FSM index and its verdict for the read (ok / upgrade / timeout) are
//     compared with the real node's.

import (
	"context"
	"errors"
	"fmt"
	"runtime"
	"strings"
	"testing"
	"time"

	"github.com/rqlite/rqlite/v10/command/proto"
	"github.com/rqlite/rqlite/v10/snapshot"
)

var c38Confirmed = map[string]bool{}

type c38Hist struct {
	t       *testing.T
	rep     *vfReport
	c       *clu8Cluster
	ops     []string // model op lines
	impl    []string // implementation's answers
	hist    []string // human-readable history (replay)
	known   map[string][]string // entry types from index base[node]
	base    map[string]uint64   // first index held (0 = nothing observed yet)
	rows    int
	aborted string
	linTO   time.Duration
}

// watch runs a call that has no timeout of its own (raft membership changes, leadership
// transfer) under a watchdog: if it does not return, the history is abandoned (noted, with
// a goroutine dump) instead of blocking the whole check.
func (h *c38Hist) watch(what string, f func() error) (error, bool) {
	ch := make(chan error, 1)
	go func() { ch <- f() }()
	select {
	case err := <-ch:
		return err, true
	case <-time.After(150 * time.Second):
		buf := make([]byte, 1<<20)
		n := runtime.Stack(buf, true)
		dump := string(buf[:n])
		if i := strings.Index(dump, "store.(*Store)."); i > 2000 {
			dump = dump[i-2000:]
		}
		if len(dump) > 12000 {
			dump = dump[:12000]
		}
		h.aborted = what + " did not return within 150s"
		h.rep.Note("C38: %s blocked; goroutines: %s", what, dump)
		return nil, false
	}
}

func (h *c38Hist) emit(op, out string) {
	h.ops = append(h.ops, op)
	h.impl = append(h.impl, out)
}

// sync mirrors every running node's log / commit index into the model and compares
// the FSM index the model derives with the node's.
func (h *c38Hist) sync() bool {
	leader := h.c.Leader(60 * time.Second)
	if leader == nil {
		h.aborted = "no leader"
		return false
	}
	if !clu8Quiesce(leader, 30*time.Second) {
		h.aborted = "leader did not quiesce"
		return false
	}
	lci := leader.S.raft.CommitIndex()
	for _, n := range h.c.Nodes {
		if !n.Up {
			continue
		}
		if n != leader {
			// a member follower learns the commit index with the next heartbeat
			inCfg := false
			if _, svs, err := clu8Servers(leader.S); err == nil {
				inCfg = Servers(svs).Contains(n.Name)
			}
			if !inCfg {
				continue
			}
			deadline := time.Now().Add(30 * time.Second)
			for n.S.raft.CommitIndex() < lci || n.S.raft.AppliedIndex() < lci {
				if time.Now().After(deadline) {
					h.aborted = "follower " + n.Name + " did not catch up"
					return false
				}
				time.Sleep(10 * time.Millisecond)
			}
			clu8Quiesce(n, 10*time.Second)
		}
		first, types, err := clu8LogTypes(n.S)
		if err != nil {
			h.aborted = "log read: " + err.Error()
			return false
		}
		if len(types) == 0 {
			continue
		}
		oldBase := h.base[n.Name]
		old := h.known[n.Name]
		switch {
		case oldBase == 0 && first > 1:
			// the node's log starts above 1: it received a snapshot (fsmRestore) up to first-1
			h.emit(fmt.Sprintf("%s restore %d", n.Name, first-1), "ok")
			h.rep.Count("model-event:restore")
			old = nil
		case oldBase != 0 && first > oldBase:
			if first > oldBase+uint64(len(old)) {
				// everything known is gone and there is a gap: a snapshot was installed
				h.emit(fmt.Sprintf("%s restore %d", n.Name, first-1), "ok")
				h.rep.Count("model-event:restore")
				old = nil
			} else {
				// entries below `first` were deleted after a snapshot of this node
				h.emit(fmt.Sprintf("%s compact %d", n.Name, first-1), "ok")
				h.rep.Count("model-event:compact")
				old = old[first-oldBase:]
			}
		case oldBase != 0 && first < oldBase:
			h.t.Fatalf("C38 harness: node %s first log index went backwards (%d -> %d)", n.Name, oldBase, first)
		}
		h.base[n.Name] = first
		common := 0
		for common < len(old) && common < len(types) && old[common] == types[common] {
			common++
		}
		if common < len(old) {
			h.emit(fmt.Sprintf("%s trunc %d", n.Name, first-1+uint64(common)), "ok")
			h.rep.Count("model-event:trunc")
		}
		for _, ty := range types[common:] {
			h.emit(fmt.Sprintf("%s append %s", n.Name, ty), "ok")
			h.rep.Count("log-entry:" + ty)
		}
		h.known[n.Name] = types
		ci := n.S.raft.CommitIndex()
		h.emit(fmt.Sprintf("%s commit %d", n.Name, ci), "ok")
		h.emit(fmt.Sprintf("%s drain", n.Name), "ok")
		// the FSM goroutine may still be inside Apply for the last entry: poll briefly
		want := uint64(0)
		for i, ty := range types {
			if idx := first + uint64(i); ty == "command" && idx <= ci {
				want = idx
			}
		}
		deadline := time.Now().Add(10 * time.Second)
		for n.S.fsmIdx.Load() < want && time.Now().Before(deadline) {
			time.Sleep(5 * time.Millisecond)
		}
		h.emit(fmt.Sprintf("%s fsmidx", n.Name), fmt.Sprintf("%d", n.S.fsmIdx.Load()))
	}
	return true
}

// linRead issues the checked linearizable read on the leader.
func (h *c38Hist) linRead(after string) {
	for attempt := 0; attempt < 5; attempt++ {
		if !h.sync() {
			return
		}
		leader := h.c.Leader(60 * time.Second)
		if leader == nil {
			h.aborted = "no leader"
			return
		}
		s := leader.S
		rt := s.raft.CurrentTerm()
		st := s.strongReadTerm.Load()
		ld := s.IsLeader()
		rd := s.Ready()
		ci := s.raft.CommitIndex()
		fi := s.fsmIdx.Load()
		types := h.known[leader.Name]
		lastTy := "none"
		if b := h.base[leader.Name]; b != 0 && ci >= b && int(ci-b) < len(types) {
			lastTy = types[ci-b]
		}
		start := time.Now()
		_, lvl, err := clu8Query(s, "SELECT COUNT(*) FROM c38", proto.ConsistencyLevel_LINEARIZABLE, h.linTO)
		el := time.Since(start)
		out := ""
		switch {
		case err == nil && lvl == proto.ConsistencyLevel_LINEARIZABLE:
			out = "ok"
		case err == nil && lvl == proto.ConsistencyLevel_STRONG:
			out = "upgrade"
		case errors.Is(err, ErrWaitForFSMTimeout):
			out = "timeout"
		default:
			// leadership moved under us (not a healthy-leader read): look again
			h.rep.Count("linread-retried:" + fmt.Sprint(err))
			time.Sleep(200 * time.Millisecond)
			continue
		}
		if !ld || !rd || s.raft.CurrentTerm() != rt {
			h.rep.Count("linread-retried:state-changed")
			continue
		}
		h.hist = append(h.hist, fmt.Sprintf("linread@%s -> %s (commit=%d fsm=%d last=%s, %s)", leader.Name, out, ci, fi, lastTy, el.Round(time.Millisecond)))
		h.emit(fmt.Sprintf("%s lin %d %d %v %v true %d", leader.Name, rt, st, ld, rd, rt), out)
		h.rep.Count("linread:" + out)
		h.rep.Count("linread-after:" + after)
		h.rep.Count("linread-with-last-committed-entry:" + lastTy)
		h.rep.Case(fmt.Sprintf("%s|%s|%d|%d", strings.Join(types, ","), after, ci, fi), lastTy != "command")
		if out == "timeout" && !c38Confirmed["linread-timeout:last-committed-entry="+lastTy] {
			// confirm once per signature with a much longer timeout, so that a stalled machine is not
			// mistaken for a read that cannot complete
			_, _, err2 := clu8Query(s, "SELECT COUNT(*) FROM c38", proto.ConsistencyLevel_LINEARIZABLE, 20*time.Second)
			if !errors.Is(err2, ErrWaitForFSMTimeout) {
				h.rep.Count("linread-timeout-not-confirmed")
				out = "unconfirmed"
			} else {
				c38Confirmed["linread-timeout:last-committed-entry="+lastTy] = true
			}
		}
		if out == "unconfirmed" {
			// drop the model line emitted above for this read: nothing can be said
			h.ops, h.impl = h.ops[:len(h.ops)-1], h.impl[:len(h.impl)-1]
			return
		}
		if out == "timeout" {
			h.rep.Fail("linread-timeout:last-committed-entry="+lastTy,
				fmt.Sprintf("healthy leader %s (term %d, strong read done in this term, quorum reachable): linearizable read issued right after `%s` with no further write failed after %s: %v (commit index %d, FSM index %d, log types %v)",
					leader.Name, rt, after, el.Round(time.Millisecond), err, ci, fi, types),
				map[string]interface{}{"history": append([]string(nil), h.hist...), "commit": ci, "fsm": fi, "log": types})
		}
		return
	}
	h.aborted = "linearizable read could not be issued on a stable leader"
}

func (h *c38Hist) members(leader *clu8Node) (voters, all []string) {
	_, svs, err := clu8Servers(leader.S)
	if err != nil {
		return
	}
	for _, sv := range svs {
		all = append(all, sv.ID)
		if sv.Suffrage != proto.Suffrage_NON_VOTER {
			voters = append(voters, sv.ID)
		}
	}
	return
}

func (h *c38Hist) node(name string) *clu8Node {
	for _, n := range h.c.Nodes {
		if n.Name == name {
			return n
		}
	}
	return nil
}

// do performs one generated operation; returns its label ("" = not applicable now).
// do performs one generated operation, asking again (after re-resolving the leader) when the
// only thing that went wrong is that leadership was moving.
func (h *c38Hist) do(kind string, r *vfRng, maxNodes int) string {
	for attempt := 0; ; attempt++ {
		label := h.doOnce(kind, r, maxNodes)
		if h.aborted == "" || attempt >= 4 || !clu8Transient(errors.New(h.aborted)) || kind == "join-voter" || kind == "join-nonvoter" {
			return label
		}
		h.rep.Count("op-retried:transient-leadership-error")
		h.aborted = ""
		time.Sleep(500 * time.Millisecond)
	}
}

func (h *c38Hist) doOnce(kind string, r *vfRng, maxNodes int) string {
	leader := h.c.Leader(90 * time.Second)
	if leader == nil {
		h.aborted = "no leader"
		return ""
	}
	voters, all := h.members(leader)
	switch kind {
	case "write":
		h.rows++
		if err := clu8Exec(leader.S, fmt.Sprintf("INSERT INTO c38(id) VALUES(%d)", h.rows)); err != nil {
			h.aborted = "write: " + err.Error()
		}
		return "write"
	case "strong":
		if _, _, err := clu8Query(leader.S, "SELECT COUNT(*) FROM c38", proto.ConsistencyLevel_STRONG, 0); err != nil {
			h.aborted = "strong read: " + err.Error()
		}
		return "strong"
	case "noopcmd":
		af, err := leader.S.Noop("c38")
		if err != nil || af.Error() != nil {
			h.aborted = fmt.Sprintf("noop: %v", err)
		}
		return "noopcmd"
	case "barrier":
		if err, done := h.watch("Barrier", leader.S.Barrier); done && err != nil {
			h.aborted = "barrier: " + err.Error()
		}
		return "barrier"
	case "snapshot":
		if err, done := h.watch("Snapshot(0)", func() error { return leader.S.Snapshot(0) }); done && err != nil {
			h.rep.Count("snapshot-declined")
		}
		return "snapshot"
	case "snapshot-compact":
		// a user-requested snapshot that leaves ONE trailing log entry: the log below it is deleted
		if err, done := h.watch("Snapshot(1)", func() error { return leader.S.Snapshot(1) }); done && err != nil {
			h.rep.Count("snapshot-declined")
		}
		return "snapshot-compact"
	case "restart":
		// the process of the (only voter / current) leader restarts: Store.Close + Store.Open on the same
		// directory and address. Open takes the fast path when a snapshot made at Close is there:
		// fsmIdx is set to the snapshot index and the ReadyTarget is reset WITHOUT being signalled.
		upVoters := 0
		for _, v := range voters {
			if n := h.node(v); n != nil && n.Up {
				upVoters++
			}
		}
		if upVoters == 2 {
			return "" // the other voter alone has no quorum while this one is away
		}
		// mirror everything that happened since the last read (an upgraded read appends a command of
		// its own) so that the model's view of this node is current when it restarts
		if !h.sync() {
			return ""
		}
		h.c.Stop(leader)
		if err := h.c.Restart(leader); err != nil {
			h.aborted = "restart: " + err.Error()
			return ""
		}
		li, _, err := snapshot.LatestIndexTerm(leader.S.snapshotDir)
		if err != nil {
			h.aborted = "snapshot index after restart: " + err.Error()
			return ""
		}
		h.emit(fmt.Sprintf("%s reopen %d", leader.Name, li), "ok")
		h.rep.Count("model-event:reopen")
		if leader.S.numSnapshotsSkipped.Load() == 0 {
			// not the fast path: raft restored the snapshot through fsmRestore
			h.emit(fmt.Sprintf("%s restore %d", leader.Name, li), "ok")
			h.rep.Count("model-event:restore-at-open")
		} else {
			h.rep.Count("restart:fast-path")
		}
		if h.c.Leader(60*time.Second) == nil {
			h.aborted = "no leader after restart"
		}
		return "restart"
	case "join-voter", "join-nonvoter":
		up := 0
		for _, n := range h.c.Nodes {
			if n.Up {
				up++
			}
		}
		if up >= maxNodes {
			return ""
		}
		n, err := h.c.NewNode()
		if err != nil {
			h.aborted = "new node: " + err.Error()
			return ""
		}
		if err, done := h.watch("Join", func() error { return clu8JoinRetry(h.c, n, kind == "join-voter", 90*time.Second) }); !done {
			return ""
		} else if err != nil {
			h.aborted = "join: " + err.Error()
			return ""
		}
		if _, err := n.S.WaitForLeader(60 * time.Second); err != nil {
			h.aborted = "joined node sees no leader"
		}
		return kind
	case "rejoin-same":
		var cand []string
		for _, id := range all {
			if id != leader.Name {
				cand = append(cand, id)
			}
		}
		if len(cand) == 0 {
			return ""
		}
		id := r.Pick(cand)
		n := h.node(id)
		isVoter := false
		for _, v := range voters {
			if v == id {
				isVoter = true
			}
		}
		if err, done := h.watch("Join(same)", func() error { return leader.S.Join(joinRequest(n.Name, n.Addr, isVoter)) }); done && err != nil {
			h.aborted = "rejoin: " + err.Error()
		}
		return "rejoin-same"
	case "remove":
		var cand []string
		for _, id := range all {
			if id != leader.Name {
				cand = append(cand, id)
			}
		}
		if len(cand) == 0 {
			return ""
		}
		id := r.Pick(cand)
		if err, done := h.watch("Remove", func() error { return leader.S.Remove(context.Background(), removeNodeRequest(id)) }); !done {
			return ""
		} else if err != nil {
			h.aborted = "remove: " + err.Error()
			return ""
		}
		h.c.Stop(h.node(id))
		return "remove"
	case "stepdown":
		upVoters := 0
		for _, v := range voters {
			if n := h.node(v); n != nil && n.Up {
				upVoters++
			}
		}
		if upVoters < 2 {
			return ""
		}
		if err, done := h.watch("Stepdown", func() error { return leader.S.Stepdown(true, "") }); !done {
			return ""
		} else if err != nil {
			h.rep.Count("stepdown-declined")
			return ""
		}
		deadline := time.Now().Add(60 * time.Second)
		for time.Now().Before(deadline) {
			if l := h.c.Leader(time.Second); l != nil && l != leader {
				break
			}
			time.Sleep(20 * time.Millisecond)
		}
		return "stepdown"
	}
	return ""
}

var c38Kinds = []struct {
	k string
	w int
}{{"write", 18}, {"strong", 8}, {"noopcmd", 5}, {"barrier", 10}, {"snapshot", 4}, {"snapshot-compact", 8}, {"restart", 7}, {"join-voter", 14},
	{"join-nonvoter", 8}, {"rejoin-same", 5}, {"remove", 12}, {"stepdown", 14}}

func c38Pick(r *vfRng) string {
	tot := 0
	for _, k := range c38Kinds {
		tot += k.w
	}
	x := r.Intn(tot)
	for _, k := range c38Kinds {
		if x < k.w {
			return k.k
		}
		x -= k.w
	}
	return "write"
}

func c38RunHistory(t *testing.T, rep *vfReport, r *vfRng, nOps, maxNodes int, script []string) (ops, impl []string, completed bool) {
	c := clu8NewCluster(t)
	defer c.Close()
	h := &c38Hist{t: t, rep: rep, c: c, known: map[string][]string{}, base: map[string]uint64{}, linTO: 5 * time.Second}
	h.emit("reset", "ok")
	n0, err := c.NewNode()
	if err != nil {
		clu8Skip("C38 harness: cannot open node: %v", err)
	}
	if err := c.Bootstrap(n0); err != nil {
		clu8Skip("C38 harness: bootstrap: %v", err)
	}
	if err := clu8Exec(n0.S, "CREATE TABLE c38 (id INTEGER NOT NULL PRIMARY KEY)"); err != nil {
		clu8Skip("C38 harness: create table: %v", err)
	}
	h.hist = append(h.hist, "bootstrap n0; create table")
	// first linearizable read in the term is upgraded to strong; the second is a real one
	h.linRead("bootstrap")
	h.linRead("upgraded-read")
	for i := 0; i < nOps && h.aborted == ""; i++ {
		kind := ""
		if script != nil {
			if i >= len(script) {
				break
			}
			kind = script[i]
		} else {
			kind = c38Pick(r)
		}
		label := h.do(kind, r, maxNodes)
		if label == "" || h.aborted != "" {
			continue
		}
		h.hist = append(h.hist, label)
		rep.Count("op:" + label)
		h.linRead(label)
		if h.aborted == "" && r.Chance(25) {
			h.linRead(label + "+linread")
		}
	}
	if h.aborted != "" {
		rep.Note("history aborted (%s) after %v", h.aborted, h.hist)
		rep.Count("histories-aborted")
		return h.ops, h.impl, false
	}
	rep.Sample(map[string]interface{}{"history": h.hist})
	return h.ops, h.impl, true
}

// c38ConcurrentWaiters: two linearizable reads wait on the SAME index with different
// timeouts while a slow write is being applied. The impatient one (300 ms) gives up; the
// patient one (30 s) must still complete as soon as the FSM has applied the write — a waiter
// that goes away must not take another caller's subscription with it (subscriptions of
// rsync.ReadyTarget are per caller). The property's quantifier is about sequential
// histories; this adds the one concurrent schedule in which waiters interact.
func c38ConcurrentWaiters(t *testing.T, rep *vfReport) {
	c := clu8NewCluster(t)
	defer c.Close()
	n0, err := c.NewNode()
	if err != nil {
		clu8Skip("C38 harness: %v", err)
	}
	if err := c.Bootstrap(n0); err != nil {
		clu8Skip("C38 harness: %v", err)
	}
	s := n0.S
	if err := clu8Exec(s, "CREATE TABLE c38s (x INTEGER)"); err != nil {
		clu8Skip("C38 harness: %v", err)
	}
	// the first linearizable read of the term is upgraded to a strong read
	for i := 0; i < 2; i++ {
		if _, _, err := clu8Query(s, "SELECT COUNT(*) FROM c38s", proto.ConsistencyLevel_LINEARIZABLE, 10*time.Second); err != nil {
			rep.Note("concurrent waiters: warm-up read failed: %v", err)
			return
		}
	}
	size := 4000000
	for attempt := 0; attempt < 4; attempt++ {
		slow := fmt.Sprintf("INSERT INTO c38s(x) SELECT count(*) FROM (WITH RECURSIVE c(x) AS (SELECT 1 UNION ALL SELECT x+1 FROM c WHERE x < %d) SELECT x FROM c)", size)
		wdone := make(chan error, 1)
		go func() { wdone <- clu8Exec(s, slow) }()
		// wait until the write is committed but still being applied
		inflight := false
		deadline := time.Now().Add(20 * time.Second)
		for time.Now().Before(deadline) {
			if s.raft.CommitIndex() > s.fsmIdx.Load() {
				inflight = true
				break
			}
			select {
			case err := <-wdone:
				wdone <- err
				deadline = time.Now()
			default:
				time.Sleep(time.Millisecond)
			}
		}
		type res struct {
			who string
			err error
			el  time.Duration
		}
		ch := make(chan res, 2)
		read := func(who string, to time.Duration) {
			t0 := time.Now()
			_, _, err := clu8Query(s, "SELECT COUNT(*) FROM c38s", proto.ConsistencyLevel_LINEARIZABLE, to)
			ch <- res{who, err, time.Since(t0)}
		}
		if inflight {
			go read("patient", 30*time.Second)
			go read("impatient", 300*time.Millisecond)
		}
		werr := <-wdone
		wEnd := time.Now()
		if werr != nil {
			rep.Note("concurrent waiters: slow write failed: %v", werr)
			return
		}
		if !inflight {
			size *= 2
			continue
		}
		var patient, impatient res
		for i := 0; i < 2; i++ {
			r := <-ch
			if r.who == "patient" {
				patient = r
			} else {
				impatient = r
			}
		}
		imp := "ok"
		if impatient.err != nil {
			imp = "gave-up"
		}
		rep.Count("concurrent-waiters:impatient-" + imp)
		rep.Case(fmt.Sprintf("concurrent-waiters|impatient=%s|size=%d", imp, size), imp == "gave-up")
		rep.Sample(map[string]interface{}{"scenario": "concurrent-waiters", "slow_write_rows": size, "impatient_reader": fmt.Sprintf("%v after %s", impatient.err, impatient.el.Round(time.Millisecond)),
			"patient_reader": fmt.Sprintf("%v after %s", patient.err, patient.el.Round(time.Millisecond)), "patient_done_after_write_end": time.Since(wEnd).Round(time.Millisecond).String()})
		if patient.err != nil && !errors.Is(patient.err, ErrWaitForFSMTimeout) {
			clu8Skip("concurrent waiters: the patient reader failed for another reason: %v", patient.err)
		}
		if patient.err != nil {
			rep.Fail("concurrent-linread-starved-by-other-waiters-timeout",
				fmt.Sprintf("a slow write (index = commit index) was being applied; reader A (timeout 300 ms) and reader B (timeout 30 s) both waited for it; A gave up (%v), the write finished, and B — on a healthy leader, its index applied — still failed after %s: %v",
					impatient.err, patient.el.Round(time.Millisecond), patient.err),
				map[string]interface{}{"schedule": []string{"strong read", "slow write starts (committed, FSM busy)", "linearizable read B, timeout 30s", "linearizable read A, timeout 300ms", "A times out", "write applied", "B ?"}})
		}
		if imp == "gave-up" {
			return
		}
		size *= 2 // the write was too quick for the impatient reader to give up: make it slower
	}
	rep.Note("concurrent waiters: could not get a write slow enough for the impatient reader to time out")
}

func TestVerifC38(t *testing.T) {
	rep := vfNewReport("C38", "live 1-3 node clusters; generated histories of write/strong read/no-op command/barrier/snapshot/join voter/join non-voter/re-join/remove/stepdown, a linearizable read (timeout 5 s) on the leader after every operation with no intervening write; a case is non-trivial when the latest committed log entry at the time of the read is not a command entry; distinct by (log types, preceding op, commit index, FSM index)")
	defer rep.Write()
	r := vfNewRng(38)
	var segOps, segImpl [][]string
	completed := 0
	// directed histories first: the membership-change, barrier and leader-change cases of the statement
	directed := [][]string{
		{"join-voter", "barrier", "join-voter", "stepdown", "remove", "barrier"},
		{"strong", "join-nonvoter", "snapshot", "barrier", "remove", "rejoin-same"},
		// compaction of a non-command tail (the ErrLogNotFound branch of fsmWaitIndex), then a node that can
		// only catch up by snapshot install, then leadership moves to it
		{"write", "barrier", "join-nonvoter", "snapshot-compact", "barrier", "snapshot-compact", "join-voter", "stepdown", "barrier", "snapshot-compact"},
		// a restart (fast path) between a strong read and linearizable reads, with and without a
		// non-command tail, and no write afterwards
		{"strong", "restart", "barrier", "restart", "join-nonvoter", "restart", "snapshot-compact", "restart"},
	}
	// every history runs under a watchdog: a raft call that never returns abandons that
	// history (noted with a goroutine dump) instead of blocking the check
	guarded := func(nOps int, script []string) {
		var ops, impl []string
		ok := false
		if !clu8Case(rep, "history", 10*time.Minute, func() { ops, impl, ok = c38RunHistory(t, rep, r, nOps, 3, script) }) {
			return
		}
		if ok {
			completed++
		} else {
			rep.Count("cases-abandoned") // aborted inside: the cluster could not be kept in the needed state
		}
		segOps, segImpl = append(segOps, ops), append(segImpl, impl)
	}
	for _, sc := range directed {
		guarded(len(sc), sc)
	}
	hists := vfScale(2, 30)
	nOps := vfScale(10, 24)
	for i := 0; i < hists; i++ {
		t0 := time.Now()
		guarded(nOps, nil)
		t.Logf("C38 history %d/%d done in %s", i+1, hists, time.Since(t0).Round(time.Second))
	}
	clu8Case(rep, "concurrent-waiters", 10*time.Minute, func() { c38ConcurrentWaiters(t, rep) })
	rep.CountN("histories-completed", completed)
	clu8Floor(t, rep)
	if completed == 0 {
		t.Fatalf("C38 harness: no history completed")
	}
	rep.vfCompareSegments("linread", segOps, segImpl)
}

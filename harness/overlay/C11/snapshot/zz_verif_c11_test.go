package snapshot

// C11 correspondence + spec oracle on the REAL snapshot Store, LockingStreamer and
// MultiRSW vs. the Lean model `streamer` (RqModel/Model/Streamer.lean).
//
//  A. sequential op sequences (open with/without idle timeout, reads, Close, repeated
//     Close, idle callback invoked directly with the stream's last-read time moved so
//     that it is / is not expired, short readers, Reap, held write lock), diffed
//     exactly (outcome classes and lock counters only).
//  B. randomized multi-goroutine runs: readers open the newest snapshot, read a
//     reference copy, then read slowly (some stall past a 4 ms idle timeout), close
//     once, twice or from two goroutines at once; a reaper adds incremental snapshots
//     and reaps (try-lock and the blocking reapLoop). Judged by the property: bytes read
//     equal the snapshot content (or a prefix, if force-closed); a reap never completes
//     while a stream is open (sampled inside the reap's critical section through the
//     observer filter callback); the reader count returns to zero; no panic.

import (
	"runtime"
	"hash/fnv"
	"bytes"
	"errors"
	"fmt"
	"io"
	"log"
	"os"
	"path/filepath"
	"reflect"
	"strings"
	"sync"
	"sync/atomic"
	"testing"
	"time"
)

const c11Hour = int64(time.Hour)

// c11Lock reads MultiRSW's unexported counters (package rsync) by reflection; reading
// unexported fields through reflect is permitted, and nothing is written.
func c11Lock(s *Store) (numReaders int, owner string) {
	v := reflect.ValueOf(s.mrsw).Elem()
	return int(v.FieldByName("numReaders").Int()), v.FieldByName("owner").String()
}

func c11NR(s *Store) int { n, _ := c11Lock(s); return n }
func c11Owner(s *Store) string { _, o := c11Lock(s); return o }

func c11NewStore(t *testing.T) *Store {
	dir := t.TempDir()
	s, err := NewStore(dir)
	if err != nil {
		t.Fatalf("new store: %v", err)
	}
	s.fatalFn = nil
	s.logger = log.New(io.Discard, "", 0)
	s.SetReapThreshold(1000)
	createSnapshotInStore(t, s, "2-1017-1704807719996", 1017, 2, 1, "testdata/db-and-wals/backup.db")
	createSnapshotInStore(t, s, "2-1131-1704807720976", 1131, 2, 1, "", "testdata/db-and-wals/wal-00")
	return s
}

// c11AddIncremental creates an incremental snapshot through the real Store.Create, so that
// Sink.Close signals the reaper goroutine (reapLoop -> BeginWriteBlocking).
func c11AddIncremental(t *testing.T, s *Store, index uint64, wal string) error {
	sink, err := s.Create(1, index, 2, makeTestConfiguration("1", "localhost:1"), 1, nil)
	if err != nil {
		return err
	}
	walDir := filepath.Join(t.TempDir(), "wal-dir")
	if err := os.Mkdir(walDir, 0755); err != nil {
		return err
	}
	name := fmt.Sprintf("%020d.wal", 1)
	mustCopyFile(t, wal, filepath.Join(walDir, name))
	mustWriteCRC32File(t, filepath.Join(walDir, name))
	streamer, err := NewSnapshotPathStreamer(walDir)
	if err != nil {
		sink.Cancel()
		return err
	}
	defer streamer.Close()
	if _, err = io.Copy(sink, streamer); err != nil {
		sink.Cancel()
		return err
	}
	return sink.Close()
}

func c11Newest(s *Store) string {
	ss, err := s.getSnapshots()
	if err != nil || ss.Len() == 0 {
		return ""
	}
	metas := ss.RaftMetas()
	if len(metas) == 0 {
		return ""
	}
	newest := metas[0]
	for _, m := range metas {
		if m.Index > newest.Index {
			newest = m
		}
	}
	return newest.ID
}

func c11State(s *Store, streams []*LockingStreamer) string {
	// safe: nobody else is running in part A
	open := 0
	for _, l := range streams {
		if !l.closed.Is() {
			open++
		}
	}
	held := 0
	nr, owner := c11Lock(s)
	if owner != "" {
		held = 1
	}
	return fmt.Sprintf("%d %d %d", nr, held, open)
}

var c11LastOps []string // ops of the sequence in progress (for the replay of a panic)

func c11SeqA(t *testing.T, rep *vfReport, r *vfRng, n int) (ops, out []string) {
	s := c11NewStore(t)
	defer s.Close()
	ops = append(ops, "reset")
	out = append(out, "ok")
	emit := func(op, res string) {
		ops = append(ops, op)
		out = append(out, res)
		c11LastOps = ops
	}
	replay := func() map[string]interface{} { return map[string]interface{}{"ops": append([]string(nil), ops...)} }
	var streams []*LockingStreamer
	var clk int64 = 1
	aux, hold := 0, false
	for i := 0; i < n; i++ {
		clk += 10
		switch k := r.Intn(17); {
		case k == 16: // Open of an id that does not exist: must fail and must give the read lock back
			before := c11NR(s)
			_, rc, err := s.Open("9-9999-1700000000000")
			switch {
			case err == nil:
				rc.Close()
				t.Fatalf("open of a non-existent snapshot succeeded")
			case strings.Contains(err.Error(), "acquiring read lock"):
				emit("openfail", "conflict")
			default:
				emit("openfail", "error")
			}
			if after := c11NR(s); after != before {
				rep.Fail("failed-open-keeps-read-lock", fmt.Sprintf("reader count %d -> %d across a failed Open (%v)", before, after, err), replay())
			}
		case k < 3: // open
			timeout := int64(0)
			if r.Chance(60) {
				timeout = c11Hour
			}
			s.SetReadTimeout(time.Duration(timeout))
			id := c11Newest(s)
			_, rc, err := s.Open(id)
			if err != nil {
				var ce *ErrMRSWConflictT
				_ = ce
				if strings.Contains(err.Error(), "acquiring read lock") {
					emit(fmt.Sprintf("open %d %d", timeout, clk), "conflict")
					if !hold {
						rep.Fail("open-refused-without-reaper", err.Error(), replay())
					}
				} else {
					t.Fatalf("open %s: %v", id, err)
				}
				break
			}
			if hold {
				rep.Fail("stream-opened-while-reaper-holds-lock", "Open succeeded while the write lock was held", replay())
			}
			l := rc.(*LockingStreamer)
			emit(fmt.Sprintf("open %d %d", timeout, clk), fmt.Sprintf("ok %d", len(streams)))
			streams = append(streams, l)
		case k < 6: // close (possibly again)
			if len(streams) == 0 {
				break
			}
			j := r.Intn(len(streams))
			before := c11NR(s)
			c11LastOps = append(append([]string(nil), ops...), fmt.Sprintf("close %d   <- panicked here", j))
			wasClosed := streams[j].closed.Is()
			if err := streams[j].Close(); err != nil {
				sig := "close-returned-error"
				if wasClosed {
					sig = "repeated-close-not-idempotent"
				}
				rep.Fail(sig, fmt.Sprintf("Close on stream %d (already closed: %v) returned %v", j, wasClosed, err), replay())
			}
			res := "noop"
			if c11NR(s) == before-1 {
				res = "released"
			} else if c11NR(s) != before {
				res = fmt.Sprintf("readers %d->%d", before, c11NR(s))
			}
			emit(fmt.Sprintf("close %d", j), res)
		case k < 9: // idle callback
			if len(streams) == 0 {
				break
			}
			j := r.Intn(len(streams))
			l := streams[j]
			if l.timeout == 0 {
				break // no timer exists for this stream; checkIdle is never invoked
			}
			expired := r.Chance(40)
			wasClosed := l.closed.Is()
			before := c11NR(s)
			var mnow int64
			if expired {
				// as if the last read happened more than the timeout ago
				l.lastRead.Store(time.Now().Add(-l.timeout - time.Minute).UnixNano())
				emit(fmt.Sprintf("read %d %d 1", j, clk), c11ReadClass(l.timedOut.Is()))
				mnow = clk + c11Hour + 5
			} else {
				l.lastRead.Store(time.Now().UnixNano())
				emit(fmt.Sprintf("read %d %d 1", j, clk), c11ReadClass(l.timedOut.Is()))
				mnow = clk + 7
			}
			c11LastOps = append(append([]string(nil), ops...), fmt.Sprintf("idle %d %d   <- panicked here", j, mnow))
			l.checkIdle()
			res := "noop"
			switch {
			case wasClosed:
			case l.closed.Is() && l.timedOut.Is() && c11NR(s) == before-1:
				res = "forced"
			case !l.closed.Is() && c11NR(s) == before:
				res = "rearmed"
			default:
				res = fmt.Sprintf("closed=%v timedOut=%v readers %d->%d", l.closed.Is(), l.timedOut.Is(), before, c11NR(s))
			}
			emit(fmt.Sprintf("idle %d %d", j, mnow), res)
			if expired {
				clk = mnow
			}
		case k < 11: // read
			if len(streams) == 0 {
				break
			}
			j := r.Intn(len(streams))
			buf := make([]byte, 1+r.Intn(64))
			nr, err := streams[j].Read(buf)
			res := "ok"
			if errors.Is(err, ErrSnapshotReaderTimeout) {
				res = "timeout-error"
				if nr != 0 {
					rep.Fail("read-returned-data-after-timeout", fmt.Sprint(nr), replay())
				}
			}
			emit(fmt.Sprintf("read %d %d %d", j, clk, nr), res)
		case k < 12:
			if !hold && r.Bool() { // what EnsureVerify/Verify do; only when it cannot block
				s.mrsw.BeginReadBlocking()
				aux++
				emit("auxb+", "ok")
				break
			}
			if err := s.mrsw.BeginRead(); err != nil {
				emit("aux+", "conflict")
			} else {
				aux++
				emit("aux+", "ok")
			}
		case k < 13:
			if aux > 0 {
				s.mrsw.EndRead()
				aux--
				emit("aux-", "ok")
			}
		case k < 14: // Store.Reap: try-lock, reap, unlock
			open := 0
			for _, l := range streams {
				if !l.closed.Is() {
					open++
				}
			}
			_, _, err := s.Reap()
			if err != nil {
				if _, isConflict := err.(interface{ Error() string }); isConflict && strings.Contains(err.Error(), "MSRW conflict") {
					emit("reap", "conflict")
					if open == 0 && aux == 0 && !hold {
						rep.Fail("reap-refused-without-holders", err.Error(), replay())
					}
				} else {
					t.Fatalf("reap: %v", err)
				}
			} else {
				emit("reap", "ok")
				emit("reapend", "ok")
				if open > 0 {
					rep.Fail("reap-ran-while-stream-open", fmt.Sprintf("Reap succeeded with %d open streams", open), replay())
				}
			}
		case k < 15: // a reaper holding the write lock
			if !hold {
				if err := s.mrsw.BeginWrite("reap"); err != nil {
					emit("reap", "conflict")
				} else {
					hold = true
					emit("reap", "ok")
				}
			} else {
				s.mrsw.EndWrite()
				hold = false
				emit("reapend", "ok")
			}
		default:
			emit("state", c11State(s, streams))
		}
	}
	emit("state", c11State(s, streams))
	// clean up so that Store.Close does not wait on anything
	if hold {
		s.mrsw.EndWrite()
	}
	for _, l := range streams {
		l.Close()
	}
	for ; aux > 0; aux-- {
		s.mrsw.EndRead()
	}
	if c11NR(s) != 0 {
		rep.Fail("reader-count-not-zero-after-all-closed", fmt.Sprint(c11NR(s)), replay())
	}
	return
}

// ErrMRSWConflictT only documents what the conflict error is; matching is by message.
type ErrMRSWConflictT struct{}

func c11ReadClass(timedOut bool) string {
	if timedOut {
		return "timeout-error"
	}
	return "ok"
}

// c11FailRC is an underlying stream whose Read fails.
type c11FailRC struct{}

func (c *c11FailRC) Read(p []byte) (int, error) { return 0, errors.New("verif: injected read error") }
func (c *c11FailRC) Close() error               { return nil }

// c11SlowRC is an underlying stream whose Close blocks until released: it holds the window
// between "decided to close" and "closed" open, so that the other closing path arrives
// inside it (fault-injecting ReadCloser; no hook in the code under test).
type c11SlowRC struct {
	entered chan struct{} // one token per Close call that has started
	release chan struct{} // closed to let Close calls finish
	closes  atomic.Int64
}

func (c *c11SlowRC) Read(p []byte) (int, error) { return 0, io.EOF }
func (c *c11SlowRC) Close() error {
	c.closes.Add(1)
	c.entered <- struct{}{}
	<-c.release
	return nil
}

// c11Overlap: one closing path (idle callback or consumer Close) is inside the underlying
// Close when the other one arrives. Exactly one release must result.
func c11Overlap(t *testing.T, rep *vfReport, timerFirst bool) (ops, out []string) {
	s := c11NewStore(t)
	defer s.Close()
	ops = []string{"reset", "aux+", "open 3600000000000 1"}
	out = []string{"ok", "ok", "ok 0"}
	if err := s.mrsw.BeginRead(); err != nil { // another reader, so that a double release is visible in the count instead of a panic
		t.Fatalf("aux reader: %v", err)
	}
	if err := s.mrsw.BeginRead(); err != nil { // what Store.Open does before it builds the streamer
		t.Fatalf("stream reader: %v", err)
	}
	rc := &c11SlowRC{entered: make(chan struct{}, 8), release: make(chan struct{})}
	l := NewLockingStreamer(rc, s, time.Hour)
	first, second := make(chan struct{}), make(chan struct{})
	run := func(idle bool, done chan struct{}) {
		defer close(done)
		if idle {
			l.lastRead.Store(time.Now().Add(-2 * time.Hour).UnixNano()) // idle for longer than the timeout
			l.checkIdle()
		} else {
			l.Close()
		}
	}
	go run(timerFirst, first)
	select {
	case <-rc.entered: // the first path is now inside the underlying Close
	case <-time.After(20 * time.Second):
		t.Fatalf("first closing path never reached the underlying Close")
	}
	go run(!timerFirst, second)
	// give the second path time to either block (correct) or run through to the underlying Close (wrong)
	select {
	case <-rc.entered:
	case <-time.After(30 * time.Millisecond):
	}
	close(rc.release)
	<-first
	<-second
	nr := c11NR(s)
	replay := map[string]interface{}{"idle_callback_first": timerFirst, "underlying_close_calls": rc.closes.Load(), "reader_count_after": nr, "reader_count_expected": 1}
	if rc.closes.Load() != 1 {
		rep.Fail("stream-underlying-closed-twice", fmt.Sprintf("Close and the idle callback overlapped (idle callback first: %v): the underlying stream was closed %d times", timerFirst, rc.closes.Load()), replay)
	}
	if nr != 1 {
		rep.Fail("stream-released-its-hold-twice", fmt.Sprintf("Close and the idle callback overlapped (idle callback first: %v): reader count is %d with one other reader still inside (expected 1)", timerFirst, nr), replay)
	}
	a, b := "idle 0 7300000000000", "close 0"
	ra, rb := "forced", "noop"
	if !timerFirst {
		a, b = "close 0", "idle 0 7300000000000"
		ra, rb = "released", "noop"
	}
	ops = append(ops, "read 0 2 1", a, b, "state")
	out = append(out, "ok", ra, rb, fmt.Sprintf("%d 0 0", nr))
	if nr >= 1 {
		s.mrsw.EndRead()
	}
	return
}

func TestVerifC11(t *testing.T) {
	rep := vfNewReport("C11", "A: sequential op sequences (30-120 ops) on a real snapshot store with a full and an incremental snapshot: open (idle timeout 0 or 1 h), read, Close, repeated Close, idle callback with expired / fresh last-read time, short readers, failing Open, Store.Reap, held write lock; non-trivial when a forced close, a repeated Close and a refused Reap all occurred; B: 3-6 reader goroutines x 4-10 streams each (4 ms idle timeout, stalls, double and concurrent Close) against a reaper adding 3 incrementals and reaping through Reap() and the blocking reapLoop; C: real 25-55 ms idle timers; the consumer reads once / reads to EOF / gets a read error, then stalls without Close")
	// if the process dies (e.g. the \"reader count went negative\" panic in a timer goroutine) this report stays
	// checkpoint: what has been found so far plus the crash marker is on disk at all times; the
	// final Write (deferred) replaces it with the report without the marker
	checkpoint := func() {
		n := len(rep.OracleFailures)
		rep.OracleFailures = append(rep.OracleFailures, vfOracleFailure{"process-crashed-during-run", "the test process ended before the run finished (panic in a non-test goroutine, e.g. MultiRSW's \"reader count went negative\" out of a double release?)", nil})
		rep.Write()
		rep.OracleFailures = rep.OracleFailures[:n]
	}
	checkpoint()
	defer rep.Write()
	defer func() {
		// a panic on the test goroutine (e.g. MultiRSW's "reader count went negative" out of a
		// second release) is a property failure, not a harness failure
		if p := recover(); p != nil {
			rep.Fail("panic:"+fmt.Sprint(p), fmt.Sprintf("the snapshot store panicked: %v", p), map[string]interface{}{"ops": c11LastOps})
			t.Errorf("panic: %v", p)
		}
	}()
	r := vfNewRng(11)
	var allOps, allImpl [][]string
	nA := vfScale(70, 7000)
	for i := 0; i < nA; i++ {
		ops, out := c11SeqA(t, rep, r, 30+r.Intn(vfScale(91, 200)))
		allOps = append(allOps, ops)
		allImpl = append(allImpl, out)
		j := strings.Join(out, " ")
		if len(allOps) >= 2000 { // compare in chunks (memory, thorough tier)
			rep.vfCompareSegments("streamer", allOps, allImpl)
			allOps, allImpl = nil, nil
		}
		rep.Case(c11Key(ops), strings.Contains(j, "forced") && strings.Contains(j, "noop") && strings.Contains(j, "conflict"))
		for _, k := range []string{"forced", "rearmed", "released", "noop", "conflict", "timeout-error"} {
			rep.CountN("A:"+k, strings.Count(j, k))
		}
		if i == 0 {
			rep.Sample(map[string]interface{}{"part": "A", "ops": vfTrunc(ops), "impl": vfTrunc(out)})
		}
	}

	// ---- overlap of the two closing paths (slow underlying Close) ----------------------
	for i := 0; i < vfScale(4, 40); i++ {
		ops, out := c11Overlap(t, rep, i%2 == 0)
		allOps = append(allOps, ops)
		allImpl = append(allImpl, out)
		rep.Case(fmt.Sprintf("overlap:%d", i%2), i < 2)
		rep.Count("overlapping-close-and-idle-callback")
	}

	// ---- B -------------------------------------------------------------------------
	nB := vfScale(6, 400)
	for run := 0; run < nB; run++ {
		checkpoint()
		s := c11NewStore(t)
		s.SetReadTimeout(4 * time.Millisecond)
		s.SetReapThreshold(2)
		// every stream handed out by Open; the observer callback (which runs inside reap(),
		// i.e. under the write lock) looks for one whose `closed` flag is still false. Both
		// Close and the idle callback set that flag before they release the read lock, so a
		// stream found open here really holds the read lock: no timing assumption involved.
		var registry sync.Map
		var reapWithOpen, reaps, explicitReaps atomic.Int64
		obsCh := make(chan ReapObservation, 1024)
		obs := NewObserver(obsCh, func(o *ReapObservation) bool {
			// called inside reap(), while the write lock is still held
			reaps.Add(1)
			registry.Range(func(k, _ interface{}) bool {
				if !k.(*LockingStreamer).closed.Is() {
					reapWithOpen.Add(1)
				}
				return true
			})
			return false
		})
		s.RegisterObserver(obs)
		replay := map[string]interface{}{"run": run, "seed": vfSeed()}
		var wg sync.WaitGroup
		var badBytes, badErr, forced, full atomic.Int64
		var firstBad atomic.Value
		nReaders := 3 + r.Intn(4)
		for g := 0; g < nReaders; g++ {
			seed := r.U64()
			per := 4 + r.Intn(7)
			wg.Add(1)
			go func(g int) {
				defer wg.Done()
				pr := &vfRng{s: seed}
				for k := 0; k < per; k++ {
					if pr.Chance(50) {
						time.Sleep(time.Duration(pr.Intn(2500)) * time.Microsecond)
					}
					metas, err := s.List()
					if err != nil || len(metas) == 0 {
						time.Sleep(200 * time.Microsecond)
						continue
					}
					_, rc, err := s.Open(metas[0].ID)
					if err != nil {
						time.Sleep(200 * time.Microsecond) // reaper active, or the id was just consolidated away
						continue
					}
					registry.Store(rc.(*LockingStreamer), true)
					release := func() {}
					// reference copy, read at once while our own read lock excludes the reaper
					var want []byte
					if _, rc2, err2 := s.Open(metas[0].ID); err2 == nil {
						var rerr error
						want, rerr = io.ReadAll(rc2)
						rc2.Close()
						if rerr != nil {
							want = nil // the reference stream itself was force-closed (slow machine): nothing to compare with
						}
					}
					var got []byte
					timedOut := false
					stall := pr.Chance(35)
					for {
						buf := make([]byte, 256+pr.Intn(2048))
						n, err := rc.Read(buf)
						got = append(got, buf[:n]...)
						if err == io.EOF {
							break
						}
						if err != nil {
							if errors.Is(err, ErrSnapshotReaderTimeout) || strings.Contains(err.Error(), "closed") {
								timedOut = true
								release() // force-closed: our hold is gone
							} else {
								badErr.Add(1)
								firstBad.CompareAndSwap(nil, err.Error())
							}
							break
						}
						if stall && pr.Chance(30) {
							release() // from here on the idle timer may legitimately take the lock away
							time.Sleep(time.Duration(5+pr.Intn(6)) * time.Millisecond)
						} else if pr.Chance(20) {
							time.Sleep(time.Duration(pr.Intn(300)) * time.Microsecond)
						}
					}
					if want != nil {
						if timedOut {
							if !bytes.HasPrefix(want, got) {
								badBytes.Add(1)
							}
							forced.Add(1)
						} else {
							if !bytes.Equal(want, got) {
								badBytes.Add(1)
								firstBad.CompareAndSwap(nil, fmt.Sprintf("read %d bytes, reference %d bytes", len(got), len(want)))
							}
							full.Add(1)
						}
					}
					release()
					switch pr.Intn(3) {
					case 0:
						rc.Close()
					case 1:
						rc.Close()
						rc.Close()
					default:
						var cw sync.WaitGroup
						for c := 0; c < 2; c++ {
							cw.Add(1)
							go func() { defer cw.Done(); rc.Close() }()
						}
						cw.Wait()
					}
				}
			}(g)
		}
		// the reaper: adds incrementals (Sink.Close signals the blocking reapLoop) and also reaps itself
		wg.Add(1)
		go func() {
			defer wg.Done()
			wals := []string{"wal-01", "wal-02", "wal-03"}
			for i, w := range wals {
				time.Sleep(time.Duration(1+r.Intn(4)) * time.Millisecond)
				idx := uint64(1200 + 100*i)
				if err := c11AddIncremental(t, s, idx, "testdata/db-and-wals/"+w); err != nil {
					rep.Note("run %d: adding incremental %s failed: %v", run, w, err)
					return
				}
				// explicit Reap attempts (try-lock); the blocking reapLoop was signalled by Sink.Close too
				for try := 0; try < 400; try++ {
					if _, _, err := s.Reap(); err == nil {
						explicitReaps.Add(1)
						break
					}
					time.Sleep(100 * time.Microsecond)
				}
			}
		}()
		done := make(chan struct{})
		go func() { wg.Wait(); close(done) }()
		select {
		case <-done:
		case <-time.After(120 * time.Second):
			rep.Fail("run-did-not-finish", "readers/reaper did not finish within 120 s (blocked reaper or stream?)", replay)
		}
		// every stream has been closed; the blocking reaper (if pending) can now proceed; then the lock must be free
		free := false
		for dl := time.Now().Add(20 * time.Second); time.Now().Before(dl); time.Sleep(500 * time.Microsecond) {
			if err := s.mrsw.BeginWrite("verif"); err == nil {
				nr := c11NR(s)
				s.mrsw.EndWrite()
				free = nr == 0
				break
			}
		}
		if !free {
			rep.Fail("lock-not-free-after-all-streams-closed", fmt.Sprintf("numReaders=%d owner=%q", c11NR(s), c11Owner(s)), replay)
		}
		if reapWithOpen.Load() > 0 {
			rep.Fail("reap-ran-while-stream-open", fmt.Sprintf("%d reaps completed while a stream held its read lock", reapWithOpen.Load()), replay)
		}
		if badBytes.Load() > 0 {
			rep.Fail("stream-bytes-differ-from-snapshot", fmt.Sprintf("%d streams read bytes that differ from the snapshot content (%v)", badBytes.Load(), firstBad.Load()), replay)
		}
		if badErr.Load() > 0 {
			rep.Fail("stream-read-error", fmt.Sprintf("%d streams failed with an unexpected error: %v", badErr.Load(), firstBad.Load()), replay)
		}
		s.DeregisterObserver(obs)
		s.Close()
		rep.Case(fmt.Sprintf("B:%d", run), reaps.Load() > 0 && forced.Load() > 0)
		rep.CountN("B:streams-read-fully", int(full.Load()))
		rep.CountN("B:streams-force-closed", int(forced.Load()))
		rep.CountN("B:reaps-observed", int(reaps.Load()))
		rep.CountN("B:explicit-reaps-succeeded", int(explicitReaps.Load()))
	}
	// ---- E: a stream opened at the hand-over between two reapers ---------------------------
	// An explicit reap holds the write lock (W1) while the background reaper has been signalled
	// and is parked in BeginWriteBlocking (W2). W1's release races with Open (retried until it
	// succeeds). Whoever wins, the background reap must not run while that stream is open: the
	// observer callback, which runs inside reap() under the write lock, looks for a registered
	// stream whose `closed` flag is still false.
	{
		s := c11NewStore(t)
		s.SetReadTimeout(0)
		s.SetReapThreshold(1)
		var registry sync.Map
		var reapWithOpen, reaps atomic.Int64
		obs := NewObserver(make(chan ReapObservation, 16), func(o *ReapObservation) bool {
			reaps.Add(1)
			if c11NR(s) > 0 { // we are inside reap(), i.e. under the write lock: nobody may hold a read lock
				reapWithOpen.Add(1)
			}
			registry.Range(func(k, _ interface{}) bool {
				if !k.(*LockingStreamer).closed.Is() {
					reapWithOpen.Add(1)
				}
				return true
			})
			return false
		})
		s.RegisterObserver(obs)
		rounds := vfScale(600, 20000)
		firstBad := -1
		for i := 0; i < rounds && reapWithOpen.Load() == 0; i++ {
			got := false
			for dl := time.Now().Add(20 * time.Second); time.Now().Before(dl); runtime.Gosched() {
				if err := s.mrsw.BeginWrite("reap"); err == nil { // W1: an explicit reap in progress
					got = true
					break
				}
			}
			if !got {
				rep.Fail("lock-not-free-after-all-streams-closed", "the write lock could not be taken for 20 s between hand-over rounds", map[string]interface{}{"round": i})
				break
			}
			before := reaps.Load()
			s.signalReap() // W2: reapLoop wakes up and parks in BeginWriteBlocking
			time.Sleep(time.Duration(150+r.Intn(200)) * time.Microsecond)
			var go_, release atomic.Int32
			var rd sync.WaitGroup
			id := c11Newest(s)
			for g := 0; g < 3; g++ { // several openers: one of them should reach the mutex before the parked reaper wakes
				rd.Add(1)
				go func() {
					defer rd.Done()
					id := id
					for go_.Load() == 0 {
					}
					var rc io.ReadCloser
					for dl := time.Now().Add(20 * time.Second); time.Now().Before(dl) && release.Load() == 0; {
						if _, c, err := s.Open(id); err == nil { // Open's first action is the (non-blocking) BeginRead
							rc = c
							break
						} else if !strings.Contains(err.Error(), "acquiring read lock") {
							id = c11Newest(s)
						}
					}
					if rc == nil {
						return
					}
					registry.Store(rc.(*LockingStreamer), true)
					for release.Load() == 0 {
						runtime.Gosched()
					}
					rc.Close()
				}()
			}
			go_.Store(1)
			s.mrsw.EndWrite()
			// give the background reap a moment: it either runs now (it won the race, or wrongly ran
			// under the open stream) or is still waiting for the stream
			for dl := time.Now().Add(1500 * time.Microsecond); time.Now().Before(dl) && reaps.Load() == before; runtime.Gosched() {
			}
			if reapWithOpen.Load() > 0 && firstBad < 0 {
				firstBad = i
			}
			release.Store(1)
			rd.Wait()
		}
		if reapWithOpen.Load() > 0 {
			rep.Fail("reap-ran-while-stream-open", fmt.Sprintf("round %d: an explicit reap held the write lock, the background reaper was parked behind it; the explicit reap's release raced with Open; the background reap then ran while that Open held the read lock (reader count > 0 / stream open, sampled by the observer callback inside reap(), i.e. under the write lock)", firstBad),
				map[string]interface{}{"round": firstBad, "scenario": "W1 := mrsw.BeginWrite(reap); signalReap() (reapLoop parks in BeginWriteBlocking); barrier{ W1 EndWrite | retry Open until ok }; observer inside reap() finds an open stream"})
		}
		s.DeregisterObserver(obs)
		s.Close()
		rep.Case("handover:open-vs-parked-reaper", true)
		rep.CountN("E:handover-rounds", rounds)
		rep.CountN("E:background-reaps-observed", int(reaps.Load()))
	}

	// ---- C: real idle timers ------------------------------------------------------------
	// a consumer reads once some time after opening (so the first timer firing finds the
	// stream not yet idle long enough and must re-arm), then stalls: the stream must be
	// force-closed, not before lastRead+timeout, and the reaper must then get the lock.
	{
		nC := vfScale(9, 90)
		var wg sync.WaitGroup
		for i := 0; i < nC; i++ {
			timeout := time.Duration(25+r.Intn(30)) * time.Millisecond
			readAfter := time.Duration(5+r.Intn(15)) * time.Millisecond
			mode := []string{"one-read", "to-eof", "read-error"}[i%3]
			wg.Add(1)
			go func(i int) {
				defer wg.Done()
				s := c11NewStore(t)
				defer s.Close()
				s.SetReadTimeout(timeout)
				var rc io.ReadCloser
				if mode == "read-error" {
					// a stream whose underlying reader fails: what Store.Open does, with a failing reader
					if err := s.mrsw.BeginRead(); err != nil {
						t.Errorf("begin read: %v", err)
						return
					}
					rc = NewLockingStreamer(&c11FailRC{}, s, timeout)
				} else {
					var err error
					_, rc, err = s.Open(c11Newest(s))
					if err != nil {
						t.Errorf("open: %v", err)
						return
					}
				}
				l := rc.(*LockingStreamer)
				start := time.Now()
				time.Sleep(readAfter)
				tRead := time.Since(start) // measured BEFORE the read: the recorded last-read time is not earlier
				n, rerr := rc.Read(make([]byte, 16))
				replay := map[string]interface{}{"timeout_ns": int64(timeout), "read_after_ns": int64(readAfter), "run": i, "consumer": mode + ", then stalls without Close"}
				switch mode {
				case "to-eof":
					// drain the stream completely: the last Read returns (0, io.EOF)
					for rerr == nil {
						tb := time.Since(start)
						var k int
						k, rerr = rc.Read(make([]byte, 4096))
						if k > 0 {
							tRead = tb // only a read that returned data moves the last-read time
						}
					}
					if rerr != io.EOF {
						rep.Count("C:inconclusive-slow-machine")
						rc.Close()
						return
					}
					n, rerr = 1, nil
				case "read-error":
					if rerr == nil || l.timedOut.Is() {
						rep.Count("C:inconclusive-slow-machine")
						rc.Close()
						return
					}
					tRead = 0 // no data was ever read: the last-read time is the creation time
					n, rerr = 1, nil
				}
				if rerr != nil || n == 0 {
					// the machine was so slow that the stream idled out before our read: nothing to judge
					rep.Count("C:inconclusive-slow-machine")
					rc.Close()
					return
				}
				forced := false
				var tObs time.Duration
				for dl := time.Now().Add(20 * time.Second); time.Now().Before(dl); time.Sleep(500 * time.Microsecond) {
					if l.closed.Is() {
						forced, tObs = true, time.Since(start)
						break
					}
				}
				if !forced {
					rep.Fail("stalled-stream-never-force-closed", fmt.Sprintf("idle timeout %v, last read at %v: still open after 20 s", timeout, tRead), replay)
					rc.Close()
					return
				}
				if tObs < tRead+timeout {
					rep.Fail("stream-force-closed-before-idle-timeout", fmt.Sprintf("idle timeout %v, last read not before %v, closed already at %v", timeout, tRead, tObs), replay)
				}
				if !l.timedOut.Is() {
					rep.Fail("force-closed-stream-not-marked-timed-out", "", replay)
				}
				// the reaper can proceed now (the release happens right after the flag is set)
				ok := false
				for dl := time.Now().Add(10 * time.Second); time.Now().Before(dl); time.Sleep(200 * time.Microsecond) {
					if _, _, err := s.Reap(); err == nil {
						ok = true
						break
					}
				}
				if !ok {
					rep.Fail("reaper-blocked-after-forced-close", "Reap still refused 10 s after the stalled stream was force-closed", replay)
				}
				if _, err := rc.Read(make([]byte, 8)); !errors.Is(err, ErrSnapshotReaderTimeout) {
					rep.Fail("read-after-forced-close-not-timeout-error", fmt.Sprint(err), replay)
				}
				rc.Close() // must be a no-op
				if nr := c11NR(s); nr != 0 {
					rep.Fail("reader-count-not-zero-after-all-closed", fmt.Sprint(nr), replay)
				}
				rep.Case(fmt.Sprintf("C:%d", i), true)
				rep.Count("C:stalled-streams-force-closed")
			}(i)
		}
		wg.Wait()
	}
	rep.vfCompareSegments("streamer", allOps, allImpl)
}

// c11Key identifies an op sequence by a 64-bit hash (keeps the distinct-case set small).
func c11Key(ops []string) string {
	h := fnv.New64a()
	for _, o := range ops {
		h.Write([]byte(o))
		h.Write([]byte{'\n'})
	}
	return fmt.Sprintf("%016x", h.Sum64())
}

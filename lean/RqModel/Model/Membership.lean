/-
Model of cluster membership changes (C32): store/store.go `Join`, `Remove`,
`remove`, `Notify`, the reaping branch of `observe`, store/server.go
`Servers.IsReadReplica`, on top of hashicorp/raft's `nextConfiguration` and
`checkConfiguration` (configuration.go, v1.7.3), which are transcribed here as the
`RaftSem` dependency: raft installs a new configuration only if it is the result of
`nextConfiguration`, which ends with `checkConfiguration`.

A configuration is the list of `(id, address, suffrage)` in raft's order. rqlite
only issues AddVoter / AddNonvoter / RemoveServer (always with prevIndex 0) and
BootstrapCluster, so `Staging` never occurs.
-/
import RqModel.Model.Util
namespace RqModel.Membership
open RqModel.Util

inductive Suffrage | voter | nonvoter
deriving DecidableEq, Repr

structure Server where
  id   : String
  addr : String
  suf  : Suffrage
deriving DecidableEq, Repr

abbrev Config := List Server

/-! ### hashicorp/raft configuration.go (transcribed) -/

/-- the loop of `checkConfiguration`; `ids`/`addrs` are the two sets, `voters` the count -/
def checkLoop : Config → List String → List String → Nat → Bool
  | [], _, _, voters => voters != 0
  | s :: rest, ids, addrs, voters =>
    if s.id = "" then false
    else if s.addr = "" then false
    else if ids.contains s.id then false
    else if addrs.contains s.addr then false
    else checkLoop rest (s.id :: ids) (s.addr :: addrs) (if s.suf = .voter then voters + 1 else voters)

/-- `checkConfiguration(c) == nil` -/
def checkConfiguration (c : Config) : Bool := checkLoop c [] [] 0

inductive Change
  | addVoter (id addr : String)
  | addNonvoter (id addr : String)
  | removeServer (id : String)
deriving DecidableEq, Repr

/-- the `for i, server := range configuration.Servers` loop of AddVoter: `none` = not found -/
def addVoterGo (id addr : String) : Config → Option Config
  | [] => none
  | s :: rest =>
    if s.id = id then
      some ((if s.suf = .voter then { s with addr := addr } else ⟨id, addr, .voter⟩) :: rest)
    else (addVoterGo id addr rest).map (s :: ·)

def addNonvoterGo (id addr : String) : Config → Option Config
  | [] => none
  | s :: rest =>
    if s.id = id then
      some ((if s.suf ≠ .nonvoter then { s with addr := addr } else ⟨id, addr, .nonvoter⟩) :: rest)
    else (addNonvoterGo id addr rest).map (s :: ·)

def removeGo (id : String) : Config → Config
  | [] => []
  | s :: rest => if s.id = id then rest else s :: removeGo id rest

def applyChange (c : Config) : Change → Config
  | .addVoter id addr => (addVoterGo id addr c).getD (c ++ [⟨id, addr, .voter⟩])
  | .addNonvoter id addr => (addNonvoterGo id addr c).getD (c ++ [⟨id, addr, .nonvoter⟩])
  | .removeServer id => removeGo id c

/-- `nextConfiguration(current, _, change)` with `prevIndex == 0`; `none` = error -/
def nextConfiguration (c : Config) (ch : Change) : Option Config :=
  let c' := applyChange c ch
  if checkConfiguration c' then some c' else none

def hasVote (c : Config) (id : String) : Bool :=
  match c.find? (fun s => s.id = id) with
  | some s => s.suf = .voter
  | none => false

/-- `raft.BootstrapCluster` on a running node (`liveBootstrap`): the local node must be a
voter of the configuration, the configuration must pass `checkConfiguration`, and the
node must have no existing state -/
def bootstrap (existing : Bool) (self : String) (c : Config) : Option Config :=
  if !hasVote c self then none
  else if !checkConfiguration c then none
  else if existing then none
  else some c

/-! ### store/store.go -/

inductive JoinOut
  | ok            -- "joined successfully"
  | ignored       -- "already member of cluster, ignoring join request"
  | errNotOpen | errNotLeader | errResolve
  | errRemove     -- s.remove(id) failed
  | errAdd        -- AddVoter/AddNonvoter failed
deriving DecidableEq, Repr

/-- the `for _, srv := range configFuture.Configuration().Servers` loop of `Store.Join`.
It ranges over the snapshot taken before the loop while the removals act on the live
configuration `cur`. A server that has the joining node's ID or address is removed
first (always by the JOINING node's id), unless it is the very same node with the
requested suffrage, in which case the join is ignored. Result: `Sum.inl` = early return.
(Before the `fix:` commit the suffrage was not compared, see `joinLoopOld`.) -/
def joinLoop (id addr : String) (voter : Bool) : Config → Config → Sum (Config × JoinOut) Config
  | [], cur => .inr cur
  | srv :: rest, cur =>
    if srv.id = id ∨ srv.addr = addr then
      if srv.addr = addr ∧ srv.id = id ∧ (decide (srv.suf = .voter) = voter) then .inl (cur, .ignored)
      else match nextConfiguration cur (.removeServer id) with
        | none => .inl (cur, .errRemove)
        | some c' => joinLoop id addr voter rest c'
    else joinLoop id addr voter rest cur

/-- the loop before the `fix:` commit: same id and address ⇒ ignored, whatever the role -/
def joinLoopOld (id addr : String) : Config → Config → Sum (Config × JoinOut) Config
  | [], cur => .inr cur
  | srv :: rest, cur =>
    if srv.id = id ∨ srv.addr = addr then
      if srv.addr = addr ∧ srv.id = id then .inl (cur, .ignored)
      else match nextConfiguration cur (.removeServer id) with
        | none => .inl (cur, .errRemove)
        | some c' => joinLoopOld id addr rest c'
    else joinLoopOld id addr rest cur

structure Env where
  opened     : Bool := true
  isLeader   : Bool := true
  resolvable : Bool := true   -- `resolvableAddress(addr)` succeeds
deriving Repr, DecidableEq

/-- `s.raft.AddVoter(id, addr, 0, 0)` or `s.raft.AddNonvoter(id, addr, 0, 0)` -/
def addChange (id addr : String) (voter : Bool) : Change :=
  if voter then .addVoter id addr else .addNonvoter id addr

/-- the part of `Store.Join` after the loop -/
def finishJoin (cur : Config) (id addr : String) (voter : Bool) : Config × JoinOut :=
  match nextConfiguration cur (addChange id addr voter) with
  | none => (cur, .errAdd)
  | some c' => (c', .ok)

def storeJoin (e : Env) (c : Config) (id addr : String) (voter : Bool) : Config × JoinOut :=
  if !e.opened then (c, .errNotOpen)
  else if !e.isLeader then (c, .errNotLeader)
  else if !e.resolvable then (c, .errResolve)
  else match joinLoop id addr voter c c with
    | .inl r => r
    | .inr cur => finishJoin cur id addr voter

/-- `Store.Join` before the `fix:` commit -/
def storeJoinOld (e : Env) (c : Config) (id addr : String) (voter : Bool) : Config × JoinOut :=
  if !e.opened then (c, .errNotOpen)
  else if !e.isLeader then (c, .errNotLeader)
  else if !e.resolvable then (c, .errResolve)
  else match joinLoopOld id addr c c with
    | .inl r => r
    | .inr cur => finishJoin cur id addr voter

inductive RemoveOut | ok | errNotOpen | errNotLeader | err
deriving DecidableEq, Repr

/-- `Store.Remove` → `s.remove(id)` → `raft.RemoveServer(id, 0, 0)` -/
def storeRemove (e : Env) (c : Config) (id : String) : Config × RemoveOut :=
  if !e.opened then (c, .errNotOpen)
  else if !e.isLeader then (c, .errNotLeader)
  else match nextConfiguration c (.removeServer id) with
    | none => (c, .err)
    | some c' => (c', .ok)

/-- `Servers.IsReadReplica(id)`: (readReplica, found) -/
def isReadReplica (c : Config) (id : String) : Bool × Bool :=
  if id = "" then (false, false)
  else match c.find? (fun s => s.id = id) with
    | some s => (s.suf = .nonvoter, true)
    | none => (false, false)

/-- the reaping condition of `observe` for a `FailedHeartbeatObservation{PeerID: id}` whose
`time.Since(LastContact)` is `dur`; timeouts in ns, 0 = disabled -/
def reapDecision (c : Config) (id : String) (dur reapTimeout reapROTimeout : Int) : Bool :=
  let (ro, found) := isReadReplica c id
  if !found then false
  else (ro && decide (reapROTimeout > 0) && decide (dur > reapROTimeout)) ||
       (!ro && decide (reapTimeout > 0) && decide (dur > reapTimeout))

/-- the whole branch: decide, then `s.remove(id)` (errors are only logged) -/
def storeReap (e : Env) (c : Config) (id : String) (dur reapTimeout reapROTimeout : Int) : Config × Bool :=
  if reapDecision c id dur reapTimeout reapROTimeout then
    ((storeRemove e c id).1, true)
  else (c, false)

/-! `Store.Notify` (discovery-driven bootstrap) -/

structure NotifyState where
  expect       : Nat := 0            -- `BootstrapExpect`
  bootstrapped : Bool := false
  notifying    : List (String × String) := []   -- `notifyingNodes` (id ↦ addr), insertion order
deriving Repr, DecidableEq

inductive NotifyOut | noop | recorded | bootstrapOk | bootstrapFailed | errNotOpen | errResolve
deriving DecidableEq, Repr

/-- returns the new notify state, the configuration the node now has, and what happened.
`hasLeader` = `s.HasLeader()`, `existing` = the node already has raft state. Go iterates
the map in random order; the model uses insertion order (configurations are compared
as sets by the harness). -/
def storeNotify (opened hasLeader resolvable existing : Bool) (self : String)
    (ns : NotifyState) (c : Config) (id addr : String) : NotifyState × Config × NotifyOut :=
  if !opened then (ns, c, .errNotOpen)
  else if ns.expect = 0 ∨ ns.bootstrapped ∨ hasLeader then (ns, c, .noop)
  else if ns.notifying.any (fun p => p.1 = id) then (ns, c, .noop)
  else if !resolvable then (ns, c, .errResolve)
  else
    let ns1 := { ns with notifying := ns.notifying ++ [(id, addr)] }
    if ns1.notifying.length < ns1.expect then (ns1, c, .recorded)
    else
      let servers : Config := ns1.notifying.map (fun p => ⟨p.1, p.2, .voter⟩)
      match bootstrap existing self servers with
      | some c' => ({ ns1 with bootstrapped := true }, c', .bootstrapOk)
      | none => ({ ns1 with bootstrapped := true }, c, .bootstrapFailed)

/-! ### histories -/

inductive Op
  | join (e : Env) (id addr : String) (voter : Bool)
  | remove (e : Env) (id : String)
  | reap (e : Env) (id : String) (dur reapTimeout reapROTimeout : Int)
  | bootstrap (existing : Bool) (self : String) (servers : Config)
  /-- `Store.Notify(id, addr)` on node `self`, whatever its notify bookkeeping `ns` is at that
  moment (any value: the histories quantify over all of them) -/
  | notify (opened hasLeader resolvable existing : Bool) (self : String) (ns : NotifyState) (id addr : String)
deriving Repr

def stepOp (c : Config) : Op → Config
  | .join e id addr v => (storeJoin e c id addr v).1
  | .remove e id => (storeRemove e c id).1
  | .reap e id d t r => (storeReap e c id d t r).1
  | .bootstrap ex self servers =>
    -- BootstrapCluster is only possible on a node without configuration
    if c.isEmpty then (bootstrap ex self servers).getD c else c
  | .notify op hl rs ex self ns id addr =>
    -- raft refuses BootstrapCluster on a node that already has a configuration
    (storeNotify op hl rs (ex || !c.isEmpty) self ns c id addr).2.1

def runOps (c : Config) (ops : List Op) : Config := ops.foldl stepOp c

/-! ### line protocol
One cluster configuration as state.
`reset` → `ok`
`bootstrap SELF id@addr,id@addr,...` → `ok CFG` | `err CFG`   (all voters)
`join ID ADDR voter|nonvoter [notleader]` → `<ok|ignored|err:...> CFG`
`remove ID [notleader]` → `<ok|err:...> CFG`
`reap ID durNs reapNs reapRONs` → `<removed|kept> CFG`
`nnew NODE EXPECT` → `ok`  (a fresh node with BootstrapExpect = EXPECT)
`notify NODE ID ADDR [hasleader]` → `<noop|recorded|bootstrapok|bootstrapfailed> CFG-of-NODE`
`config` → CFG, where CFG is the configuration sorted by id: `id@addr/voter ...` (`-` if empty);
ids and addresses are hex tokens. -/

structure DState where
  c : Config := []
  /-- not-yet-bootstrapped nodes of the Notify scenario: name ↦ (notify state, configuration) -/
  nodes : List (String × NotifyState × Config) := []

def sufStr : Suffrage → String
  | .voter => "voter"
  | .nonvoter => "nonvoter"

def insertSorted (s : Server) : Config → Config
  | [] => [s]
  | t :: rest => if s.id < t.id then s :: t :: rest else t :: insertSorted s rest

def sortCfg (c : Config) : Config := c.foldr insertSorted []

def cfgStr (c : Config) : String :=
  if c.isEmpty then "-" else
  joinWith " " ((sortCfg c).map (fun s => hexOfString s.id ++ "@" ++ hexOfString s.addr ++ "/" ++ sufStr s.suf))

def joinOutStr : JoinOut → String
  | .ok => "ok"
  | .ignored => "ignored"
  | .errNotOpen => "err:notopen"
  | .errNotLeader => "err:notleader"
  | .errResolve => "err:resolve"
  | .errRemove => "err:change"   -- the harness cannot tell which raft call refused
  | .errAdd => "err:change"

def parsePair (t : String) : Option (String × String) :=
  match t.splitOn "@" with
  | [a, b] => do
    let a ← tokString a
    let b ← tokString b
    pure (a, b)
  | _ => none

def envOf (rest : List String) : Option Env :=
  match rest with
  | [] => some {}
  | ["notleader"] => some { isLeader := false }
  | _ => none

def step (d : DState) (line : String) : DState × String :=
  match words line with
  | ["reset"] => ({}, "ok")
  | ["config"] => (d, cfgStr d.c)
  | ["bootstrap", self, list] =>
    match tokString self, (splitComma list).mapM parsePair with
    | some self, some ps =>
      if !d.c.isEmpty then (d, "err " ++ cfgStr d.c) else
      match bootstrap false self (ps.map (fun p => ⟨p.1, p.2, .voter⟩)) with
      | some c' => ({ d with c := c' }, "ok " ++ cfgStr c')
      | none => (d, "err " ++ cfgStr d.c)
    | _, _ => (d, "bad-op")
  | ["nnew", node, expect] =>
    match tokString node, expect.toNat? with
    | some node, some ex =>
      ({ d with nodes := (d.nodes.filter (fun p => p.1 ≠ node)) ++ [(node, { expect := ex }, [])] }, "ok")
    | _, _ => (d, "bad-op")
  | "notify" :: node :: id :: addr :: rest =>
    match tokString node, tokString id, tokString addr with
    | some node, some id, some addr =>
      if rest ≠ [] ∧ rest ≠ ["hasleader"] then (d, "bad-op") else
      match d.nodes.find? (fun p => p.1 = node) with
      | none => (d, "bad-op")
      | some (_, ns, c) =>
        let (ns', c', o) := storeNotify true (rest = ["hasleader"]) true false node ns c id addr
        let os := match o with
          | .noop => "noop" | .recorded => "recorded" | .bootstrapOk => "bootstrapok"
          | .bootstrapFailed => "bootstrapfailed" | .errNotOpen => "err:notopen" | .errResolve => "err:resolve"
        ({ d with nodes := d.nodes.map (fun p => if p.1 = node then (node, ns', c') else p) }, os ++ " " ++ cfgStr c')
    | _, _, _ => (d, "bad-op")
  | "join" :: id :: addr :: role :: rest =>
    match tokString id, tokString addr, envOf rest with
    | some id, some addr, some e =>
      if role = "voter" ∨ role = "nonvoter" then
        let (c', o) := storeJoin e d.c id addr (role = "voter")
        ({ d with c := c' }, joinOutStr o ++ " " ++ cfgStr c')
      else (d, "bad-op")
    | _, _, _ => (d, "bad-op")
  | "remove" :: id :: rest =>
    match tokString id, envOf rest with
    | some id, some e =>
      let (c', o) := storeRemove e d.c id
      let os := match o with
        | .ok => "ok" | .errNotOpen => "err:notopen" | .errNotLeader => "err:notleader" | .err => "err:remove"
      ({ d with c := c' }, os ++ " " ++ cfgStr c')
    | _, _ => (d, "bad-op")
  | ["reap", id, dur, rt, rro] =>
    match tokString id, dur.toInt?, rt.toInt?, rro.toInt? with
    | some id, some dur, some rt, some rro =>
      let (c', _) := storeReap {} d.c id dur rt rro
      ({ d with c := c' }, (if c' ≠ d.c then "removed " else "kept ") ++ cfgStr c')
    | _, _, _, _ => (d, "bad-op")
  | _ => (d, "bad-op")

def init : DState := {}

end RqModel.Membership
--! driver: membership RqModel.Membership

/-
Line-protocol driver for the store snapshotting model (component `snapsm`), C04.

  reset                         → ok
  write <id>                    → ok
  noop                          → ok
  snap <ok|notinvoked|failbefore|failafter>   → full | incremental | nothing | nowal | full-not-installed | incremental-not-installed
  snapbegin                     → full | incremental | nowal | busy          (FSM.Snapshot())
  snapbeginfail                 → err-stage | full | nowal | busy            (FSM.Snapshot() failing to stage the checkpointed WAL)
  snapend <outcome>             → installed | not-installed | nopending | fatal-exit   (Persist + Close / Release;
                                  fatal-exit: Sink.Close exited the process, which was then restarted)
  load <content> / boot <content> / install <content>   → ok     content = ids comma-separated, `e` empty
  installcrash <content>         → ok | corrupt   (snapshot put into the store, process dies before fsmRestore, restart)
  reap                          → ok
  restart                       → ok | corrupt
  db                            → content of the applied database
  state                         → staged=<n> snaps=<n> due=<full|incremental>
`cmd@0` / `cmd@1` run an older code version (see `lvl` in the model); plain commands the current one.
`state` reports the snapshot store's DueNext (flag or empty store), not the store's mtime guard.
-/
import RqModel.Model.SnapSM
namespace RqModel.SnapSMDrv
open RqModel.Util RqModel.SnapSM

structure DState where
  s : SM := {}

def init : DState := {}

def contentTok (t : String) : Option C :=
  if t == "e" then some [] else (t.splitOn ",").mapM String.toNat?

def showC (c : C) : String := if c.isEmpty then "e" else ",".intercalate (c.map toString)

def outcomeTok (t : String) : Option Outcome :=
  if t == "ok" then some .ok else if t == "notinvoked" then some .notInvoked
  else if t == "failbefore" then some .failBefore else if t == "failafter" then some .failAfter else none

/-- the code version the harness talks about: 3 = current source; `cmd@0`, `cmd@1` select older ones -/
def curLvl : Nat := 3

def splitLvl (t : String) : String × Nat :=
  match t.splitOn "@" with
  | [a, l] => (a, l.toNat?.getD curLvl)
  | _ => (t, curLvl)

def stepLine (d : DState) (line : String) : DState × String :=
  let run (lvl : Nat) (op : Op) : DState × String :=
    let (s', o) := step lvl d.s op
    ({ s := s' }, o)
  match words line with
  | [] => (d, "bad-op")
  | cmd0 :: args =>
    let (cmd, lvl) := splitLvl cmd0
    match cmd, args with
    | "reset", [] => ({}, "ok")
    | "write", [w] => match w.toNat? with
      | some w => run lvl (.write w)
      | none => (d, "bad-op")
    | "noop", [] => run lvl .noop
    | "snap", [o] => match outcomeTok o with
      | some o => run lvl (.snapshot o)
      | none => (d, "bad-op")
    | "snapbegin", [] => run lvl .snapBegin
    | "snapbeginfail", [] => run lvl .snapBeginStageFails
    | "snapend", [o] => match outcomeTok o with
      | some o => run lvl (.snapEnd o)
      | none => (d, "bad-op")
    | "load", [c] => match contentTok c with
      | some c => run lvl (.load c)
      | none => (d, "bad-op")
    | "boot", [c] => match contentTok c with
      | some c => run lvl (.boot c)
      | none => (d, "bad-op")
    | "install", [c] => match contentTok c with
      | some c => run lvl (.install c)
      | none => (d, "bad-op")
    | "installcrash", [c] => match contentTok c with
      | some c => run lvl (.installCrash c)
      | none => (d, "bad-op")
    | "reap", [] => run lvl .reap
    | "restart", [] => run lvl .restart
    | "db", [] => (d, showC d.s.db)
    | "state", [] =>
      (d, s!"staged={d.s.staged.length} snaps={d.s.snaps.length} due={if d.s.fullNeeded || d.s.snaps.isEmpty then "full" else "incremental"}")
    | _, _ => (d, "bad-op")

def step := stepLine

end RqModel.SnapSMDrv
--! driver: snapsm RqModel.SnapSMDrv

/-
C03  Acknowledged writes survive crashes and restarts; a restarted node has exactly the
state it had applied, on the fast path and on the rebuild path.

Property theorems over RqModel/Model/StoreSM.lean (process-crash model: the durable
fields are what the completed micro-steps left, the volatile fields are lost; the WAL is
discarded on open, temp snapshot and staging directories are removed on open). The
micro-step ORDER of snapshot, restore and open in the model is the order extracted from
the current sources (Gen/StoreOrder.lean, theorems `code_*` below). Invariants:
RqModel/Lemmas/StoreSM.lean. Tied to the code by crash images at every step boundary of
a real store's snapshot sequence and between operations, and by kill -9 of a child store
process (harness/overlay/C03).
-/
import RqModel.Props.C33
namespace C03
open RqModel.StoreSM

/-- every point at which the process can die, relative to an operation started in a state
between operations -/
inductive Pt where
  | rest                                   -- between operations
  | writeLogged (c : Cmd)                  -- entry durable in the log, FSM not yet run, not acknowledged
  | loadHalfSwapped (d : Db)               -- LOAD entry logged; old database removed, new one not yet in place
  | snapStep (k : Nat)                     -- after k of: checkpoint, persist, install, fingerprint (k = 0…4)
  | snapCompacted (trailing : Nat)         -- after the log compaction that follows a snapshot
  | bootLogged                             -- boot: NOOP entry logged
  | bootSwapped (d : Db)                   -- boot: foreign database swapped in, no snapshot yet
  | bootSnapStep (d : Db) (k : Nat)        -- boot: k steps into its snapshot
deriving Repr

def bootSwap (n : Node) (d : Db) : Node :=
  { write n .noop with live := d, dbFile := d, fp := false, fullNeeded := true }

def stateAt (n : Node) : Pt → Node
  | .rest => n
  | .writeLogged c => appendEntry n c
  | .loadHalfSwapped d => swapRun (swapSteps.take 4) (some d) (appendEntry n (.load d))   -- up to and incl. RemoveFiles
  | .snapStep k => C33.snapPrefix n k
  | .snapCompacted t => snapshot n t
  | .bootLogged => appendEntry n .noop
  | .bootSwapped d => bootSwap n d
  | .bootSnapStep d k => C33.snapPrefix (bootSwap n d) k

/-- what the database must be after a restart from that point: the state before the
operation, or — once the operation's effect is durable — the state after it -/
def expected (live : Db) : Pt → Db
  | .rest => live
  | .writeLogged c => applyCmd live c
  | .loadHalfSwapped d => d
  | .snapStep _ => live
  | .snapCompacted _ => live
  | .bootLogged => live
  | .bootSwapped _ => live
  | .bootSnapStep d k => if k < 3 then live else d

theorem snapPrefix_spec {n : Node} (h : DurInv n) (p : SnapPre n) (k : Nat) :
    DurInv (C33.snapPrefix n k) ∧ (C33.snapPrefix n k).peersFile = none ∧
    truth (C33.snapPrefix n k) = if k < 3 then truth n else n.live := by
  have h1 := durInv_snapCheckpoint h
  have h2 := durInv_snapPersist h1
  have m2 := midSnap_persist p
  have h3 := durInv_snapInstall h2 m2
  have p3 := postInstall m2
  have h4 := durInv_snapFingerprint h3 p3
  have t3 : truth (snapInstall (snapPersist (snapCheckpoint n))) = n.live := truth_install m2
  have hin := snapInstall_eq m2
  match k with
  | 0 => exact ⟨h, p.nopeers, rfl⟩
  | 1 => exact ⟨h1, p.nopeers, rfl⟩
  | 2 => exact ⟨h2, p.nopeers, rfl⟩
  | 3 => exact ⟨h3, by show (snapInstall _).peersFile = _; rw [hin]; exact p.nopeers, t3⟩
  | (k + 4) =>
    refine ⟨h4, by show (snapFingerprint (snapInstall _)).peersFile = _; rw [snapFingerprint, hin]; exact p.nopeers, ?_⟩
    have : ¬ (k + 4 < 3) := by omega
    rw [if_neg this]; exact t3

/-- every crash point leaves a durable state satisfying the invariant, and that state
stands for `expected` -/
theorem stateAt_spec {n : Node} (g : C22.Good n) (pt : Pt) :
    DurInv (stateAt n pt) ∧ (stateAt n pt).peersFile = none ∧ truth (stateAt n pt) = expected n.live pt := by
  obtain ⟨h, q⟩ := g
  cases pt with
  | rest => exact ⟨h, q.nopeers, q.live.symm⟩
  | writeLogged c =>
    exact ⟨durInv_appendEntry h c, q.nopeers, by show truth (appendEntry n c) = _; rw [truth_appendEntry n c h, q.live]; rfl⟩
  | loadHalfSwapped d =>
    have ha := durInv_appendEntry h (.load d)
    have e : swapRun (swapSteps.take 4) (some d) (appendEntry n (.load d)) =
        { appendEntry n (.load d) with dbFileOk := false } := by
      simp [swapRun, swapSteps, List.take, List.foldl, swapStep]
    show DurInv (swapRun _ _ _) ∧ (swapRun _ _ _).peersFile = none ∧ truth (swapRun _ _ _) = d
    rw [e]
    refine ⟨⟨ha.snap_le, ha.nosnap, fun _ hok => Bool.noConfusion hok, ha.fp_le⟩, q.nopeers, ?_⟩
    show truth (appendEntry n (.load d)) = d
    rw [truth_appendEntry n _ h]; rfl
  | snapStep k =>
    obtain ⟨a, b, c⟩ := snapPrefix_spec h q.snapPre k
    refine ⟨a, b, ?_⟩
    show truth (C33.snapPrefix n k) = n.live
    rw [c, q.live]; split <;> rfl
  | snapCompacted t =>
    obtain ⟨a, b, c, _⟩ := snapshot_spec h q t
    exact ⟨a, b.nopeers, by show truth (snapshot n t) = n.live; rw [c, q.live]⟩
  | bootLogged =>
    exact ⟨durInv_appendEntry h .noop, q.nopeers, by show truth (appendEntry n .noop) = _; rw [truth_appendEntry n _ h, q.live]; rfl⟩
  | bootSwapped d =>
    obtain ⟨q1, h1, t1⟩ := quiet_write h q .noop
    exact ⟨⟨h1.snap_le, h1.nosnap, fun hf => Bool.noConfusion hf, fun hf => Bool.noConfusion hf⟩, q1.nopeers, by
      show truth (write n .noop) = n.live; rw [t1, q.live]; rfl⟩
  | bootSnapStep d k =>
    obtain ⟨q1, h1, t1⟩ := quiet_write h q .noop
    have h2 : DurInv (bootSwap n d) := ⟨h1.snap_le, h1.nosnap, fun hf => Bool.noConfusion hf, fun hf => Bool.noConfusion hf⟩
    have p2 : SnapPre (bootSwap n d) := ⟨q1.up, q1.applied, q1.notmp, q1.fileok, q1.nopeers⟩
    obtain ⟨a, b, c⟩ := snapPrefix_spec h2 p2 k
    refine ⟨a, b, ?_⟩
    show truth (C33.snapPrefix (bootSwap n d) k) = if k < 3 then n.live else d
    rw [c]
    have : truth (bootSwap n d) = n.live := by show truth (write n .noop) = n.live; rw [t1, q.live]; rfl
    rw [this]; rfl

/-- the generic form: from ANY good state (not only one reached without crashes) -/
theorem restart_exact_good {n : Node} (g : C22.Good n) (pt : Pt) :
    (openNode (crash (stateAt n pt))).live = expected n.live pt ∧ C22.Good (openNode (crash (stateAt n pt))) := by
  obtain ⟨hd, hp, ht⟩ := stateAt_spec g pt
  obtain ⟨hl, _, hd', hq', _⟩ := open_truth (durInv_crash hd) (by show (stateAt n pt).peersFile = none; exact hp)
  exact ⟨by rw [hl, truth_crash, ht], hd', hq'⟩

/-- an epoch of a node's life: operations, then a crash at some point of one more, then reopen -/
def epochs (n : Node) : List (List C22.Op × Pt) → Node
  | [] => n
  | (ops, pt) :: rest => epochs (openNode (crash (stateAt (C22.run n ops) pt))) rest

/-- what clients were told, epoch by epoch -/
def epochsDb (d : Db) : List (List C22.Op × Pt) → Db
  | [] => d
  | (ops, pt) :: rest => epochsDb (expected (ops.foldl C22.effect d) pt) rest

/-- **crashes_repeat**: mid-operation crashes may happen ANY number of times in a history, each
followed by more operations: after every reopen the node holds exactly the expected database
and is a good state again -/
theorem crashes_repeat {n : Node} (g : C22.Good n) (es : List (List C22.Op × Pt)) :
    (epochs n es).live = epochsDb n.live es ∧ C22.Good (epochs n es) := by
  induction es generalizing n with
  | nil => exact ⟨rfl, g⟩
  | cons e rest ih =>
    obtain ⟨ops, pt⟩ := e
    have g1 := C22.good_run g ops
    obtain ⟨hl, g2⟩ := restart_exact_good g1 pt
    obtain ⟨a, b⟩ := ih g2
    refine ⟨?_, b⟩
    show (epochs (openNode (crash (stateAt (C22.run n ops) pt))) rest).live = _
    rw [a, hl, C22.live_run g ops]; rfl

/-- **minority_restart_catches_up**: a node that crashed at any point and reopened, then applies
the entries the rest of the cluster has meanwhile committed (any schedule `more1` with the same
data operations as the cluster's `more2`), holds what the cluster holds -/
theorem minority_restart_catches_up {n : Node} (g : C22.Good n) (pt : Pt) (more1 more2 : List C22.Op)
    (h : C22.dataOps more1 = C22.dataOps more2) :
    (C22.run (openNode (crash (stateAt n pt))) more1).live = more2.foldl C22.effect (expected n.live pt) := by
  obtain ⟨hl, g2⟩ := restart_exact_good g pt
  rw [C22.live_run g2, hl, C22.foldl_effect_data more1, C22.foldl_effect_data more2, h]

/-- **restart_exact.** For EVERY history and EVERY crash point, the node that reopens serves
exactly the database the durable state stands for — which is the state it had applied
before the interrupted operation, or the state after it when that operation's effect had
already become durable — and it is again a well-formed node between operations. Both
branches of `Open` (fingerprint valid → database file reused; otherwise rebuilt from the
newest snapshot) are covered by `open_truth`. -/
theorem restart_exact (hist : List C22.Op) (pt : Pt) :
    let n := C22.run {} hist
    (openNode (crash (stateAt n pt))).live = expected n.live pt ∧ C22.Good (openNode (crash (stateAt n pt))) := by
  intro n
  have g := C22.good_run C22.good_init hist
  obtain ⟨hd, hp, ht⟩ := stateAt_spec g pt
  obtain ⟨hl, _, hd', hq', _⟩ := open_truth (durInv_crash hd) (by show (stateAt n pt).peersFile = none; exact hp)
  exact ⟨by rw [hl, truth_crash, ht], hd', hq'⟩

/-- **acknowledged_writes_survive.** A write is acknowledged after its entry is durable and
the FSM has run, i.e. at a `rest` point. From there on, whatever happens next — any later
operations, a crash at any point of any later operation, either restart path — the
restarted node's database contains that write: it is the acknowledged state followed by
the later operations that had become durable. -/
theorem acknowledged_writes_survive (before : List C22.Op) (c : Cmd) (after : List C22.Op) (pt : Pt) :
    let acked := (C22.run {} (before ++ [.write c])).live
    acked = applyCmd (C22.run {} before).live c ∧
    (openNode (crash (stateAt (C22.run {} (before ++ [.write c] ++ after)) pt))).live =
      expected (after.foldl C22.effect acked) pt := by
  intro acked
  have e1 : acked = applyCmd (C22.run {} before).live c := by
    show (C22.run {} (before ++ [.write c])).live = _
    rw [C22.live_run C22.good_init, C22.live_run C22.good_init, List.foldl_append]; rfl
  refine ⟨e1, ?_⟩
  have hr := (restart_exact (before ++ [C22.Op.write c] ++ after) pt).1
  have hl : (C22.run {} (before ++ [C22.Op.write c] ++ after)).live = after.foldl C22.effect acked := by
    show _ = after.foldl C22.effect (C22.run {} (before ++ [C22.Op.write c])).live
    rw [C22.live_run C22.good_init, C22.live_run C22.good_init, List.foldl_append]
  rw [← hl]; exact hr

/-- **fast path and rebuild path agree**: removing the fingerprint (`ForceSnapshotRestore`)
before opening changes nothing clients can see -/
theorem fast_and_rebuild_paths_agree (hist : List C22.Op) (pt : Pt) :
    let m := crash (stateAt (C22.run {} hist) pt)
    (openNode m).live = (openNode { m with fp := false }).live := by
  intro m
  have g := C22.good_run C22.good_init hist
  obtain ⟨hd, hp, _⟩ := stateAt_spec g pt
  have hc := durInv_crash hd
  have hc' : DurInv { m with fp := false } := ⟨hc.snap_le, hc.nosnap, fun hf => Bool.noConfusion hf, fun hf => Bool.noConfusion hf⟩
  have hp' : m.peersFile = none := hp
  rw [(open_truth hc hp').1, (open_truth hc' hp').1]; rfl

/-! ### a crash during recovery, any number of times -/

/-- the durable states `Open` passes through on the rebuild path (the fast path changes
nothing durable): temp directories removed, then the first `k` steps of `fsmRestore` -/
def partialOpen (n : Node) (k : Nat) : Node :=
  match n.snap with
  | some (i, d) => (restoreSteps.take k).foldl (restoreStep i d) (openPrep n)
  | none => if k < 3 then { openPrep n with fp := false } else { openPrep n with fp := false, dbFile := [], dbFileOk := true }

theorem partialOpen_spec {n : Node} (h : DurInv n) (k : Nat) :
    DurInv (partialOpen n k) ∧ truth (partialOpen n k) = truth n ∧ (partialOpen n k).peersFile = n.peersFile := by
  cases hs : n.snap with
  | none =>
    unfold partialOpen; rw [hs]; simp only
    split <;> exact ⟨⟨h.snap_le, h.nosnap, fun hf => Bool.noConfusion hf, fun hf => Bool.noConfusion hf⟩, rfl, rfl⟩
  | some p =>
    obtain ⟨i, d⟩ := p
    have hp := durInv_openPrep h
    match k with
    | 0 =>
      have e : partialOpen n 0 = openPrep n := by simp [partialOpen, hs, restoreSteps, List.take, List.foldl]
      rw [e]; exact ⟨hp, rfl, rfl⟩
    | 1 =>
      have e : partialOpen n 1 = openPrep n := by simp [partialOpen, hs, restoreSteps, List.take, List.foldl, restoreStep]
      rw [e]; exact ⟨hp, rfl, rfl⟩
    | 2 =>
      have e : partialOpen n 2 = { openPrep n with fp := false } := by
        simp [partialOpen, hs, restoreSteps, List.take, List.foldl, restoreStep]
      rw [e]; exact ⟨⟨h.snap_le, h.nosnap, fun hf => Bool.noConfusion hf, fun hf => Bool.noConfusion hf⟩, rfl, rfl⟩
    | 3 =>
      have e : partialOpen n 3 = { openPrep n with fp := false, dbFile := d, dbFileOk := true, live := d, applied := i } := by
        simp [partialOpen, hs, restoreSteps, List.take, List.foldl, restoreStep]
      rw [e]; exact ⟨⟨h.snap_le, h.nosnap, fun hf => Bool.noConfusion hf, fun hf => Bool.noConfusion hf⟩, rfl, rfl⟩
    | (k + 4) =>
      have e : partialOpen n (k + 4) = { openPrep n with fp := true, fpIdx := i, dbFile := d, dbFileOk := true, live := d, applied := i } := by
        simp [partialOpen, hs, restoreSteps, List.take, List.foldl, restoreStep, newestIdx, openPrep]
      rw [e]
      refine ⟨⟨h.snap_le, h.nosnap, ?_, ?_⟩, rfl, rfl⟩
      · intro _ _ j e2 hs2 _
        have hs2' : n.snap = some (j, e2) := hs2
        rw [hs] at hs2'
        simp only [Option.some.injEq, Prod.mk.injEq] at hs2'
        exact hs2'.2
      · intro _
        show i ≤ newestIdx { openPrep n with fp := true, fpIdx := i, dbFile := d, dbFileOk := true, live := d, applied := i }
        have : newestIdx { openPrep n with fp := true, fpIdx := i, dbFile := d, dbFileOk := true, live := d, applied := i } = i := by
          simp [newestIdx, openPrep, hs]
        omega

/-- recoveries interrupted at the given steps, one after the other -/
def interrupted (n : Node) : List Nat → Node
  | [] => n
  | k :: ks => interrupted (crash (partialOpen n k)) ks

theorem interrupted_spec {n : Node} (h : DurInv n) (hp : n.peersFile = none) (ks : List Nat) :
    DurInv (interrupted n ks) ∧ truth (interrupted n ks) = truth n ∧ (interrupted n ks).peersFile = none := by
  induction ks generalizing n with
  | nil => exact ⟨h, rfl, hp⟩
  | cons k ks ih =>
    obtain ⟨a, b, c⟩ := partialOpen_spec h k
    obtain ⟨a', b', c'⟩ := ih (durInv_crash a) (by show (partialOpen n k).peersFile = none; rw [c, hp])
    exact ⟨a', by show truth (interrupted (crash (partialOpen n k)) ks) = _; rw [b']; show truth (partialOpen n k) = _; exact b, c'⟩

/-- **restart_exact_after_interrupted_recoveries**: a crash at any point, then any number of
recoveries each interrupted at any step, then one complete recovery: same result -/
theorem restart_exact_after_interrupted_recoveries (hist : List C22.Op) (pt : Pt) (ks : List Nat) :
    let n := C22.run {} hist
    (openNode (interrupted (crash (stateAt n pt)) ks)).live = expected n.live pt := by
  intro n
  have g := C22.good_run C22.good_init hist
  obtain ⟨hd, hp, ht⟩ := stateAt_spec g pt
  obtain ⟨a, b, c⟩ := interrupted_spec (durInv_crash hd) (by show (stateAt n pt).peersFile = none; exact hp) ks
  rw [(open_truth a c).1, b, truth_crash, ht]

/-! ### a snapshot received from the leader, and a crash before `FSM.Restore` ran

raft closes the sink — the received snapshot is the newest in the store — and only then calls
`fsmRestore`, whose second step removes the marker. A node that stops in between has the OLD
database file, a marker that still matches that file, and a NEWER newest snapshot. The marker
records the index of the snapshot it was written for (fix fa61aff) and `Open` takes the fast
path only if that is still the newest one. -/

/-- what raft guarantees about a snapshot it installs: strictly newer than the node's newest
one, and within the cluster's committed history -/
structure InstallPre (n : Node) (hist' : List Cmd) (j : Nat) : Prop where
  newer : newestIdx n < j
  le    : j ≤ hist'.length

theorem durInv_installSinkClosed {n : Node} (h : DurInv n) (hist' : List Cmd) (j : Nat) (d : Db)
    (p : InstallPre n hist' j) : DurInv (installSinkClosed n hist' j d) := by
  refine ⟨?_, ?_, ?_, ?_⟩
  · intro i e hs
    have hs' : some (j, d) = some (i, e) := hs
    simp only [Option.some.injEq, Prod.mk.injEq] at hs'
    obtain ⟨rfl, rfl⟩ := hs'
    exact ⟨p.le, Nat.le_refl _⟩
  · intro hs; cases hs
  · intro hf _ i e hs hi
    have hs' : some (j, d) = some (i, e) := hs
    simp only [Option.some.injEq, Prod.mk.injEq] at hs'
    obtain ⟨rfl, rfl⟩ := hs'
    have h1 : n.fpIdx ≤ newestIdx n := h.fp_le hf
    have h2 : n.fpIdx = j := hi
    have := p.newer
    omega
  · intro hf
    have h1 : n.fpIdx ≤ newestIdx n := h.fp_le hf
    show n.fpIdx ≤ j
    have := p.newer
    omega

/-- the durable states between the sink's close and the end of `fsmRestore`: `k` of its steps done
(`k = 0`: the sink is closed, `FSM.Restore` has not run) -/
def installPrefix (n : Node) (hist' : List Cmd) (j : Nat) (d : Db) (k : Nat) : Node :=
  partialOpen (installSinkClosed n hist' j d) k

/-- **restart_exact_after_install_crash**: after ANY history, a snapshot from the leader is
installed in the store and the node dies after ANY number of `fsmRestore`'s steps (none
included), then any number of interrupted recoveries: the restarted node holds exactly the
received snapshot's database plus the log after it — never the old file under the new index. -/
theorem restart_exact_after_install_crash (hist : List C22.Op) (hist' : List Cmd) (j : Nat) (d : Db)
    (p : InstallPre (C22.run {} hist) hist' j) (k : Nat) (ks : List Nat) :
    (openNode (interrupted (crash (installPrefix (C22.run {} hist) hist' j d k)) ks)).live = replay d (hist'.drop j) := by
  have g := C22.good_run C22.good_init hist
  have hd := durInv_installSinkClosed g.1 hist' j d p
  obtain ⟨a, b, c⟩ := partialOpen_spec hd k
  unfold installPrefix
  have hp : (crash (partialOpen (installSinkClosed (C22.run {} hist) hist' j d) k)).peersFile = none := by
    show (partialOpen _ k).peersFile = none
    rw [c]; exact g.2.nopeers
  obtain ⟨a', b', c'⟩ := interrupted_spec (durInv_crash a) hp ks
  rw [(open_truth a' c').1, b', truth_crash]
  show truth (partialOpen _ k) = _
  rw [b]; rfl

/-- `InstallPre` is satisfiable in the situation of the witness below -/
example : InstallPre (C22.run {} [.write (.exec false [.put 1 1]), .snapshot 0])
    ((C22.run {} [.write (.exec false [.put 1 1]), .snapshot 0]).hist ++ [.exec false [.put 2 2]]) 2 :=
  ⟨by decide, by decide⟩

/-- the index in the marker is needed: the same crash with a marker that claims the new index
(= a marker without the check) comes up on the fast path with the OLD file under the NEW
snapshot's index, and the entries in between are never applied -/
theorem stale_marker_witness :
    let n := C22.run {} [.write (.exec false [.put 1 1]), .snapshot 0]
    let hist' : List Cmd := n.hist ++ [.exec false [.put 2 2]]
    let m := installSinkClosed n hist' 2 [(1, 1), (2, 2)]
    n.fp = true ∧ n.fpIdx = 1 ∧
    (openNode (crash m)).live = [(1, 1), (2, 2)] ∧
    (openNode (crash { m with fpIdx := 2 })).live = [(1, 1)] := by
  decide

/-! ### the step order matters, and it is the source's -/

/-- **fingerprint_written_after_persist** (and after the install): the model's snapshot
sequence sets the fingerprint only in a state whose newest installed snapshot is the
database file — -/
theorem fingerprint_written_after_persist (hist : List C22.Op) :
    let n := C22.run {} hist
    let m := snapFingerprint (snapInstall (snapPersist (snapCheckpoint n)))
    m.fp = true ∧ m.snap = some (m.hist.length, m.dbFile) := by
  intro n m
  have g := C22.good_run C22.good_init hist
  have m2 := midSnap_persist g.2.snapPre
  have p3 := postInstall m2
  exact ⟨rfl, p3.snap⟩

/-- — and that is necessary: with the fingerprint written BEFORE the install (the order the
unrepaired code had) a crash between the two restarts on the fast path and applies an
update a second time -/
theorem fingerprint_before_install_witness :
    let n := C22.run {} [.write (.exec false [.put 1 0]), .snapshot 0, .write (.exec false [.add 1 1])]
    let bad := snapFingerprint (snapPersist (snapCheckpoint n))     -- fingerprint, then crash before install
    n.live = [(1, 1)] ∧ (openNode (crash bad)).live = [(1, 2)] := by decide

/-- the restart statement for the UNREPAIRED order (fingerprint written before the install), over
all histories … -/
def restart_exact_with_early_fingerprint_full : Prop :=
  ∀ hist : List C22.Op,
    (openNode (crash (snapFingerprint (snapPersist (snapCheckpoint (C22.run {} hist)))))).live = (C22.run {} hist).live

/-- … is false -/
theorem not_restart_exact_with_early_fingerprint_full : ¬ restart_exact_with_early_fingerprint_full := by
  intro h
  have := h [.write (.exec false [.put 1 0]), .snapshot 0, .write (.exec false [.add 1 1])]
  revert this
  decide

/-- the fast path WITHOUT the comparison of the marker's snapshot index, over all histories and
installs: "a crash after the sink closed restarts with the received database" … -/
def install_crash_exact_ignoring_marker_index_full : Prop :=
  ∀ (hist : List C22.Op) (hist' : List Cmd) (j : Nat) (d : Db), InstallPre (C22.run {} hist) hist' j →
    (openNode (crash { installSinkClosed (C22.run {} hist) hist' j d with fpIdx := j })).live = replay d (hist'.drop j)

/-- … is false: the index in the marker is what makes `restart_exact_after_install_crash` true -/
theorem not_install_crash_exact_ignoring_marker_index_full : ¬ install_crash_exact_ignoring_marker_index_full := by
  intro h
  have := h [.write (.exec false [.put 1 1]), .snapshot 0]
    ((C22.run {} [.write (.exec false [.put 1 1]), .snapshot 0]).hist ++ [.exec false [.put 2 2]]) 2 [(1, 1), (2, 2)]
    ⟨by decide, by decide⟩
  revert this
  decide

/-- **fingerprint_removed_before_swap**: in `fsmRestore`'s step list, no state with the new
database file in place carries a fingerprint written for the old one: the fingerprint is
false from the removal step until the step that writes the new one -/
theorem fingerprint_removed_before_swap (n : Node) (i : Nat) (d : Db) (hs : n.snap = some (i, d)) :
    (partialOpen n 2).fp = false ∧ (partialOpen n 3).fp = false ∧ (partialOpen n 3).dbFile = d ∧
    (partialOpen n 4).fp = true ∧ (partialOpen n 4).dbFile = d := by
  simp [partialOpen, hs, restoreSteps, List.take, List.foldl, restoreStep]

/-- **the fingerprint never lies**, whatever fails: after ANY history — including snapshots whose
Persist failed after the checkpoint and snapshots whose finalizer failed after the install —
a fingerprint that is present, matches the database file AND was written for the newest installed
snapshot (it records that snapshot's index, fix fa61aff) implies that the file IS that snapshot's
database (this is what makes the fast path of `Open` sound); and a marker is never for a snapshot
newer than the newest one -/
theorem fingerprint_matches_newest_snapshot (hist : List C22.Op) :
    let n := C22.run {} hist
    n.fp = true → (∀ i d, n.snap = some (i, d) → n.fpIdx = i → n.dbFile = d) ∧ n.fpIdx ≤ newestIdx n := by
  intro n hf
  have g := C22.good_run C22.good_init hist
  exact ⟨g.1.fp_ok hf g.2.fileok, g.1.fp_le hf⟩

/-- the model's step lists ARE the extracted ones: `Persist`, `Sink.Close`, `fsmRestore`, `Swap` -/
theorem code_snapshot_step_order :
    RqModel.Gen.StoreOrder.persistSteps = persistSteps.map PersistStep.code ∧
    RqModel.Gen.StoreOrder.sinkCloseSteps = sinkCloseSteps.map SinkStep.code ∧
    RqModel.Gen.StoreOrder.fingerprintSteps =
      ["s.db.DBLastModified", "s.db.FileSize", "rsum.CRC32WithTiming", "snapshot.LatestIndexTerm", "fp.WriteToFile", "os.Rename"] ∧
    RqModel.Gen.StoreOrder.fingerprintRecordsSnapshot = ["SnapshotIndex: li", "SnapshotTerm: tm"] := ⟨by decide, by decide, rfl, rfl⟩

theorem code_restore_step_order :
    RqModel.Gen.StoreOrder.restoreSteps = restoreSteps.map RestoreStep.code := by decide

theorem code_open_step_order :
    RqModel.Gen.StoreOrder.openSteps =
      ["snapshot.NewStore", "snapshotStore.Len", "fp.ReadFromFile", "fsutil.ModTimeSize", "snapshotStore.LatestIndexTerm",
       "snapshotStore.LatestIndexTerm", "rlog.New",
       "raft.ReadConfigJSON", "recoverNode", "createDBOnDisk", "os.RemoveAll", "raft.NewRaft"] ∧
    RqModel.Gen.StoreOrder.createDBSteps = ["sql.RemoveFiles", "sql.RemoveWALFiles", "sql.OpenSwappable"] ∧
    RqModel.Gen.StoreOrder.swapSteps = swapSteps.map SwapStep.code ∧
    RqModel.Gen.StoreOrder.openMarkerSnapshotCheck = ["fp.SnapshotIndex != 0", "li != fp.SnapshotIndex || tm != fp.SnapshotTerm"] :=
  ⟨rfl, rfl, by decide, rfl⟩

/-! ### non-vacuity -/

def exHist : List C22.Op :=
  [.write (.exec false [.put 1 0]), .snapshot 0, .write (.exec false [.add 1 1]), .write (.load [(5, 5)]),
   .write (.exec true [.add 5 1]), .snapshot 1]

example : (openNode (crash (stateAt (C22.run {} exHist) (.snapStep 2)))).live = [(5, 6)] := by decide
example : (openNode (crash (stateAt (C22.run {} exHist) (.writeLogged (.exec false [.add 5 10]))))).live = [(5, 16)] := by
  decide
example : (openNode (crash (stateAt (C22.run {} exHist) (.bootSnapStep [(9, 9)] 3)))).live = [(9, 9)] ∧
          (openNode (crash (stateAt (C22.run {} exHist) (.bootSnapStep [(9, 9)] 2)))).live = [(5, 6)] := by decide
/-- both restart paths are exercised by the crash points -/
example : (crash (stateAt (C22.run {} exHist) .rest)).fp = true ∧
          (crash (stateAt (C22.run {} exHist) (.loadHalfSwapped [(3, 3)]))).dbFileOk = false := by decide

end C03

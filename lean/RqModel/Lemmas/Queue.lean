/-
Invariant of the queue LTS (RqModel/Model/Queue.lean) and its preservation by
every step. Used by Props/C24 and Props/C23.
-/
import RqModel.Model.Queue
namespace RqModel.Queue

def optL {α : Type} : Option α → List α
  | some a => [a]
  | none => []

def writesOf : List Item → List W
  | [] => []
  | .w x :: r => x :: writesOf r
  | .marker :: r => writesOf r

theorem writesOf_append (a b : List Item) : writesOf (a ++ b) = writesOf a ++ writesOf b := by
  induction a with
  | nil => rfl
  | cons x xs ih => cases x <;> simp [writesOf, ih]

/-- every request that exists: received by the consumer, in the `sendCh` slot, or held by the blocked loop -/
def reqs (s : S) : List Req := s.emitted ++ optL s.sendCh ++ optL s.sending

/-- every write that was accepted, in pipeline order -/
def allW (s : S) : List W := (reqs s).flatMap (·.members) ++ s.qObjs ++ writesOf s.batchCh

structure WfReq (bs : Int) (r : Req) : Prop where
  nonempty : r.members ≠ []
  objs : r.objs = r.members.flatMap (·.objs)
  flushes : r.flushes = r.members.filterMap (·.flush)
  seqMax : ∀ m ∈ r.members, m.seq ≤ r.seq
  seqMem : ∃ m ∈ r.members, m.seq = r.seq
  bound : 1 ≤ bs → (r.members.length : Int) ≤ bs

structure Inv (s : S) : Prop where
  cons : allW s = s.written
  wf : ∀ r ∈ reqs s, WfReq s.batchSize r
  qlen : 1 ≤ s.batchSize → (s.qObjs.length : Int) < s.batchSize
  sorted : s.written.Pairwise (fun a b => a.seq < b.seq)
  le : ∀ w ∈ s.written, w.seq ≤ s.seqNum
  closed : ∀ f ∈ s.closedFlush, ∃ i r, i ∈ s.closedReqs ∧ s.emitted[i]? = some r ∧ f ∈ r.flushes
  timerInv : s.timer = true → s.qObjs ≠ []

/-! ### mergeQueued -/

theorem foldl_mergeStep (qs : List W) (r0 : Req) :
    let r := qs.foldl mergeStep r0
    r.members = r0.members ++ qs ∧
    r.objs = r0.objs ++ qs.flatMap (·.objs) ∧
    r.flushes = r0.flushes ++ qs.filterMap (·.flush) ∧
    r0.seq ≤ r.seq ∧ (∀ m ∈ qs, m.seq ≤ r.seq) ∧
    (r.seq = r0.seq ∨ ∃ m ∈ qs, m.seq = r.seq) := by
  induction qs generalizing r0 with
  | nil => simp
  | cons q qs ih =>
    have h := ih (mergeStep r0 q)
    simp only [List.foldl_cons]
    obtain ⟨h1, h2, h3, h4, h5, h6⟩ := h
    refine ⟨?_, ?_, ?_, ?_, ?_, ?_⟩
    · rw [h1]; simp [mergeStep]
    · rw [h2]; simp [mergeStep]
    · rw [h3]; cases hq : q.flush <;> simp [mergeStep, hq]
    · have : r0.seq ≤ (mergeStep r0 q).seq := by simp only [mergeStep]; split <;> omega
      omega
    · intro m hm
      rcases List.mem_cons.1 hm with rfl | hm
      · have : m.seq ≤ (mergeStep r0 m).seq := by simp only [mergeStep]; split <;> omega
        omega
      · exact h5 m hm
    · rcases h6 with h6 | ⟨m, hm, e⟩
      · by_cases hlt : r0.seq < q.seq
        · right; refine ⟨q, List.mem_cons_self, ?_⟩
          rw [h6]; simp [mergeStep, hlt]
        · left; rw [h6]; simp [mergeStep, hlt]
      · right; exact ⟨m, List.mem_cons_of_mem _ hm, e⟩

theorem merge_spec (qs : List W) (r : Req) (h : merge qs = some r) :
    qs ≠ [] ∧ r.members = qs ∧ r.objs = qs.flatMap (·.objs) ∧
    r.flushes = qs.filterMap (·.flush) ∧ (∀ m ∈ qs, m.seq ≤ r.seq) ∧ (∃ m ∈ qs, m.seq = r.seq) := by
  cases qs with
  | nil => simp [merge] at h
  | cons q qs' =>
    simp only [merge, Option.some.injEq] at h
    subst h
    have := foldl_mergeStep (q :: qs') { seq := q.seq, objs := [], flushes := [], members := [] }
    simp only [List.nil_append] at this
    obtain ⟨h1, h2, h3, _, h5, h6⟩ := this
    refine ⟨by simp, h1, h2, h3, h5, ?_⟩
    rcases h6 with h6 | h6
    · exact ⟨q, List.mem_cons_self, h6.symm⟩
    · exact h6

theorem merge_none (qs : List W) : merge qs = none ↔ qs = [] := by
  cases qs <;> simp [merge]

theorem merge_wf (bs : Int) (qs : List W) (r : Req) (h : merge qs = some r)
    (hb : 1 ≤ bs → (qs.length : Int) ≤ bs) : WfReq bs r := by
  obtain ⟨h0, h1, h2, h3, h4, h5⟩ := merge_spec qs r h
  exact ⟨by rw [h1]; exact h0, by rw [h1]; exact h2, by rw [h1]; exact h3,
         by rw [h1]; exact h4, by rw [h1]; exact h5, by rw [h1]; exact hb⟩

theorem writeFn_spec (s : S) (hs : s.sending = none) :
    allW (writeFn s) = allW s ∧
    reqs (writeFn s) = reqs s ++ optL (merge s.qObjs) ∧
    (writeFn s).qObjs = [] ∧
    (writeFn s).batchSize = s.batchSize ∧ (writeFn s).written = s.written ∧
    (writeFn s).seqNum = s.seqNum ∧ (writeFn s).closedFlush = s.closedFlush ∧
    (writeFn s).closedReqs = s.closedReqs ∧ (writeFn s).emitted = s.emitted ∧
    (writeFn s).timer = s.timer := by
  unfold writeFn
  cases hm : merge s.qObjs with
  | none =>
    have := (merge_none _).1 hm
    simp [optL, this]
  | some r =>
    obtain ⟨_, h1, _⟩ := merge_spec _ _ hm
    simp [allW, reqs, optL, hs, h1]

/-- `writeFn` on a state that satisfies everything except the strict queue-length bound -/
theorem writeFn_inv (s : S) (hs : s.sending = none)
    (cons : allW s = s.written)
    (wf : ∀ r ∈ reqs s, WfReq s.batchSize r)
    (qlen : 1 ≤ s.batchSize → (s.qObjs.length : Int) ≤ s.batchSize)
    (sorted : s.written.Pairwise (fun a b => a.seq < b.seq))
    (le : ∀ w ∈ s.written, w.seq ≤ s.seqNum)
    (closed : ∀ f ∈ s.closedFlush, ∃ i r, i ∈ s.closedReqs ∧ s.emitted[i]? = some r ∧ f ∈ r.flushes)
    (ht : s.timer = false) :
    Inv (writeFn s) := by
  obtain ⟨h1, h2, h3, h4, h5, h6, h7, h8, h9, h10⟩ := writeFn_spec s hs
  refine ⟨by rw [h1, h5]; exact cons, ?_, ?_, by rw [h5]; exact sorted, by rw [h5, h6]; exact le,
          by rw [h7, h8, h9]; exact closed, by rw [h10, ht]; simp⟩
  · intro r hr
    rw [h2] at hr
    rw [h4]
    rcases List.mem_append.1 hr with hr | hr
    · exact wf r hr
    · cases hm : merge s.qObjs with
      | none => simp [hm, optL] at hr
      | some r' =>
        simp only [hm, optL, List.mem_singleton] at hr
        subst hr
        exact merge_wf _ _ _ hm qlen
  · intro hb; rw [h3, h4]; simp; omega

theorem recv_inv (s s' : S) (h : Inv s) (hr : recv s = some s') : Inv s' := by
  unfold recv at hr
  split at hr
  · cases hr
  · rename_i hcond
    have hsend : s.sending = none := by
      cases hx : s.sending with
      | none => rfl
      | some _ => simp [hx] at hcond
    split at hr
    · cases hr
    · -- marker
      rename_i rest hb
      simp only [Option.some.injEq] at hr
      subst hr
      apply writeFn_inv
      · exact hsend
      · have := h.cons; simp only [allW, reqs, hb, writesOf] at this ⊢; exact this
      · exact h.wf
      · intro hb'; have := h.qlen hb'; simp only; omega
      · exact h.sorted
      · exact h.le
      · exact h.closed
      · rfl
    · rename_i x rest hb
      have hcons : (reqs s).flatMap (·.members) ++ (s.qObjs ++ [x]) ++ writesOf rest = s.written := by
        have := h.cons; simp only [allW, hb, writesOf] at this; simpa using this
      dsimp only at hr
      split at hr
      · rename_i hlen
        simp only [Option.some.injEq] at hr
        subst hr
        apply writeFn_inv
        · exact hsend
        · exact hcons
        · exact h.wf
        · intro _; simp only; omega
        · exact h.sorted
        · exact h.le
        · exact h.closed
        · rfl
      · rename_i hlen
        simp only [Option.some.injEq] at hr
        subst hr
        refine ⟨hcons, h.wf, ?_, h.sorted, h.le, h.closed, ?_⟩
        · intro hb'
          have := h.qlen hb'
          simp only [List.length_append, List.length_singleton] at hlen ⊢
          omega
        · intro _; simp

theorem getElem?_append_some {α : Type} (l : List α) (x : List α) (i : Nat) (a : α) (h : l[i]? = some a) :
    (l ++ x)[i]? = some a := by
  have hi : i < l.length := by
    rcases Nat.lt_or_ge i l.length with h' | h'
    · exact h'
    · rw [List.getElem?_eq_none h'] at h; cases h
  rw [List.getElem?_append_left hi]; exact h

theorem enqueue_inv (s s1 s' : S) (h1 : Inv s1) (he : enqueue s s1 = some s') : Inv s' := by
  unfold enqueue at he
  split at he
  · cases he; exact h1
  · split at he
    · exact recv_inv _ _ h1 he
    · cases he

theorem enq_inv (s s' : S) (o : List Nat) (f : Option Nat) (h : Inv s) (he : enq s o f = some s') : Inv s' := by
  unfold enq at he
  refine enqueue_inv _ _ _ ?_ he
  refine ⟨?_, h.wf, h.qlen, ?_, ?_, h.closed, h.timerInv⟩
  · have := h.cons
    simp only [allW, reqs, writesOf_append, writesOf] at this ⊢
    rw [← this]; simp
  · rw [List.pairwise_append]
    refine ⟨h.sorted, by simp, ?_⟩
    intro a ha b hb
    simp only [List.mem_singleton] at hb
    subst hb
    have := h.le a ha
    simp only; omega
  · intro w hw
    rcases List.mem_append.1 hw with hw | hw
    · have := h.le w hw; simp only; omega
    · simp only [List.mem_singleton] at hw; subst hw; simp

theorem flush_inv (s s' : S) (h : Inv s) (he : flush s = some s') : Inv s' := by
  unfold flush at he
  refine enqueue_inv _ _ _ ?_ he
  refine ⟨?_, h.wf, h.qlen, h.sorted, h.le, h.closed, h.timerInv⟩
  have := h.cons
  simp only [allW, reqs, writesOf_append, writesOf] at this ⊢
  rw [← this]; simp

theorem fire_inv (s s' : S) (h : Inv s) (he : fire s = some s') : Inv s' := by
  unfold fire at he
  split at he
  · cases he
  · rename_i hcond
    have hsend : s.sending = none := by
      cases hx : s.sending with
      | none => rfl
      | some _ => simp [hx] at hcond
    simp only [Option.some.injEq] at he
    subst he
    apply writeFn_inv
    · exact hsend
    · exact h.cons
    · exact h.wf
    · intro hb; have := h.qlen hb; simp only; omega
    · exact h.sorted
    · exact h.le
    · exact h.closed
    · rfl

theorem send_inv (s s' : S) (h : Inv s) (he : send s = some s') : Inv s' := by
  unfold send at he
  split at he
  · rename_i r h1 h2
    cases he
    refine ⟨?_, ?_, h.qlen, h.sorted, h.le, h.closed, h.timerInv⟩
    · have := h.cons; simp only [allW, reqs, h1, h2, optL] at this ⊢; simpa using this
    · intro r' hr'; apply h.wf; simp only [reqs, h1, h2, optL] at hr' ⊢; simpa using hr'
  · cases he

theorem consume_inv (s s' : S) (h : Inv s) (he : consume s = some s') : Inv s' := by
  unfold consume at he
  split at he
  · rename_i r h1
    cases he
    refine ⟨?_, ?_, h.qlen, h.sorted, h.le, ?_, h.timerInv⟩
    · have := h.cons; simp only [allW, reqs, h1, optL] at this ⊢; simpa using this
    · intro r' hr'; apply h.wf; simp only [reqs, h1, optL] at hr' ⊢; simpa using hr'
    · intro f hf
      obtain ⟨i, r', hi, hg, hfr⟩ := h.closed f hf
      exact ⟨i, r', hi, getElem?_append_some _ _ _ _ hg, hfr⟩
  · cases he

theorem closeReq_inv (s s' : S) (i : Nat) (h : Inv s) (he : closeReq s i = some s') : Inv s' := by
  unfold closeReq at he
  split at he
  · rename_i r h1
    cases he
    refine ⟨h.cons, h.wf, h.qlen, h.sorted, h.le, ?_, h.timerInv⟩
    intro f hf
    rcases List.mem_append.1 hf with hf | hf
    · obtain ⟨j, r', hj, hg, hfr⟩ := h.closed f hf
      exact ⟨j, r', List.mem_append_left _ hj, hg, hfr⟩
    · exact ⟨i, r, by simp, h1, hf⟩
  · cases he

theorem stop_inv (s s' : S) (h : Inv s) (he : stop s = some s') : Inv s' := by
  unfold stop at he
  split at he
  · cases he
    exact ⟨h.cons, h.wf, h.qlen, h.sorted, h.le, h.closed, by simp⟩
  · cases he

theorem close_inv (s s' : S) (h : Inv s) (he : close s = some s') : Inv s' := by
  unfold close at he
  cases he
  exact ⟨h.cons, h.wf, h.qlen, h.sorted, h.le, h.closed, h.timerInv⟩

theorem step_inv (s s' : S) (st : Step) (h : Inv s) (he : step s st = some s') : Inv s' := by
  cases st with
  | write o f =>
    simp only [step, write] at he
    split at he
    · cases he
    · exact enq_inv _ _ _ _ h he
  | writeLate o f => exact enq_inv _ _ _ _ h he
  | flush => exact flush_inv _ _ h he
  | recv => exact recv_inv _ _ h he
  | fire => exact fire_inv _ _ h he
  | send => exact send_inv _ _ h he
  | consume => exact consume_inv _ _ h he
  | closeReq i => exact closeReq_inv _ _ i h he
  | close => exact close_inv _ _ h he
  | stop => exact stop_inv _ _ h he

theorem next_inv (s : S) (st : Step) (h : Inv s) : Inv (next s st) := by
  unfold next
  cases he : step s st with
  | none => exact h
  | some s' => exact step_inv _ _ _ h he

theorem run_inv (s : S) (steps : List Step) (h : Inv s) : Inv (run s steps) := by
  induction steps generalizing s with
  | nil => exact h
  | cons st steps ih => exact ih _ (next_inv s st h)

theorem mk_inv (m : Nat) (b t seq0 : Int) : Inv (mk m b t seq0) := by
  refine ⟨rfl, ?_, ?_, ?_, ?_, ?_, ?_⟩ <;> simp [mk, reqs, optL]
  omega
/-- configuration fields -/
def cfg (s : S) : Nat × Int × Int := (s.maxSize, s.batchSize, s.timeout)

theorem writeFn_cfg (s : S) : cfg (writeFn s) = cfg s := by
  unfold writeFn; split <;> rfl

theorem recv_cfg (s s' : S) (h : recv s = some s') : cfg s' = cfg s := by
  unfold recv at h
  split at h
  · cases h
  · split at h
    · cases h
    · cases h; rw [writeFn_cfg]; rfl
    · dsimp only at h
      split at h
      · cases h; rw [writeFn_cfg]; rfl
      · cases h; rfl

theorem enqueue_cfg (s s1 s' : S) (h1 : cfg s1 = cfg s) (h : enqueue s s1 = some s') : cfg s' = cfg s := by
  unfold enqueue at h
  split at h
  · cases h; exact h1
  · split at h
    · rw [recv_cfg _ _ h]; exact h1
    · cases h

theorem step_cfg (s s' : S) (st : Step) (h : step s st = some s') : cfg s' = cfg s := by
  cases st with
  | write o f =>
    simp only [step, write] at h
    split at h
    · cases h
    · unfold enq at h; exact enqueue_cfg _ _ _ (by rfl) h
  | writeLate o f => simp only [step, enq] at h; exact enqueue_cfg _ _ _ (by rfl) h
  | flush => simp only [step, flush] at h; exact enqueue_cfg _ _ _ (by rfl) h
  | recv => exact recv_cfg _ _ h
  | fire =>
    simp only [step, fire] at h
    split at h
    · cases h
    · cases h; rw [writeFn_cfg]; rfl
  | send =>
    simp only [step, send] at h
    split at h
    · cases h; rfl
    · cases h
  | consume =>
    simp only [step, consume] at h
    split at h
    · cases h; rfl
    · cases h
  | closeReq i =>
    simp only [step, closeReq] at h
    split at h
    · cases h; rfl
    · cases h
  | close => simp only [step, close] at h; cases h; rfl
  | stop =>
    simp only [step, stop] at h
    split at h
    · cases h; rfl
    · cases h

theorem run_cfg (s : S) (steps : List Step) : cfg (run s steps) = cfg s := by
  induction steps generalizing s with
  | nil => rfl
  | cons st steps ih =>
    simp only [run, List.foldl_cons]
    refine (ih _).trans ?_
    unfold next
    cases he : step s st with
    | none => rfl
    | some s' => exact step_cfg _ _ _ he


/-- a state reachable from some freshly constructed queue by some finite step sequence -/
def Reachable (s : S) : Prop := ∃ (m : Nat) (b t seq0 : Int) (steps : List Step), s = run (mk m b t seq0) steps

theorem Reachable.inv {s : S} (h : Reachable s) : Inv s := by
  obtain ⟨m, b, t, q, steps, rfl⟩ := h
  exact run_inv _ _ (mk_inv m b t q)

theorem Reachable.next {s : S} (h : Reachable s) (st : Step) : Reachable (next s st) := by
  obtain ⟨m, b, t, q, steps, rfl⟩ := h
  exact ⟨m, b, t, q, steps ++ [st], by simp [run]⟩

theorem Reachable.run {s : S} (h : Reachable s) (steps : List Step) : Reachable (run s steps) := by
  induction steps generalizing s with
  | nil => exact h
  | cons st steps ih => exact ih (h.next st)

end RqModel.Queue

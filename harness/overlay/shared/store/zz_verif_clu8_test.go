package store

// clu8: in-process cluster helper shared by the cluster-level checks C02, C16,
// C32 and C38 (all identifiers are prefixed clu8). Nodes are real Stores on real
// TCP listeners; every node's Layer is a harness-owned wrapper (clu8Layer) that can
// cut, heal and delay links between named nodes, so that faults are injected in
// the network layer the Store is given and nothing in rqlite is replaced.

import (
	"context"
	"errors"
	"fmt"
	"net"
	"os"
	"runtime"
	"strings"
	"sync"
	"testing"
	"time"

	"github.com/hashicorp/raft"
	"github.com/rqlite/rqlite/v10/command/proto"
)

// ---- fault-injecting network --------------------------------------------------

type clu8Net struct {
	mu      sync.RWMutex
	addrOf  map[string]string // node name -> listen address
	nameOf  map[string]string // listen address -> node name
	cut     map[[2]string]bool
	delayNs map[[2]string]int64
}

func clu8NewNet() *clu8Net {
	return &clu8Net{addrOf: map[string]string{}, nameOf: map[string]string{}, cut: map[[2]string]bool{}, delayNs: map[[2]string]int64{}}
}

func clu8Key(a, b string) [2]string {
	if a > b {
		a, b = b, a
	}
	return [2]string{a, b}
}

func (n *clu8Net) register(name, addr string) {
	n.mu.Lock()
	n.addrOf[name] = addr
	n.nameOf[addr] = name
	n.mu.Unlock()
}

// Cut blocks all traffic between a and b (both directions).
func (n *clu8Net) Cut(a, b string)  { n.mu.Lock(); n.cut[clu8Key(a, b)] = true; n.mu.Unlock() }
func (n *clu8Net) Heal(a, b string) { n.mu.Lock(); delete(n.cut, clu8Key(a, b)); n.mu.Unlock() }
func (n *clu8Net) HealAll() {
	n.mu.Lock()
	n.cut = map[[2]string]bool{}
	n.delayNs = map[[2]string]int64{}
	n.mu.Unlock()
}
func (n *clu8Net) Delay(a, b string, d time.Duration) {
	n.mu.Lock()
	n.delayNs[clu8Key(a, b)] = int64(d)
	n.mu.Unlock()
}

// Isolate cuts name from every other registered node.
func (n *clu8Net) Isolate(name string) {
	n.mu.Lock()
	for other := range n.addrOf {
		if other != name {
			n.cut[clu8Key(name, other)] = true
		}
	}
	n.mu.Unlock()
}

func (n *clu8Net) blocked(a, b string) bool {
	n.mu.RLock()
	defer n.mu.RUnlock()
	return n.cut[clu8Key(a, b)]
}

func (n *clu8Net) delay(a, b string) time.Duration {
	n.mu.RLock()
	defer n.mu.RUnlock()
	return time.Duration(n.delayNs[clu8Key(a, b)])
}

var errClu8Cut = errors.New("clu8: link cut")

// clu8Conn is a dial-side connection between two named nodes. Requests go out
// through Write and responses come back through Read on the same connection, so
// checking the link on both blocks both directions.
type clu8Conn struct {
	net.Conn
	nw       *clu8Net
	from, to string
}

func (c *clu8Conn) Write(b []byte) (int, error) {
	if c.nw.blocked(c.from, c.to) {
		c.Conn.Close()
		return 0, errClu8Cut
	}
	if d := c.nw.delay(c.from, c.to); d > 0 {
		time.Sleep(d)
	}
	return c.Conn.Write(b)
}

func (c *clu8Conn) Read(b []byte) (int, error) {
	n, err := c.Conn.Read(b)
	if c.nw.blocked(c.from, c.to) {
		c.Conn.Close()
		return 0, errClu8Cut
	}
	return n, err
}

// clu8Layer implements store.Layer.
type clu8Layer struct {
	ln   net.Listener
	nw   *clu8Net
	name string
}

func clu8NewLayer(nw *clu8Net, name, addr string) (*clu8Layer, error) {
	ln, err := net.Listen("tcp", addr)
	if err != nil {
		return nil, err
	}
	nw.register(name, ln.Addr().String())
	return &clu8Layer{ln: ln, nw: nw, name: name}, nil
}

func (l *clu8Layer) Dial(addr string, timeout time.Duration) (net.Conn, error) {
	l.nw.mu.RLock()
	to := l.nw.nameOf[addr]
	l.nw.mu.RUnlock()
	if to != "" && l.nw.blocked(l.name, to) {
		return nil, errClu8Cut
	}
	c, err := net.DialTimeout("tcp", addr, timeout)
	if err != nil {
		return nil, err
	}
	if to == "" {
		return c, nil
	}
	return &clu8Conn{Conn: c, nw: l.nw, from: l.name, to: to}, nil
}
func (l *clu8Layer) Accept() (net.Conn, error) { return l.ln.Accept() }
func (l *clu8Layer) Close() error              { return l.ln.Close() }
func (l *clu8Layer) Addr() net.Addr            { return l.ln.Addr() }

// ---- nodes and clusters --------------------------------------------------------

type clu8Node struct {
	Name string // stable harness name (n0, n1, ...) = raft ID
	Dir  string
	S    *Store
	Ly   *clu8Layer
	Addr string
	Up   bool
}

type clu8Cluster struct {
	t     *testing.T
	Net   *clu8Net
	Nodes []*clu8Node
	// Tune is applied to every Store before Open (after the default timings below).
	Tune func(s *Store)
	// FastRaft keeps raft's default timings (1 s heartbeat/election, 500 ms leader lease). By default
	// every node gets generous timings so that a loaded machine does not make a healthy leader lose
	// its lease; scenarios that need quick elections set FastRaft and must tolerate leader changes.
	FastRaft bool
}

func clu8NewCluster(t *testing.T) *clu8Cluster {
	return &clu8Cluster{t: t, Net: clu8NewNet()}
}

// NewNode creates and opens a node (not yet member of anything).
func (c *clu8Cluster) NewNode() (*clu8Node, error) {
	name := fmt.Sprintf("n%d", len(c.Nodes))
	dir, err := os.MkdirTemp("", "clu8-"+name+"-")
	if err != nil {
		return nil, err
	}
	n := &clu8Node{Name: name, Dir: dir}
	c.Nodes = append(c.Nodes, n)
	if err := c.open(n, "127.0.0.1:0"); err != nil {
		return nil, err
	}
	return n, nil
}

func (c *clu8Cluster) open(n *clu8Node, addr string) error {
	ly, err := clu8NewLayer(c.Net, n.Name, addr)
	if err != nil {
		return err
	}
	cfg := NewDBConfig()
	s := New(&Config{DBConf: cfg, Dir: n.Dir, ID: n.Name}, ly)
	if s == nil {
		return fmt.Errorf("store.New returned nil")
	}
	if !c.FastRaft {
		s.HeartbeatTimeout, s.ElectionTimeout, s.LeaderLeaseTimeout = 2*time.Second, 2*time.Second, 2*time.Second
	}
	if c.Tune != nil {
		c.Tune(s)
	}
	if err := s.Open(); err != nil {
		ly.Close()
		return err
	}
	n.S, n.Ly, n.Addr, n.Up = s, ly, s.Addr(), true
	return nil
}

// Stop closes a node's store and listener (a crash as far as the others can tell).
func (c *clu8Cluster) Stop(n *clu8Node) {
	if !n.Up {
		return
	}
	n.Up = false
	n.S.Close(true)
	n.Ly.Close()
}

// Restart re-opens a stopped node on its old address (falls back to a fresh port).
func (c *clu8Cluster) Restart(n *clu8Node) error {
	if n.Up {
		return nil
	}
	var err error
	for i := 0; i < 50; i++ {
		if err = c.open(n, n.Addr); err == nil {
			return nil
		}
		time.Sleep(100 * time.Millisecond)
	}
	return err
}

func (c *clu8Cluster) Close() {
	c.Net.HealAll()
	for _, n := range c.Nodes {
		if n.Up {
			n.Up = false
			n.S.Close(true)
			n.Ly.Close()
		}
		os.RemoveAll(n.Dir)
	}
}

// Bootstrap makes n a single-node cluster and waits until it leads.
func (c *clu8Cluster) Bootstrap(n *clu8Node) error {
	if err := n.S.Bootstrap(NewServer(n.Name, n.Addr, true)); err != nil {
		return err
	}
	_, err := n.S.WaitForLeader(120 * time.Second)
	return err
}

// Leader returns the node that currently believes it is leader and whose term is
// the highest among such nodes; it polls up to timeout.
func (c *clu8Cluster) Leader(timeout time.Duration) *clu8Node {
	deadline := time.Now().Add(timeout)
	for {
		var best *clu8Node
		var bestTerm uint64
		for _, n := range c.Nodes {
			if n.Up && n.S.IsLeader() {
				if tm := n.S.raft.CurrentTerm(); best == nil || tm > bestTerm {
					best, bestTerm = n, tm
				}
			}
		}
		if best != nil {
			return best
		}
		if time.Now().After(deadline) {
			return nil
		}
		time.Sleep(20 * time.Millisecond)
	}
}

// clu8LogTypes returns the first index held by the node's log store and the type
// of every entry from there to the last index.
func clu8LogTypes(s *Store) (first uint64, types []string, err error) {
	fi, li, err := s.boltStore.Indexes()
	if err != nil {
		return 0, nil, err
	}
	if fi == 0 || li == 0 {
		return 0, nil, nil
	}
	for i := fi; i <= li; i++ {
		var l raft.Log
		if err := s.boltStore.GetLog(i, &l); err != nil {
			return 0, nil, fmt.Errorf("GetLog(%d): %w", i, err)
		}
		types = append(types, clu8TypeName(l.Type))
	}
	return fi, types, nil
}

func clu8TypeName(t raft.LogType) string {
	switch t {
	case raft.LogCommand:
		return "command"
	case raft.LogNoop:
		return "noop"
	case raft.LogBarrier:
		return "barrier"
	case raft.LogConfiguration:
		return "config"
	}
	return fmt.Sprintf("other%d", t)
}

// clu8Quiesce waits until node n has nothing left to do: its commit index equals
// its last log index and raft has handed every committed entry to the FSM
// goroutine, and stays so for a short settle period. Returns false on timeout.
func clu8Quiesce(n *clu8Node, timeout time.Duration) bool {
	deadline := time.Now().Add(timeout)
	stable := 0
	var last [3]uint64
	for time.Now().Before(deadline) {
		li := n.S.raft.LastIndex()
		ci := n.S.raft.CommitIndex()
		ai := n.S.raft.AppliedIndex()
		cur := [3]uint64{li, ci, ai}
		if li == ci && ci == ai && cur == last {
			stable++
			if stable >= 3 {
				return true
			}
		} else {
			stable = 0
		}
		last = cur
		time.Sleep(10 * time.Millisecond)
	}
	return false
}

// clu8Servers renders a node's view of the raft configuration, sorted by ID.
func clu8Servers(s *Store) (string, []*Server, error) {
	nodes, err := s.Nodes()
	if err != nil {
		return "", nil, err
	}
	var parts []string
	for _, sv := range nodes {
		role := "voter"
		if sv.Suffrage == proto.Suffrage_NON_VOTER {
			role = "nonvoter"
		}
		parts = append(parts, fmt.Sprintf("%s@%s/%s", sv.ID, sv.Addr, role))
	}
	return strings.Join(parts, " "), nodes, nil
}

func clu8Exec(s *Store, stmts ...string) error {
	er := executeRequestFromStrings(stmts, false, false)
	resp, _, err := s.Execute(context.Background(), er)
	if err != nil {
		return err
	}
	for _, r := range resp {
		if e := r.GetError(); e != "" {
			return errors.New(e)
		}
		if er := r.GetE(); er != nil && er.Error != "" {
			return errors.New(er.Error)
		}
	}
	return nil
}

// clu8Query runs one SELECT at the given level and returns rows rendered as JSON.
func clu8Query(s *Store, sql string, lvl proto.ConsistencyLevel, linTimeout time.Duration) (string, proto.ConsistencyLevel, error) {
	qr := queryRequestFromString(sql, false, false, false)
	qr.Level = lvl
	qr.LinearizableTimeout = int64(linTimeout)
	rows, got, _, err := s.Query(context.Background(), qr)
	if err != nil {
		return "", got, err
	}
	if len(rows) == 1 && rows[0].Error != "" {
		return "", got, errors.New(rows[0].Error)
	}
	if len(rows) == 0 {
		return "", got, nil
	}
	return asJSON(rows[0].Values), got, nil
}

// clu8Guard runs f under a watchdog. If f does not finish within d it returns false and a
// (trimmed) dump of all goroutines; f keeps running in the background (its cluster is
// leaked), so that one blocked raft call cannot block a whole check.
func clu8Guard(d time.Duration, f func()) (bool, string) {
	done := make(chan struct{})
	go func() {
		defer close(done)
		f()
	}()
	select {
	case <-done:
		return true, ""
	case <-time.After(d):
		buf := make([]byte, 1<<20)
		n := runtime.Stack(buf, true)
		dump := string(buf[:n])
		if i := strings.Index(dump, "store.(*Store)."); i > 3000 {
			dump = dump[i-3000:]
		}
		if len(dump) > 16000 {
			dump = dump[:16000]
		}
		return false, dump
	}
}

// clu8ExecLeader executes idempotent statements on whoever is leader, retrying while leadership
// is moving (a leader may step down right after a membership change on a loaded machine).
func clu8ExecLeader(c *clu8Cluster, timeout time.Duration, stmts ...string) error {
	deadline := time.Now().Add(timeout)
	var err error
	for {
		l := c.Leader(10 * time.Second)
		if l != nil {
			if err = clu8Exec(l.S, stmts...); err == nil {
				return nil
			}
		} else {
			err = errors.New("no leader")
		}
		if time.Now().After(deadline) {
			return err
		}
		time.Sleep(100 * time.Millisecond)
	}
}

// clu8JoinRetry joins n through whoever is leader, retrying on ErrNotLeader.
func clu8JoinRetry(c *clu8Cluster, n *clu8Node, voter bool, timeout time.Duration) error {
	deadline := time.Now().Add(timeout)
	var err error
	for {
		l := c.Leader(10 * time.Second)
		if l != nil {
			if err = l.S.Join(joinRequest(n.Name, n.Addr, voter)); err == nil {
				return nil
			}
		} else {
			err = errors.New("no leader")
		}
		if time.Now().After(deadline) {
			return err
		}
		time.Sleep(100 * time.Millisecond)
	}
}

// ---- abandoning a case instead of failing the check -------------------------------------

type clu8SkipErr struct{ msg string }

// clu8Skip abandons the running case (see clu8Case): the cluster could not be brought into the
// state the case needs (typically: leadership kept moving on an overloaded machine). That is
// not a verdict on rqlite.
func clu8Skip(format string, a ...interface{}) { panic(clu8SkipErr{fmt.Sprintf(format, a...)}) }

// clu8Transient says whether an error only means "leadership is moving / not settled yet".
func clu8Transient(err error) bool {
	if err == nil {
		return false
	}
	if errors.Is(err, ErrNotLeader) || errors.Is(err, ErrNotReady) || errors.Is(err, raft.ErrLeadershipLost) ||
		errors.Is(err, raft.ErrLeadershipTransferInProgress) || errors.Is(err, raft.ErrEnqueueTimeout) || errors.Is(err, raft.ErrNotLeader) {
		return true
	}
	m := err.Error()
	for _, k := range []string{"not leader", "leadership lost", "leader not found", "timed out enqueuing", "leadership transfer in progress", "no leader"} {
		if strings.Contains(m, k) {
			return true
		}
	}
	return false
}

// clu8Case runs one case (history / scenario) under a watchdog. A case that calls clu8Skip, or
// does not finish within d, is ABANDONED: noted and counted, not a failure. Returns true if the
// case ran to completion. clu8Floor turns "most cases abandoned" into a harness failure.
func clu8Case(rep *vfReport, name string, d time.Duration, f func()) bool {
	rep.Count("cases-started")
	skipped := ""
	fin, dump := clu8Guard(d, func() {
		defer func() {
			if r := recover(); r != nil {
				if se, ok := r.(clu8SkipErr); ok {
					skipped = se.msg
					return
				}
				panic(r)
			}
		}()
		f()
	})
	switch {
	case !fin:
		rep.Note("%s: did not finish within %s and was abandoned; goroutines: %s", name, d, dump)
		rep.Count("cases-abandoned")
		rep.Count("cases-abandoned:" + name + ":watchdog")
		return false
	case skipped != "":
		rep.Note("%s: abandoned: %s", name, skipped)
		rep.Count("cases-abandoned")
		rep.Count("cases-abandoned:" + name)
		return false
	}
	return true
}

// clu8Floor fails the test when more than half of the cases were abandoned: better to say
// "the harness could not run" than to report success having checked nothing.
func clu8Floor(t *testing.T, rep *vfReport) {
	rep.mu.Lock()
	started, abandoned := rep.Distribution["cases-started"], rep.Distribution["cases-abandoned"]
	rep.mu.Unlock()
	if started > 0 && abandoned*2 > started {
		t.Fatalf("harness could not run: %d of %d cases were abandoned (cluster could not be kept stable)", abandoned, started)
	}
}

package throttler

// C36 correspondence + spec oracle: real Throttler vs. Lean model `throttler`
// (RqModel/Model/Throttler.lean).
//
//  A. generated delay tables / release rates and op sequences
//     (Signal/Release/Reset/Level/GetDelay), no timing involved: diffed exactly.
//  B. Delay(ctx): table entries and contexts chosen with a >= 1 s gap between the
//     two racing events, so that the winner of the select is not timing-sensitive.
//     Only the outcome class (nil / context error) is diffed; measured durations are
//     checked against upper bounds with 5 s slack by the oracle, never diffed; a case whose two
//     racing events are less than 500 ms apart is not judged or diffed at all (either outcome is fine).
//  C. idle reset with a real timer: measured monotonic times are sent to the model
//     (touch time = time measured BEFORE the call, so the model's deadline is never
//     later than the real one); the observed reset is sent as a `fire <t>` step the
//     model must accept; reads before the deadline must agree exactly.

import (
	"hash/fnv"
	"context"
	"fmt"
	"strings"
	"sync"
	"testing"
	"time"
)

func c36Table(r *vfRng) []time.Duration {
	n := r.Intn(7)
	ds := make([]time.Duration, 0, n)
	for i := 0; i < n; i++ {
		switch r.Intn(10) {
		case 0:
			ds = append(ds, 0)
		case 1:
			ds = append(ds, time.Duration(-1-r.Intn(5)))
		default:
			ds = append(ds, time.Duration(r.Intn(1000))*time.Millisecond)
		}
	}
	if n > 0 && r.Chance(70) {
		ds[0] = 0
	}
	return ds
}

func c36TableTok(ds []time.Duration) string {
	if len(ds) == 0 {
		return "-"
	}
	var p []string
	for _, d := range ds {
		p = append(p, fmt.Sprint(int64(d)))
	}
	return strings.Join(p, ",")
}

// c36SeqA runs one untimed sequence on the real throttler and returns ops and outputs.
func c36SeqA(rep *vfReport, ds []time.Duration, rate int, idle time.Duration, opsIn []string) (ops, out []string) {
	th := New(ds, rate, idle)
	ops = append(ops, fmt.Sprintf("new %s %d %d", c36TableTok(ds), rate, int64(idle)))
	out = append(out, "ok")
	effDs := ds
	if len(effDs) == 0 {
		effDs = []time.Duration{0}
	}
	effRate := rate
	if effRate < 1 {
		effRate = 1
	}
	maxL := len(effDs) - 1
	replay := func() map[string]interface{} {
		return map[string]interface{}{"delays": c36TableTok(ds), "rate": rate, "idle_ns": int64(idle), "ops": append([]string(nil), ops...)}
	}
	sawPos, sawClamp := false, false
	for i, o := range opsIn {
		before := th.Level()
		switch o {
		case "signal":
			th.Signal()
			ops = append(ops, fmt.Sprintf("signal %d", i))
			out = append(out, "ok")
			want := before + 1
			if want > maxL {
				want = maxL
				sawClamp = true
			}
			if got := th.Level(); got != want {
				rep.Fail("signal-step-wrong", fmt.Sprintf("table %v rate %d: Signal at level %d gave %d, want %d", ds, rate, before, got, want), replay())
			}
		case "release":
			th.Release()
			ops = append(ops, fmt.Sprintf("release %d", i))
			out = append(out, "ok")
			want := before - effRate
			if want < 0 {
				want = 0
				sawClamp = true
			}
			if got := th.Level(); got != want {
				rep.Fail("release-step-wrong", fmt.Sprintf("table %v rate %d: Release at level %d gave %d, want %d", ds, rate, before, got, want), replay())
			}
		case "reset":
			th.Reset()
			ops = append(ops, "reset")
			out = append(out, "ok")
			if got := th.Level(); got != 0 {
				rep.Fail("reset-not-zero", fmt.Sprintf("table %v: Reset at level %d gave %d", ds, before, got), replay())
			}
		case "level":
			ops = append(ops, "level")
			out = append(out, fmt.Sprint(th.Level()))
		case "getdelay":
			ops = append(ops, "getdelay")
			out = append(out, fmt.Sprint(int64(th.GetDelay())))
		}
		l := th.Level()
		if l < 0 || l > maxL {
			rep.Fail("level-out-of-range", fmt.Sprintf("table %v rate %d: level %d outside [0,%d]", ds, rate, l, maxL), replay())
		}
		if l > 0 {
			sawPos = true
		}
		if g := th.GetDelay(); g != effDs[l] {
			rep.Fail("getdelay-not-table-entry", fmt.Sprintf("table %v level %d: GetDelay %v", ds, l, g), replay())
		}
	}
	rep.Case(c36Key(ops), sawPos && sawClamp)
	return
}

type c36DelayCase struct {
	level   int
	ctxKind string // none | cancelled | short | long
}

func TestVerifC36(t *testing.T) {
	rep := vfNewReport("C36", "A: generated delay tables (0-6 entries incl. empty, zero and negative durations), release rates -2..9, idle timeout 0 or 1h, sequences of 5-60 Signal/Release/Reset/Level/GetDelay ops, non-trivial when the level became positive and a Signal or Release was clamped; B: Delay at every table level x context {none, already cancelled, 10ms deadline, 5s deadline, cancelled 10 ms into the delay without / with a far (60 s) deadline}; C: real idle timers (100-160 ms) with re-arming touches, reads before the deadline and the observed reset; C2: signal^k (k > release rate), real 60-120 ms idle reset observed, then one Release, reads, one Signal")
	defer rep.Write()
	r := vfNewRng(36)
	var allOps, allImpl [][]string

	// ---- A: untimed sequences ------------------------------------------------
	nA := vfScale(1500, 250000)
	kinds := []string{"signal", "signal", "signal", "release", "release", "reset", "level", "getdelay"}
	for i := 0; i < nA; i++ {
		ds := c36Table(r)
		rate := r.Intn(12) - 2
		idle := time.Duration(0)
		if r.Chance(30) {
			idle = time.Hour
		}
		n := 5 + r.Intn(vfScale(56, 200))
		seq := make([]string, n)
		bias := r.Intn(3)
		for j := range seq {
			seq[j] = r.Pick(kinds)
			if bias == 1 && r.Chance(40) {
				seq[j] = "signal"
			}
			if bias == 2 && r.Chance(30) {
				seq[j] = "release"
			}
		}
		ops, out := c36SeqA(rep, ds, rate, idle, seq)
		allOps = append(allOps, ops)
		allImpl = append(allImpl, out)
		if len(allOps) >= 4000 { // bound memory in the thorough tier: compare in chunks
			rep.vfCompareSegments("throttler", allOps, allImpl)
			allOps, allImpl = nil, nil
		}
		rep.Count(fmt.Sprintf("A:table-len=%d", len(ds)))
		if rate < 1 {
			rep.Count("A:rate<1")
		}
		if i < 2 {
			rep.Sample(map[string]interface{}{"part": "A", "ops": ops, "impl": out})
		}
	}

	// ---- B: Delay -------------------------------------------------------------
	tableB := []time.Duration{0, 3 * time.Millisecond, 8 * time.Millisecond, 2 * time.Second, 5 * time.Second}
	var casesB []c36DelayCase
	for lvl := range tableB {
		for _, k := range []string{"none", "cancelled", "short", "long", "cancel-midway", "far-deadline-cancel-midway"} {
			d := tableB[lvl]
			if d >= time.Second && (k == "none" || k == "long") {
				continue // would really block for seconds; the timer path is covered by the small entries
			}
			if d < time.Second && (k == "cancel-midway" || k == "far-deadline-cancel-midway") {
				continue // explicit cancellation 10 ms into a multi-second delay only
			}
			casesB = append(casesB, c36DelayCase{lvl, k})
		}
	}
	reps := vfScale(2, 60)
	var mu sync.Mutex
	var wg sync.WaitGroup
	tol := 5 * time.Second // upper bounds only; generous because the machine may be heavily loaded
	const raceMargin = 500 * time.Millisecond
	for rp := 0; rp < reps; rp++ {
		for _, c := range casesB {
			wg.Add(1)
			go func(c c36DelayCase) {
				defer wg.Done()
				th := New(tableB, 1, 0)
				ops := []string{fmt.Sprintf("new %s 1 0", c36TableTok(tableB))}
				out := []string{"ok"}
				for i := 0; i < c.level; i++ {
					th.Signal()
					ops = append(ops, fmt.Sprintf("signal %d", i))
					out = append(out, "ok")
				}
				d := tableB[c.level]
				ctx := context.Background()
				cancel := func() {}
				ctxTok := "-"
				var ctxLeft time.Duration = -1
				switch c.ctxKind {
				case "cancelled":
					ctx, cancel = context.WithCancel(ctx)
					cancel()
					ctxTok, ctxLeft = "0", 0
				case "short":
					ctx, cancel = context.WithTimeout(ctx, 10*time.Millisecond)
					ctxTok, ctxLeft = "10000000", 10*time.Millisecond
				case "long":
					ctx, cancel = context.WithTimeout(ctx, 5*time.Second)
					ctxTok, ctxLeft = "5000000000", 5*time.Second
				case "cancel-midway":
					// no deadline; the caller gives up (cancel func) 10 ms into the delay
					ctx, cancel = context.WithCancel(ctx)
					time.AfterFunc(10*time.Millisecond, cancel)
					ctxTok, ctxLeft = "10000000", 10*time.Millisecond
				case "far-deadline-cancel-midway":
					// a deadline far beyond the delay (request timeout), but the caller goes away
					// (explicit cancellation) 10 ms into the delay: the context ENDS after 10 ms
					var c2 context.CancelFunc
					ctx, c2 = context.WithTimeout(ctx, 60*time.Second)
					inner, c3 := context.WithCancel(ctx)
					ctx = inner
					cancel = func() { c3(); c2() }
					time.AfterFunc(10*time.Millisecond, c3)
					ctxTok, ctxLeft = "10000000", 10*time.Millisecond
				}
				defer cancel()
				t0 := time.Now()
				err := th.Delay(ctx)
				el := time.Since(t0)
				// the property, evaluated on the real behaviour
				var nominal time.Duration
				wantErr := false
				if d == 0 {
					nominal = 0
				} else if ctxLeft >= 0 && ctxLeft < d {
					nominal, wantErr = ctxLeft, true
				} else {
					nominal = d
				}
				replay := map[string]interface{}{"delays": c36TableTok(tableB), "level": c.level, "ctx": c.ctxKind, "elapsed_ns": int64(el), "err": fmt.Sprint(err)}
				// The two racing events (the delay's timer, the context's end) must be far apart for the
				// outcome to be determined: on a loaded machine two events tens of milliseconds apart
				// are effectively simultaneous, and select may then take either (SelectSem leaves a tie
				// open). Closer than raceMargin: accept either outcome, count it, judge and diff nothing.
				if d != 0 && ctxLeft >= 0 {
					gap := d - ctxLeft
					if gap < 0 {
						gap = -gap
					}
					if gap < raceMargin {
						rep.Count("B:either-outcome-accepted(events-closer-than-500ms):" + c.ctxKind)
						return
					}
				}
				if el > d+tol {
					rep.Fail("delay-longer-than-current-delay", fmt.Sprintf("Delay at level %d (%v) ctx=%s blocked %v", c.level, d, c.ctxKind, el), replay)
				}
				if wantErr && el > ctxLeft+tol {
					rep.Fail("delay-ignores-context", fmt.Sprintf("Delay at level %d (%v) ctx=%s (ends after %v) blocked %v", c.level, d, c.ctxKind, ctxLeft, el), replay)
				}
				if wantErr != (err != nil) {
					rep.Fail("delay-wrong-result", fmt.Sprintf("Delay at level %d (%v) ctx=%s returned %v", c.level, d, c.ctxKind, err), replay)
				}
				verdict := "ok"
				if err != nil {
					verdict = "ctx"
				}
				// Only the outcome class is diffed; the model's wait is the nominal
				// min(delay, context remaining) and is never replaced by a measurement.
				// Wall-clock bounds are judged above, with tolerance, by the oracle.
				w := int64(nominal)
				if (err != nil) != wantErr { // unexpected outcome: show what the other branch would be
					if err != nil {
						w = int64(ctxLeft)
					} else {
						w = int64(d)
					}
				}
				ops = append(ops, "delay "+ctxTok)
				out = append(out, fmt.Sprintf("%s %d", verdict, w))
				mu.Lock()
				allOps = append(allOps, ops)
				allImpl = append(allImpl, out)
				mu.Unlock()
				rep.Case(fmt.Sprintf("B:%d:%s:%d", c.level, c.ctxKind, rp), rp == 0)
				rep.Count("B:ctx=" + c.ctxKind)
			}(c)
		}
		wg.Wait()
	}

	// ---- C: idle timer ----------------------------------------------------------
	nC := vfScale(12, 1500)
	par := 6
	sem := make(chan struct{}, par)
	for i := 0; i < nC; i++ {
		idle := time.Duration(100+r.Intn(61)) * time.Millisecond
		nTouch := 1 + r.Intn(3)
		gaps := make([]time.Duration, nTouch)
		kindsC := make([]string, nTouch)
		for j := range gaps {
			gaps[j] = time.Duration(r.Intn(70)) * time.Millisecond
			kindsC[j] = "signal"
			if j > 0 && r.Chance(25) {
				kindsC[j] = "release"
			}
		}
		rounds := 1 + r.Intn(2)
		wg.Add(1)
		sem <- struct{}{}
		go func(i int) {
			defer wg.Done()
			defer func() { <-sem }()
			tableC := []time.Duration{0, time.Millisecond, 2 * time.Millisecond, 3 * time.Millisecond}
			th := New(tableC, 1, idle)
			start := time.Now()
			now := func() int64 { return int64(time.Since(start)) }
			ops := []string{fmt.Sprintf("new %s 1 %d", c36TableTok(tableC), int64(idle))}
			out := []string{"ok"}
			early := 0
			discarded := false
		rounds:
			for rd := 0; rd < rounds; rd++ {
				var lastTouch int64 = -1
				for j := 0; j < nTouch; j++ {
					if j > 0 {
						time.Sleep(gaps[j])
					}
					tb := now()
					if kindsC[j] == "signal" {
						th.Signal()
					} else {
						th.Release()
					}
					ta := now()
					if lastTouch >= 0 && ta >= lastTouch+int64(idle) {
						// the machine was too slow: the previous deadline may have passed before this
						// touch, so what the timer did in between is unknown; drop the whole case
						discarded = true
						break rounds
					}
					lastTouch = tb
					ops = append(ops, fmt.Sprintf("%s %d", kindsC[j], tb))
					out = append(out, "ok")
					lv := th.Level()
					if now() < lastTouch+int64(idle) { // the timer cannot have fired yet
						ops = append(ops, "level")
						out = append(out, fmt.Sprint(lv))
						early++
					}
				}
				// a read half-way to the deadline: level must still be what the touches left
				time.Sleep(idle / 2)
				lv := th.Level()
				if now() < lastTouch+int64(idle) {
					ops = append(ops, "level")
					out = append(out, fmt.Sprint(lv))
					early++
				} else {
					lv = -1 // unknown whether read before or after the reset
				}
				if lv == 0 {
					// level already 0 (releases): the timer's firing cannot be observed; stop here
					break rounds
				}
				// wait for the idle reset
				deadline := time.Now().Add(20 * time.Second)
				fired := false
				for time.Now().Before(deadline) {
					if th.Level() == 0 {
						fired = true
						break
					}
					time.Sleep(2 * time.Millisecond)
				}
				tf := now()
				if !fired {
					rep.Fail("idle-reset-missing", fmt.Sprintf("idle %v: level still %d, %v after the last signal", idle, th.Level(), time.Duration(tf-lastTouch)),
						map[string]interface{}{"ops": ops, "idle_ns": int64(idle)})
					break rounds
				}
				if tf < lastTouch+int64(idle) {
					rep.Fail("idle-reset-early", fmt.Sprintf("idle %v: level returned to 0 only %v after the last signal", idle, time.Duration(tf-lastTouch)),
						map[string]interface{}{"ops": ops, "idle_ns": int64(idle)})
					break rounds
				}
				if tf-lastTouch > int64(idle)+int64(10*time.Second) {
					rep.Fail("idle-reset-late", fmt.Sprintf("idle %v: reset observed %v after the last signal", idle, time.Duration(tf-lastTouch)),
						map[string]interface{}{"ops": ops, "idle_ns": int64(idle)})
				}
				// level 0 was observed, i.e. the timer's Reset has taken effect (it holds t.mu
				// while zeroing the level and stopping the timer)
				time.Sleep(2 * time.Millisecond)
				ops = append(ops, fmt.Sprintf("fire %d", tf), "level")
				out = append(out, "fired", fmt.Sprint(th.Level()))
			}
			if discarded {
				rep.Count("C:discarded-machine-too-slow")
				return
			}
			mu.Lock()
			allOps = append(allOps, ops)
			allImpl = append(allImpl, out)
			mu.Unlock()
			rep.Case(fmt.Sprintf("C:%d", i), early > 0)
			rep.CountN("C:reads-before-deadline", early)
			rep.Count(fmt.Sprintf("C:touches=%d", nTouch))
			if i == 0 {
				rep.Sample(map[string]interface{}{"part": "C", "ops": ops, "impl": out})
			}
		}(i)
	}
	wg.Wait()

	// ---- C2: Release after the idle timeout has already zeroed a high level ----------------
	// signal^k with k > releaseRate, then nothing until the idle reset is observed, then a single
	// Release: the level is 0 and must stay 0 (a Release never raises the level), the delay must
	// be the table's first entry, and the next Signal goes to 1.
	nC2 := vfScale(8, 150)
	for i := 0; i < nC2; i++ {
		idle := time.Duration(60+r.Intn(61)) * time.Millisecond
		rate := 1 + r.Intn(3)
		k := rate + 1 + r.Intn(4)
		wg.Add(1)
		sem <- struct{}{}
		go func(i int) {
			defer wg.Done()
			defer func() { <-sem }()
			table := []time.Duration{0, time.Millisecond, 2 * time.Millisecond, 3 * time.Millisecond, 4 * time.Millisecond, 5 * time.Millisecond, 6 * time.Millisecond, 7 * time.Millisecond, 8 * time.Millisecond}
			th := New(table, rate, idle)
			start := time.Now()
			now := func() int64 { return int64(time.Since(start)) }
			ops := []string{fmt.Sprintf("new %s %d %d", c36TableTok(table), rate, int64(idle))}
			out := []string{"ok"}
			replay := func() map[string]interface{} {
				return map[string]interface{}{"delays": c36TableTok(table), "rate": rate, "idle_ns": int64(idle), "ops": append([]string(nil), ops...)}
			}
			var lastTouch int64
			for j := 0; j < k; j++ {
				tb := now()
				th.Signal()
				if j > 0 && now() >= lastTouch+int64(idle) {
					rep.Count("C2:discarded-machine-too-slow")
					return
				}
				lastTouch = tb
				ops = append(ops, fmt.Sprintf("signal %d", tb))
				out = append(out, "ok")
			}
			fired := false
			for dl := time.Now().Add(20 * time.Second); time.Now().Before(dl); time.Sleep(time.Millisecond) {
				if th.Level() == 0 {
					fired = true
					break
				}
			}
			tf := now()
			if !fired {
				rep.Fail("idle-reset-missing", fmt.Sprintf("idle %v: level still %d after 20 s", idle, th.Level()), replay())
				return
			}
			if tf < lastTouch+int64(idle) {
				rep.Fail("idle-reset-early", fmt.Sprintf("idle %v: level 0 only %v after the last signal", idle, time.Duration(tf-lastTouch)), replay())
				return
			}
			time.Sleep(2 * time.Millisecond)
			ops = append(ops, fmt.Sprintf("fire %d", tf), "level")
			out = append(out, "fired", fmt.Sprint(th.Level()))
			before := th.Level()
			tr := now()
			th.Release()
			after := th.Level()
			ops = append(ops, fmt.Sprintf("release %d", tr), "level", "getdelay")
			out = append(out, "ok", fmt.Sprint(after), fmt.Sprint(int64(th.GetDelay())))
			if after > before {
				rep.Fail("release-raised-the-level", fmt.Sprintf("rate %d, idle %v: %d Signals, idle timeout elapsed (level %d), then ONE Release: level %d, delay %v", rate, idle, k, before, after, th.GetDelay()), replay())
			}
			ts := now()
			th.Signal()
			lv := th.Level()
			if now() < ts+int64(idle) {
				ops = append(ops, fmt.Sprintf("signal %d", ts), "level")
				out = append(out, "ok", fmt.Sprint(lv))
				if lv != before+1 && after <= before {
					rep.Fail("signal-step-wrong", fmt.Sprintf("after idle reset and a Release, Signal gave level %d, want %d", lv, before+1), replay())
				}
			}
			mu.Lock()
			allOps = append(allOps, ops)
			allImpl = append(allImpl, out)
			mu.Unlock()
			rep.Case(fmt.Sprintf("C2:%d:%d", rate, k), true)
			rep.Count("C2:release-after-idle-reset")
		}(i)
	}
	wg.Wait()

	rep.vfCompareSegments("throttler", allOps, allImpl)
}

// c36Key identifies an op sequence by a 64-bit hash (keeps the distinct-case set small).
func c36Key(ops []string) string {
	h := fnv.New64a()
	for _, o := range ops {
		h.Write([]byte(o))
		h.Write([]byte{'\n'})
	}
	return fmt.Sprintf("%016x", h.Sum64())
}

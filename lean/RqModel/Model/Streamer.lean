/-
Model of the snapshot store's stream locking (C11): snapshot/store.go
`LockingStreamer` (`Read`, `Close`, `checkIdle`), `Store.Open`, `Store.Reap`,
`reapLoop`, the short read-locked accessors (`ListAll`, `Len`, `Stats`, ...),
over the `MultiRSW` model of RqModel/Model/Rsync.lean.

Atomicity: `Close` and `checkIdle` run under `l.mu` for their whole body
(LockDiscipline facts) and call `EndRead` inside it, so each is one atomic step
w.r.t. the other; `Read` takes no lock. Time is an explicit `Nat` clock passed
to the steps that look at it. `checkIdle` may be invoked at ANY moment and any
number of times (this over-approximates the timer: it covers a callback that was
already launched when `Close` stopped the timer, and every firing time).

Ghost fields per stream: how many times `EndRead` / the underlying `Close` were
executed on its behalf.
-/
import RqModel.Model.Rsync
namespace RqModel.Streamer
open RqModel.Util RqModel.Rsync

structure Stream where
  timeout  : Nat
  lastRead : Nat
  deadline : Option Nat    -- armed idle timer
  closed   : Bool := false
  timedOut : Bool := false
  endReads : Nat := 0
  rcCloses : Nat := 0
deriving Repr, DecidableEq

structure Sys where
  m : Mrsw := {}
  streams : List Stream := []
  aux : Nat := 0           -- short readers (ListAll/Len/Stats/...) currently inside
  reaping : Nat := 0       -- writers currently reaping
  panicked : Bool := false
deriving Repr

/-- `NewLockingStreamer(rc, str, timeout)` at time `now` -/
def newStream (timeout now : Nat) : Stream :=
  { timeout := timeout, lastRead := now, deadline := if timeout > 0 then some (now + timeout) else none }

/-- `Close` under `l.mu` (first return value: did this call release?) -/
def Stream.close (s : Stream) : Stream × Bool :=
  if s.closed then (s, false)
  else ({ s with closed := true, deadline := none, rcCloses := s.rcCloses + 1, endReads := s.endReads + 1 }, true)

/-- `checkIdle` under `l.mu` at time `now` -/
def Stream.checkIdle (s : Stream) (now : Nat) : Stream × Bool :=
  if s.closed then (s, false)
  else
    let idle := now - s.lastRead
    if idle < s.timeout then ({ s with deadline := some (now + (s.timeout - idle)) }, false)
    else ({ s with timedOut := true, closed := true, deadline := none,
                    rcCloses := s.rcCloses + 1, endReads := s.endReads + 1 }, true)

/-- `Read` returning `n` bytes from the underlying reader at time `now`; `none` = ErrSnapshotReaderTimeout -/
def Stream.read (s : Stream) (now n : Nat) : Option Stream :=
  if s.timedOut then none
  else some (if n > 0 then { s with lastRead := now } else s)

inductive Step where
  | open_ (timeout now : Nat)        -- Store.Open (success path keeps the read lock in a stream)
  | openFail                         -- Store.Open failing after BeginRead (unknown id, ...): deferred EndRead
  | close (i : Nat)                  -- LockingStreamer.Close (may be repeated)
  | checkIdle (i now : Nat)          -- timer callback
  | read (i now n : Nat)
  | auxBegin                         -- ListAll/Len/Stats/...: BeginRead
  | auxBeginBlocking                 -- EnsureVerify/Verify: BeginReadBlocking (waits while a reap runs)
  | auxEnd                           --                        deferred EndRead
  | reapTry                          -- Store.Reap: BeginWrite("reap")
  | reapBlocking                     -- reapLoop: BeginWriteBlocking("reap")
  | reapEnd                          -- deferred EndWrite
deriving Repr, DecidableEq

def note (s : Sys) (r : Res) : Sys := if r = .panic then { s with panicked := true } else s

/-- run `EndRead` if the stream step released -/
def release (s : Sys) (rel : Bool) : Sys :=
  if rel then
    let (m', r) := s.m.endRead
    note { s with m := m' } r
  else s

def step (s : Sys) : Step → Sys
  | .open_ timeout now =>
    match s.m.beginRead with
    | (m', .ok) => { s with m := m', streams := s.streams ++ [newStream timeout now] }
    | (_, _) => s
  | .openFail =>
    match s.m.beginRead with
    | (m', .ok) =>
      let (m'', r) := m'.endRead
      note { s with m := m'' } r
    | (_, _) => s
  | .close i =>
    match s.streams[i]? with
    | some st => let (st', rel) := st.close; release { s with streams := s.streams.set i st' } rel
    | none => s
  | .checkIdle i now =>
    match s.streams[i]? with
    | some st => let (st', rel) := st.checkIdle now; release { s with streams := s.streams.set i st' } rel
    | none => s
  | .read i now n =>
    match s.streams[i]? with
    | some st =>
      match st.read now n with
      | some st' => { s with streams := s.streams.set i st' }
      | none => s
    | none => s
  | .auxBegin =>
    match s.m.beginRead with
    | (m', .ok) => { s with m := m', aux := s.aux + 1 }
    | (_, _) => s
  | .auxBeginBlocking =>
    match s.m.beginReadBlocking with
    | some m' => { s with m := m', aux := s.aux + 1 }
    | none => s
  | .auxEnd =>
    if s.aux > 0 then
      let (m', r) := s.m.endRead
      note { s with m := m', aux := s.aux - 1 } r
    else s
  | .reapTry =>
    match s.m.beginWrite "reap" with
    | (m', .ok) => { s with m := m', reaping := s.reaping + 1 }
    | (_, _) => s
  | .reapBlocking =>
    match s.m.beginWriteBlocking "reap" with
    | some (m', .ok) => { s with m := m', reaping := s.reaping + 1 }
    | _ => s
  | .reapEnd =>
    if s.reaping > 0 then
      let (m', r) := s.m.endWrite
      note { s with m := m', reaping := s.reaping - 1 } r
    else s

def run (s : Sys) (steps : List Step) : Sys := steps.foldl step s

/-- streams that still hold the read lock -/
def openCount (l : List Stream) : Nat := (l.filter (fun st => !st.closed)).length

/-! ### line protocol (component `streamer`)
`reset` → `ok`
`open <timeout> <now>` → `ok <id>` | `conflict` ;  `openfail` → `error` | `conflict`
`close <i>` → `released` | `noop` ;  `idle <i> <now>` → `forced` | `rearmed` | `noop`
`read <i> <now> <n>` → `ok` | `timeout-error`
`aux+` → `ok|conflict` ; `auxb+` → `ok|blocked` ; `aux-` → `ok|noop`
`reap` → `ok|conflict` ; `reapb` → `ok|blocked` ; `reapend` → `ok|noop`
`state` → `<numReaders> <owner-held 0|1> <open streams>` -/

structure DState where
  s : Sys := {}

def init : DState := {}

def step' (d : DState) (line : String) : DState × String :=
  match words line with
  | ["reset"] => ({}, "ok")
  | ["open", t, n] =>
    match t.toNat?, n.toNat? with
    | some t, some n =>
      if (d.s.m.beginRead).2 = .ok then
        ({ s := step d.s (.open_ t n) }, s!"ok {d.s.streams.length}")
      else (d, "conflict")
    | _, _ => (d, "bad-op")
  | ["openfail"] =>
    if (d.s.m.beginRead).2 = .ok then ({ s := step d.s .openFail }, "error") else (d, "conflict")
  | ["close", i] =>
    match i.toNat? with
    | some i =>
      match d.s.streams[i]? with
      | some st => ({ s := step d.s (.close i) }, if st.closed then "noop" else "released")
      | none => (d, "bad-op")
    | none => (d, "bad-op")
  | ["idle", i, n] =>
    match i.toNat?, n.toNat? with
    | some i, some n =>
      match d.s.streams[i]? with
      | some st =>
        ({ s := step d.s (.checkIdle i n) },
          if st.closed then "noop" else if (st.checkIdle n).2 then "forced" else "rearmed")
      | none => (d, "bad-op")
    | _, _ => (d, "bad-op")
  | ["read", i, n, k] =>
    match i.toNat?, n.toNat?, k.toNat? with
    | some i, some n, some k =>
      match d.s.streams[i]? with
      | some st => ({ s := step d.s (.read i n k) }, if st.timedOut then "timeout-error" else "ok")
      | none => (d, "bad-op")
    | _, _, _ => (d, "bad-op")
  | ["aux+"] =>
    if (d.s.m.beginRead).2 = .ok then ({ s := step d.s .auxBegin }, "ok") else (d, "conflict")
  | ["auxb+"] =>
    if d.s.m.readEnabled then ({ s := step d.s .auxBeginBlocking }, "ok") else (d, "blocked")
  | ["aux-"] => if d.s.aux > 0 then ({ s := step d.s .auxEnd }, "ok") else (d, "noop")
  | ["reap"] =>
    if (d.s.m.beginWrite "reap").2 = .ok then ({ s := step d.s .reapTry }, "ok") else (d, "conflict")
  | ["reapb"] =>
    if d.s.m.writeEnabled then ({ s := step d.s .reapBlocking }, "ok") else (d, "blocked")
  | ["reapend"] => if d.s.reaping > 0 then ({ s := step d.s .reapEnd }, "ok") else (d, "noop")
  | ["state"] =>
    (d, s!"{d.s.m.numReaders} {if d.s.m.owner == "" then 0 else 1} {openCount d.s.streams}")
  | _ => (d, "bad-op")

end RqModel.Streamer

namespace RqModel.StreamerDrv
abbrev DState := RqModel.Streamer.DState
def init : DState := RqModel.Streamer.init
def step := RqModel.Streamer.step'
end RqModel.StreamerDrv
--! driver: streamer RqModel.StreamerDrv

/-
C19  Credential decisions follow the documented rule.

Property theorems only. Model: RqModel/Model/Auth.lean (tied to
auth/credential_store.go by the C19 correspondence run).
-/
import RqModel.Model.Auth
import RqModel.Gen.Auth
namespace C19
open RqModel.Auth

/-- `perm` is granted to the entry named `u` (no all-users indirection) -/
def Grants (s : Store) (u perm : String) : Prop :=
  ∃ ps, lookup s.perms u = some ps ∧ perm ∈ ps

theorem hasPerm_iff (s : Store) (u perm : String) :
    hasPerm s u perm = true ↔ Grants s u perm ∨ Grants s AllUsers perm := by
  unfold hasPerm Grants
  cases h1 : lookup s.perms u <;> cases h2 : lookup s.perms AllUsers <;> simp

/-- The documented rule, as an iff over every store, user, password and permission:
authorised exactly when the permission or `all` is granted to all users, or a
non-empty username presented with exactly its stored password holds the
permission or `all`, directly or through the all-users entry. -/
theorem aa_iff (s : Store) (u p perm : String) :
    aa s u p perm = true ↔
      ((Grants s AllUsers perm ∨ Grants s AllUsers PermAll) ∨
       (u ≠ "" ∧ lookup s.store u = some p ∧
         ((Grants s u perm ∨ Grants s AllUsers perm) ∨
          (Grants s u PermAll ∨ Grants s AllUsers PermAll)))) := by
  have hA : ∀ q, hasPerm s AllUsers q = true ↔ Grants s AllUsers q := by
    intro q; rw [hasPerm_iff]; simp
  have hck : check s u p = true ↔ lookup s.store u = some p := by
    unfold check; cases lookup s.store u <;> simp
  unfold aa hasAnyPerm
  simp only [List.any_cons, List.any_nil, Bool.or_false]
  by_cases h1 : (hasPerm s AllUsers perm || hasPerm s AllUsers PermAll) = true
  · simp only [h1, if_true, true_iff]
    left
    rcases (Bool.or_eq_true_iff.1 h1) with h | h
    · exact Or.inl ((hA _).1 h)
    · exact Or.inr ((hA _).1 h)
  · have hn : ¬ (Grants s AllUsers perm ∨ Grants s AllUsers PermAll) := by
      intro h; apply h1
      rcases h with h | h
      · simp [(hA _).2 h]
      · simp [(hA _).2 h]
    simp only [h1, if_false, Bool.false_eq_true]
    by_cases hu : u = ""
    · subst hu; simp [hn]
    · have hu' : (u == "") = false := by simpa using hu
      simp only [hu', Bool.false_eq_true, if_false]
      by_cases hc : check s u p = true
      · simp only [hc, Bool.not_true, Bool.false_eq_true, if_false, Bool.or_eq_true,
          hasPerm_iff]
        have := hck.1 hc
        constructor
        · intro h; exact Or.inr ⟨hu, this, h⟩
        · intro h
          rcases h with h | ⟨_, _, h⟩
          · exact absurd h hn
          · exact h
      · have hc' : check s u p = false := by simpa using hc
        simp only [hc', Bool.not_false, if_true, Bool.false_eq_true, false_iff]
        intro h
        rcases h with h | ⟨_, h, _⟩
        · exact hn h
        · exact hc (hck.2 h)

/-- anonymous callers (empty username) get exactly what all-users grants -/
theorem anonymous_only_all_users (s : Store) (p perm : String) :
    aa s "" p perm = true ↔ (Grants s AllUsers perm ∨ Grants s AllUsers PermAll) := by
  rw [aa_iff]; simp

/-- a wrong password never authorises beyond the all-users grant -/
theorem wrong_password_denied (s : Store) (u p perm : String)
    (hp : lookup s.store u ≠ some p)
    (hall : ¬ (Grants s AllUsers perm ∨ Grants s AllUsers PermAll)) :
    aa s u p perm = false := by
  have := aa_iff s u p perm
  cases h : aa s u p perm
  · rfl
  · rcases this.1 h with h' | ⟨_, h', _⟩
    · exact absurd h' hall
    · exact absurd h' hp

/-! ### last definition wins -/

theorem lookup_build_store (cs : List FullCred) (s : Store) (u : String) :
    lookup (build s cs).store u =
      match cs.reverse.find? (fun c => c.user = u) with
      | some c => some c.pass
      | none => lookup s.store u := by
  induction cs generalizing s with
  | nil => simp [build]
  | cons c cs ih =>
    have : build s (c :: cs) = build (put s c) cs := by simp [build]
    rw [this, ih, List.reverse_cons, List.find?_append]
    cases hf : cs.reverse.find? (fun c => decide (c.user = u)) with
    | some d => simp
    | none =>
      by_cases hcu : c.user = u <;> simp [put, lookup, hcu]

theorem lookup_build_perms (cs : List FullCred) (s : Store) (u : String) :
    lookup (build s cs).perms u =
      match cs.reverse.find? (fun c => c.user = u) with
      | some c => some c.perms
      | none => lookup s.perms u := by
  induction cs generalizing s with
  | nil => simp [build]
  | cons c cs ih =>
    have : build s (c :: cs) = build (put s c) cs := by simp [build]
    rw [this, ih, List.reverse_cons, List.find?_append]
    cases hf : cs.reverse.find? (fun c => decide (c.user = u)) with
    | some d => simp
    | none =>
      by_cases hcu : c.user = u <;> simp [put, lookup, hcu]

/-- When a user is defined more than once, the last definition decides both
password and perms. -/
theorem last_definition_wins (cs : List FullCred) (u : String) (c : FullCred)
    (h : cs.reverse.find? (fun c => c.user = u) = some c) :
    lookup (build {} cs).store u = some c.pass ∧
    lookup (build {} cs).perms u = some c.perms := by
  rw [lookup_build_store, lookup_build_perms, h]; simp

/-- a user that is never defined is unknown to the store -/
theorem undefined_user_unknown (cs : List FullCred) (u : String)
    (h : cs.reverse.find? (fun c => c.user = u) = none) :
    lookup (build {} cs).store u = none ∧ lookup (build {} cs).perms u = none := by
  rw [lookup_build_store, lookup_build_perms, h]; simp [lookup]

/-- An entry's absent keys mean empty: nothing is inherited from earlier entries.
(`load` of a file whose last entry for `u` omits password and perms.) -/
theorem absent_keys_mean_empty (cs : List Cred) (u : String) :
    let s := load {} (cs ++ [⟨some u, none, none⟩])
    lookup s.store u = some "" ∧ lookup s.perms u = some [] := by
  simp only [load, resolve, List.map_append, List.map_cons, List.map_nil]
  rw [lookup_build_store, lookup_build_perms]
  simp [decodeInto, zeroCred]

/-- `last_definition_wins` at the level of `Load` (JSON elements with optional keys): the
last element naming `u` decides, with absent keys meaning empty. -/
theorem last_definition_wins_load (cs : List Cred) (u : String) (c : Cred)
    (h : cs.reverse.find? (fun c => (decodeInto zeroCred c).user = u) = some c) :
    lookup (load {} cs).store u = some (c.pass.getD "") ∧
    lookup (load {} cs).perms u = some (c.perms.getD []) := by
  have hr : (resolve cs).reverse.find? (fun f => f.user = u) = some (decodeInto zeroCred c) := by
    simp only [resolve, ← List.map_reverse, List.find?_map]
    have : ((fun f : FullCred => decide (f.user = u)) ∘ decodeInto zeroCred)
        = (fun c => decide ((decodeInto zeroCred c).user = u)) := rfl
    rw [this, h]; rfl
  have := last_definition_wins (resolve cs) u _ hr
  simpa [load, decodeInto, zeroCred] using this

/-- The decision for a user depends only on that user's LAST definition and on the all-users
entry's last definition: two files that agree on those give the same answer to every query. -/
theorem aa_depends_on_last_definitions (cs ds : List FullCred) (u p perm : String)
    (hu : cs.reverse.find? (fun c => c.user = u) = ds.reverse.find? (fun c => c.user = u))
    (ha : cs.reverse.find? (fun c => c.user = AllUsers) = ds.reverse.find? (fun c => c.user = AllUsers)) :
    aa (build {} cs) u p perm = aa (build {} ds) u p perm := by
  have hs : lookup (build {} cs).store u = lookup (build {} ds).store u := by
    rw [lookup_build_store, lookup_build_store, hu]
  have hpu : lookup (build {} cs).perms u = lookup (build {} ds).perms u := by
    rw [lookup_build_perms, lookup_build_perms, hu]
  have hpa : lookup (build {} cs).perms AllUsers = lookup (build {} ds).perms AllUsers := by
    rw [lookup_build_perms, lookup_build_perms, ha]
  unfold aa hasAnyPerm hasPerm check
  simp only [List.any_cons, List.any_nil, Bool.or_false, hs, hpu, hpa]

/-! ### regenerated facts (auth/credential_store.go, re-extracted on every run) -/

/-- the two constants the model fixes by hand are the source's -/
theorem code_constants :
    RqModel.Gen.Auth.allUsers = some AllUsers ∧ RqModel.Gen.Auth.permAll = some PermAll := by decide

/-- `Load` decodes every element into a fresh `Credential` (the repaired behaviour the model has) -/
theorem code_load_fresh_value : RqModel.Gen.Auth.credDeclaredInsideLoop = some true := by decide

/-- `AA` makes exactly the three calls the model's `aa` makes, in this order: the all-users
grant, the password check, the user's grant (the empty-username guard sits between the
first two and is exercised by the correspondence run). -/
theorem code_aa_calls :
    RqModel.Gen.Auth.aaCalls =
      ["c.HasAnyPerm(AllUsers, perm, PermAll)", "c.Check(username, password)",
       "c.HasAnyPerm(username, perm, PermAll)"] := by decide

/-! ### non-vacuity -/
example :
    let cs : List FullCred := [⟨"a", "p", ["query"]⟩, ⟨"a", "q", ["execute"]⟩]
    aa (build {} cs) "a" "q" "execute" = true ∧ aa (build {} cs) "a" "p" "query" = false ∧
    aa (build {} cs) "a" "q" "query" = false := by decide

example : aa (load {} [⟨some "a", some "p", some ["all"]⟩, ⟨some "*", none, none⟩]) "" "" "backup" = false := by
  decide

end C19

package store

// C31 (part 2) spec oracle + correspondence on the REAL store: a test-owned holder
// takes the snapshot gate (s.snapshotCAS) for a varying time while Close runs.
//
// Observed: whether Close succeeded, when the gate passed to owner "close" (polled),
// when the holder released, when Close returned. The property is evaluated on these
// (with generous slack); only the outcome class is diffed with the model, which is
// evaluated with the call-site arguments regenerated from store/store.go.

import (
	"context"
	"errors"
	"fmt"
	"sync"
	"testing"
	"time"

	"github.com/rqlite/rqlite/v10/internal/rsync"
)

type c31Case struct {
	hold            time.Duration
	forever         bool
	snapshotOnClose bool
	contender       bool // a second operation keeps grabbing the gate (non-retrying Begin, like Snapshot) when it is free
}

func TestVerifC31(t *testing.T) {
	rep := vfNewReport("C31", "real Store.Close(true) on a bootstrapped single-node store while a holder keeps the snapshot gate for {no holder, 0, 2, 30, 120, 400 ms} (thorough: also 1.5, 4, 8 s) or until after Close returned (beyond the limit; once per run); non-trivial when the gate was actually held when Close started")
	defer rep.Write()
	cases := []c31Case{{hold: -1}, {hold: 0}, {hold: 2 * time.Millisecond}, {hold: 30 * time.Millisecond, snapshotOnClose: true},
		{hold: 120 * time.Millisecond}, {hold: 400 * time.Millisecond}, {hold: 100 * time.Millisecond, contender: true}, {forever: true}}
	if vfThorough() {
		cases = append(cases, c31Case{hold: 1500 * time.Millisecond}, c31Case{hold: 4 * time.Second, snapshotOnClose: true}, c31Case{hold: 8 * time.Second}, c31Case{forever: true, snapshotOnClose: true})
	}
	const limit = 10 * time.Second
	promptBound := time.Second     // the property's "promptly"
	slack := 5 * time.Second // measurement slack (polling, scheduling on a heavily loaded machine); the defect this guards against showed a 10 s delay
	var mu sync.Mutex
	var allOps, allImpl [][]string
	var wg sync.WaitGroup
	for ci, c := range cases {
		wg.Add(1)
		go func(ci int, c c31Case) {
			defer wg.Done()
			s, ln := mustNewStore(t)
			defer ln.Close()
			s.NoSnapshotOnClose = !c.snapshotOnClose
			if err := s.Open(); err != nil {
				t.Errorf("open: %v", err)
				return
			}
			if err := s.Bootstrap(NewServer(s.ID(), s.Addr(), true)); err != nil {
				t.Errorf("bootstrap: %v", err)
				return
			}
			if _, err := s.WaitForLeader(20 * time.Second); err != nil {
				t.Errorf("leader: %v", err)
				return
			}
			start := time.Now()
			since := func() time.Duration { return time.Since(start) }
			held := c.forever || c.hold >= 0
			var relBefore, relAfter time.Duration = -1, -1
			var tmu sync.Mutex
			releaseNow := make(chan struct{})
			released := make(chan struct{})
			if held {
				if err := s.snapshotCAS.Begin("verif-holder"); err != nil {
					t.Errorf("holder could not take the gate: %v", err)
					return
				}
				go func() {
					defer close(released)
					if c.forever {
						<-releaseNow
					} else {
						time.Sleep(c.hold)
					}
					tmu.Lock()
					relBefore = since()
					tmu.Unlock()
					s.snapshotCAS.End()
					tmu.Lock()
					relAfter = since()
					tmu.Unlock()
				}()
			} else {
				close(released)
			}
			// contender: takes the gate whenever it finds it free (twice, 30 ms each), as a snapshot would
			contDone := make(chan struct{})
			var lastContRelease time.Duration = -1
			if c.contender {
				go func() {
					defer close(contDone)
					got := 0
					for dl := time.Now().Add(5 * time.Second); got < 2 && time.Now().Before(dl); time.Sleep(500 * time.Microsecond) {
						if s.snapshotCAS.Owner() == "close" {
							return
						}
						if err := s.snapshotCAS.Begin("verif-contender"); err == nil {
							got++
							time.Sleep(30 * time.Millisecond)
							s.snapshotCAS.End()
							tmu.Lock()
							lastContRelease = since()
							tmu.Unlock()
						}
					}
				}()
			} else {
				close(contDone)
			}
			// watcher: when does the gate pass to "close"?
			var acq time.Duration = -1
			stopWatch := make(chan struct{})
			watchDone := make(chan struct{})
			go func() {
				defer close(watchDone)
				for {
					select {
					case <-stopWatch:
						return
					default:
					}
					if s.snapshotCAS.Owner() == "close" {
						tmu.Lock()
						acq = since()
						tmu.Unlock()
						return
					}
					time.Sleep(200 * time.Microsecond)
				}
			}()
			t0 := since()
			err := s.Close(true)
			t1 := since()
			close(stopWatch)
			<-watchDone
			class := "acquired"
			if errors.Is(err, rsync.ErrCASConflictTimeout) {
				class = "timeout"
			} else if err != nil {
				class = "error:" + err.Error()
			}
			if c.forever {
				close(releaseNow)
			}
			<-released
			<-contDone
			tmu.Lock()
			rb, ra, aq := relBefore, relAfter, acq
			if c.contender && lastContRelease > ra && (aq < 0 || lastContRelease <= aq) {
				ra = lastContRelease // the gate became free for good only when the last contender left
				rb = -1
			}
			tmu.Unlock()
			replay := map[string]interface{}{"holder_ms": float64(c.hold) / 1e6, "holder_until_after_close": c.forever, "snapshot_on_close": c.snapshotOnClose, "competing_contender": c.contender,
				"close_result": fmt.Sprint(err), "close_started_ms": float64(t0) / 1e6, "close_returned_ms": float64(t1) / 1e6,
				"holder_released_ms": float64(ra) / 1e6, "gate_passed_to_close_ms": float64(aq) / 1e6}
			relTok := "0"
			conclusive := true
			if c.forever {
				relTok = "-"
				// the operation is still running when the wait limit is reached: Close may fail, but only then
				if class == "acquired" {
					rep.Fail("close-took-a-held-gate", "Close succeeded although the gate holder never released", replay)
				}
				if class == "timeout" && t1-t0 < limit-time.Second {
					rep.Fail("close-gave-up-before-wait-limit", fmt.Sprintf("Close failed after %v although the wait limit is about ten seconds", t1-t0), replay)
				}
				if class == "timeout" && t1-t0 > limit+promptBound+slack+2*time.Second {
					rep.Fail("close-gave-up-late", fmt.Sprintf("Close failed only after %v", t1-t0), replay)
				}
			} else {
				if held {
					relTok = fmt.Sprint(int64(c.hold))
				}
				// On a very slow machine the holder's own release may have slipped to within a second
				// of (or past) the wait limit; then either outcome is legitimate and nothing is judged.
				if held && (ra < 0 || ra > t0+limit-time.Second) {
					conclusive = false
					rep.Count("store:inconclusive-holder-released-too-late-on-this-machine")
				} else if class != "acquired" {
					rep.Fail("close-failed-although-gate-released-within-limit", fmt.Sprintf("holder of %v released at %v: Close (started %v) returned %v after %v", c.hold, ra, t0, err, t1-t0), replay)
				} else {
					from := t0
					if ra > from {
						from = ra
					}
					if aq < 0 {
						aq = t1 // never seen by the poller: it certainly happened before Close returned
					}
					if held && rb >= 0 && aq >= 0 && aq < rb && aq < t1 {
						rep.Fail("close-entered-while-gate-held", fmt.Sprintf("gate owner was \"close\" at %v, holder began releasing at %v", aq, rb), replay)
					}
					if aq-from > promptBound+slack {
						rep.Fail("close-slow-after-gate-release", fmt.Sprintf("holder of %v released at %v (Close started at %v) but Close obtained the gate only at %v: %v later", c.hold, ra, t0, aq, aq-from), replay)
					}
				}
			}
			// leave no store behind
			if err != nil {
				if err2 := s.Close(true); err2 != nil {
					t.Errorf("cleanup close: %v", err2)
				}
			}
			if conclusive {
				mu.Lock()
				allOps = append(allOps, []string{"closeclass " + relTok})
				allImpl = append(allImpl, []string{class})
				mu.Unlock()
			}
			rep.Case(fmt.Sprintf("%d:%v:%v", ci, c.hold, c.forever), held)
			rep.Count("store:" + class)
			rep.Sample(replay)
		}(ci, c)
	}
	wg.Wait()
	c31OverlappingBackups(t, rep)
	rep.vfCompareSegments("casretry", allOps, allImpl)
}

// c31GateWriter is a backup destination that blocks in its first Write until released, and
// says when that Write was entered: it keeps a backup "streaming" for as long as we like.
type c31GateWriter struct {
	entered chan struct{}
	release chan struct{}
	once    sync.Once
	n       int
}

func (w *c31GateWriter) Write(p []byte) (int, error) {
	w.once.Do(func() { close(w.entered); <-w.release })
	w.n += len(p)
	return len(p), nil
}

// c31OverlappingBackups: every operation that relies on the gate must hold it itself. Two
// binary backups overlap; the second must not stream while the first holds the gate, and a
// Close issued while the second streams must wait for it ("waits for that operation").
func c31OverlappingBackups(t *testing.T, rep *vfReport) {
	s, ln := mustNewStore(t)
	defer ln.Close()
	s.NoSnapshotOnClose = true
	if err := s.Open(); err != nil {
		t.Errorf("open: %v", err)
		return
	}
	if err := s.Bootstrap(NewServer(s.ID(), s.Addr(), true)); err != nil {
		t.Errorf("bootstrap: %v", err)
		return
	}
	if _, err := s.WaitForLeader(20 * time.Second); err != nil {
		t.Errorf("leader: %v", err)
		return
	}
	if _, _, err := s.Execute(context.Background(), executeRequestFromStrings([]string{"CREATE TABLE foo (id INTEGER NOT NULL PRIMARY KEY, name TEXT)", `INSERT INTO foo(name) VALUES("fiona")`}, false, false)); err != nil {
		t.Errorf("execute: %v", err)
		return
	}
	_ = s.Snapshot(0) // empty the WAL so that the backups do not need a pre-backup snapshot
	start := time.Now()
	since := func() time.Duration { return time.Since(start) }
	w1 := &c31GateWriter{entered: make(chan struct{}), release: make(chan struct{})}
	w2 := &c31GateWriter{entered: make(chan struct{}), release: make(chan struct{})}
	b1, b2 := make(chan error, 1), make(chan error, 1)
	go func() { b1 <- s.Backup(context.Background(), backupRequestBinary(true, false, false), w1) }()
	select {
	case <-w1.entered:
	case err := <-b1:
		t.Errorf("first backup ended early: %v", err)
		return
	case <-time.After(20 * time.Second):
		t.Errorf("first backup never started streaming")
		return
	}
	replay := map[string]interface{}{"scenario": "backup 1 streams (holds the gate); backup 2 starts; backup 1 finishes; Close(true) while backup 2 streams; backup 2 finishes"}
	go func() { b2 <- s.Backup(context.Background(), backupRequestBinary(true, false, false), w2) }()
	// while backup 1 holds the gate, backup 2 must not stream (it waits for the gate, or fails)
	concurrent := false
	select {
	case <-w2.entered:
		concurrent = true
		rep.Fail("backup-streams-without-holding-the-gate", fmt.Sprintf("a second backup started streaming at %v while the first backup still held the gate (owner %q): it relies on a hold that is not its own", since(), s.snapshotCAS.Owner()), replay)
	case <-time.After(300 * time.Millisecond):
	}
	close(w1.release)
	if err := <-b1; err != nil {
		t.Errorf("first backup: %v", err)
	}
	// backup 2 now gets the gate (unless it failed with the CAS error) and streams
	streaming2 := concurrent
	if !concurrent {
		select {
		case <-w2.entered:
			streaming2 = true
		case err := <-b2:
			rep.Note("overlapping backups: the second backup ended with %v before streaming", err)
		case <-time.After(20 * time.Second):
			rep.Fail("second-backup-never-got-the-gate", "20 s after the first backup ended", replay)
		}
	}
	if streaming2 {
		closed := make(chan error, 1)
		go func() { closed <- s.Close(true) }()
		select {
		case err := <-closed:
			rep.Fail("close-returned-while-backup-in-flight", fmt.Sprintf("Close(true) returned (%v) at %v while the second backup was still streaming; gate owner then %q", err, since(), s.snapshotCAS.Owner()), replay)
			close(w2.release)
			<-b2
		case <-time.After(400 * time.Millisecond):
			tRel := since()
			close(w2.release)
			if err := <-b2; err != nil {
				rep.Note("overlapping backups: second backup returned %v", err)
			}
			select {
			case err := <-closed:
				if err != nil {
					rep.Fail("close-failed-although-gate-released-within-limit", fmt.Sprintf("Close returned %v after the second backup ended", err), replay)
				} else if since()-tRel > 15*time.Second {
					rep.Fail("close-slow-after-gate-release", fmt.Sprintf("Close returned %v after the second backup ended", since()-tRel), replay)
				}
			case <-time.After(30 * time.Second):
				rep.Fail("close-never-returned-after-backup", "30 s after the second backup ended", replay)
			}
		}
	} else {
		_ = s.Close(true)
	}
	rep.Case("overlapping-backups", true)
	rep.Count("store:overlapping-backups-scenario")
}

/-
Helper lemmas about the typed-log / FSM model (Model/LinRead.lean): the
reachable-state invariant, the specification of the backward scan
(`fsmWaitIndex`), and the "pending or reached" progress predicate.
-/
import RqModel.Model.LinRead
namespace RqModel.LinRead

/-! ### list helpers -/

theorem compactLog_length (l : List (Option EType)) (k : Nat) : (compactLog l k).length = l.length := by
  induction l generalizing k with
  | nil => cases k <;> simp [compactLog]
  | cons a l ih =>
    cases k with
    | zero => simp [compactLog]
    | succ k => simp [compactLog, ih]

theorem compactLog_get_ge (l : List (Option EType)) (k j : Nat) (h : k ≤ j) :
    (compactLog l k)[j]? = l[j]? := by
  induction l generalizing k j with
  | nil => cases k <;> simp [compactLog]
  | cons a l ih =>
    cases k with
    | zero => simp [compactLog]
    | succ k =>
      cases j with
      | zero => omega
      | succ j => simp [compactLog]; exact ih k j (by omega)

theorem compactLog_get_lt (l : List (Option EType)) (k j : Nat) (h : j < k) (hj : j < l.length) :
    (compactLog l k)[j]? = some none := by
  induction l generalizing k j with
  | nil => simp at hj
  | cons a l ih =>
    cases k with
    | zero => omega
    | succ k =>
      cases j with
      | zero => simp [compactLog]
      | succ j => simp [compactLog]; exact ih k j (by omega) (by simpa using hj)

theorem padTo_length (l : List (Option EType)) (i : Nat) : (padTo l i).length = max l.length i := by
  simp [padTo]; omega

/-! ### typeAtL under each log transformation -/

theorem typeAtL_zero (l : List (Option EType)) : typeAtL l 0 = none := by simp [typeAtL]

theorem typeAtL_pos (l : List (Option EType)) (j : Nat) (h : 1 ≤ j) : typeAtL l j = l[j - 1]? := by
  simp [typeAtL]; omega

theorem typeAtL_some_pos (l : List (Option EType)) (j : Nat) (x : Option EType)
    (h : typeAtL l j = some x) : 1 ≤ j ∧ j ≤ l.length := by
  by_cases hj : j = 0
  · subst hj; simp [typeAtL] at h
  · rw [typeAtL_pos l j (by omega)] at h
    have := (List.getElem?_eq_some_iff.1 h).1
    omega

theorem typeAtL_in_range (l : List (Option EType)) (j : Nat) (h1 : 1 ≤ j) (h2 : j ≤ l.length) :
    typeAtL l j ≠ none := by
  rw [typeAtL_pos l j h1]
  intro h
  rw [List.getElem?_eq_none_iff] at h
  omega

theorem typeAtL_append_le (l : List (Option EType)) (x : Option EType) (j : Nat) (h : j ≤ l.length) :
    typeAtL (l ++ [x]) j = typeAtL l j := by
  by_cases hj : j = 0
  · subst hj; simp [typeAtL]
  · rw [typeAtL_pos _ j (by omega), typeAtL_pos _ j (by omega), List.getElem?_append_left (by omega)]

theorem typeAtL_append_new (l : List (Option EType)) (x : Option EType) :
    typeAtL (l ++ [x]) (l.length + 1) = some x := by
  rw [typeAtL_pos _ _ (by omega)]; simp

theorem typeAtL_take_le (l : List (Option EType)) (k j : Nat) (h : j ≤ k) :
    typeAtL (l.take k) j = typeAtL l j := by
  by_cases hj : j = 0
  · subst hj; simp [typeAtL]
  · rw [typeAtL_pos _ j (by omega), typeAtL_pos _ j (by omega), List.getElem?_take]
    rw [if_pos (by omega)]

theorem typeAtL_take_gt (l : List (Option EType)) (k j : Nat) (h : k < j) :
    typeAtL (l.take k) j = none := by
  rw [typeAtL_pos _ j (by omega), List.getElem?_take]
  rw [if_neg (by omega)]

theorem typeAtL_padTo_le (l : List (Option EType)) (i j : Nat) (h : j ≤ l.length) :
    typeAtL (padTo l i) j = typeAtL l j := by
  by_cases hj : j = 0
  · subst hj; simp [typeAtL]
  · rw [typeAtL_pos _ j (by omega), typeAtL_pos _ j (by omega)]
    simp only [padTo]
    rw [List.getElem?_append_left (by omega)]

theorem typeAtL_padTo_gt (l : List (Option EType)) (i j : Nat) (h : l.length < j) :
    typeAtL (padTo l i) j = if j ≤ i then some none else none := by
  rw [typeAtL_pos _ j (by omega)]
  simp only [padTo]
  rw [List.getElem?_append_right (by omega), List.getElem?_replicate]
  by_cases hji : j ≤ i
  · rw [if_pos (by omega), if_pos hji]
  · rw [if_neg (by omega), if_neg hji]

theorem typeAtL_compact_gt (l : List (Option EType)) (k j : Nat) (h : k < j) :
    typeAtL (compactLog l k) j = typeAtL l j := by
  rw [typeAtL_pos _ j (by omega), typeAtL_pos _ j (by omega), compactLog_get_ge _ _ _ (by omega)]

theorem typeAtL_compact_le (l : List (Option EType)) (k j : Nat) (h1 : 1 ≤ j) (h : j ≤ k) (hl : j ≤ l.length) :
    typeAtL (compactLog l k) j = some none := by
  rw [typeAtL_pos _ j h1, compactLog_get_lt _ _ _ (by omega) (by omega)]

/-! ### the invariant of reachable states -/

structure Inv (n : Node) : Prop where
  handed_le_commit : n.handed ≤ n.commit
  commit_le_len : n.commit ≤ n.log.length
  fsm_le_handed : n.fsmIdx ≤ n.handed
  tgt_le_fsm : n.tgt ≤ n.fsmIdx
  compacted_handed : ∀ j, typeAtL n.log j = some none → j ≤ n.handed
  cmd_reached : ∀ j, j ≤ n.handed → typeAtL n.log j = some (some .command) → j ≤ n.fsmIdx

theorem inv_init : Inv {} := by
  constructor <;> simp [typeAtL]

theorem applyFsm_cases (n : Node) :
    (n.typeAt (n.handed + 1) = some (some .command) ∧
      applyFsm n = { n with handed := n.handed + 1, fsmIdx := n.handed + 1, tgt := max n.tgt (n.handed + 1) }) ∨
    (n.typeAt (n.handed + 1) ≠ some (some .command) ∧
      applyFsm n = { n with handed := n.handed + 1 }) := by
  unfold applyFsm
  split
  · left; rename_i h; exact ⟨h, rfl⟩
  · right; rename_i h; exact ⟨h, rfl⟩

theorem typeAtL_some_none_of_drop (l : List (Option EType)) (li j : Nat)
    (hall : (l.drop li).all (fun x => x.isSome) = true) (h : typeAtL l j = some none) : j ≤ li := by
  apply Nat.le_of_not_lt
  intro hlt
  have hb := typeAtL_some_pos _ _ _ h
  rw [typeAtL_pos l j hb.1] at h
  have hm : (none : Option EType) ∈ l.drop li := by
    rw [List.mem_iff_getElem?]
    refine ⟨j - 1 - li, ?_⟩
    rw [List.getElem?_drop]
    have : li + (j - 1 - li) = j - 1 := by omega
    rw [this]; exact h
  have := (List.all_eq_true.1 hall) none hm
  simp at this

theorem inv_raw (n : Node) (e : Ev) (hen : e.enabled n = true) (h : Inv n) : Inv (applyRaw n e) := by
  obtain ⟨h1, h2, h3, h6, h4, h5⟩ := h
  cases e with
  | append t =>
    simp only [applyRaw]
    refine ⟨h1, ?_, h3, h6, ?_, ?_⟩
    · simp only [List.length_append, List.length_singleton]; omega
    · intro j hj
      simp only at hj ⊢
      by_cases hle : j ≤ n.log.length
      · rw [typeAtL_append_le _ _ _ hle] at hj; exact h4 j hj
      · have hb := typeAtL_some_pos _ _ _ hj
        simp only [List.length_append, List.length_singleton] at hb
        have : j = n.log.length + 1 := by omega
        subst this
        rw [typeAtL_append_new] at hj; cases hj
    · intro j hj hc
      simp only at hj hc ⊢
      rw [typeAtL_append_le _ _ _ (by omega)] at hc
      exact h5 j hj hc
  | trunc k =>
    simp only [Ev.enabled, decide_eq_true_eq] at hen
    simp only [applyRaw]
    refine ⟨h1, ?_, h3, h6, ?_, ?_⟩
    · simp only [List.length_take]; omega
    · intro j hj
      simp only at hj ⊢
      by_cases hle : j ≤ k
      · rw [typeAtL_take_le _ _ _ hle] at hj; exact h4 j hj
      · rw [typeAtL_take_gt _ _ _ (by omega)] at hj; cases hj
    · intro j hj hc
      simp only at hj hc ⊢
      rw [typeAtL_take_le _ _ _ (by omega)] at hc
      exact h5 j hj hc
  | commit c =>
    simp only [Ev.enabled, decide_eq_true_eq] at hen
    simp only [applyRaw]
    exact ⟨by simp only; omega, by simp only; omega, h3, h6, h4, h5⟩
  | fsm =>
    simp only [Ev.enabled, decide_eq_true_eq] at hen
    simp only [applyRaw]
    rcases applyFsm_cases n with ⟨hty, heq⟩ | ⟨hty, heq⟩
    · rw [heq]
      refine ⟨by simp only; omega, h2, by simp only; omega, by simp only; omega, ?_, ?_⟩
      · intro j hj
        have := h4 j hj
        simp only; omega
      · intro j hj hc
        simp only at hj hc ⊢
        omega
    · rw [heq]
      refine ⟨by simp only; omega, h2, by simp only; omega, h6, ?_, ?_⟩
      · intro j hj
        have := h4 j hj
        simp only; omega
      · intro j hj hc
        simp only at hj hc ⊢
        by_cases hje : j = n.handed + 1
        · subst hje; exact absurd hc hty
        · exact h5 j (by omega) hc
  | restore i =>
    simp only [Ev.enabled, decide_eq_true_eq] at hen
    simp only [applyRaw]
    refine ⟨by simp only; omega, ?_, by simp only; omega, by simp only; omega, ?_, ?_⟩
    · simp only [padTo_length]; omega
    · intro j hj
      simp only at hj ⊢
      by_cases hle : j ≤ n.log.length
      · rw [typeAtL_padTo_le _ _ _ hle] at hj
        have := h4 j hj
        omega
      · rw [typeAtL_padTo_gt _ _ _ (by omega)] at hj
        by_cases hji : j ≤ i
        · exact hji
        · rw [if_neg hji] at hj; cases hj
    · intro j hj _
      simp only at hj ⊢
      omega
  | compact k =>
    simp only [Ev.enabled, decide_eq_true_eq] at hen
    simp only [applyRaw]
    refine ⟨h1, ?_, h3, h6, ?_, ?_⟩
    · simp only [compactLog_length]; exact h2
    · intro j hj
      simp only at hj ⊢
      by_cases hjk : j ≤ k
      · omega
      · rw [typeAtL_compact_gt _ _ _ (by omega)] at hj
        exact h4 j hj
    · intro j hj hc
      simp only at hj hc ⊢
      by_cases hjk : j ≤ k
      · have hb := typeAtL_some_pos _ _ _ hc
        rw [compactLog_length] at hb
        rw [typeAtL_compact_le _ _ _ hb.1 hjk hb.2] at hc
        cases hc
      · rw [typeAtL_compact_gt _ _ _ (by omega)] at hc
        exact h5 j hj hc
  | reopen li =>
    simp only [Ev.enabled, Bool.and_eq_true, decide_eq_true_eq] at hen
    obtain ⟨hli, hall⟩ := hen
    simp only [applyRaw]
    refine ⟨by simp only; omega, by simp only; omega, by simp only; omega, by simp only; omega, ?_, ?_⟩
    · intro j hj
      simp only at hj ⊢
      exact typeAtL_some_none_of_drop _ _ _ hall hj
    · intro j hj _
      simp only at hj ⊢
      exact hj

theorem inv_step (n : Node) (e : Ev) (h : Inv n) : Inv (applyEv n e) := by
  unfold applyEv
  by_cases hen : e.enabled n = true
  · rw [if_pos hen]; exact inv_raw n e hen h
  · rw [if_neg hen]; exact h

theorem inv_run (n : Node) (es : List Ev) (h : Inv n) : Inv (run n es) := by
  induction es generalizing n with
  | nil => exact h
  | cons e es ih => exact ih _ (inv_step n e h)

/-! ### specification of the backward scan -/

/-- (A) the scan result is either already reached or a command entry at or below `i` -/
theorem scan_spec_A (n : Node) (i : Nat) (hi : i ≤ n.log.length) :
    scan n i ≤ n.fsmIdx ∨ (scan n i ≤ i ∧ n.typeAt (scan n i) = some (some .command)) := by
  induction i with
  | zero => left; simp [scan]
  | succ i ih =>
    unfold scan
    by_cases hle : i + 1 ≤ n.fsmIdx
    · rw [if_pos hle]; left; exact hle
    · rw [if_neg hle]
      have hne := typeAtL_in_range n.log (i + 1) (by omega) hi
      have ih' := ih (by omega)
      cases hty : n.typeAt (i + 1) with
      | none => exact absurd hty hne
      | some o =>
        cases o with
        | none => left; exact Nat.le_refl _
        | some t =>
          cases t with
          | command => right; exact ⟨Nat.le_refl _, hty⟩
          | config =>
            show scan n i ≤ n.fsmIdx ∨ (scan n i ≤ i + 1 ∧ n.typeAt (scan n i) = some (some .command))
            rcases ih' with h | ⟨h, h'⟩
            · exact Or.inl h
            · exact Or.inr ⟨by omega, h'⟩
          | noop =>
            show scan n i ≤ n.fsmIdx ∨ (scan n i ≤ i + 1 ∧ n.typeAt (scan n i) = some (some .command))
            rcases ih' with h | ⟨h, h'⟩
            · exact Or.inl h
            · exact Or.inr ⟨by omega, h'⟩
          | barrier =>
            show scan n i ≤ n.fsmIdx ∨ (scan n i ≤ i + 1 ∧ n.typeAt (scan n i) = some (some .command))
            rcases ih' with h | ⟨h, h'⟩
            · exact Or.inl h
            · exact Or.inr ⟨by omega, h'⟩

/-- (B) every command entry at or below `i` is at or below the scan result, or has
already been processed by the FSM goroutine -/
theorem scan_spec_B (n : Node) (hinv : Inv n) (i : Nat) (hi : i ≤ n.log.length) :
    ∀ j, j ≤ i → n.typeAt j = some (some .command) → j ≤ scan n i ∨ j ≤ n.handed := by
  induction i with
  | zero =>
    intro j hj hc
    have : j = 0 := by omega
    subst this; simp [Node.typeAt, typeAtL] at hc
  | succ i ih =>
    intro j hj hc
    unfold scan
    by_cases hle : i + 1 ≤ n.fsmIdx
    · rw [if_pos hle]; left; exact hj
    · rw [if_neg hle]
      have hne := typeAtL_in_range n.log (i + 1) (by omega) hi
      by_cases hje : j = i + 1
      · subst hje; rw [hc]; left; exact Nat.le_refl _
      · have hj' : j ≤ i := by omega
        have ih' := ih (by omega) j hj' hc
        cases hty : n.typeAt (i + 1) with
        | none => exact absurd hty hne
        | some o =>
          cases o with
          | none =>
            right
            have := hinv.compacted_handed (i + 1) hty
            omega
          | some t =>
            cases t with
            | command => left; show j ≤ i + 1; omega
            | config => exact ih'
            | noop => exact ih'
            | barrier => exact ih'

/-! ### progress: an index is reached, or is a committed command the FSM has not got to yet -/

def Pending (n : Node) (r : Nat) : Prop :=
  r ≤ n.tgt ∨ (n.handed < r ∧ r ≤ n.commit ∧ n.typeAt r = some (some .command))

def NotReopen (e : Ev) : Prop := ∀ li, e ≠ .reopen li

/-- without a process restart the counters never decrease -/
theorem mono_step (n : Node) (hinv : Inv n) (e : Ev) (hne : NotReopen e) :
    n.handed ≤ (applyEv n e).handed ∧ n.commit ≤ (applyEv n e).commit ∧
    n.fsmIdx ≤ (applyEv n e).fsmIdx ∧ n.tgt ≤ (applyEv n e).tgt := by
  have h3 := hinv.fsm_le_handed
  unfold applyEv
  by_cases hen : e.enabled n = true
  · rw [if_pos hen]
    cases e with
    | append t => simp [applyRaw]
    | trunc k => simp [applyRaw]
    | commit c => simp only [Ev.enabled, decide_eq_true_eq] at hen; simp only [applyRaw]; omega
    | fsm =>
      simp only [applyRaw]
      rcases applyFsm_cases n with ⟨_, heq⟩ | ⟨_, heq⟩ <;> rw [heq] <;> simp only <;> omega
    | restore i => simp only [Ev.enabled, decide_eq_true_eq] at hen; simp only [applyRaw]; omega
    | compact k => simp [applyRaw]
    | reopen li => exact absurd rfl (hne li)
  · rw [if_neg hen]; omega

theorem noReopen_cons {e : Ev} {es : List Ev} (h : NoReopen (e :: es)) : NotReopen e ∧ NoReopen es :=
  ⟨fun li => h e (by simp) li, fun e' he' => h e' (by simp [he'])⟩

theorem mono_run (n : Node) (hinv : Inv n) (es : List Ev) (hno : NoReopen es) :
    n.handed ≤ (run n es).handed ∧ n.commit ≤ (run n es).commit ∧
    n.fsmIdx ≤ (run n es).fsmIdx ∧ n.tgt ≤ (run n es).tgt := by
  induction es generalizing n with
  | nil => simp [run]
  | cons e es ih =>
    obtain ⟨h1, h2⟩ := noReopen_cons hno
    have a := mono_step n hinv e h1
    have b := ih (applyEv n e) (inv_step n e hinv) h2
    simp only [run, List.foldl_cons] at b ⊢
    omega

theorem pending_step (n : Node) (e : Ev) (hinv : Inv n) (hne : NotReopen e) (r : Nat) (h : Pending n r) :
    Pending (applyEv n e) r := by
  rcases h with h | ⟨ha, hb, hc⟩
  · left; have := (mono_step n hinv e hne).2.2.2; omega
  unfold applyEv
  by_cases hen' : e.enabled n = false
  · rw [if_neg (by simp [hen'])]; exact Or.inr ⟨ha, hb, hc⟩
  have hen : e.enabled n = true := by simpa using hen'
  rw [if_pos hen]
  have h2 := hinv.commit_le_len
  have h1 := hinv.handed_le_commit
  have hr1 : 1 ≤ r := by omega
  simp only [Node.typeAt] at hc
  cases e with
  | append t =>
    right
    simp only [applyRaw, Node.typeAt]
    exact ⟨ha, hb, by rw [typeAtL_append_le _ _ _ (by omega)]; exact hc⟩
  | trunc k =>
    simp only [Ev.enabled, decide_eq_true_eq] at hen
    right
    simp only [applyRaw, Node.typeAt]
    exact ⟨ha, hb, by rw [typeAtL_take_le _ _ _ (by omega)]; exact hc⟩
  | commit c =>
    simp only [Ev.enabled, decide_eq_true_eq] at hen
    right
    simp only [applyRaw, Node.typeAt]
    exact ⟨ha, by omega, hc⟩
  | fsm =>
    simp only [applyRaw]
    rcases applyFsm_cases n with ⟨hty, heq⟩ | ⟨hty, heq⟩
    · rw [heq]
      by_cases hre : r = n.handed + 1
      · left; simp only; omega
      · right; simp only [Node.typeAt]; exact ⟨by omega, hb, hc⟩
    · rw [heq]
      by_cases hre : r = n.handed + 1
      · subst hre; exact absurd hc hty
      · right; simp only [Node.typeAt]; exact ⟨by omega, hb, hc⟩
  | restore i =>
    simp only [Pending, applyRaw, Node.typeAt]
    by_cases hri : r ≤ i
    · left; omega
    · right
      exact ⟨by omega, by omega, by rw [typeAtL_padTo_le _ _ _ (by omega)]; exact hc⟩
  | compact k =>
    simp only [Ev.enabled, decide_eq_true_eq] at hen
    right
    simp only [applyRaw, Node.typeAt]
    exact ⟨ha, hb, by rw [typeAtL_compact_gt _ _ _ (by omega)]; exact hc⟩
  | reopen li => exact absurd rfl (hne li)

theorem pending_run (n : Node) (es : List Ev) (hinv : Inv n) (hno : NoReopen es) (r : Nat) (h : Pending n r) :
    Pending (run n es) r := by
  induction es generalizing n with
  | nil => exact h
  | cons e es ih =>
    obtain ⟨h1, h2⟩ := noReopen_cons hno
    exact ih _ (inv_step n e hinv) h2 (pending_step n e hinv h1 r h)

/-! ### the ReadyTarget agrees with the FSM index once something was applied in this process -/

theorem synced_step (n : Node) (hinv : Inv n) (e : Ev) (hne : NotReopen e) (hs : Synced n) :
    Synced (applyEv n e) := by
  have h3 := hinv.fsm_le_handed
  unfold Synced at *
  unfold applyEv
  by_cases hen : e.enabled n = true
  · rw [if_pos hen]
    cases e with
    | append t => simpa [applyRaw] using hs
    | trunc k => simpa [applyRaw] using hs
    | commit c => simpa [applyRaw] using hs
    | fsm =>
      simp only [applyRaw]
      rcases applyFsm_cases n with ⟨_, heq⟩ | ⟨_, heq⟩ <;> rw [heq] <;> simp only <;> omega
    | restore i => simp only [Ev.enabled, decide_eq_true_eq] at hen; simp only [applyRaw]; omega
    | compact k => simpa [applyRaw] using hs
    | reopen li => exact absurd rfl (hne li)
  · rw [if_neg hen]; exact hs

theorem synced_run (n : Node) (hinv : Inv n) (es : List Ev) (hno : NoReopen es) (hs : Synced n) :
    Synced (run n es) := by
  induction es generalizing n with
  | nil => exact hs
  | cons e es ih =>
    obtain ⟨h1, h2⟩ := noReopen_cons hno
    exact ih _ (inv_step n e hinv) h2 (synced_step n hinv e h1 hs)

/-- applying a command entry (what a strong read is) or installing a snapshot synchronises them,
whatever happened before — in particular after a restart -/
theorem synced_after_command (n : Node) (hinv : Inv n) (hen : Ev.fsm.enabled n = true)
    (hc : n.typeAt (n.handed + 1) = some (some .command)) : Synced (applyEv n .fsm) := by
  have h3 := hinv.fsm_le_handed
  have h6 := hinv.tgt_le_fsm
  unfold Synced applyEv
  rw [if_pos hen]
  simp only [applyRaw]
  rcases applyFsm_cases n with ⟨_, heq⟩ | ⟨hty, _⟩
  · rw [heq]; simp only; omega
  · exact absurd hc hty

theorem synced_after_restore (n : Node) (hinv : Inv n) (i : Nat) (hen : (Ev.restore i).enabled n = true) :
    Synced (applyEv n (.restore i)) := by
  have h3 := hinv.fsm_le_handed
  have h6 := hinv.tgt_le_fsm
  simp only [Ev.enabled, decide_eq_true_eq] at hen
  unfold Synced applyEv
  simp only [Ev.enabled, hen, decide_true, if_true, applyRaw]
  omega

/-- **Safety of the wait.** If the subscription has fired, every command entry at or below the
read index (as seen by the scan) has been processed by the FSM goroutine. -/
theorem wait_ok_applied (n : Node) (hinv : Inv n) (es1 es2 : List Ev)
    (hno1 : NoReopen es1) (hno2 : NoReopen es2)
    (hr : reached (run (run n es1) es2) (targetAt (run n es1) n.commit) = true) :
    ∀ j, j ≤ n.commit → (run n es1).typeAt j = some (some .command) → j ≤ (run (run n es1) es2).handed := by
  intro j hj hc
  have hinv1 : Inv (run n es1) := inv_run _ es1 hinv
  have hinv2 : Inv (run (run n es1) es2) := inv_run _ es2 hinv1
  have hm1 := mono_run n hinv es1 hno1
  have hm2 := mono_run _ hinv1 es2 hno2
  have hlen := hinv1.commit_le_len
  have ht : targetAt (run n es1) n.commit ≤ (run (run n es1) es2).tgt := by simpa [reached] using hr
  have h3 := hinv2.fsm_le_handed
  have h6 := hinv2.tgt_le_fsm
  rcases scan_spec_B (run n es1) hinv1 n.commit (by omega) j hj hc with hb | hb
  · unfold targetAt at ht; omega
  · omega

/-- draining hands every committed entry to the FSM -/
theorem run_fsm_replicate (n : Node) (k : Nat) (h : n.handed + k ≤ n.commit) :
    (run n (List.replicate k Ev.fsm)).handed = n.handed + k ∧
    (run n (List.replicate k Ev.fsm)).commit = n.commit := by
  induction k generalizing n with
  | zero => simp [run]
  | succ k ih =>
    have hen : Ev.fsm.enabled n = true := by simp [Ev.enabled]; omega
    have hs : (applyEv n .fsm).handed = n.handed + 1 ∧ (applyEv n .fsm).commit = n.commit := by
      unfold applyEv; rw [if_pos hen]; simp only [applyRaw]
      rcases applyFsm_cases n with ⟨_, heq⟩ | ⟨_, heq⟩ <;> rw [heq] <;> simp
    have := ih (applyEv n .fsm) (by omega)
    simp only [run, List.replicate_succ, List.foldl_cons] at this ⊢
    omega

theorem drain_handed (n : Node) (h : n.handed ≤ n.commit) : (drain n).handed = n.commit := by
  have := (run_fsm_replicate n (n.commit - n.handed) (by omega)).1
  unfold drain; omega

theorem noReopen_replicate_fsm (k : Nat) : NoReopen (List.replicate k Ev.fsm) := by
  intro e he li
  rw [List.mem_replicate] at he
  rw [he.2]; exact fun h => by cases h

end RqModel.LinRead

// extract: the translator of tie A. It parses /repo's CURRENT sources with
// go/parser + go/ast only (no type checking, no dependencies) and emits Lean
// *data* (never logic) into lean/RqModel/Gen/<Name>.lean. Every fact is an
// Option or a list: when the construct a fact is read from is not found, the
// fact is `none`/empty, which makes the dependent theorem fail instead of
// silently passing. Files are written only when their content changes.
//
// Adding facts: create facts_<name>.go with an init() that calls
// register("<LeanModuleName>", func(x *X) { x.Def(...) ... }).
package main

import (
	"flag"
	"fmt"
	"go/ast"
	"go/parser"
	"go/printer"
	"go/token"
	"os"
	"path/filepath"
	"sort"
	"strconv"
	"strings"
)

type X struct {
	repo string
	fset *token.FileSet
	pkgs map[string]map[string]*ast.File // dir -> filename -> file
	out  *strings.Builder
}

var registry = map[string]func(*X){}

func register(name string, f func(*X)) { registry[name] = f }

// Pkg parses (once) all non-test .go files in repo-relative dir.
func (x *X) Pkg(dir string) map[string]*ast.File {
	if p, ok := x.pkgs[dir]; ok {
		return p
	}
	files := map[string]*ast.File{}
	ents, _ := os.ReadDir(filepath.Join(x.repo, dir))
	for _, e := range ents {
		n := e.Name()
		if !strings.HasSuffix(n, ".go") || strings.HasSuffix(n, "_test.go") {
			continue
		}
		f, err := parser.ParseFile(x.fset, filepath.Join(x.repo, dir, n), nil, parser.ParseComments)
		if err == nil {
			files[n] = f
		}
	}
	x.pkgs[dir] = files
	return files
}

// Func finds a function or method. recv is "" for functions, else the receiver
// type name without pointer/star (e.g. "Store").
func (x *X) Func(dir, recv, name string) *ast.FuncDecl {
	for _, f := range x.Pkg(dir) {
		for _, d := range f.Decls {
			fd, ok := d.(*ast.FuncDecl)
			if !ok || fd.Name.Name != name {
				continue
			}
			if recv == "" && fd.Recv == nil {
				return fd
			}
			if recv != "" && fd.Recv != nil && len(fd.Recv.List) == 1 && recvName(fd.Recv.List[0].Type) == recv {
				return fd
			}
		}
	}
	return nil
}

func recvName(e ast.Expr) string {
	switch t := e.(type) {
	case *ast.StarExpr:
		return recvName(t.X)
	case *ast.Ident:
		return t.Name
	case *ast.IndexExpr:
		return recvName(t.X)
	}
	return ""
}

// Src prints a node back to source text (single line, whitespace collapsed).
func (x *X) Src(n ast.Node) string {
	if n == nil {
		return ""
	}
	var b strings.Builder
	printer.Fprint(&b, x.fset, n)
	return strings.Join(strings.Fields(b.String()), " ")
}

// Calls returns every call expression inside n whose function is a selector
// or identifier ending in name (e.g. "BeginWithRetry"), in source order.
func (x *X) Calls(n ast.Node, name string) []*ast.CallExpr {
	var res []*ast.CallExpr
	if n == nil {
		return nil
	}
	ast.Inspect(n, func(m ast.Node) bool {
		if c, ok := m.(*ast.CallExpr); ok && calleeName(c) == name {
			res = append(res, c)
		}
		return true
	})
	return res
}

func calleeName(c *ast.CallExpr) string {
	switch f := c.Fun.(type) {
	case *ast.SelectorExpr:
		return f.Sel.Name
	case *ast.Ident:
		return f.Name
	}
	return ""
}

// CalleePath returns the dotted callee, e.g. "s.snapshotCAS.BeginWithRetry".
func (x *X) CalleePath(c *ast.CallExpr) string { return x.Src(c.Fun) }

var timeUnits = map[string]int64{"Nanosecond": 1, "Microsecond": 1e3, "Millisecond": 1e6, "Second": 1e9, "Minute": 60e9, "Hour": 3600e9}

// Const evaluates an integer constant expression: literals, time.<Unit>,
// package-level constants/vars of dir with constant initialisers, + - * / and parentheses.
func (x *X) Const(dir string, e ast.Expr) (int64, bool) {
	switch t := e.(type) {
	case *ast.BasicLit:
		if t.Kind == token.INT {
			v, err := strconv.ParseInt(strings.ReplaceAll(t.Value, "_", ""), 0, 64)
			return v, err == nil
		}
	case *ast.ParenExpr:
		return x.Const(dir, t.X)
	case *ast.SelectorExpr:
		if id, ok := t.X.(*ast.Ident); ok && id.Name == "time" {
			v, ok := timeUnits[t.Sel.Name]
			return v, ok
		}
	case *ast.Ident:
		if init := x.PkgValue(dir, t.Name); init != nil {
			return x.Const(dir, init)
		}
	case *ast.CallExpr: // conversions such as time.Duration(5) or int64(x)
		if len(t.Args) == 1 {
			return x.Const(dir, t.Args[0])
		}
	case *ast.UnaryExpr:
		if t.Op == token.SUB {
			v, ok := x.Const(dir, t.X)
			return -v, ok
		}
	case *ast.BinaryExpr:
		a, ok1 := x.Const(dir, t.X)
		b, ok2 := x.Const(dir, t.Y)
		if !ok1 || !ok2 {
			return 0, false
		}
		switch t.Op {
		case token.ADD:
			return a + b, true
		case token.SUB:
			return a - b, true
		case token.MUL:
			return a * b, true
		case token.QUO:
			if b != 0 {
				return a / b, true
			}
		case token.SHL:
			return a << uint(b), true
		}
	}
	return 0, false
}

// PkgValue returns the initialiser expression of a package-level const/var.
func (x *X) PkgValue(dir, name string) ast.Expr {
	for _, f := range x.Pkg(dir) {
		for _, d := range f.Decls {
			gd, ok := d.(*ast.GenDecl)
			if !ok || (gd.Tok != token.CONST && gd.Tok != token.VAR) {
				continue
			}
			for _, s := range gd.Specs {
				vs := s.(*ast.ValueSpec)
				for i, n := range vs.Names {
					if n.Name == name && i < len(vs.Values) {
						return vs.Values[i]
					}
				}
			}
		}
	}
	return nil
}

// ---- Lean emission ------------------------------------------------------------

func (x *X) Comment(s string)      { fmt.Fprintf(x.out, "-- %s\n", s) }
func (x *X) Raw(s string)          { x.out.WriteString(s + "\n") }
func (x *X) DefOptInt(name string, v int64, ok bool) {
	if ok {
		fmt.Fprintf(x.out, "def %s : Option Int := some (%d)\n", name, v)
	} else {
		fmt.Fprintf(x.out, "def %s : Option Int := none\n", name)
	}
}
func (x *X) DefBool(name string, v bool)     { fmt.Fprintf(x.out, "def %s : Bool := %v\n", name, v) }
func (x *X) DefOptBool(name string, v, ok bool) {
	if ok {
		fmt.Fprintf(x.out, "def %s : Option Bool := some %v\n", name, v)
	} else {
		fmt.Fprintf(x.out, "def %s : Option Bool := none\n", name)
	}
}
func (x *X) DefString(name, v string)        { fmt.Fprintf(x.out, "def %s : String := %s\n", name, LeanStr(v)) }
func (x *X) DefStrings(name string, vs []string) {
	q := make([]string, len(vs))
	for i, v := range vs {
		q[i] = LeanStr(v)
	}
	fmt.Fprintf(x.out, "def %s : List String := [%s]\n", name, strings.Join(q, ", "))
}

// LeanStr renders a Lean string literal.
func LeanStr(s string) string {
	var b strings.Builder
	b.WriteByte('"')
	for _, r := range s {
		switch {
		case r == '"':
			b.WriteString("\\\"")
		case r == '\\':
			b.WriteString("\\\\")
		case r == '\n':
			b.WriteString("\\n")
		case r == '\t':
			b.WriteString("\\t")
		case r < 0x20 || r == 0x7f:
			fmt.Fprintf(&b, "\\x%02x", r)
		default:
			b.WriteRune(r)
		}
	}
	b.WriteByte('"')
	return b.String()
}

func main() {
	repo := flag.String("repo", "/repo", "rqlite source tree")
	out := flag.String("out", "", "output directory (lean/RqModel/Gen)")
	flag.Parse()
	if *out == "" {
		fmt.Fprintln(os.Stderr, "need -out")
		os.Exit(2)
	}
	os.MkdirAll(*out, 0o755)
	names := make([]string, 0, len(registry))
	for n := range registry {
		names = append(names, n)
	}
	sort.Strings(names)
	for _, n := range names {
		x := &X{repo: *repo, fset: token.NewFileSet(), pkgs: map[string]map[string]*ast.File{}, out: &strings.Builder{}}
		x.Raw("-- GENERATED from the rqlite sources by /verif/harness/extract on every check run; do not edit.")
		x.Raw("namespace RqModel.Gen." + n)
		registry[n](x)
		x.Raw("end RqModel.Gen." + n)
		path := filepath.Join(*out, n+".lean")
		old, _ := os.ReadFile(path)
		if string(old) != x.out.String() {
			if err := os.WriteFile(path, []byte(x.out.String()), 0o644); err != nil {
				fmt.Fprintln(os.Stderr, err)
				os.Exit(1)
			}
			fmt.Println("extract: wrote", path)
		}
	}
}

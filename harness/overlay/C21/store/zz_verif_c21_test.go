package store

// C21 (part a): live single-node Store under a generated write load whose transactions
// preserve a cross-table invariant, with backups of every format and flag combination (and
// user snapshots) taken concurrently. Every successful backup is loaded into a fresh SQLite
// database and must (1) satisfy the invariant and (2) equal the state after SOME committed
// prefix of the write history, SCHEMA OBJECTS INCLUDED: after every c21GenEvery-th transaction
// the writer commits a schema transaction that creates generation g of a table with an index, a
// view and a trigger, and drops generation g-1. A backup call may fail (gate busy): that must
// be an error.
//
// TestVerifC21Gate drives the real Store SEQUENTIALLY through generated schedules of commits,
// snapshots and binary backups whose destination writer runs further commits and snapshot
// attempts between the chunks of the copy, and compares the outcome (transactions in the
// backup, transactions in the main file afterwards) with the gate/main-file model (`db` op of
// the Lean model `backup`).

import (
	"bytes"
	"compress/gzip"
	"context"
	"fmt"
	"io"
	"os"
	"path/filepath"
	"sort"
	"strings"
	"sync"
	"sync/atomic"
	"testing"
	"time"

	"github.com/rqlite/rqlite/v10/command/proto"
	rdb "github.com/rqlite/rqlite/v10/db"
)

type c21Cfg struct {
	format   proto.BackupRequest_Format
	vacuum   bool
	compress bool
}

func (c c21Cfg) String() string {
	f := map[proto.BackupRequest_Format]string{
		proto.BackupRequest_BACKUP_REQUEST_FORMAT_BINARY: "binary",
		proto.BackupRequest_BACKUP_REQUEST_FORMAT_SQL:    "sql",
		proto.BackupRequest_BACKUP_REQUEST_FORMAT_DELETE: "delete",
	}[c.format]
	return fmt.Sprintf("%s,vacuum=%v,compress=%v", f, c.vacuum, c.compress)
}

func c21V(k int64) int64 { return k%7 + 1 }

// c21State is what a loaded backup contains.
type c21State struct {
	a, b       map[int64]int64
	bal1, bal2 int64
	hasAcct    bool
	gen        int64    // schemaver.g
	objs       []string // "type:name" of every user schema object, sorted
	ledger     string   // rows of the generation table named by gen, or the error reading it
}

// a schema transaction follows every c21GenEvery-th data transaction
const c21GenEvery = 5

func c21GenObjs(g int64) []string {
	objs := []string{"table:a", "table:acct", "table:b", "table:schemaver",
		fmt.Sprintf("table:ledger_%d", g), fmt.Sprintf("index:ledger_%d_ix", g),
		fmt.Sprintf("view:ledger_%d_vw", g), fmt.Sprintf("trigger:ledger_%d_tr", g)}
	sort.Strings(objs)
	return objs
}

func c21GenCreate(g int64) []string {
	return []string{
		fmt.Sprintf("CREATE TABLE ledger_%d (id INTEGER PRIMARY KEY, v INTEGER)", g),
		fmt.Sprintf("CREATE INDEX ledger_%d_ix ON ledger_%d(v)", g, g),
		fmt.Sprintf("CREATE VIEW ledger_%d_vw AS SELECT id, v FROM ledger_%d", g, g),
		fmt.Sprintf("CREATE TRIGGER ledger_%d_tr AFTER INSERT ON ledger_%d BEGIN SELECT 1; END", g, g),
		fmt.Sprintf("INSERT INTO ledger_%d(id, v) VALUES(1, %d)", g, g),
	}
}

func c21GenDrop(g int64) []string {
	return []string{
		fmt.Sprintf("DROP VIEW ledger_%d_vw", g),
		fmt.Sprintf("DROP TRIGGER ledger_%d_tr", g),
		fmt.Sprintf("DROP INDEX ledger_%d_ix", g),
		fmt.Sprintf("DROP TABLE ledger_%d", g),
	}
}

func c21Load(dir string, data []byte, cfg c21Cfg) (*c21State, error) {
	if cfg.compress {
		zr, err := gzip.NewReader(bytes.NewReader(data))
		if err != nil {
			return nil, fmt.Errorf("gunzip: %v", err)
		}
		d, err := io.ReadAll(zr)
		if err != nil {
			return nil, fmt.Errorf("gunzip: %v", err)
		}
		data = d
	}
	p := filepath.Join(dir, fmt.Sprintf("bk-%d.db", time.Now().UnixNano()))
	defer os.Remove(p)
	var d *rdb.DB
	var err error
	if cfg.format == proto.BackupRequest_BACKUP_REQUEST_FORMAT_SQL {
		d, err = rdb.Open(p, false, false)
		if err != nil {
			return nil, err
		}
		res, err := d.ExecuteStringStmt(string(data))
		if err != nil {
			d.Close()
			return nil, fmt.Errorf("loading dump: %v", err)
		}
		for _, r := range res {
			if e := r.GetError(); e != "" {
				d.Close()
				return nil, fmt.Errorf("loading dump: %s", e)
			}
		}
	} else {
		if err := os.WriteFile(p, data, 0o600); err != nil {
			return nil, err
		}
		d, err = rdb.Open(p, false, false)
		if err != nil {
			return nil, fmt.Errorf("open: %v", err)
		}
	}
	defer d.Close()
	st := &c21State{a: map[int64]int64{}, b: map[int64]int64{}}
	for _, tbl := range []string{"a", "b"} {
		rows, err := d.QueryStringStmt("SELECT seq, v FROM " + tbl)
		if err != nil {
			return nil, err
		}
		if rows[0].Error != "" {
			return nil, fmt.Errorf("query %s: %s", tbl, rows[0].Error)
		}
		m := st.a
		if tbl == "b" {
			m = st.b
		}
		for _, v := range rows[0].Values {
			m[v.Parameters[0].GetI()] = v.Parameters[1].GetI()
		}
	}
	rows, err := d.QueryStringStmt("SELECT id, bal FROM acct ORDER BY id")
	if err != nil {
		return nil, err
	}
	if rows[0].Error != "" {
		return nil, fmt.Errorf("query acct: %s", rows[0].Error)
	}
	if len(rows[0].Values) == 2 {
		st.hasAcct = true
		st.bal1 = rows[0].Values[0].Parameters[1].GetI()
		st.bal2 = rows[0].Values[1].Parameters[1].GetI()
	}
	rows, err = d.QueryStringStmt("SELECT type, name FROM sqlite_master WHERE name NOT LIKE 'sqlite_%'")
	if err != nil {
		return nil, err
	}
	if rows[0].Error != "" {
		return nil, fmt.Errorf("query sqlite_master: %s", rows[0].Error)
	}
	for _, v := range rows[0].Values {
		st.objs = append(st.objs, v.Parameters[0].GetS()+":"+v.Parameters[1].GetS())
	}
	sort.Strings(st.objs)
	st.gen = -1
	rows, err = d.QueryStringStmt("SELECT g FROM schemaver")
	if err == nil && rows[0].Error == "" && len(rows[0].Values) == 1 {
		st.gen = rows[0].Values[0].Parameters[0].GetI()
		// the view reads the table through the schema as loaded
		rows, err = d.QueryStringStmt(fmt.Sprintf("SELECT id, v FROM ledger_%d_vw", st.gen))
		switch {
		case err != nil:
			st.ledger = "error: " + err.Error()
		case rows[0].Error != "":
			st.ledger = "error: " + rows[0].Error
		default:
			for _, v := range rows[0].Values {
				st.ledger += fmt.Sprintf("(%d,%d)", v.Parameters[0].GetI(), v.Parameters[1].GetI())
			}
		}
	}
	return st, nil
}

// c21Prefix returns m when the state equals the state after exactly the first m
// transactions, or an explanation why it is not a committed prefix.
func c21Prefix(st *c21State) (int64, string) {
	m := int64(len(st.a))
	for k := int64(1); k <= m; k++ {
		if v, ok := st.a[k]; !ok || v != c21V(k) {
			return 0, fmt.Sprintf("table a has %d rows but lacks (or has a wrong value for) seq %d", m, k)
		}
	}
	if int64(len(st.b)) != m {
		return 0, fmt.Sprintf("table a holds transactions 1..%d but table b has %d rows", m, len(st.b))
	}
	var sum int64
	for k := int64(1); k <= m; k++ {
		if v, ok := st.b[k]; !ok || v != c21V(k) {
			return 0, fmt.Sprintf("table b lacks seq %d although table a holds 1..%d", k, m)
		}
		sum += c21V(k)
	}
	if !st.hasAcct {
		return 0, "acct rows missing"
	}
	if st.bal1+st.bal2 != 1000 {
		return 0, fmt.Sprintf("acct balances sum to %d, not 1000", st.bal1+st.bal2)
	}
	if st.bal2 != 500+sum {
		return 0, fmt.Sprintf("tables a,b hold transactions 1..%d but acct reflects a different prefix (bal2=%d, expected %d)", m, st.bal2, 500+sum)
	}
	// schema objects: exactly one generation, the one schemaver names, and the one the writer
	// had installed after m data transactions (installed between transaction c21GenEvery*g
	// and the next one)
	if st.gen < 0 {
		return 0, "schemaver row missing"
	}
	if want := c21GenObjs(st.gen); strings.Join(st.objs, " ") != strings.Join(want, " ") {
		return 0, fmt.Sprintf("schemaver says generation %d, i.e. schema objects %v, but the backup has %v", st.gen, want, st.objs)
	}
	if want := fmt.Sprintf("(1,%d)", st.gen); st.ledger != want {
		return 0, fmt.Sprintf("view ledger_%d_vw yields %q, expected %q", st.gen, st.ledger, want)
	}
	if g := m / c21GenEvery; st.gen != g && !(m%c21GenEvery == 0 && st.gen == g-1) {
		return 0, fmt.Sprintf("tables a,b hold transactions 1..%d but the schema is generation %d (the writer installs generation g right after transaction %d*g)", m, st.gen, c21GenEvery)
	}
	return m, ""
}

func TestVerifC21Store(t *testing.T) {
	rep := vfNewReport("C21", "live single-node Store; writer issuing transactions that each insert into table a, move money between two acct rows and insert into table b, and after every 5th a schema transaction creating generation g of a table+index+view+trigger and dropping generation g-1 (invariant: a and b hold the same seqs 1..m, balances sum to 1000 and reflect exactly those m transfers, the schema objects are exactly those of the generation installed after m transactions and the view works); concurrently backups of every format x vacuum x compress and user snapshots. A backup is non-trivial when it was taken while the writer was active and holds at least one transaction; distinct by configuration and prefix length")
	defer rep.Write()
	dir := t.TempDir()
	r := vfNewRng(21)

	s, ln := mustNewStore(t)
	defer ln.Close()
	if err := s.Open(); err != nil {
		t.Fatalf("open: %v", err)
	}
	if err := s.Bootstrap(NewServer(s.ID(), s.Addr(), true)); err != nil {
		t.Fatalf("bootstrap: %v", err)
	}
	defer s.Close(true)
	if _, err := s.WaitForLeader(60 * time.Second); err != nil {
		t.Fatalf("leader: %v", err)
	}
	exec := func(tx bool, stmts ...string) error { return c21Execute(s, stmts, tx) }
	if err := exec(true,
		"CREATE TABLE a (seq INTEGER PRIMARY KEY, v INTEGER)",
		"CREATE TABLE acct (id INTEGER PRIMARY KEY, bal INTEGER)",
		"CREATE TABLE b (seq INTEGER PRIMARY KEY, v INTEGER)",
		"INSERT INTO acct(id, bal) VALUES(1, 500)",
		"INSERT INTO acct(id, bal) VALUES(2, 500)",
		"CREATE TABLE schemaver (g INTEGER)",
		"INSERT INTO schemaver(g) VALUES(0)"); err != nil {
		t.Fatalf("schema: %v", err)
	}
	if err := exec(true, c21GenCreate(0)...); err != nil {
		t.Fatalf("schema generation 0: %v", err)
	}

	var acked atomic.Int64 // transactions acknowledged so far
	var started atomic.Int64
	var schemaTx atomic.Int64
	stop := make(chan struct{})
	var wg sync.WaitGroup
	wg.Add(1)
	go func() { // writer
		defer wg.Done()
		for k := int64(1); ; k++ {
			select {
			case <-stop:
				return
			default:
			}
			started.Store(k)
			v := c21V(k)
			err := exec(true,
				fmt.Sprintf("INSERT INTO a(seq, v) VALUES(%d, %d)", k, v),
				fmt.Sprintf("UPDATE acct SET bal = bal - %d WHERE id = 1", v),
				fmt.Sprintf("UPDATE acct SET bal = bal + %d WHERE id = 2", v),
				fmt.Sprintf("INSERT INTO b(seq, v) VALUES(%d, %d)", k, v))
			if err != nil {
				t.Errorf("write %d: %v", k, err)
				return
			}
			acked.Store(k)
			if k%c21GenEvery == 0 {
				// one schema transaction: generation g comes, generation g-1 goes
				g := k / c21GenEvery
				stmts := append(c21GenCreate(g), c21GenDrop(g-1)...)
				stmts = append(stmts, fmt.Sprintf("UPDATE schemaver SET g = %d", g))
				if err := exec(true, stmts...); err != nil {
					t.Errorf("schema transaction %d: %v", g, err)
					return
				}
				schemaTx.Add(1)
			}
			if k > 3000 {
				time.Sleep(2 * time.Millisecond) // keep the database (and every backup of it) small enough
			}
		}
	}()
	wg.Add(1)
	go func() { // user snapshots: gate contention and checkpoints while backups run
		defer wg.Done()
		for {
			select {
			case <-stop:
				return
			case <-time.After(time.Duration(15+r.Intn(40)) * time.Millisecond):
				_ = s.Snapshot(0)
			}
		}
	}()

	var cfgs []c21Cfg
	for _, f := range []proto.BackupRequest_Format{proto.BackupRequest_BACKUP_REQUEST_FORMAT_BINARY, proto.BackupRequest_BACKUP_REQUEST_FORMAT_SQL, proto.BackupRequest_BACKUP_REQUEST_FORMAT_DELETE} {
		for _, vac := range []bool{false, true} {
			for _, comp := range []bool{false, true} {
				if vac && f == proto.BackupRequest_BACKUP_REQUEST_FORMAT_SQL {
					continue // rejected by Backup: ErrInvalidBackupFormat
				}
				cfgs = append(cfgs, c21Cfg{f, vac, comp})
			}
		}
	}
	rounds := vfScale(4, 40)
	deadline := time.Now().Add(time.Duration(vfScale(60, 600)) * time.Second) // the database keeps growing: time-box the run
	// the SQL dump is the one format rqlite itself has to keep consistent across tables (one
	// SELECT per table): take many more of those, they are cheap
	sqlExtra := vfScale(24, 300)
	var plan []c21Cfg
	for round := 0; round < rounds; round++ {
		plan = append(plan, cfgs...)
	}
	for i := 0; i < sqlExtra; i++ {
		plan = append(plan, c21Cfg{proto.BackupRequest_BACKUP_REQUEST_FORMAT_SQL, false, i%2 == 1})
	}
	for pi := 0; pi < len(plan) && time.Now().Before(deadline); pi++ {
		{
			cfg := plan[pi]
			before := acked.Load()
			schemaBefore := schemaTx.Load()
			var buf bytes.Buffer
			br := &proto.BackupRequest{Format: cfg.format, Vacuum: cfg.vacuum, Compress: cfg.compress}
			err := s.Backup(context.Background(), br, &buf)
			after := started.Load()
			replay := map[string]interface{}{"config": cfg.String(), "acked_before": before, "started_at_end": after}
			if err != nil {
				rep.Count("backup-error:" + cfg.String())
				rep.Count("backup-error-kind:" + strings.SplitN(err.Error(), ":", 2)[0])
				continue
			}
			st, lerr := c21Load(dir, buf.Bytes(), cfg)
			if lerr != nil {
				rep.Fail("live:successful-backup-is-not-a-loadable-database:"+cfg.String(), lerr.Error(), replay)
				continue
			}
			m, why := c21Prefix(st)
			if why != "" {
				rep.Fail("live:backup-is-not-a-committed-prefix:"+cfg.String(), why, replay)
				continue
			}
			if m < before {
				rep.Fail("live:backup-lacks-a-transaction-acknowledged-before-the-call:"+cfg.String(),
					fmt.Sprintf("%d transactions were acknowledged before Backup was called, the backup holds %d", before, m), replay)
			}
			if m > after {
				rep.Fail("live:backup-holds-a-transaction-not-yet-started:"+cfg.String(), fmt.Sprintf("%d > %d", m, after), replay)
			}
			rep.Count("backup-ok:" + cfg.String())
			rep.Case(fmt.Sprintf("%s:%d", cfg.String(), m), m > 0 && after > before)
			if after > before {
				rep.Count("backups-overlapping-a-commit")
			}
			if schemaTx.Load() > schemaBefore {
				rep.Count("backups-overlapping-a-schema-transaction:" + cfg.String())
			}
			if len(rep.Samples) < 3 {
				rep.Sample(map[string]interface{}{"config": cfg.String(), "transactions_in_backup": m, "acked_before_call": before, "started_by_end": after, "bytes": buf.Len()})
			}
		}
	}
	close(stop)
	wg.Wait()
	rep.CountN("transactions-written", int(acked.Load()))
	rep.CountN("schema-transactions-written", int(schemaTx.Load()))
}

// ---- gate / main file / WAL: sequential schedules against the model --------------------------------

// c21HookWriter receives the binary backup chunk by chunk and runs scheduled actions between
// chunks, while Backup holds the snapshot gate.
type c21HookWriter struct {
	buf    bytes.Buffer
	chunks int
	hook   func(chunk int)
}

func (w *c21HookWriter) Write(p []byte) (int, error) {
	w.buf.Write(p)
	w.chunks++
	if w.hook != nil {
		w.hook(w.chunks)
	}
	return len(p), nil
}

func c21CountMain(t *testing.T, dir, dbPath string) int64 {
	// the main file alone (no WAL next to the copy) = what a checkpoint has moved so far
	b, err := os.ReadFile(dbPath)
	if err != nil {
		t.Fatalf("read main file: %v", err)
	}
	st, err := c21LoadG(dir, b)
	if err != nil {
		t.Fatalf("main file copy does not open: %v", err)
	}
	return st
}

func c21LoadG(dir string, data []byte) (int64, error) {
	p := filepath.Join(dir, fmt.Sprintf("g-%d.db", time.Now().UnixNano()))
	if err := os.WriteFile(p, data, 0o600); err != nil {
		return 0, err
	}
	defer os.Remove(p)
	d, err := rdb.Open(p, false, false)
	if err != nil {
		return 0, err
	}
	defer d.Close()
	rows, err := d.QueryStringStmt("SELECT COUNT(*), COALESCE(MAX(seq),0) FROM g")
	if err != nil {
		return 0, err
	}
	if rows[0].Error != "" {
		if strings.Contains(rows[0].Error, "no such table") {
			return 0, nil
		}
		return 0, fmt.Errorf("%s", rows[0].Error)
	}
	cnt, mx := rows[0].Values[0].Parameters[0].GetI(), rows[0].Values[0].Parameters[1].GetI()
	if cnt != mx {
		return 0, fmt.Errorf("table g has %d rows but max seq %d: not a committed prefix", cnt, mx)
	}
	return cnt, nil
}

func TestVerifC21Gate(t *testing.T) {
	rep := vfNewReport("C21", "sequential schedules on a real Store: commits (8 KB rows), user snapshots, and binary backups into a writer that, between the 32 KB chunks of the copy and while Backup holds the snapshot gate, commits more transactions and attempts snapshots; the number of transactions found in each backup and in the main file afterwards is compared with the gate model. A schedule is non-trivial when a commit and a snapshot attempt happen between two chunks of a backup; distinct by schedule text")
	defer rep.Write()
	dir := t.TempDir()
	r := vfNewRng(2101)
	s, ln := mustNewStore(t)
	defer ln.Close()
	if err := s.Open(); err != nil {
		t.Fatalf("open: %v", err)
	}
	if err := s.Bootstrap(NewServer(s.ID(), s.Addr(), true)); err != nil {
		t.Fatalf("bootstrap: %v", err)
	}
	defer s.Close(true)
	if _, err := s.WaitForLeader(60 * time.Second); err != nil {
		t.Fatalf("leader: %v", err)
	}
	n := int64(0)
	exec := func(stmt string) {
		if err := c21Execute(s, []string{stmt}, false); err != nil {
			t.Fatalf("exec: %v", err)
		}
	}
	// the schema entry is the model's first write: table g exists from transaction 1 on
	exec("CREATE TABLE g (seq INTEGER PRIMARY KEY, pad BLOB)")
	var evs []string // model events so far (one `db` line is sent per check point)
	var ops, impl []string
	write := func() {
		n++
		exec(fmt.Sprintf("INSERT INTO g(seq, pad) VALUES(%d, zeroblob(8000))", n))
		evs = append(evs, "w")
	}
	var done []string
	rounds := vfScale(10, 150)
	for round := 0; round < rounds; round++ {
		// some commits, maybe a snapshot
		for i := r.Intn(4); i > 0; i-- {
			write()
		}
		if r.Chance(40) {
			if err := s.Snapshot(0); err == nil {
				evs = append(evs, "sb", "cp100000", "se")
				rep.Count("snapshot:ok")
			} else {
				rep.Count("snapshot:" + strings.SplitN(err.Error(), ":", 2)[0])
				if sz, _ := s.db.WALSize(); sz > 0 {
					t.Fatalf("snapshot failed with data in the WAL: %v", err)
				}
			}
		}
		// a binary backup with activity between its chunks
		walSz, _ := s.db.WALSize()
		if walSz > 0 {
			// Backup first snapshots (full checkpoint) when the WAL holds data
			evs = append(evs, "sb", "cp100000", "se")
		}
		evs = append(evs, "bb")
		interleaved := false
		hw := &c21HookWriter{}
		hw.hook = func(chunk int) {
			evs = append(evs, "cc")
			if chunk > 6 {
				return
			}
			if r.Chance(50) {
				write()
				if r.Chance(60) {
					// must not be able to checkpoint: the gate is held by the backup
					err := s.Snapshot(0)
					evs = append(evs, "sb", "cp100000", "se")
					if err == nil {
						rep.Fail("gate:snapshot-succeeded-while-a-backup-holds-the-gate", "Snapshot(0) returned nil between two chunks of a binary backup", map[string]interface{}{"events": strings.Join(evs, " ")})
					}
					interleaved = true
				}
			}
		}
		before := n
		err := s.Backup(context.Background(), &proto.BackupRequest{Format: proto.BackupRequest_BACKUP_REQUEST_FORMAT_BINARY}, hw)
		if err != nil {
			t.Fatalf("backup: %v", err)
		}
		evs = append(evs, "be")
		m, lerr := c21LoadG(dir, hw.buf.Bytes())
		if lerr != nil {
			rep.Fail("gate:binary-backup-is-not-a-committed-prefix", lerr.Error(), map[string]interface{}{"events": strings.Join(evs, " ")})
			continue
		}
		if m != before {
			rep.Fail("gate:binary-backup-is-not-the-state-when-the-gate-was-taken", fmt.Sprintf("%d transactions acknowledged before Backup, %d in the backup (%d by its end)", before, m, n), map[string]interface{}{"events": strings.Join(evs, " ")})
		}
		// every chunk comes from main-file version m+1 in model terms (the CREATE TABLE is write #1)
		var vs []string
		for i := 0; i < hw.chunks; i++ {
			vs = append(vs, fmt.Sprintf("%d", m+1))
		}
		done = append(done, strings.Join(vs, ","))
		mainNow := c21CountMain(t, dir, s.dbPath)
		ops = append(ops, "db w "+strings.Join(evs, " "))
		impl = append(impl, fmt.Sprintf("n=%d main=%d done=%s", n+1, mainNow+1, strings.Join(done, ";")))
		rep.Case(strings.Join(evs, " "), interleaved)
		rep.CountN("backup-chunks", hw.chunks)
		if interleaved {
			rep.Count("backups-with-commit-and-snapshot-attempt-between-chunks")
		}
	}
	rep.CountN("transactions", int(n))
	rep.vfCompare("backup", ops, impl, nil)
}

/-
C25 helper lemmas, part 5: restart with raft replay, the invariant along a whole run, and
the drain lemma (a leader with a working endpoint empties everything it can emit).
-/
import RqModel.Lemmas.Cdc4
namespace RqModel.CdcPipe
open RqModel.Fifo

/-! ### restart -/

theorem reopen_facts {α : Type} (q : Q α) :
    (reopen q).items = q.items ∧ (reopen q).highest = q.highest ∧ (reopen q).nextFrom = 0 := by
  simp only [reopen, loadHead]; simp

theorem firstKey_le {α : Type} (q : Q α) (hs : Sorted q.items) (it : Item α) (h : it ∈ q.items) :
    firstKey q ≤ it.1 := by
  unfold firstKey
  cases hq : q.items with
  | nil => rw [hq] at h; simp at h
  | cons a l =>
    simp only
    rw [hq] at h hs
    unfold Sorted at hs
    rw [List.pairwise_cons] at hs
    simp at h
    rcases h with h | h
    · subst h; exact Nat.le_refl _
    · exact Nat.le_of_lt (hs.1 it h)

theorem firstKey_le_highest {α : Type} (q : Q α) (hq : Inv q) : firstKey q ≤ q.highest := by
  unfold firstKey
  cases h : q.items with
  | nil => simp
  | cons a l => exact hq.bounded a (by rw [h]; simp)

/-- replaying the log above the snapshot, entry by entry -/
theorem replay_good (L : List Entry) (t : St) (f B : Nat) (hb : Base t f) (hc : Cov t f)
    (hfront : t.front = f) (hfB : f ≤ B)
    (hL : (L.map (·.idx)).Pairwise (· < ·))
    (hLs : ∀ e ∈ L, single e = true ∧ t.snap < e.idx ∧ 0 < e.idx ∧ t.lastFed < e.idx ∧ e.idx ≤ B)
    (hlog : ∀ e ∈ t.log, single e = true)
    (hcover : ∀ e' ∈ t.log, e'.idx ≤ f ∨ e' ∈ L) :
    Base (L.foldl applyEntry t) (L.foldl applyEntry t).front ∧
    Cov (L.foldl applyEntry t) (L.foldl applyEntry t).front ∧
    (L.foldl applyEntry t).log = t.log ∧
    (∀ e' ∈ t.log, e'.idx ≤ (L.foldl applyEntry t).front) ∧
    (L.foldl applyEntry t).front ≤ B := by
  induction L generalizing t f with
  | nil =>
    simp only [List.foldl_nil]
    refine ⟨by rw [hfront]; exact hb, by rw [hfront]; exact hc, by simp, ?_, by omega⟩
    intro e' he'
    rcases hcover e' he' with h | h
    · omega
    · simp at h
  | cons e L ih =>
    simp only [List.foldl_cons]
    simp only [List.map_cons, List.pairwise_cons] at hL
    obtain ⟨hs, hsn, hpos, hlf, heB⟩ := hLs e (by simp)
    obtain ⟨hb1, hc1⟩ := applyEntry_good t f e hb hc hs hsn hpos hlf (by
      intro x hx hxf
      rw [mem_groups] at hx
      obtain ⟨e', he', hxe⟩ := hx
      have hxi := stream_single_idx t.keepIdx e' (hlog e' he') x hxe
      rcases hcover e' he' with h | h
      · left; omega
      · simp only [List.mem_cons] at h
        rcases h with h | h
        · subst h; exact Or.inr hxe
        · left
          have := hL.1 e'.idx (by simp; exact ⟨e', h, rfl⟩)
          omega)
    have hsame : Same { t with lastFed := e.idx, front := max t.front e.idx } (applyEntry t e) :=
      same_foldl_feed _ _
    have hlog' : (applyEntry t e).log = t.log := hsame.log
    have hfr' : (applyEntry t e).front = max f e.idx := by rw [hsame.front]; simp only; rw [hfront]
    have := ih (applyEntry t e) (max f e.idx) hb1 hc1 hfr' (by omega) hL.2
      (by
        intro e2 he2
        obtain ⟨a1, a2, a3, _, a5⟩ := hLs e2 (by simp [he2])
        refine ⟨a1, by rw [hsame.snap]; exact a2, a3, ?_, a5⟩
        rw [hsame.lastFed]
        simp only
        exact hL.1 e2.idx (by simp; exact ⟨e2, he2, rfl⟩))
      (by rw [hlog']; exact hlog)
      (by
        rw [hlog']
        intro e' he'
        rcases hcover e' he' with h | h
        · left; omega
        · simp only [List.mem_cons] at h
          rcases h with h | h
          · subst h; left; omega
          · exact Or.inr h)
    rw [hlog'] at this
    exact this

theorem top_restart (s : St) (ht : Top s) : Top (stepOp s .restart) := by
  have hb := ht.base
  obtain ⟨hri, hrh, hrn⟩ := reopen_facts s.fifo
  have hqinv : Inv (reopen s.fifo) := inv_reopen _ hb.fifo
  -- the state right after the process came back, before raft replays anything
  let s1 : St := { s with batcher := [], fifo := reopen s.fifo, leader := false, held := none,
                          hwm := (if s.hwmFromFirstKey then firstKey (reopen s.fifo) - 1 else 0),
                          leaderPersisted := 0, followerPersisted := 0,
                          hwmChan := [], lastFed := 0, front := max s.snap (reopen s.fifo).highest }
  have hfk : firstKey (reopen s.fifo) ≤ s.fifo.highest := by
    have := firstKey_le_highest _ hqinv; rw [hrh] at this; exact this
  have hH : (if s.hwmFromFirstKey then firstKey (reopen s.fifo) - 1 else 0) ≤ firstKey (reopen s.fifo) - 1 := by
    split <;> omega
  have hf0 : max s.snap (reopen s.fifo).highest ≤ s.front := by
    rw [hrh]; have := hb.bnd.2.2; have := hb.fed.2; omega
  have hb1 : Base s1 (max s.snap (reopen s.fifo).highest) := by
    refine ⟨hqinv, ?_, ?_, ?_, ?_, ?_, ?_, hb.noLb, hb.bsz⟩
    · intro it hit; exact hb.lab it (by rw [← hri]; exact hit)
    · intro it hit; cases hit
    · show (if s.hwmFromFirstKey then firstKey (reopen s.fifo) - 1 else 0) ≤ max (reopen s.fifo).highest s.maxIn ∧
        (reopen s.fifo).nextFrom ≤ max (reopen s.fifo).highest s.maxIn + 1 ∧
        (reopen s.fifo).highest ≤ max s.snap (reopen s.fifo).highest
      rw [hrh, hrn]; omega
    · intro g hg; cases hg
    · show 0 ≤ _ ∧ s.snap ≤ _; omega
    · intro n hn; cases hn
  have hc1 : Cov s1 (max s.snap (reopen s.fifo).highest) := by
    intro x hx hxf
    have hx' : x ∈ groups s := hx
    rcases ht.cov x hx' (by omega) with h | h | h
    · exact Or.inl h
    · rcases h with ⟨it, hit, hlive, hgi⟩ | ⟨it, hit, hlt, hgi⟩
      · right; left; left
        refine ⟨it, by show it ∈ (reopen s.fifo).items; rw [hri]; exact hit, ?_, hgi⟩
        show (reopen s.fifo).nextFrom ≤ it.1 ∧ (if s.hwmFromFirstKey then firstKey (reopen s.fifo) - 1 else 0) < it.1
        have hk := firstKey_le (reopen s.fifo) hqinv.sorted it (by rw [hri]; exact hit)
        have := hlive.2
        rw [hrn]; omega
      · obtain ⟨h1, _, _, h4, _⟩ := hb.heldI it hit
        rcases h4 with h4 | h4
        · right; left; left
          refine ⟨it, by show it ∈ (reopen s.fifo).items; rw [hri]; exact h4, ?_, hgi⟩
          show (reopen s.fifo).nextFrom ≤ it.1 ∧ (if s.hwmFromFirstKey then firstKey (reopen s.fifo) - 1 else 0) < it.1
          have hk := firstKey_le (reopen s.fifo) hqinv.sorted it (by rw [hri]; exact h4)
          rw [hrn]; omega
        · left; right
          have := h1 x hgi
          show x.idx ≤ s.maxIn
          omega
    · -- only in the (lost) batcher: impossible below the frontier
      exfalso
      have h1 := (hb.bat x h.1).1
      have h2 := h.2.1
      rw [hrh] at hxf
      omega
  -- the replay
  have hsub : (s.log.filter (fun e => decide (s.snap < e.idx))).Sublist s.log := List.filter_sublist
  have hL : ((s.log.filter (fun e => decide (s.snap < e.idx))).map (·.idx)).Pairwise (· < ·) :=
    List.Pairwise.sublist (List.Sublist.map _ hsub) ht.sorted
  have key := replay_good (s.log.filter (fun e => decide (s.snap < e.idx))) s1
    (max s.snap (reopen s.fifo).highest) (lastIdx s.log) hb1 hc1 rfl
    (Nat.le_trans hf0 ht.frontLe) hL
    (by
      intro e he
      rw [List.mem_filter] at he
      have := ht.logOk e he.1
      refine ⟨this.2.2, by simpa using he.2, this.2.1, this.2.1, le_lastIdx _ ht.sorted e he.1⟩)
    (fun e he => (ht.logOk e he).2.2)
    (by
      intro e' he'
      by_cases h : s.snap < e'.idx
      · right; rw [List.mem_filter]; exact ⟨he', by simpa using h⟩
      · left
        show e'.idx ≤ max s.snap (reopen s.fifo).highest
        omega)
  obtain ⟨k1, k2, k3, k4, k5⟩ := key
  show Top (pumpAll ((s.log.filter (fun e => decide (s.snap < e.idx))).foldl applyEntry s1))
  apply top_pump _ k1 k2
  · rw [k3]
    intro e he
    have := ht.logOk e he
    exact ⟨k4 e he, this.2.1, this.2.2⟩
  · rw [k3]; exact ht.sorted
  · rw [k3]; exact k5

/-! ### every operation, and whole runs -/

/-- well-formed environment: log entries arrive with strictly increasing, positive indexes,
and every entry yields at most one event group (the exclusion under which the property is
proved; multi-statement requests without a transaction are the known finding) -/
def wfOps (last : Nat) : List Op → Prop
  | [] => True
  | .entry e :: rest => last < e.idx ∧ single e = true ∧ wfOps e.idx rest
  | _ :: rest => wfOps last rest

theorem stepOp_log (s : St) (op : Op) (ht : Top s) :
    (stepOp s op).log = match op with
      | .entry e => s.log ++ [e]
      | _ => s.log := by
  unfold stepOp pumpAll
  rw [(same_pump _ _).log]
  cases op with
  | entry e => exact (same_foldl_feed _ _).log
  | timer => exact (same_flush s).log
  | sync => exact (same_flush s).log
  | leader b =>
    simp only [stepCore]
    split
    · rfl
    · split
      · rfl
      · exact (same_foldl_followerHwm _ _).log
  | endpoint b => rfl
  | hwm n =>
    simp only [stepCore, offerHwm]
    split
    · split <;> rfl
    · exact (same_followerHwm _ _).log
  | tick =>
    simp only [stepCore, ht.base.noLb, Bool.false_eq_true, if_false]
    split
    · rfl
    · split <;> rfl
  | restart =>
    simp only [stepCore]
    generalize (s.log.filter fun e => decide (s.snap < e.idx)) = L
    suffices ∀ (t : St), (L.foldl applyEntry t).log = t.log from this _
    induction L with
    | nil => intro t; rfl
    | cons e L ih =>
      intro t
      simp only [List.foldl_cons]
      rw [ih]
      exact (same_foldl_feed _ _).log

theorem top_step (s : St) (op : Op) (ht : Top s)
    (hwf : match op with | .entry e => lastIdx s.log < e.idx ∧ single e = true | _ => True) :
    Top (stepOp s op) := by
  cases op with
  | entry e => exact top_entry s e ht hwf.1 hwf.2
  | timer => exact top_timer s ht
  | sync => exact top_sync s ht
  | leader b => exact top_leader s ht b
  | endpoint b => exact top_endpoint s ht b
  | hwm n => exact top_hwm s ht n
  | tick => exact top_tick s ht
  | restart => exact top_restart s ht

theorem top_run (s : St) (ops : List Op) (ht : Top s) (hwf : wfOps (lastIdx s.log) ops) :
    Top (run s ops) := by
  induction ops generalizing s with
  | nil => exact ht
  | cons op rest ih =>
    unfold run
    cases op with
    | entry e =>
      obtain ⟨h1, h2, h3⟩ := hwf
      apply ih _ (top_step s (.entry e) ht ⟨h1, h2⟩)
      rw [stepOp_log s (.entry e) ht]
      simp only [lastIdx_append]
      exact h3
    | timer => exact ih _ (top_step s .timer ht trivial) (by rw [stepOp_log s .timer ht]; exact hwf)
    | sync => exact ih _ (top_step s .sync ht trivial) (by rw [stepOp_log s .sync ht]; exact hwf)
    | leader b => exact ih _ (top_step s (.leader b) ht trivial) (by rw [stepOp_log s (.leader b) ht]; exact hwf)
    | endpoint b => exact ih _ (top_step s (.endpoint b) ht trivial) (by rw [stepOp_log s (.endpoint b) ht]; exact hwf)
    | hwm n => exact ih _ (top_step s (.hwm n) ht trivial) (by rw [stepOp_log s (.hwm n) ht]; exact hwf)
    | tick => exact ih _ (top_step s .tick ht trivial) (by rw [stepOp_log s .tick ht]; exact hwf)
    | restart => exact ih _ (top_step s .restart ht trivial) (by rw [stepOp_log s .restart ht]; exact hwf)

theorem top_init (b : Nat) (hb : 0 < b) : Top { batchSz := b } := by
  refine ⟨⟨inv_empty, ?_, ?_, ?_, ?_, ?_, ?_, rfl, hb⟩, ?_, ?_, ?_, ?_⟩
  · intro it hit; cases hit
  · intro it hit; cases hit
  · simp
  · intro g hg; cases hg
  · simp
  · intro n hn; cases hn
  · intro x hx; simp [groups] at hx
  · intro e he; cases he
  · simp
  · simp [lastIdx]

end RqModel.CdcPipe

/-
C13  Transactional requests are all-or-nothing and results match statements.

Property theorems only. Model: RqModel/Model/Exec.lean (`execute` =
db.executeWithConn, `request` = db.RequestWithContext after fix fe41171), tied to
db/db.go by the C13 correspondence run against real SQLite.
Helper lemmas: RqModel/Lemmas/Exec.lean.

All theorems quantify over every database state without an open transaction,
every statement list (any length) and both flags; `NoCtl` = the request holds no
explicit BEGIN/COMMIT/ROLLBACK statement (those are outside the property's
quantifier for `Transaction` requests; the model still executes them faithfully).
-/
import RqModel.Lemmas.Exec
import RqModel.Gen.RollbackCtx
namespace C13
open RqModel.Exec

/-- either path, as a function of the per-path result function -/
def run (succ : Db → Stmt → Res) (db : Db) (r : Req) : Out :=
  if r.tx then
    match sqlRun db .begin with
    | none => ⟨db, [], true⟩
    | some db0 =>
      let p := genLoop succ (true || r.rb) true db0 r.stmts
      if p.2.2 then commitTx p.1 p.2.1 else ⟨p.1, p.2.1, false⟩
  else
    let p := genLoop succ (false || r.rb) false db r.stmts
    ⟨p.1, p.2.1, false⟩

theorem execute_eq (db : Db) (r : Req) : execute db r = run execSucc db r := by
  unfold execute run
  cases r.tx <;> simp only [execLoop_eq] <;> rfl

theorem request_eq (db : Db) (r : Req) : request db r = run reqSucc db r := by
  unfold request run
  cases r.tx <;> simp only [reqLoop_eq] <;> rfl

/-! ### all or nothing -/

theorem run_tx_all_or_nothing (succ : Db → Stmt → Res) (db : Db) (r : Req)
    (hdb : db.open_ = none) (htx : r.tx = true) (hn : NoCtl r.stmts) :
    (run succ db r).err = false ∧ (run succ db r).db.open_ = none ∧
    (run succ db r).db.committed =
      if r.stmts.any fails then db.committed else db.committed ++ writes r.stmts := by
  obtain ⟨c, o⟩ := db
  simp only at hdb
  subst hdb
  unfold run
  simp only [htx, if_true, sqlRun, Bool.true_or]
  cases hany : r.stmts.any fails with
  | false =>
    have h := genLoop_open_ok succ true true c c r.stmts [] hn hany
    simp only [List.append_nil] at h
    rw [h]
    simp [genLoop, commitTx, sqlRun]
  | true =>
    obtain ⟨pre, f, post, he, hp, hf⟩ := split_first_fail r.stmts hany
    have hnpre : NoCtl pre := NoCtl_append_left (he ▸ hn)
    have h := genLoop_open_ok succ true true c c pre (f :: post) hnpre hp
    obtain ⟨hrun, hne⟩ := fails_sqlRun ⟨c, some (c ++ writes pre)⟩ f hf
    rw [he, h, genLoop_fail_stop succ true _ f post hrun hne]
    simp [rollback_failEffect]

/-- A request marked as a transaction applies all of its writes or none of them, on
both paths: if any statement fails the database is exactly as before, otherwise every
write is committed, in order; no transaction is left open and the request itself
does not fail. -/
theorem tx_all_or_nothing (db : Db) (r : Req)
    (hdb : db.open_ = none) (htx : r.tx = true) (hn : NoCtl r.stmts) :
    (∀ o, o = execute db r ∨ o = request db r →
      o.err = false ∧ o.db.open_ = none ∧
      o.db.committed = if r.stmts.any fails then db.committed else db.committed ++ writes r.stmts) := by
  intro o ho
  rcases ho with h | h
  · rw [h, execute_eq]; exact run_tx_all_or_nothing _ db r hdb htx hn
  · rw [h, request_eq]; exact run_tx_all_or_nothing _ db r hdb htx hn

/-- THE FULL STATEMENT, without the exclusion `NoCtl` (false: see the witness): every request marked
as a transaction, whatever its statements, applies all of its writes or none. -/
def tx_all_or_nothing_full : Prop :=
  ∀ (db : Db) (r : Req), db.open_ = none → r.tx = true →
    ∀ o, o = execute db r ∨ o = request db r →
      o.db.open_ = none ∧ (o.db.committed = db.committed ∨ o.db.committed = db.committed ++ writes r.stmts)

/-- the proved part: `tx_all_or_nothing` under the explicit exclusion "no BEGIN / COMMIT / ROLLBACK
statement inside the request" -/
theorem tx_all_or_nothing_partial (db : Db) (r : Req)
    (hdb : db.open_ = none) (htx : r.tx = true) (hn : NoCtl r.stmts) :
    ∀ o, o = execute db r ∨ o = request db r →
      o.db.open_ = none ∧ (o.db.committed = db.committed ∨ o.db.committed = db.committed ++ writes r.stmts) := by
  intro o ho
  obtain ⟨_, h2, h3⟩ := tx_all_or_nothing db r hdb htx hn o ho
  refine ⟨h2, ?_⟩
  rw [h3]
  split
  · exact Or.inl rfl
  · exact Or.inr rfl

/-- the excluded inputs break it: an explicit COMMIT inside the request ends the wrapper's
transaction early; the statements after it auto-commit; the failure then rolls nothing back.
`Transaction:true [INSERT 1; COMMIT; INSERT 2; <constraint failure>]` leaves rows 1 and 2. -/
theorem tx_all_or_nothing_witness :
    (execute {} ⟨true, false, [.ok 1, .commit, .ok 2, .execFail]⟩).db.committed = [1, 2] ∧
    (request {} ⟨true, false, [.ok 1, .commit, .ok 2, .execFail]⟩).db.committed = [1, 2] ∧
    writes [.ok 1, .commit, .ok 2, .execFail] = [1, 2] ∧
    (execute {} ⟨true, false, [.ok 1, .commit, .execFail, .ok 2]⟩).db.committed = [1] := by decide

theorem tx_all_or_nothing_full_is_false : ¬ tx_all_or_nothing_full := by
  intro h
  have := (h {} ⟨true, false, [.ok 1, .commit, .execFail, .ok 2]⟩ rfl rfl _ (Or.inl rfl)).2
  revert this
  decide

example : (request {} ⟨true, false, [.ok 1, .prepFail, .ok 2]⟩).db = {} ∧
    (execute {} ⟨true, false, [.ok 1, .returning 2 true, .query false]⟩).db.committed = [1, 2] := by decide

/-! ### rollback on error -/

theorem run_rollback_on_error (succ : Db → Stmt → Res) (db : Db) (r : Req)
    (pre body post : List Stmt)
    (hdb : db.open_ = none) (htx : r.tx = false) (hrb : r.rb = true)
    (hs : r.stmts = pre ++ .begin :: (body ++ post))
    (hnpre : NoCtl pre) (hokpre : pre.any fails = false)
    (hnbody : NoCtl body) (hfail : body.any fails = true) :
    (run succ db r).db = ⟨db.committed ++ writes pre, none⟩ := by
  obtain ⟨c, o⟩ := db
  simp only at hdb
  subst hdb
  unfold run
  simp only [htx, hrb, Bool.false_eq_true, if_false, Bool.or_true, hs]
  rw [genLoop_closed_ok succ true false c pre _ hnpre hokpre]
  simp only
  have hb : sqlRun ⟨c ++ writes pre, none⟩ .begin = some ⟨c ++ writes pre, some (c ++ writes pre)⟩ := by
    simp [sqlRun]
  rw [genLoop_some _ _ _ _ _ _ _ (by simp) hb]
  obtain ⟨b1, f, b2, he, hp, hf⟩ := split_first_fail body hfail
  have hnb1 : NoCtl b1 := NoCtl_append_left (he ▸ hnbody)
  have hsplit : body ++ post = b1 ++ f :: (b2 ++ post) := by simp [he]
  rw [hsplit, genLoop_open_ok succ true false _ _ b1 _ hnb1 hp]
  obtain ⟨hrun, hne⟩ := fails_sqlRun ⟨c ++ writes pre, some (c ++ writes pre ++ writes b1)⟩ f hf
  rw [genLoop_fail_stop succ false _ f _ hrun hne]
  simp [rollback_failEffect]

/-- A request that asks for rollback on error and opens an explicit transaction
(`… BEGIN; body…; …`, the shape /db/load sends) leaves no effect of that transaction
when a statement inside it fails: what was committed before the BEGIN stays, nothing
of the body or of anything after the failure is applied, and the connection is no
longer inside a transaction. Both paths. -/
theorem rollback_on_error_leaves_nothing (db : Db) (r : Req) (pre body post : List Stmt)
    (hdb : db.open_ = none) (htx : r.tx = false) (hrb : r.rb = true)
    (hs : r.stmts = pre ++ .begin :: (body ++ post))
    (hnpre : NoCtl pre) (hokpre : pre.any fails = false)
    (hnbody : NoCtl body) (hfail : body.any fails = true) :
    (execute db r).db = ⟨db.committed ++ writes pre, none⟩ ∧
    (request db r).db = ⟨db.committed ++ writes pre, none⟩ := by
  rw [execute_eq, request_eq]
  exact ⟨run_rollback_on_error _ db r pre body post hdb htx hrb hs hnpre hokpre hnbody hfail,
    run_rollback_on_error _ db r pre body post hdb htx hrb hs hnpre hokpre hnbody hfail⟩

example : (request ⟨[7], none⟩ ⟨false, true, [.ok 1, .begin, .ok 2, .execFail, .ok 3, .commit]⟩).db = ⟨[7, 1], none⟩ := by
  decide

/-! #### the failure is the request's context running out -/

/-- The same when the failure is a TIMEOUT: the request's context expires (deadline, cancellation)
during a slow read inside the explicit transaction - SQLite interrupts the read and leaves the
transaction open. What was committed before the BEGIN stays, nothing of the body is applied, the
connection is no longer inside a transaction. Both paths. (An instance of
`rollback_on_error_leaves_nothing`: `timeout` is a failing statement.) -/
theorem rollback_on_error_after_timeout (db : Db) (r : Req) (pre body1 body2 post : List Stmt)
    (hdb : db.open_ = none) (htx : r.tx = false) (hrb : r.rb = true)
    (hs : r.stmts = pre ++ .begin :: ((body1 ++ .timeout :: body2) ++ post))
    (hnpre : NoCtl pre) (hokpre : pre.any fails = false)
    (hnbody : NoCtl (body1 ++ .timeout :: body2)) :
    (execute db r).db = ⟨db.committed ++ writes pre, none⟩ ∧
    (request db r).db = ⟨db.committed ++ writes pre, none⟩ :=
  rollback_on_error_leaves_nothing db r pre (body1 ++ .timeout :: body2) post hdb htx hrb hs hnpre hokpre hnbody
    (by simp [fails])

/-- … and a COMMIT sent afterwards finds no transaction (it fails and changes nothing) -/
example :
    (execute ⟨[7], none⟩ ⟨false, true, [.begin, .ok 1, .timeout, .ok 2, .commit]⟩) = ⟨⟨[7], none⟩, [.eStale, .e 2, .err], false⟩ ∧
    (request ⟨[7], none⟩ ⟨false, true, [.begin, .ok 1, .timeout, .ok 2, .commit]⟩) = ⟨⟨[7], none⟩, [.q [], .e 2, .err], false⟩ ∧
    (execute ⟨[7], none⟩ ⟨false, false, [.commit]⟩) = ⟨⟨[7], none⟩, [.err], false⟩ := by decide

/-- WHY the rollback must not be issued on the request's own context: that context is dead after a
timeout, and a ROLLBACK handed over on it need not run - the transaction would stay open on the
node's only read-write connection and a later COMMIT would make the failed transaction's row durable.
On the background context it always runs. -/
theorem rollback_on_dead_request_context_witness :
    rollbackOn .request true ⟨[7], some [7, 1]⟩ = ⟨[7], some [7, 1]⟩ ∧
    sqlRun (rollbackOn .request true ⟨[7], some [7, 1]⟩) .commit = some ⟨[7, 1], none⟩ ∧
    rollbackOn .background true ⟨[7], some [7, 1]⟩ = ⟨[7], none⟩ ∧
    sqlRun (rollbackOn .background true ⟨[7], some [7, 1]⟩) .commit = none := by decide

/-- the model's choice is the code's (regenerated from db/db.go on every run): both ROLLBACK statements
issued for a RollbackOnError request - `handleError` in executeWithConn and `abortOnError` in
RequestWithContext - are handed over with `context.Background()` -/
theorem rollback_issued_on_background :
    RqModel.Gen.RollbackCtx.rollbackOnErrorContexts =
      ["executeWithConn: context.Background()", "RequestWithContext: context.Background()"] ∧
    rollbackCtx = .background ∧
    ∀ s db, rollbackAfter s db = rollbackIgnore db :=
  ⟨by decide, rfl, rollbackAfter_eq⟩

theorem run_rollback_autocommit (succ : Db → Stmt → Res) (db : Db) (r : Req)
    (pre post : List Stmt) (f : Stmt)
    (hdb : db.open_ = none) (htx : r.tx = false) (hrb : r.rb = true)
    (hs : r.stmts = pre ++ f :: post) (hnpre : NoCtl pre) (hokpre : pre.any fails = false)
    (hf : fails f = true) :
    run succ db r = ⟨failEffect ⟨db.committed ++ writes pre, none⟩ f,
      specAll succ db pre ++ [.err], false⟩ := by
  obtain ⟨c, o⟩ := db
  simp only at hdb
  subst hdb
  unfold run
  simp only [htx, hrb, Bool.false_eq_true, if_false, Bool.or_true, hs]
  rw [genLoop_closed_ok succ true false c pre _ hnpre hokpre]
  obtain ⟨hrun, hne⟩ := fails_sqlRun ⟨c ++ writes pre, none⟩ f hf
  rw [genLoop_fail_stop succ false _ f _ hrun hne]
  have : rollbackIgnore (failEffect ⟨c ++ writes pre, none⟩ f) = failEffect ⟨c ++ writes pre, none⟩ f := by
    cases f <;> simp [failEffect, rollbackIgnore, sqlRun, Db.write]
  simp [this]

/-- Rollback-on-error WITHOUT an explicit transaction (every statement auto-commits): execution
stops at the first failure, what the earlier statements committed stays, and a statement that is
not atomic on its own leaves what it had done before failing (`failEffect`: the ROLLBACK the code
issues finds no transaction). There is no "failed transaction" to undo in this shape; stated so
that the behaviour is visible. Both paths. -/
theorem rollback_on_error_without_transaction (db : Db) (r : Req) (pre post : List Stmt) (f : Stmt)
    (hdb : db.open_ = none) (htx : r.tx = false) (hrb : r.rb = true)
    (hs : r.stmts = pre ++ f :: post) (hnpre : NoCtl pre) (hokpre : pre.any fails = false)
    (hf : fails f = true) :
    (execute db r).db = failEffect ⟨db.committed ++ writes pre, none⟩ f ∧
    (request db r).db = failEffect ⟨db.committed ++ writes pre, none⟩ f := by
  rw [execute_eq, request_eq, run_rollback_autocommit _ db r pre post f hdb htx hrb hs hnpre hokpre hf,
    run_rollback_autocommit _ db r pre post f hdb htx hrb hs hnpre hokpre hf]
  exact ⟨rfl, rfl⟩

example : (execute ⟨[7], none⟩ ⟨false, true, [.ok 1, .partialFail 2, .ok 3]⟩).db = ⟨[7, 1, 2], none⟩ := by decide

/-! ### results -/

/-- the state the statements of the request start from -/
def startDb (db : Db) (r : Req) : Db :=
  if r.tx then { db with open_ := some db.committed } else db

theorem run_results (succ : Db → Stmt → Res) (db : Db) (r : Req) (hdb : db.open_ = none) :
    (run succ db r).results =
      if r.tx || r.rb then specStop succ (startDb db r) r.stmts
      else specAll succ (startDb db r) r.stmts := by
  obtain ⟨c, o⟩ := db
  simp only at hdb
  subst hdb
  unfold run startDb
  cases htx : r.tx
  · simp only [Bool.false_eq_true, if_false, Bool.false_or]
    rw [genLoop_results]
  · simp only [if_true, sqlRun, Bool.true_or]
    split
    · simp only [commitTx]
      split <;> simp [genLoop_results]
    · simp [genLoop_results]

/-- Results are returned in statement order, one for each non-empty statement
executed, each reporting that statement's own outcome: the result list IS the plain
statement-by-statement specification (`specAll`: one entry per non-empty statement,
computed from the state its predecessors left), cut after the first failure
(`specStop`) exactly when the request is a transaction or asks for rollback on error.
For every request, statement list and flag setting, control statements included. -/
theorem results_in_order_one_per_executed_nonempty (db : Db) (r : Req) (hdb : db.open_ = none) :
    (execute db r).results =
      (if r.tx || r.rb then specStop execSucc (startDb db r) r.stmts
       else specAll execSucc (startDb db r) r.stmts) ∧
    (request db r).results =
      (if r.tx || r.rb then specStop reqSucc (startDb db r) r.stmts
       else specAll reqSucc (startDb db r) r.stmts) := by
  rw [execute_eq, request_eq]
  exact ⟨run_results _ db r hdb, run_results _ db r hdb⟩

/-- the specification has exactly one result per non-empty statement … -/
theorem one_result_per_nonempty (succ : Db → Stmt → Res) (db : Db) (ss : List Stmt) :
    (specAll succ db ss).length = (ss.filter (· ≠ .empty)).length := specAll_length succ db ss

/-- … and the cut list is a prefix of it -/
theorem executed_results_are_a_prefix (succ : Db → Stmt → Res) (db : Db) (ss : List Stmt) :
    specStop succ db ss <+: specAll succ db ss := specStop_prefix succ db ss

/-- a plain request (no transaction, no rollback-on-error) returns exactly one result
per non-empty statement, whatever fails -/
theorem plain_request_result_count (db : Db) (r : Req) (hdb : db.open_ = none)
    (htx : r.tx = false) (hrb : r.rb = false) :
    (execute db r).results.length = (r.stmts.filter (· ≠ .empty)).length ∧
    (request db r).results.length = (r.stmts.filter (· ≠ .empty)).length := by
  obtain ⟨h1, h2⟩ := results_in_order_one_per_executed_nonempty db r hdb
  rw [h1, h2]
  simp [htx, hrb, specAll_length]

example : (execute {} ⟨false, false, [.ok 1, .empty, .execFail, .query false, .returning 2 true]⟩).results =
    [.e 1, .err, .eStale, .q [2]] := by decide

/-! ### stops at the first failure -/

theorem run_stops (succ : Db → Stmt → Res) (db : Db) (r : Req) (pre post : List Stmt) (f : Stmt)
    (hdb : db.open_ = none) (htx : r.tx = true)
    (hs : r.stmts = pre ++ f :: post) (hn : NoCtl pre) (hok : pre.any fails = false)
    (hf : fails f = true) :
    run succ db r = ⟨db, specAll succ (startDb db r) pre ++ [.err], false⟩ := by
  obtain ⟨c, o⟩ := db
  simp only at hdb
  subst hdb
  unfold run startDb
  simp only [htx, if_true, sqlRun, Bool.true_or, hs]
  rw [genLoop_open_ok succ true true c c pre (f :: post) hn hok]
  obtain ⟨hrun, hne⟩ := fails_sqlRun ⟨c, some (c ++ writes pre)⟩ f hf
  rw [genLoop_fail_stop succ true _ f post hrun hne]
  simp [rollback_failEffect]

/-- Execution stops at the first failure inside a transaction: with `pre` the
statements before the first failing statement `f`, the results are those of `pre`
followed by one error, nothing of `post` (ANY statements, control statements and
further failures included) is executed or reported, and the database is exactly as
before the request. Both paths. -/
theorem stops_at_first_failure_in_tx (db : Db) (r : Req) (pre post : List Stmt) (f : Stmt)
    (hdb : db.open_ = none) (htx : r.tx = true)
    (hs : r.stmts = pre ++ f :: post) (hn : NoCtl pre) (hok : pre.any fails = false)
    (hf : fails f = true) :
    execute db r = ⟨db, specAll execSucc (startDb db r) pre ++ [.err], false⟩ ∧
    request db r = ⟨db, specAll reqSucc (startDb db r) pre ++ [.err], false⟩ ∧
    (execute db r).results.length = (pre.filter (· ≠ .empty)).length + 1 ∧
    (request db r).results.length = (pre.filter (· ≠ .empty)).length + 1 := by
  have h1 := run_stops execSucc db r pre post f hdb htx hs hn hok hf
  have h2 := run_stops reqSucc db r pre post f hdb htx hs hn hok hf
  rw [execute_eq, request_eq, h1, h2]
  simp [specAll_length]

example : request ⟨[9], none⟩ ⟨true, false, [.ok 1, .empty, .prepFail, .commit, .ok 2, .execFail]⟩ =
    ⟨⟨[9], none⟩, [.e 2, .err], false⟩ := by decide

/-- A statement that makes SQLite roll the transaction back by itself (`INSERT OR ROLLBACK`,
`RAISE(ROLLBACK)` in a trigger) inside a Transaction request: the clause still holds - the request
ends there with an error result, nothing is applied, no transaction is left open; the wrapper's own
ROLLBACK finds no transaction and its error is ignored. Both paths. (Instance of
`stops_at_first_failure_in_tx`; stated for visibility.) -/
theorem auto_rollback_inside_transaction (db : Db) (r : Req) (pre post : List Stmt)
    (hdb : db.open_ = none) (htx : r.tx = true)
    (hs : r.stmts = pre ++ .autoRollback :: post) (hn : NoCtl pre) (hok : pre.any fails = false) :
    (execute db r).db = db ∧ (request db r).db = db ∧
    (execute db r).err = false ∧ (request db r).err = false := by
  obtain ⟨h1, h2, _, _⟩ := stops_at_first_failure_in_tx db r pre post .autoRollback hdb htx hs hn hok rfl
  rw [h1, h2]
  exact ⟨rfl, rfl, rfl, rfl⟩

/-- outside the wrapper: in `[BEGIN; INSERT 1; <auto-rollback>; INSERT 2; COMMIT]` without
rollback-on-error the explicit transaction is gone after the failure, INSERT 2 auto-commits and the
COMMIT fails -/
example : (execute {} ⟨false, false, [.begin, .ok 1, .autoRollback, .ok 2, .commit]⟩) =
    ⟨⟨[2], none⟩, [.eStale, .e 1, .err, .e 1, .err], false⟩ := by decide

/-! ### what the exclusion `NoCtl` is about (kept visible)
An explicit COMMIT inside a `Transaction` request ends the wrapper's transaction
early; later statements autocommit. This is outside the property's quantifier. -/
theorem ctl_inside_tx_request_witness :
    (execute {} ⟨true, false, [.ok 1, .commit, .ok 2, .execFail]⟩).db.committed = [1, 2] := by decide

end C13

package main

// PlanShapes: order of the plan-builder calls (p.AddXxx) in the functions that build
// crash-recovery plans, and whether the plan is persisted before it is executed.
//   snapshot/store.go  (*Store).reapInternal   (C07)
//   snapshot/upgrader.go Upgrade8To10          (C08)

import (
	"go/token"
	"sort"
	"fmt"
	"go/ast"
	"strings"
)

type addCall struct{ name, ctx string }

// collectAdds lists the calls <recv>.AddXxx(...) under n in source order. ctx is "" for a
// straight-line call, the ranged-over set name for a call inside `for … range X.All()`,
// and "if" for a call under a nested if.
func collectAdds(x *X, n ast.Node, recv string, ctx string, out *[]addCall) {
	switch t := n.(type) {
	case nil:
		return
	case *ast.BlockStmt:
		for _, s := range t.List {
			collectAdds(x, s, recv, ctx, out)
		}
	case *ast.RangeStmt:
		c := ctx
		if call, ok := t.X.(*ast.CallExpr); ok {
			if sel, ok := call.Fun.(*ast.SelectorExpr); ok {
				if id, ok := sel.X.(*ast.Ident); ok {
					c = id.Name
				}
			}
		} else if id, ok := t.X.(*ast.Ident); ok {
			c = id.Name
		}
		collectAdds(x, t.Body, recv, c, out)
	case *ast.ForStmt:
		collectAdds(x, t.Body, recv, "for", out)
	case *ast.IfStmt:
		collectAdds(x, t.Body, recv, "if", out)
		if t.Else != nil {
			collectAdds(x, t.Else, recv, "else", out)
		}
	case *ast.ExprStmt:
		if call, ok := t.X.(*ast.CallExpr); ok {
			if sel, ok := call.Fun.(*ast.SelectorExpr); ok {
				if id, ok := sel.X.(*ast.Ident); ok && id.Name == recv && strings.HasPrefix(sel.Sel.Name, "Add") {
					*out = append(*out, addCall{sel.Sel.Name, ctx})
				}
			}
		}
	}
}

func leanPairs(cs []addCall) string {
	var parts []string
	for _, c := range cs {
		parts = append(parts, fmt.Sprintf("(%s, %s)", LeanStr(c.name), LeanStr(c.ctx)))
	}
	return "[" + strings.Join(parts, ", ") + "]"
}

func init() {
	register("PlanShapes", func(x *X) {
		x.Comment("snapshot/store.go (*Store).reapInternal: plan-builder calls of the two branches, in source order")
		var removeOnly, consolidate []addCall
		var writeBeforeExec, found bool
		if fd := x.Func("snapshot", "Store", "reapInternal"); fd != nil {
			ast.Inspect(fd.Body, func(n ast.Node) bool {
				is, ok := n.(*ast.IfStmt)
				if !ok {
					return true
				}
				if x.Src(is.Cond) == "newerSet.Len() == 0 && len(walFiles) == 0" {
					collectAdds(x, is.Body, "p", "", &removeOnly)
					if e, ok := is.Else.(*ast.IfStmt); ok && x.Src(e.Cond) == "len(walFiles) > 0" {
						collectAdds(x, e.Body, "p", "", &consolidate)
					}
					return false
				}
				return true
			})
			// the plan is written (plan.WriteToFile(p, s.reapPlanPath)) after the last AddXxx and
			// before the only executeReapPlan(p, …) call that follows the construction
			var lastAdd, write, exec int
			for i, s := range fd.Body.List {
				var adds []addCall
				collectAdds(x, s, "p", "", &adds)
				if is, ok := s.(*ast.IfStmt); ok {
					collectAdds(x, is, "p", "", &adds)
				}
				if len(adds) > 0 {
					lastAdd = i
				}
				if len(x.Calls(s, "WriteToFile")) > 0 {
					write = i
				}
				if rs, ok := s.(*ast.ReturnStmt); ok && len(x.Calls(rs, "executeReapPlan")) > 0 {
					exec = i
				}
			}
			if lastAdd > 0 && write > 0 && exec > 0 {
				found = true
				writeBeforeExec = lastAdd < write && write < exec
			}
		}
		// EVERY place reapInternal starts executing a plan, in source order, classified:
		//   "resumes-plan-read-from-file"  the enclosing block read the plan from REAP_PLAN just before
		//   "after-plan-written"           a top-level return preceded by the top-level WriteToFile
		//   "plan-not-written"             anything else (a branch executing a plan that is not on disk)
		var sites []string
		if fd := x.Func("snapshot", "Store", "reapInternal"); fd != nil {
			topWrite := -1
			for i, st := range fd.Body.List {
				if _, isIf := st.(*ast.IfStmt); isIf && len(x.Calls(st, "WriteToFile")) > 0 && topWrite < 0 {
					topWrite = i
				}
			}
			var blocks []*ast.BlockStmt
			var visit func(n ast.Node)
			classify := func(c *ast.CallExpr) string {
				inner := blocks[len(blocks)-1]
				for _, st := range inner.List {
					if _, isAssign := st.(*ast.AssignStmt); isAssign && st.End() <= c.Pos() && len(x.Calls(st, "ReadFromFile")) > 0 {
						return "resumes-plan-read-from-file"
					}
				}
				if inner == fd.Body && topWrite >= 0 {
					for i, st := range fd.Body.List {
						if st.Pos() <= c.Pos() && c.End() <= st.End() {
							if _, isRet := st.(*ast.ReturnStmt); isRet && i > topWrite {
								return "after-plan-written"
							}
						}
					}
				}
				return "plan-not-written"
			}
			visit = func(n ast.Node) {
				ast.Inspect(n, func(m ast.Node) bool {
					if m == nil || m == n {
						return true
					}
					if b, ok := m.(*ast.BlockStmt); ok {
						blocks = append(blocks, b)
						for _, st := range b.List {
							visit(st)
						}
						blocks = blocks[:len(blocks)-1]
						return false
					}
					if c, ok := m.(*ast.CallExpr); ok {
						if nm := calleeName(c); nm == "executeReapPlan" || nm == "Execute" {
							sites = append(sites, classify(c))
						}
					}
					return true
				})
			}
			blocks = append(blocks, fd.Body)
			for _, st := range fd.Body.List {
				visit(st)
			}
		}
		x.DefStrings("reapExecuteSites", sites)
		// the verification steps on the fresh path: order of the calls (first occurrence each),
		// ensureVerified only in the else branch of the resume test, the guard of inputs.Check
		var fresh []string
		verifiesOnlyFresh := false
		inputsGuard := ""
		if fd := x.Func("snapshot", "Store", "reapInternal"); fd != nil {
			type hit struct {
				pos  token.Pos
				name string
			}
			var hits []hit
			seen := map[string]bool{}
			ast.Inspect(fd.Body, func(n ast.Node) bool {
				c, ok := n.(*ast.CallExpr)
				if !ok {
					return true
				}
				src := x.Src(c.Fun)
				name := ""
				switch {
				case src == "s.ensureVerified":
					name = "ensureVerified"
				case src == "s.getSnapshots":
					name = "getSnapshots"
				case src == "inputs.Check":
					name = "inputs.Check"
				case src == "plan.WriteToFile":
					name = "plan.WriteToFile"
				case src == "s.executeReapPlan":
					name = "executeReapPlan"
				}
				if name == "executeReapPlan" {
					// the resume call precedes everything; the fresh path's is the last one
					hits = append(hits, hit{c.Pos(), name})
				} else if name != "" && !seen[name] {
					seen[name] = true
					hits = append(hits, hit{c.Pos(), name})
				}
				return true
			})
			sort.Slice(hits, func(i, j int) bool { return hits[i].pos < hits[j].pos })
			for i, h := range hits {
				if h.name == "executeReapPlan" && i == 0 {
					continue // the resume branch
				}
				fresh = append(fresh, h.name)
			}
			for _, st := range fd.Body.List {
				is, ok := st.(*ast.IfStmt)
				if !ok || x.Src(is.Cond) != "fsutil.FileExists(s.reapPlanPath)" {
					continue
				}
				inElse := is.Else != nil && len(x.Calls(is.Else, "ensureVerified")) > 0
				inThen := len(x.Calls(is.Body, "ensureVerified")) > 0
				verifiesOnlyFresh = inElse && !inThen && len(x.Calls(fd.Body, "ensureVerified")) == 1
			}
			ast.Inspect(fd.Body, func(n ast.Node) bool {
				is, ok := n.(*ast.IfStmt)
				if ok && inputsGuard == "" && len(x.Calls(is.Body, "Check")) > 0 {
					for _, c := range x.Calls(is.Body, "Check") {
						if x.Src(c.Fun) == "inputs.Check" {
							inputsGuard = x.Src(is.Cond)
						}
					}
				}
				return true
			})
		}
		// verifyPlanInputs: the condition under which the database file of a checkpoint operation is
		// CRC-checked before an interrupted plan is resumed, as source text
		var cond []string
		if fd := x.Func("snapshot", "Store", "verifyPlanInputs"); fd != nil {
			ast.Inspect(fd.Body, func(n ast.Node) bool {
				switch t := n.(type) {
				case *ast.AssignStmt:
					if len(t.Lhs) == 1 && x.Src(t.Lhs[0]) == "untouched" && t.Tok == token.DEFINE {
						cond = append(cond, "untouched := "+x.Src(t.Rhs[0]))
					}
				case *ast.RangeStmt:
					if x.Src(t.X) == "op.WALs" {
						for _, st := range t.Body.List {
							if is, ok := st.(*ast.IfStmt); ok {
								for _, b := range is.Body.List {
									if as, ok := b.(*ast.AssignStmt); ok && len(as.Lhs) == 1 && x.Src(as.Lhs[0]) == "untouched" {
										cond = append(cond, "for "+x.Src(t.Value)+" in op.WALs: if "+x.Src(is.Cond)+" { untouched = "+x.Src(as.Rhs[0])+" }")
									}
								}
							}
						}
					}
				case *ast.IfStmt:
					for _, c := range x.Calls(t.Body, "check") {
						if len(c.Args) == 1 && x.Src(c.Args[0]) == "op.DB" {
							cond = append(cond, "if "+x.Src(t.Cond)+" { check(op.DB) }")
						}
					}
				}
				return true
			})
		}
		x.DefStrings("resumeDbCheckCondition", cond)
		// both places that resume a plan read from disk verify its inputs before executing it
		resumeChecks := true
		nResume := 0
		for _, fn := range []string{"reapInternal", "check"} {
			fd := x.Func("snapshot", "Store", fn)
			if fd == nil {
				resumeChecks = false
				continue
			}
			ast.Inspect(fd.Body, func(n ast.Node) bool {
				b, ok := n.(*ast.BlockStmt)
				if !ok {
					return true
				}
				read, verify, exec := token.NoPos, token.NoPos, token.NoPos
				for _, st := range b.List {
					if _, isAssign := st.(*ast.AssignStmt); isAssign && len(x.Calls(st, "ReadFromFile")) > 0 && read == token.NoPos {
						read = st.Pos()
					}
					if cs := x.Calls(st, "verifyPlanInputs"); len(cs) > 0 && verify == token.NoPos {
						verify = cs[0].Pos()
					}
					if cs := append(x.Calls(st, "executeReapPlan"), x.Calls(st, "Execute")...); len(cs) > 0 && exec == token.NoPos && read != token.NoPos && st.Pos() > read {
						exec = cs[0].Pos()
						for _, c := range cs {
							if c.Pos() < exec {
								exec = c.Pos()
							}
						}
					}
				}
				if read != token.NoPos && exec != token.NoPos {
					nResume++
					if !(verify != token.NoPos && read < verify && verify < exec) {
						resumeChecks = false
					}
				}
				return true
			})
		}
		x.DefBool("resumeChecksBeforeExecuting", resumeChecks && nResume >= 2)
		x.DefStrings("reapFreshPathSteps", fresh)
		x.DefBool("reapVerifiesOnlyWhenNotResuming", verifiesOnlyFresh)
		x.DefString("reapInputsCheckGuard", inputsGuard)
		x.Raw("def reapRemoveOnly : List (String × String) := " + leanPairs(removeOnly))
		x.Raw("def reapConsolidate : List (String × String) := " + leanPairs(consolidate))
		x.DefOptBool("reapWriteBeforeExecute", writeBeforeExec, found)

		x.Comment("snapshot/upgrader.go Upgrade8To10: plan-builder calls in source order; plan written before executed")
		var up []addCall
		var upWB, upFound bool
		if fd := x.Func("snapshot", "", "Upgrade8To10"); fd != nil {
			var lastAdd, write, exec int
			for i, s := range fd.Body.List {
				var adds []addCall
				collectAdds(x, s, "p", "", &adds)
				up = append(up, adds...)
				if len(adds) > 0 {
					lastAdd = i
				}
				if len(x.Calls(s, "WriteToFile")) > 0 {
					write = i
				}
				if is, ok := s.(*ast.IfStmt); ok && write > 0 && i > write && len(x.Calls(is.Init, "Execute")) > 0 {
					exec = i
				}
			}
			if lastAdd > 0 && write > 0 && exec > 0 {
				upFound = true
				upWB = lastAdd < write && write < exec
			}
		}
		x.Comment("Upgrade8To10: before looking for a plan, an EMPTY new directory is removed (if fsutil.DirExists(new) { … fsutil.DirIsEmpty(new) … os.Remove(new) })")
		var rmEmpty, rmFound bool
		if fd := x.Func("snapshot", "", "Upgrade8To10"); fd != nil {
			rmFound = true
			for _, st := range fd.Body.List {
				is, ok := st.(*ast.IfStmt)
				if !ok {
					continue
				}
				if x.Src(is.Cond) == "fsutil.FileExists(planPath)" {
					break // reached the resume branch without having seen the removal
				}
				if x.Src(is.Cond) == "fsutil.DirExists(new)" {
					empties, removes := false, false
					for _, c := range x.Calls(is.Body, "DirIsEmpty") {
						if len(c.Args) == 1 && x.Src(c.Args[0]) == "new" {
							empties = true
						}
					}
					for _, c := range x.Calls(is.Body, "Remove") {
						if len(c.Args) == 1 && x.Src(c.Args[0]) == "new" {
							removes = true
						}
					}
					rmEmpty = empties && removes
					break
				}
			}
		}
		x.DefOptBool("upgradeRemovesEmptyNewFirst", rmEmpty, rmFound)
		x.Raw("def upgrade8To10 : List (String × String) := " + leanPairs(up))
		x.DefOptBool("upgradeWriteBeforeExecute", upWB, upFound)

		x.Comment("Upgrade8To10 resume branch (if fsutil.FileExists(planPath) {…}): is p.Execute guarded by `if fsutil.DirExists(new) {clean-up} else`?")
		var guard, gFound bool
		if fd := x.Func("snapshot", "", "Upgrade8To10"); fd != nil {
			for _, s := range fd.Body.List {
				is, ok := s.(*ast.IfStmt)
				if !ok || x.Src(is.Cond) != "fsutil.FileExists(planPath)" {
					continue
				}
				gFound = true
				for _, t := range is.Body.List {
					g, ok := t.(*ast.IfStmt)
					if !ok || x.Src(g.Cond) != "fsutil.DirExists(new)" {
						continue
					}
					// the guarded branch must not execute the plan, the else branch must
					if len(x.Calls(g.Body, "Execute")) == 0 && g.Else != nil && len(x.Calls(g.Else, "Execute")) == 1 &&
						len(x.Calls(g.Body, "RemoveAll")) == 2 {
						guard = true
					}
				}
				// no unguarded Execute directly in the resume block
				for _, t := range is.Body.List {
					if g, ok := t.(*ast.IfStmt); ok && x.Src(g.Cond) == "fsutil.DirExists(new)" {
						continue
					}
					if len(x.Calls(t, "Execute")) > 0 {
						guard = false
					}
				}
			}
		}
		x.DefOptBool("upgradeResumeSkipsPlanWhenNewExists", guard, gFound)

		x.Comment("store/store.go (*Store).Open: order of the snapshot-related calls")
		var order []string
		if fd := x.Func("store", "Store", "Open"); fd != nil {
			ast.Inspect(fd.Body, func(n ast.Node) bool {
				if c, ok := n.(*ast.CallExpr); ok {
					switch calleeName(c) {
					case "Upgrade7To8", "Upgrade8To10", "NewStore":
						if sel, ok := c.Fun.(*ast.SelectorExpr); ok {
							if id, ok := sel.X.(*ast.Ident); ok && id.Name == "snapshot" {
								order = append(order, calleeName(c))
							}
						}
					}
				}
				return true
			})
		}
		x.DefStrings("openSnapshotCalls", order)
	})
}

/-
Model of `(*CheckAndSet).BeginWithRetry` (internal/rsync/cas.go) and of its call
in `(*Store).Close` (store/store.go) — C31.

    deadline := time.Now().Add(timeout)
    for {
        if c.Begin(owner) == nil { return nil }
        if time.Now().After(deadline) { return ErrCASConflictTimeout }
        time.Sleep(retryInterval)
    }

Time is an explicit `Nat` nanosecond clock. The gate is held by somebody else
until `release` (`none` = it is never released); nobody else competes. The k-th
attempt happens at `start + k * interval` (computation takes no time and `Sleep`
sleeps exactly `interval`; a zero/negative interval is modelled as 1 ns per
iteration, since real iterations take time). `Begin` at time `t` succeeds iff
`release ≤ t`. `After` is strict.
-/
import RqModel.Model.Util
import RqModel.Gen.Consts
namespace RqModel.CasRetry
open RqModel.Util

inductive Outcome where
  | acquired (t : Nat)
  | timedOut (t : Nat)
deriving Repr, DecidableEq

/-- the gate is free at time `t` -/
def free (release : Option Nat) (t : Nat) : Bool :=
  match release with
  | some r => decide (r ≤ t)
  | none => false

/-- the retry loop, at time `t`, with `fuel` iterations left -/
def loop (deadline interval : Nat) (release : Option Nat) : Nat → Nat → Outcome
  | 0, t => .timedOut t
  | fuel + 1, t =>
    if free release t then .acquired t
    else if deadline < t then .timedOut t
    else loop deadline interval release fuel (t + interval)

/-- the same loop when OTHER operations (snapshot, backup, integrity check) may take and release
the gate at any time: `held t` says whether somebody holds it at time `t` -/
def loopH (deadline interval : Nat) (held : Nat → Bool) : Nat → Nat → Outcome
  | 0, t => .timedOut t
  | fuel + 1, t =>
    if !held t then .acquired t
    else if deadline < t then .timedOut t
    else loopH deadline interval held fuel (t + interval)

/-- effective interval: real iterations take time -/
def effInterval (interval : Int) : Nat := if interval < 1 then 1 else interval.toNat

/-- `BeginWithRetry(owner, timeout, retryInterval)` started at `start` -/
def beginWithRetry (start : Nat) (timeout interval : Int) (release : Option Nat) : Outcome :=
  let iv := effInterval interval
  let to := timeout.toNat        -- a negative timeout puts the deadline in the past: same as 0 here
  loop (start + to) iv release (to / iv + 2) start

/-- `BeginWithRetry` against an arbitrary schedule of other holders -/
def beginWithRetryH (start : Nat) (timeout interval : Int) (held : Nat → Bool) : Outcome :=
  let iv := effInterval interval
  let to := timeout.toNat
  loopH (start + to) iv held (to / iv + 2) start

/-! ### line protocol (component `casretry`)
`bwr <start> <timeout> <interval> <release|->` → `acquired <t>` | `timeout <t>`
`class <start> <timeout> <interval> <release|->` → `acquired` | `timeout`
`closeclass <release|->` → the same for `Store.Close`'s gate acquisition started at 0 with the
  call-site arguments regenerated from store/store.go (`no-args` if they were not found) -/

structure DState where
  dummy : Unit := ()

def init : DState := {}

def parse (s t i r : String) : Option (Nat × Int × Int × Option Nat) :=
  match s.toNat?, t.toInt?, i.toInt? with
  | some s, some t, some i =>
    if r == "-" then some (s, t, i, none) else r.toNat?.map (fun r => (s, t, i, some r))
  | _, _, _ => none

def step (d : DState) (line : String) : DState × String :=
  match words line with
  | ["bwr", s, t, i, r] =>
    match parse s t i r with
    | some (s, t, i, r) =>
      (d, match beginWithRetry s t i r with
          | .acquired x => s!"acquired {x}"
          | .timedOut x => s!"timeout {x}")
    | none => (d, "bad-op")
  | ["class", s, t, i, r] =>
    match parse s t i r with
    | some (s, t, i, r) =>
      (d, match beginWithRetry s t i r with
          | .acquired _ => "acquired"
          | .timedOut _ => "timeout")
    | none => (d, "bad-op")
  | ["closeclass", r] =>
    match RqModel.Gen.Consts.closeCasTimeoutNs, RqModel.Gen.Consts.closeCasRetryNs with
    | some t, some i =>
      let rel : Option (Option Nat) := if r == "-" then some none else r.toNat?.map some
      match rel with
      | some rel =>
        (d, match beginWithRetry 0 t i rel with
            | .acquired _ => "acquired"
            | .timedOut _ => "timeout")
      | none => (d, "bad-op")
    | _, _ => (d, "no-args")
  | _ => (d, "bad-op")

end RqModel.CasRetry
--! driver: casretry RqModel.CasRetry

/-
Model of internal/rsync: cas.go (`CheckAndSet`), multir_singlew.go (`MultiRSW`),
ready_target.go (`ReadyTarget[uint64]`) — C34; `MultiRSW` is reused by C11 and
`CheckAndSet` by C31.

Every method body runs under the primitive's mutex (LockDiscipline facts), so
each method is one atomic function on the primitive's state. A `cond.Wait()`
loop makes the method a *guarded* step: it is enabled exactly when the loop
condition is false, and then performs the rest of the body.

Results: `ok`, `conflict` (an error return), `panic` (the Go code panics; the
state shown is the state at the panic).
-/
import RqModel.Model.Util
namespace RqModel.Rsync
open RqModel.Util

inductive Res where
  | ok | conflict | panic
deriving Repr, DecidableEq

def Res.str : Res → String
  | .ok => "ok" | .conflict => "conflict" | .panic => "panic"

/-! ### CheckAndSet -/

structure Cas where
  state : Bool := false
  owner : String := ""
deriving Repr, DecidableEq

/-- `Begin(owner)` -/
def Cas.begin (c : Cas) (o : String) : Cas × Res :=
  if c.state then (c, .conflict) else ({ state := true, owner := o }, .ok)

/-- `End()` (unconditional) -/
def Cas.end_ (_ : Cas) : Cas := { state := false, owner := "" }

/-! ### MultiRSW -/

structure Mrsw where
  owner : String := ""
  numReaders : Int := 0
deriving Repr, DecidableEq

def Mrsw.beginRead (r : Mrsw) : Mrsw × Res :=
  if r.owner ≠ "" then (r, .conflict) else ({ r with numReaders := r.numReaders + 1 }, .ok)

/-- guard of `BeginReadBlocking` (`for r.owner != "" { Wait }`) -/
def Mrsw.readEnabled (r : Mrsw) : Bool := r.owner == ""

/-- `BeginReadBlocking` once its guard holds -/
def Mrsw.beginReadBlocking (r : Mrsw) : Option Mrsw :=
  if r.readEnabled then some { r with numReaders := r.numReaders + 1 } else none

def Mrsw.endRead (r : Mrsw) : Mrsw × Res :=
  let n := r.numReaders - 1
  if n < 0 then ({ r with numReaders := n }, .panic) else ({ r with numReaders := n }, .ok)

def Mrsw.beginWrite (r : Mrsw) (o : String) : Mrsw × Res :=
  if o = "" then (r, .panic)
  else if r.owner ≠ "" then (r, .conflict)
  else if r.numReaders > 0 then (r, .conflict)
  else ({ r with owner := o }, .ok)

/-- guard of `BeginWriteBlocking` (`for r.owner != "" || r.numReaders > 0 { Wait }`) -/
def Mrsw.writeEnabled (r : Mrsw) : Bool := r.owner == "" && decide (r.numReaders ≤ 0)

/-- `BeginWriteBlocking(owner)`: `none` = blocked; an empty owner panics before locking -/
def Mrsw.beginWriteBlocking (r : Mrsw) (o : String) : Option (Mrsw × Res) :=
  if o = "" then some (r, .panic)
  else if r.writeEnabled then some ({ r with owner := o }, .ok) else none

def Mrsw.endWrite (r : Mrsw) : Mrsw × Res :=
  if r.owner = "" then (r, .panic) else ({ r with owner := "" }, .ok)

def Mrsw.upgrade (r : Mrsw) (o : String) : Mrsw × Res :=
  if r.owner ≠ "" then (r, .conflict)
  else if r.numReaders > 1 then (r, .conflict)
  else if r.numReaders = 0 then (r, .panic)
  else ({ owner := o, numReaders := 0 }, .ok)

/-! ### ReadyTarget[uint64]
A channel is identified by the number `Subscribe` hands out. `closed` records,
for every channel closed so far, its target and the value of `currentTarget` at
the moment of closing. -/

structure Sub where
  id : Nat
  target : Nat
deriving Repr, DecidableEq

structure Closed where
  id : Nat
  target : Nat
  at_ : Nat
deriving Repr, DecidableEq

structure Rt where
  current : Nat := 0
  subs : List Sub := []
  nextId : Nat := 0
  closed : List Closed := []
deriving Repr, DecidableEq

/-- `Subscribe(target)` → the new channel's id -/
def Rt.subscribe (r : Rt) (t : Nat) : Rt × Nat :=
  if t ≤ r.current then
    ({ r with nextId := r.nextId + 1, closed := r.closed ++ [⟨r.nextId, t, r.current⟩] }, r.nextId)
  else
    ({ r with nextId := r.nextId + 1, subs := r.subs ++ [⟨r.nextId, t⟩] }, r.nextId)

/-- remove the first subscriber whose channel is `id` -/
def eraseFirst (id : Nat) : List Sub → List Sub
  | [] => []
  | s :: rest => if s.id = id then rest else s :: eraseFirst id rest

def Rt.unsubscribe (r : Rt) (id : Nat) : Rt := { r with subs := eraseFirst id r.subs }

def Rt.signal (r : Rt) (idx : Nat) : Rt :=
  if idx ≤ r.current then r
  else
    { r with
      current := idx
      subs := r.subs.filter (fun s => !(decide (idx ≥ s.target)))
      closed := r.closed ++ (r.subs.filter (fun s => decide (idx ≥ s.target))).map (fun s => ⟨s.id, s.target, idx⟩) }

/-- `Reset`: subscribers are dropped without being closed -/
def Rt.reset (r : Rt) : Rt := { r with current := 0, subs := [] }

def Rt.isClosed (r : Rt) (id : Nat) : Bool := r.closed.any (fun c => c.id == id)

/-! ### line protocol (component `rsync`)
`reset` → `ok` (fresh primitives)
`cas.begin <owner>` → `ok|conflict` ; `cas.end` → `ok` ; `cas.owner` → `<hex owner>`
`m.br` `m.brb` `m.er` `m.bw <owner>` `m.bwb <owner>` `m.ew` `m.up <owner>` → `ok|conflict|panic|blocked`
`m.state` → `<hex owner> <numReaders>`
`rt.sub <target>` → `<id> open|closed` ; `rt.unsub <id>` → `ok` ; `rt.signal <idx>` → `ok`
`rt.reset` → `ok` ; `rt.len` → n ; `rt.closed <id>` → `true|false` -/

structure DState where
  cas : Cas := {}
  m : Mrsw := {}
  rt : Rt := {}

def init : DState := {}

def step (d : DState) (line : String) : DState × String :=
  match words line with
  | ["reset"] => ({}, "ok")
  | ["cas.begin", o] =>
    match tokString o with
    | some o => let (c, r) := d.cas.begin o; ({ d with cas := c }, r.str)
    | none => (d, "bad-op")
  | ["cas.end"] => ({ d with cas := d.cas.end_ }, "ok")
  | ["cas.owner"] => (d, hexOfString d.cas.owner)
  | ["m.br"] => let (m, r) := d.m.beginRead; ({ d with m := m }, r.str)
  | ["m.brb"] =>
    match d.m.beginReadBlocking with
    | some m => ({ d with m := m }, "ok")
    | none => (d, "blocked")
  | ["m.er"] => let (m, r) := d.m.endRead; ({ d with m := m }, r.str)
  | ["m.bw", o] =>
    match tokString o with
    | some o => let (m, r) := d.m.beginWrite o; ({ d with m := m }, r.str)
    | none => (d, "bad-op")
  | ["m.bwb", o] =>
    match tokString o with
    | some o =>
      match d.m.beginWriteBlocking o with
      | some (m, r) => ({ d with m := m }, r.str)
      | none => (d, "blocked")
    | none => (d, "bad-op")
  | ["m.ew"] => let (m, r) := d.m.endWrite; ({ d with m := m }, r.str)
  | ["m.up", o] =>
    match tokString o with
    | some o => let (m, r) := d.m.upgrade o; ({ d with m := m }, r.str)
    | none => (d, "bad-op")
  | ["m.state"] => (d, hexOfString d.m.owner ++ " " ++ toString d.m.numReaders)
  | ["rt.sub", t] =>
    match t.toNat? with
    | some t =>
      let (r, id) := d.rt.subscribe t
      ({ d with rt := r }, toString id ++ (if r.isClosed id then " closed" else " open"))
    | none => (d, "bad-op")
  | ["rt.unsub", i] =>
    match i.toNat? with
    | some i => ({ d with rt := d.rt.unsubscribe i }, "ok")
    | none => (d, "bad-op")
  | ["rt.signal", i] =>
    match i.toNat? with
    | some i => ({ d with rt := d.rt.signal i }, "ok")
    | none => (d, "bad-op")
  | ["rt.reset"] => ({ d with rt := d.rt.reset }, "ok")
  | ["rt.len"] => (d, toString d.rt.subs.length)
  | ["rt.closed", i] =>
    match i.toNat? with
    | some i => (d, boolStr (d.rt.isClosed i))
    | none => (d, "bad-op")
  | _ => (d, "bad-op")

end RqModel.Rsync
--! driver: rsync RqModel.Rsync

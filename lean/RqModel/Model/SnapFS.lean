/-
Model of the on-disk snapshot store (C07, C09; reused by C04):
  snapshot/store.go        reapInternal, executeReapPlan, check
  snapshot/plan/plan.go    Plan.Execute, LastOpDone
  snapshot/plan/executor.go  every Executor method incl. its idempotence rule
  snapshot/plan/checker.go   every Checker method
  snapshot/snapshot.go     SnapshotCatalog.Scan / loadSnapshot, PartitionAtFull, ResolveFiles

Abstractions
* A snapshot directory is identified by a `Nat` name (the real name is
  `<term>-<index>-<unix ms>`); the `.tmp` suffix is the flag `tmp`.
* SQLite is a parameter: `DbAlg.apply db w` is the result of checkpointing WAL
  segment `w` into database `db`. WAL segments are identified by a `Nat`.
  Theorems assume only `apply (apply d w) w = apply d w` (re-checkpointing the
  WAL that was just checkpointed changes nothing) and `apply d 0 = d` (segment 0 is
  the zero-length WAL file that opening and closing a database leaves behind).
* `meta = none` stands for a missing or unparsable meta.json; `crc = some x`
  says the CRC sidecar of data.db was computed over content `x` (`none`: sidecar
  missing or unparsable). WAL sidecars travel with nothing and are not modelled.
* The file system is a function from names to directories plus the list of
  names ever used (the enumeration `os.ReadDir` provides).
-/
import RqModel.Model.Util
namespace RqModel.SnapFS
open RqModel.Util

structure Meta where
  id    : Nat
  index : Nat
  term  : Nat
deriving DecidableEq, Repr

/-- SQLite's checkpoint as a parameter -/
structure DbAlg (D : Type) where
  apply : D → Nat → D

structure Dir (D : Type) where
  tmp   : Bool := false
  mt    : Option Meta := none
  db    : Option D := none
  crc   : Option D := none
  /-- a `data.db-wal` file next to data.db -/
  dbWal : Option Nat := none
  /-- `*.wal` files in file-name order -/
  wals  : List Nat := []

/-- plan.Operation, restricted to the operation types reapInternal emits.
A WAL path is (directory, segment). -/
inductive Op where
  | checkpoint (dir : Nat) (wals : List (Nat × Nat))
  | calcCrc (dir : Nat)
  | removeAll (dir : Nat)
  | writeMeta (dir : Nat) (m : Meta)
  | verifyDb (dir : Nat)
  | rename (src dst : Nat)
deriving DecidableEq, Repr

structure FS (D : Type) where
  names   : List Nat := []
  dir     : Nat → Option (Dir D) := fun _ => none
  /-- REAP_PLAN -/
  plan    : Option (List Op) := none
  /-- REAP_PLAN.tmp -/
  planTmp : Bool := false
  /-- FULL_NEEDED -/
  fullNeeded : Bool := false

variable {D : Type}

def FS.set (s : FS D) (n : Nat) (d : Option (Dir D)) : FS D :=
  { s with dir := fun k => if k = n then d else s.dir k }

def FS.modify (s : FS D) (n : Nat) (f : Dir D → Dir D) : FS D :=
  match s.dir n with
  | some d => s.set n (some (f d))
  | none => s

/-! ### Executor -/

def hasLeftover (s : FS D) (n : Nat) : Bool :=
  match s.dir n with
  | some d => d.dbWal.isSome
  | none => false

def hasDb (s : FS D) (n : Nat) : Bool :=
  match s.dir n with
  | some d => d.db.isSome
  | none => false

def walExists (s : FS D) (p : Nat × Nat) : Bool :=
  match s.dir p.1 with
  | some d => d.wals.contains p.2
  | none => false

/-- db.CheckpointRemove(dir/data.db) while dir/data.db-wal exists -/
def ckptRemove (A : DbAlg D) (s : FS D) (n : Nat) : Except String (FS D) :=
  match s.dir n with
  | some d =>
    match d.dbWal, d.db with
    | some w, some x => .ok (s.set n (some { d with db := some (A.apply x w), dbWal := none }))
    | some _, none => .error "ckpt-nodb"
    | none, _ => .ok s
  | none => .error "ckpt-nodb"

/-- the checkpoint has been applied to data.db but data.db-wal is still there
(crash inside CheckpointRemove) -/
def ckptApplyOnly (A : DbAlg D) (s : FS D) (n : Nat) : FS D :=
  s.modify n fun d =>
    match d.dbWal, d.db with
    | some w, some x => { d with db := some (A.apply x w) }
    | _, _ => d

/-- os.Rename(wal, dir/data.db-wal) -/
def moveWal (s : FS D) (p : Nat × Nat) (n : Nat) : FS D :=
  (s.modify p.1 fun d => { d with wals := d.wals.filter fun w => w != p.2 }).modify n fun d => { d with dbWal := some p.2 }

def ckptLoop (A : DbAlg D) (n : Nat) : List (Nat × Nat) → FS D → Except String (FS D)
  | [], s => .ok s
  | p :: ps, s =>
    match ckptRemove A (moveWal s p n) n with
    | .ok s' => ckptLoop A n ps s'
    | .error e => .error e

/-- (*Executor).Checkpoint -/
def execCheckpoint (A : DbAlg D) (s : FS D) (n : Nat) (wals : List (Nat × Nat)) : Except String (FS D) :=
  match (if hasLeftover s n then ckptRemove A s n else .ok s) with
  | .error e => .error e
  | .ok s1 =>
    let ex := wals.filter (walExists s1)
    if ex.isEmpty then .ok s1
    else if !hasDb s1 n then .error "ckpt-nodb"
    else ckptLoop A n ex s1

def addName (ns : List Nat) (n : Nat) : List Nat := if ns.contains n then ns else ns ++ [n]

/-- one Executor method -/
def execOp (A : DbAlg D) (s : FS D) : Op → Except String (FS D)
  | .checkpoint n ws => execCheckpoint A s n ws
  | .calcCrc n =>
    match s.dir n with
    | some d =>
      match d.db with
      | some x => .ok (s.set n (some { d with crc := some x }))
      | none => .error "crc-nodata"
    | none => .error "crc-nodata"
  | .removeAll n => .ok (s.set n none)
  | .writeMeta n m => .ok (s.modify n fun d => { d with mt := some m })
  | .verifyDb n =>
    -- db.Open + integrity check + Close leaves a zero-length data.db-wal (segment 0) behind
    if hasDb s n then .ok (s.modify n fun d => { d with dbWal := some (d.dbWal.getD 0) })
    else .error "verify-nodb"
  | .rename a b =>
    match s.dir a with
    | some d =>
      match s.dir b with
      | none => .ok { (s.set a none).set b (some d) with names := addName s.names b }
      | some _ => .error "rename-exists"
    | none => if (s.dir b).isSome then .ok s else .error "rename-nosrc"

/-- Plan.Execute -/
def execOps (A : DbAlg D) : List Op → FS D → Except String (FS D)
  | [], s => .ok s
  | o :: os, s =>
    match execOp A s o with
    | .ok s' => execOps A os s'
    | .error e => .error e

/-! ### Checker -/

def opDone (s : FS D) : Op → Bool
  | .rename a b => (s.dir a).isNone && (s.dir b).isSome
  | .removeAll n => (s.dir n).isNone
  | .checkpoint n ws => !hasLeftover s n && ws.all (fun p => !walExists s p)
  | .writeMeta n m =>
    match s.dir n with
    | some d => d.mt == some m
    | none => false
  | .calcCrc n =>
    match s.dir n with
    | some d => d.crc.isSome
    | none => false
  | .verifyDb _ => false

/-- Plan.LastOpDone -/
def lastOpDone (s : FS D) (p : List Op) : Bool :=
  match p.getLast? with
  | none => true
  | some o => opDone s o

/-! ### Catalog -/

structure Snap (D : Type) where
  name : Nat
  mt   : Meta
  db   : Option D
  crc  : Option D
  wals : List Nat

/-- loadSnapshot -/
def loadSnap (n : Nat) (d : Dir D) : Except String (Snap D) :=
  match d.mt with
  | none => .error "load-meta"
  | some m =>
    if d.db.isNone && d.wals.isEmpty then .error "load-nodata"
    else if d.db.isSome && d.crc.isNone then .error "load-crc"
    else .ok { name := n, mt := m, db := d.db, crc := d.crc, wals := d.wals }

/-- Snapshot.Less, as ≤ -/
def snapLe (a b : Snap D) : Bool :=
  if a.mt.term != b.mt.term then a.mt.term < b.mt.term
  else if a.mt.index != b.mt.index then a.mt.index < b.mt.index
  else a.name ≤ b.name

def loadAll : List (Nat × Dir D) → Except String (List (Snap D))
  | [] => .ok []
  | (n, d) :: rest =>
    match loadSnap n d with
    | .error e => .error e
    | .ok x =>
      match loadAll rest with
      | .error e => .error e
      | .ok xs => .ok (x :: xs)

/-- the non-tmp directories -/
def liveDirs (s : FS D) : List (Nat × Dir D) :=
  s.names.filterMap fun n =>
    match s.dir n with
    | some d => if d.tmp then none else some (n, d)
    | none => none

/-- SnapshotCatalog.Scan: oldest first -/
def scan (s : FS D) : Except String (List (Snap D)) :=
  match loadAll (liveDirs s) with
  | .error e => .error e
  | .ok xs => .ok (xs.mergeSort snapLe)

/-- ResolveFiles for the LAST element of a list given newest-first: base db and WALs to replay -/
def resolveRev : List (Snap D) → Option (D × List Nat)
  | [] => none
  | x :: rest =>
    match x.db with
    | some d => some (d, x.wals)
    | none => (resolveRev rest).map fun (d, ws) => (d, ws ++ x.wals)

/-- database obtained by restoring the newest snapshot of an oldest-first catalog -/
def resolveNewest (A : DbAlg D) (snaps : List (Snap D)) : Option D :=
  (resolveRev snaps.reverse).map fun (d, ws) => ws.foldl A.apply d

/-- what a restart observes: newest (index, term) and the database it restores to -/
def observe (A : DbAlg D) (snaps : List (Snap D)) : Option (Nat × Nat × Option D) :=
  snaps.getLast?.map fun x => (x.mt.index, x.mt.term, resolveNewest A snaps)

/-! ### reapInternal -/

/-- PartitionAtFull + BeforeID: (older, newest full, newer) -/
def splitLastFull : List (Snap D) → Option (List (Snap D) × Snap D × List (Snap D))
  | [] => none
  | x :: xs =>
    match splitLastFull xs with
    | some (o, f, n) => some (x :: o, f, n)
    | none => if x.db.isSome then some ([], x, xs) else none

def walPaths (x : Snap D) : List (Nat × Nat) := x.wals.map fun w => (x.name, w)

/-- the plan reapInternal builds from a scanned catalog. `.ok none`: nothing to do -/
def mkReapPlan (snaps : List (Snap D)) (newName : Nat) (verify : Bool) : Except String (Option (List Op)) :=
  if snaps.isEmpty then .ok none else
  match splitLastFull snaps with
  | none => .error "no-full"
  | some (olds, full, newers) =>
    if snaps.length == 1 then .ok none else
    let walFiles := walPaths full ++ newers.flatMap walPaths
    if newers.isEmpty && walFiles.isEmpty then
      .ok (some (olds.map fun x => Op.removeAll x.name))
    else if !walFiles.isEmpty then
      let newest := newers.getLast?.getD full
      .ok (some ([Op.checkpoint full.name walFiles, Op.calcCrc full.name]
        ++ newers.map (fun x => Op.removeAll x.name)
        ++ olds.map (fun x => Op.removeAll x.name)
        ++ [Op.writeMeta full.name { id := newName, index := newest.mt.index, term := newest.mt.term }]
        ++ (if verify then [Op.verifyDb full.name] else [])
        ++ [Op.rename full.name newName]))
    else .ok (some [])

/-- Store.reapInternal run to completion. `newName` is the name derived from the clock. -/
def reap (A : DbAlg D) (s : FS D) (newName : Nat) (verify : Bool) : Except String (FS D) :=
  match s.plan with
  | some p =>
    match execOps A p s with
    | .ok s' => .ok { s' with plan := none }
    | .error e => .error e
  | none =>
    match scan s with
    | .error e => .error e
    | .ok snaps =>
      match mkReapPlan snaps newName verify with
      | .error e => .error e
      | .ok none => .ok s
      | .ok (some p) =>
        match execOps A p { s with plan := some p } with
        | .ok s' => .ok { s' with plan := none }
        | .error e => .error e

/-! ### Store.check (run by NewStore) -/

def rmTmpDirs (s : FS D) : FS D :=
  { s with dir := fun n =>
      match s.dir n with
      | some d => if d.tmp then none else some d
      | none => none }

def check (A : DbAlg D) (s : FS D) : Except String (FS D) :=
  let s1 := { s with planTmp := false }
  match s1.plan with
  | none => .ok (rmTmpDirs s1)
  | some p =>
    if lastOpDone s1 p then .ok (rmTmpDirs { s1 with plan := none })
    else
      match execOps A p s1 with
      | .ok s' => .ok (rmTmpDirs { s' with plan := none })
      | .error e => .error e

/-! ### Crash model
A crash keeps the state as of the last completed micro-step. Non-atomic
operations may stop part-way: `OpCut` says where. -/

/-- which files of a directory survive an interrupted RemoveAll -/
structure Sel where
  mt    : Bool
  db    : Bool
  crc   : Bool
  dbWal : Bool
  wals  : List Nat
deriving Repr, DecidableEq

def Sel.apply (sel : Sel) (d : Dir D) : Dir D :=
  { tmp := d.tmp
    mt := if sel.mt then d.mt else none
    db := if sel.db then d.db else none
    crc := if sel.crc then d.crc else none
    dbWal := if sel.dbWal then d.dbWal else none
    wals := d.wals.filter fun w => sel.wals.contains w }

inductive OpCut where
  /-- the operation has not started -/
  | none
  /-- Checkpoint: `lo` = stop inside the leftover-WAL checkpoint (applied, file not yet
  removed); otherwise finish the leftover, fully process `j` WALs, then for the next one
  stage 0 = untouched, 1 = renamed into place, 2 = renamed and applied, file not removed -/
  | ckpt (lo : Bool) (j : Nat) (stage : Nat)
  /-- RemoveAll stopped with exactly `sel` left -/
  | rm (sel : Sel)
  /-- WriteMeta / CalcCRC32 stopped after truncating the file -/
  | trunc
deriving Repr, DecidableEq

def ckptLoopCut (A : DbAlg D) (n : Nat) : List (Nat × Nat) → Nat → Nat → FS D → FS D
  | [], _, _, s => s
  | p :: _, 0, stage, s =>
    if stage = 0 then s
    else if stage = 1 then moveWal s p n
    else ckptApplyOnly A (moveWal s p n) n
  | p :: ps, j + 1, stage, s =>
    match ckptRemove A (moveWal s p n) n with
    | .ok s' => ckptLoopCut A n ps j stage s'
    | .error _ => moveWal s p n

def partialOp (A : DbAlg D) (s : FS D) : Op → OpCut → FS D
  | .checkpoint n ws, .ckpt lo j stage =>
    if hasLeftover s n && lo then ckptApplyOnly A s n
    else
      match (if hasLeftover s n then ckptRemove A s n else .ok s) with
      | .error _ => s
      | .ok s1 =>
        let ex := ws.filter (walExists s1)
        if ex.isEmpty then s1
        else if !hasDb s1 n then s1
        else ckptLoopCut A n ex j stage s1
  | .removeAll n, .rm sel => s.modify n sel.apply
  | .writeMeta n _, .trunc => s.modify n fun d => { d with mt := none }
  | .calcCrc n, .trunc => s.modify n fun d => if d.db.isSome then { d with crc := none } else d
  | _, _ => s

/-- `k` operations run to completion (stopping at the first error), then the next one is cut -/
def runCut (A : DbAlg D) : List Op → Nat → OpCut → FS D → FS D
  | [], _, _, s => s
  | o :: _, 0, c, s => partialOp A s o c
  | o :: os, k + 1, c, s =>
    match execOp A s o with
    | .ok s' => runCut A os k c s'
    | .error _ => s

inductive ReapCut where
  /-- before REAP_PLAN is renamed into place; `tmpWritten`: REAP_PLAN.tmp exists -/
  | beforePlan (tmpWritten : Bool)
  | inPlan (k : Nat) (c : OpCut)
  /-- every operation done, REAP_PLAN not yet removed -/
  | planDone
  | complete
deriving Repr, DecidableEq

/-- the state an interrupted (or completed) reap leaves behind -/
def reapCrash (A : DbAlg D) (s : FS D) (newName : Nat) (verify : Bool) (c : ReapCut) : FS D :=
  match scan s with
  | .error _ => s
  | .ok snaps =>
    match mkReapPlan snaps newName verify with
    | .error _ => s
    | .ok none => s
    | .ok (some p) =>
      match c with
      | .beforePlan t => { s with planTmp := t }
      | .inPlan k c => runCut A p k c { s with plan := some p }
      | .planDone => runCut A p p.length .none { s with plan := some p }
      | .complete =>
        match execOps A p { s with plan := some p } with
        | .ok s' => { s' with plan := none }
        | .error _ => runCut A p p.length .none { s with plan := some p }

/-! ### the verification steps of reapInternal (as of `fix:` 65f298a)
On a fresh reap (no REAP_PLAN to resume) reapInternal first runs `ensureVerified` (the store-wide
CRC check, once per process) and, when the plan will consolidate WAL files, `inputs.Check` (the
recorded checksums of exactly the files about to be consolidated). Both happen BEFORE the plan is
built or written; a mismatch ends the reap — the process, in production — with nothing touched.
Whether the checksums match is C12's; here the two outcomes are inputs. -/

/-- will a reap of this catalog checkpoint WAL files? -/
def consolidates (snaps : List (Snap D)) : Bool :=
  match splitLastFull snaps with
  | some (_, full, newers) => snaps.length != 1 && !(walPaths full ++ newers.flatMap walPaths).isEmpty
  | none => false

/-- does the verification let the reap proceed? (a plan to resume is executed without it) -/
def reapGate (s : FS D) (verifiedOK inputsOK : Bool) : Except String Unit :=
  match s.plan with
  | some _ => .ok ()   -- (the resume path has its own check, `verifyPlanInputs`: see `dbUntouched` below)
  | none =>
    if !verifiedOK then .error "verify-crc"
    else
      match scan s with
      | .error _ => .ok ()
      | .ok snaps => if consolidates snaps && !inputsOK then .error "inputs-crc" else .ok ()

/-- Store.reapInternal with its verification steps, run to completion -/
def reapChecked (A : DbAlg D) (s : FS D) (newName : Nat) (verify verifiedOK inputsOK : Bool) : Except String (FS D) :=
  match reapGate s verifiedOK inputsOK with
  | .error e => .error e
  | .ok () => reap A s newName verify

/-- … and interrupted anywhere (the verification reads only) -/
def reapCrashChecked (A : DbAlg D) (s : FS D) (newName : Nat) (verify verifiedOK inputsOK : Bool) (c : ReapCut) : FS D :=
  match reapGate s verifiedOK inputsOK with
  | .error _ => s
  | .ok () => reapCrash A s newName verify c

/-! ### the resume path's verification -/

/-- Store.verifyPlanInputs (the check before an interrupted REAP_PLAN is resumed, `fix:` 34030d3),
the condition under which it CRC-checks the database file of a checkpoint operation, as in the
source: `untouched := len(op.WALs) > 0 && !FileExists(op.DB+"-wal")`, set to false by any source
WAL that no longer exists. -/
def dbUntouched (s : FS D) (n : Nat) (W : List (Nat × Nat)) : Bool :=
  !W.isEmpty && W.all (walExists s) &&
  (match s.dir n with
   | some d => d.dbWal.isNone
   | none => true)

/-- the condition of the seeded variant: some source WAL is still pending and no WAL sits next to
the database -/
def dbUntouchedWrong (s : FS D) (n : Nat) (W : List (Nat × Nat)) : Bool :=
  W.any (walExists s) &&
  (match s.dir n with
   | some d => d.dbWal.isNone
   | none => true)

/-- the database-file check passes: not made, or the sidecar matches the file (files that are
missing are skipped, as in the source) -/
def DbCheckPasses (cond : FS D → Nat → List (Nat × Nat) → Bool) (s : FS D) (n : Nat) (W : List (Nat × Nat)) : Prop :=
  cond s n W = true → ∀ d, s.dir n = some d → ∀ x y, d.db = some x → d.crc = some y → x = y


inductive RecCut where
  | atStart
  /-- REAP_PLAN.tmp removed, nothing else -/
  | tmpRemoved
  | inPlan (k : Nat) (c : OpCut)
  | planDone
  /-- plan handled; temporary directories `gone` removed, `pn` cut down to `sel` -/
  | tmpDirs (gone : List Nat) (pn : Nat) (sel : Sel)
deriving Repr, DecidableEq

def rmTmpDirsCut (s : FS D) (gone : List Nat) (pn : Nat) (sel : Sel) : FS D :=
  { s with dir := fun n =>
      match s.dir n with
      | some d =>
        if d.tmp then
          if gone.contains n then none
          else if n = pn then some (sel.apply d) else some d
        else some d
      | none => none }

/-- the state an interrupted Store.check (i.e. an interrupted start) leaves behind -/
def recCrash (A : DbAlg D) (s : FS D) (c : RecCut) : FS D :=
  match c with
  | .atStart => s
  | .tmpRemoved => { s with planTmp := false }
  | .inPlan k c =>
    let s1 := { s with planTmp := false }
    match s1.plan with
    | none => s1
    | some p => if lastOpDone s1 p then s1 else runCut A p k c s1
  | .planDone =>
    let s1 := { s with planTmp := false }
    match s1.plan with
    | none => s1
    | some p => if lastOpDone s1 p then s1 else runCut A p p.length .none s1
  | .tmpDirs gone pn sel =>
    match check A s with
    | .error _ => s
    | .ok _ =>
      -- same as check up to the removal loop
      let s1 := { s with planTmp := false }
      let s2 : FS D :=
        match s1.plan with
        | none => s1
        | some p =>
          if lastOpDone s1 p then { s1 with plan := none }
          else
            match execOps A p s1 with
            | .ok s' => { s' with plan := none }
            | .error _ => s1
      rmTmpDirsCut s2 gone pn sel

end RqModel.SnapFS

package store

// C06, store level: the incremental branch of fsmSnapshot (CreateWAL / defer Cancel /
// Checkpoint / Close) on real single-node stores with reader connections that block
// the checkpoint. Compared with the Lean model `walckpt` through its store-level ops
// (`captureb`, `fullb`): error class, whether a segment was kept, whether the WAL file
// ended up empty. Spec oracle on the implementation: a failed snapshot leaves NO file
// in the WAL staging directory; after the schedule, a restart that is forced to
// rebuild the database from the snapshot store (full + captured segments) plus the
// log tail yields the same logical dump as the live database had.

import (
	"bytes"
	"context"
	dbsql "database/sql"
	"fmt"
	"io"
	"os"
	"path/filepath"
	"strings"
	"testing"
	"time"

	sql "github.com/rqlite/rqlite/v10/db"
	"github.com/rqlite/rqlite/v10/db/wal"
)

type c06sEnv struct {
	t         *testing.T
	s         *Store
	ro        *dbsql.DB
	readers   map[int]*dbsql.Conn
	r         *vfRng
	walSeen   bool
	salt      wal.Salt
	nFrames   int
	ids       map[string]int
	row       int
}

func (e *c06sEnv) readWAL() (salt wal.Salt, frames []string, hdr bool) {
	f, err := os.Open(e.s.walPath)
	if err != nil {
		return
	}
	defer f.Close()
	r := wal.NewReader(f)
	if err := r.ReadHeader(); err != nil {
		return
	}
	hdr = true
	salt, _ = wal.ReadSaltAt(f)
	f.Seek(wal.WALHeaderSize, io.SeekStart)
	buf := make([]byte, r.PageSize())
	for {
		pgno, commit, err := r.ReadFrame(buf)
		if err != nil {
			break
		}
		k := string(buf)
		id, ok := e.ids[k]
		if !ok {
			id = len(e.ids) + 1
			e.ids[k] = id
		}
		frames = append(frames, fmt.Sprintf("%d:%d:%d", pgno, id, commit))
	}
	return
}

func (e *c06sEnv) filePages() string {
	b, err := os.ReadFile(e.s.dbPath)
	if err != nil || len(b) < 100 {
		return "-"
	}
	ps := int(b[16])<<8 | int(b[17])
	if ps == 1 {
		ps = 65536
	}
	var out []string
	for off := 0; off+ps <= len(b); off += ps {
		k := string(b[off : off+ps])
		id, ok := e.ids[k]
		if !ok {
			id = len(e.ids) + 1
			e.ids[k] = id
		}
		out = append(out, fmt.Sprint(id))
	}
	return strings.Join(out, ",")
}

func (e *c06sEnv) write() (string, string, bool) {
	n := 1 + e.r.Intn(3)
	var qs []string
	for i := 0; i < n; i++ {
		e.row++
		qs = append(qs, fmt.Sprintf(`INSERT INTO foo(name, b) VALUES('n%d', x'%x')`, e.row, e.r.Bytes([]int{4, 600, 5000}[e.r.Intn(3)])))
	}
	if e.r.Chance(25) {
		qs = append(qs, fmt.Sprintf(`DELETE FROM foo WHERE id%%5=%d`, e.r.Intn(5)))
	}
	c06sExec(e.t, e.s, qs)
	salt, frames, hdr := e.readWAL()
	if !hdr {
		return "", "", false
	}
	var kind string
	var added []string
	switch {
	case !e.walSeen:
		kind, added = "fresh", frames
	case salt != e.salt:
		kind, added = "reset", frames
	default:
		kind, added = "append", frames[e.nFrames:]
	}
	if len(added) == 0 {
		return "", "", false
	}
	e.salt, e.nFrames, e.walSeen = salt, len(frames), true
	return "write " + strings.Join(added, ","), kind, true
}

func (e *c06sEnv) rstart(id int) {
	ctx := context.Background()
	c, err := e.ro.Conn(ctx)
	if err != nil {
		e.t.Fatal(err)
	}
	if _, err := c.ExecContext(ctx, "BEGIN"); err != nil {
		e.t.Fatal(err)
	}
	var n int
	if err := c.QueryRowContext(ctx, "SELECT count(*) FROM foo").Scan(&n); err != nil {
		e.t.Fatal(err)
	}
	e.readers[id] = c
}

func (e *c06sEnv) rstop(id int) {
	if c := e.readers[id]; c != nil {
		c.ExecContext(context.Background(), "ROLLBACK")
		c.Close()
		delete(e.readers, id)
	}
}

// c06sBadClose wraps the store's Checkpointer (an interface field): after a checkpoint that
// succeeded it puts a directory where the staged WAL's checksum sidecar goes, so that the
// store's walWriter.Close() fails — an injected I/O error on the staging directory.
type c06sBadClose struct {
	real Checkpointer
	dir  string
	on   bool
}

func (c *c06sBadClose) Checkpoint(w io.Writer, timeout time.Duration) (*sql.CheckpointManagerMeta, int64, error) {
	m, n, err := c.real.Checkpoint(w, timeout)
	if err == nil && w != nil && c.on {
		wals, _ := filepath.Glob(filepath.Join(c.dir, "*.wal"))
		for _, p := range wals {
			os.Mkdir(p+".crc32", 0o755)
		}
	}
	return m, n, err
}

func c06sDump(t *testing.T, s *Store) string {
	var b bytes.Buffer
	if err := s.db.Dump(&b); err != nil {
		t.Fatalf("dump: %v", err)
	}
	return b.String()
}

// c06sBarrier waits until every log entry written before the restart has been applied.
func c06sBarrier(t *testing.T, s *Store) {
	var err error
	for deadline := time.Now().Add(60 * time.Second); time.Now().Before(deadline); {
		if err = s.Barrier(); err == nil {
			return
		}
		time.Sleep(100 * time.Millisecond)
	}
	ssmAbandonNow(fmt.Sprintf("barrier after restart: %v", err)) // the log is not re-applied yet: nothing to judge
}

func c06sStagingFiles(s *Store) []string {
	ents, _ := os.ReadDir(s.walStagingDir)
	var out []string
	for _, e := range ents {
		out = append(out, e.Name())
	}
	return out
}

// c06sExec executes statements through the store; requests refused before the log (no leader on
// a loaded machine) are retried, an ambiguous outcome abandons the schedule.
func c06sExec(t *testing.T, s *Store, qs []string) {
	err := ssmRetry(s, func() error {
		res, _, err := s.Execute(context.Background(), executeRequestFromStrings(qs, false, false))
		if err != nil {
			return err
		}
		for _, r := range res {
			if r.GetError() != "" {
				t.Fatalf("statement failed: %s", r.GetError())
			}
		}
		return nil
	})
	if err != nil {
		if ssmLoadRelated(err) {
			ssmAbandonNow(fmt.Sprintf("execute: %v", err))
		}
		t.Fatalf("execute %v: %v", qs, err)
	}
}

func c06sSchedule(t *testing.T, rep *vfReport, r *vfRng, rounds int) (ops, impl []string) {
	var noEnv *ssmEnv
	defer ssmGuard(rep, &noEnv, &ops, &impl)
	s, ln := mustNewStore(t)
	defer ln.Close()
	defer func() {
		if s.open.Is() {
			s.Close(true)
		}
	}()
	s.NoSnapshotOnClose = true
	if err := s.Open(); err != nil {
		t.Fatalf("open: %v", err)
	}
	if err := s.Bootstrap(NewServer(s.ID(), s.Addr(), true)); err != nil {
		t.Fatal(err)
	}
	if _, err := s.WaitForLeader(60 * time.Second); err != nil {
		ssmAbandonNow(fmt.Sprintf("no leader within 60 s: %v", err))
	}
	e := &c06sEnv{t: t, s: s, readers: map[int]*dbsql.Conn{}, r: r, ids: map[string]int{}}
	c06sExec(t, s, []string{`CREATE TABLE foo (id INTEGER NOT NULL PRIMARY KEY, name TEXT, b BLOB)`, `INSERT INTO foo(name) VALUES('first')`})
	// first snapshot is a full one; it becomes the base of the chain
	if err := s.Snapshot(0); err != nil {
		t.Fatalf("first snapshot: %v", err)
	}
	inject := &c06sBadClose{real: s.checkpointer, dir: s.walStagingDir}
	s.checkpointer = inject
	ro, err := dbsql.Open("rqlite-sqlite3", sql.MakeDSN(s.dbPath, sql.ModeReadOnly, false, true))
	if err != nil {
		t.Fatal(err)
	}
	e.ro = ro
	defer ro.Close()
	ops = append(ops, "open "+e.filePages())
	impl = append(impl, "ok")
	emit := func(o, i string) { ops = append(ops, o); impl = append(impl, i) }
	var hist []string
	nextReader := 0
	busy, partial := 0, 0
	for i := 0; i < rounds; i++ {
		// writes and reader movements of this round
		for j := 0; j < 1+r.Intn(3); j++ {
			switch k := r.Intn(100); {
			case k < 55:
				if line, kind, ok := e.write(); ok {
					emit(line, kind)
					hist = append(hist, "W:"+kind)
					rep.Count("write-" + kind)
				}
			case k < 80:
				if len(e.readers) < 2 {
					nextReader++
					e.rstart(nextReader)
					emit(fmt.Sprintf("rstart %d", nextReader), "ok")
					hist = append(hist, fmt.Sprintf("R+%d", nextReader))
				}
			default:
				for id := range e.readers {
					e.rstop(id)
					emit(fmt.Sprintf("rstop %d", id), "ok")
					hist = append(hist, fmt.Sprintf("R-%d", id))
					break
				}
			}
		}
		// raft refuses to snapshot without a new log entry
		if line, kind, ok := e.write(); ok {
			emit(line, kind)
			hist = append(hist, "W:"+kind)
			rep.Count("write-" + kind)
		}
		before := c06sStagingFiles(s)
		due, _ := s.snapshotStore.DueNext()
		fullBranch := due.IsFull()
		// sometimes the staged WAL cannot be made durable after the checkpoint succeeded
		inject.on = !fullBranch && r.Chance(25)
		err := s.Snapshot(0)
		injected := inject.on
		inject.on = false
		after := c06sStagingFiles(s)
		kind := "none"
		if err != nil {
			switch {
			case strings.Contains(err.Error(), "database checkpoint busy"):
				kind = "busy"
			case strings.Contains(err.Error(), "failed to write CRC32 sum file"):
				kind = "closefailed"
			case strings.Contains(err.Error(), "checkpoint did not"):
				kind = "notcomplete"
			default:
				kind = "other:" + strings.ReplaceAll(err.Error(), " ", "_")
			}
		}
		sz, _ := os.Stat(s.walPath)
		walEmpty := sz == nil || sz.Size() == 0
		if walEmpty {
			e.walSeen, e.nFrames = false, 0
		}
		dueAfter, _ := s.snapshotStore.DueNext()
		switch {
		case fullBranch:
			emit("fullb", fmt.Sprintf("err=%s walempty=%v", kind, walEmpty))
			rep.Count("snapshot-full-branch-" + kind)
		case injected:
			emit("captureclosefailb", fmt.Sprintf("err=%s kept=%v walempty=%v fulldue=%v", kind, err == nil, walEmpty, dueAfter.IsFull()))
			if kind == "closefailed" {
				rep.Count("snapshot-close-failed-after-checkpoint")
				// the frames are in the database and in no segment: only a full snapshot repairs that
				if !dueAfter.IsFull() {
					rep.Fail("staging-failure-after-checkpoint-did-not-request-full-snapshot",
						fmt.Sprintf("after %v: walWriter.Close failed after a successful checkpoint, staging=%v, due next=%v", hist, after, dueAfter),
						map[string]interface{}{"history": hist})
				}
			}
		default:
			emit("captureb", fmt.Sprintf("err=%s kept=%v walempty=%v", kind, err == nil, walEmpty))
		}
		hist = append(hist, "S:"+kind)
		switch {
		case err != nil:
			busy++
			rep.Count("snapshot-busy")
			// property: a failed checkpoint never leaves a captured segment behind
			if len(after) != len(before) || len(after) != 0 {
				rep.Fail("failed-snapshot-left-files-in-staging", fmt.Sprintf("after %v: staging dir before=%v after=%v", hist, before, after),
					map[string]interface{}{"history": hist, "staging": after})
			}
		case !walEmpty:
			partial++
			rep.Count("snapshot-all-moved-not-truncated")
		default:
			rep.Count("snapshot-truncated")
		}
		if err == nil && len(after) != 0 {
			rep.Fail("successful-snapshot-left-files-in-staging", fmt.Sprintf("after %v: %v", hist, after), map[string]interface{}{"history": hist})
		}
	}
	for id := range e.readers {
		e.rstop(id)
	}
	ro.Close()
	live := c06sDump(t, s)
	if err := s.Close(true); err != nil {
		t.Fatalf("close: %v", err)
	}
	if err := s.ForceSnapshotRestore(); err != nil {
		t.Fatal(err)
	}
	if err := s.Open(); err != nil {
		rep.Fail("restart-from-snapshot-store-failed", fmt.Sprintf("after %v: %v", hist, err), map[string]interface{}{"history": hist})
		rep.Case(strings.Join(hist, " "), true)
		return
	}
	if _, err := s.WaitForLeader(60 * time.Second); err != nil {
		ssmAbandonNow(fmt.Sprintf("no leader within 60 s: %v", err))
	}
	c06sBarrier(t, s)
	rebuilt := c06sDump(t, s)
	if rebuilt != live {
		rep.Fail("snapshot-store-plus-log-differs-from-live", fmt.Sprintf("after %v the database rebuilt from the snapshot store and log differs from the live one (%d vs %d bytes of dump)", hist, len(rebuilt), len(live)),
			map[string]interface{}{"history": hist})
	} else {
		rep.Count("restart-rebuild-equals-live")
	}
	s.Close(true)
	rep.Case(strings.Join(hist, " "), busy+partial > 0)
	rep.Sample(map[string]interface{}{"history": strings.Join(hist, " ")})
	return
}

func TestVerifC06Store(t *testing.T) {
	rep := vfNewReport("C06", "store level: schedules of write requests, reader start/stop on external read-only connections and Store.Snapshot calls on real single-node stores, then a restart forced to rebuild from the snapshot store; non-trivial when at least one snapshot was blocked (busy or all-moved-not-truncated); distinct by outcome-annotated schedule")
	defer rep.Write()
	r := ssmRng(606)
	n := vfScale(3, 40)
	var allOps, allImpl [][]string
	for h := 0; h < n; h++ {
		ops, impl := c06sSchedule(t, rep, r, vfScale(6, 12))
		allOps = append(allOps, ops)
		allImpl = append(allImpl, impl)
	}
	ssmFloor(rep)
	rep.vfCompareSegments("walckpt", allOps, allImpl)
	_ = filepath.Join
}

package store

// C08, node-start side: the data check rqlited makes BEFORE Store.Open when -auto-restore is given
// (store.HasData) on data directories that still hold old-format snapshots, compared with the Lean
// model's `hasDataAnswer` (component `upgrade`), and the whole sequence of cmd/rqlited/main.go —
// HasData -> (no data: SetRestorePath) -> Open -> leadership -> auto-restore — on a node whose only
// data is a v8 snapshot: afterwards the node must hold the snapshot's database.

import (
	"context"
	"encoding/json"
	"fmt"
	"os"
	"path/filepath"
	"testing"
	"time"

	"github.com/hashicorp/raft"
	"github.com/rqlite/rqlite/v10/db"
)

func c08hdYesNo(b bool) string {
	if b {
		return "yes"
	}
	return "no"
}

// c08hdV8 writes a v8-format snapshot (rsnapshots/<id>/meta.json + rsnapshots/<id>.db) whose database
// holds table keep with one row, configured for the single node s.
func c08hdV8(t *testing.T, s *Store, raftDir string) {
	old8 := filepath.Join(raftDir, "rsnapshots")
	id := "2-18-1686659761026"
	if err := os.MkdirAll(filepath.Join(old8, id), 0755); err != nil {
		t.Fatal(err)
	}
	dbp := filepath.Join(old8, id+".db")
	d, err := db.Open(dbp, false, true)
	if err != nil {
		t.Fatal(err)
	}
	for _, q := range []string{"CREATE TABLE keep (id INTEGER PRIMARY KEY, v TEXT)", "INSERT INTO keep(v) VALUES('precious')"} {
		if rs, err := d.ExecuteStringStmt(q); err != nil || rs[0].GetError() != "" {
			t.Fatalf("%v %v", err, rs)
		}
	}
	if _, err := d.Checkpoint(db.CheckpointTruncate); err != nil {
		t.Fatal(err)
	}
	d.Close()
	os.Remove(dbp + "-wal")
	os.Remove(dbp + "-shm")
	fi, _ := os.Stat(dbp)
	meta := &raft.SnapshotMeta{Version: 1, ID: id, Index: 18, Term: 2, Size: fi.Size(), ConfigurationIndex: 1,
		Configuration: raft.Configuration{Servers: []raft.Server{{Suffrage: raft.Voter, ID: raft.ServerID(s.ID()), Address: raft.ServerAddress(s.Addr())}}}}
	b, _ := json.Marshal(meta)
	if err := os.WriteFile(filepath.Join(old8, id, "meta.json"), b, 0644); err != nil {
		t.Fatal(err)
	}
}

func TestVerifC08HasData(t *testing.T) {
	rep := vfNewReport("C08", "the data check before Store.Open (store.HasData) on data directories: empty; v8 snapshot only; v8 snapshot + empty wsnapshots; non-empty v7 directory; empty rsnapshots; after the upgrade — its answer compared with the model; and rqlited's whole -auto-restore start sequence on a node holding only a v8 snapshot: the node must end up with the snapshot's database, not the restore file's")
	defer rep.Write()
	var allOps, allImpl [][]string
	ask := func(dir string) string {
		hd, err := HasData(dir)
		if err != nil {
			return "err " + err.Error()
		}
		return c08hdYesNo(hd)
	}
	// --- directory states
	{
		dir := t.TempDir()
		allOps = append(allOps, []string{"reset", "hasdata?"})
		allImpl = append(allImpl, []string{"ok", ask(dir)})
		rep.Case("empty", false)
	}
	{
		s, ln := mustNewStore(t)
		c08hdV8(t, s, s.Path())
		a1 := ask(s.Path()) // creates wsnapshots
		a2 := ask(s.Path())
		allOps = append(allOps, []string{"reset", "old8 1,1,18.2,3", "hasdata?", "hasdata", "hasdata?"})
		allImpl = append(allImpl, []string{"ok", "ok", a1, "ok", a2})
		ln.Close()
		rep.Case("v8", true)
	}
	{
		dir := t.TempDir()
		os.MkdirAll(filepath.Join(dir, "snapshots", "2-18-1686659761026"), 0755)
		os.WriteFile(filepath.Join(dir, "snapshots", "2-18-1686659761026", "meta.json"), []byte(`{"Version":1,"ID":"2-18-1686659761026","Index":18,"Term":2}`), 0644)
		allOps = append(allOps, []string{"reset", "old7 1,18.2,n", "hasdata?"})
		allImpl = append(allImpl, []string{"ok", "ok", ask(dir)})
		rep.Case("v7", true)
	}
	{
		dir := t.TempDir()
		os.MkdirAll(filepath.Join(dir, "rsnapshots"), 0755)
		allOps = append(allOps, []string{"reset", "old8 -", "hasdata?"})
		allImpl = append(allImpl, []string{"ok", "ok", ask(dir)})
		rep.Case("empty-rsnapshots", false)
	}
	// --- rqlited's start sequence with -auto-restore on a node holding only a v8 snapshot
	{
		s, ln := mustNewStore(t)
		defer ln.Close()
		s.HeartbeatTimeout, s.ElectionTimeout, s.LeaderLeaseTimeout = 200*time.Millisecond, 200*time.Millisecond, 200*time.Millisecond
		c08hdV8(t, s, s.Path())
		ops := []string{"reset", "old8 1,1,18.2,3", "hasdata", "hasdata?"}
		hd := ask(s.Path())
		impl := []string{"ok", "ok", "ok", hd}
		if hd == "no" {
			restore := filepath.Join(t.TempDir(), "restore.sqlite")
			in, err := os.ReadFile("testdata/load.sqlite")
			if err != nil {
				t.Fatal(err)
			}
			os.WriteFile(restore, in, 0644)
			if err := s.SetRestorePath(restore); err != nil {
				t.Fatal(err)
			}
		}
		if err := s.Open(); err != nil {
			t.Fatalf("open: %v", err)
		}
		ops = append(ops, "start")
		impl = append(impl, "ok")
		if _, err := s.WaitForLeader(120 * time.Second); err != nil {
			t.Fatal(err)
		}
		if hd == "no" {
			select {
			case <-s.restoreDoneCh:
			case <-time.After(60 * time.Second):
				t.Fatal("auto-restore did not finish")
			}
		}
		if err := s.raft.Barrier(30 * time.Second).Error(); err != nil {
			t.Fatal(err)
		}
		rows, _, _, _ := s.Query(context.Background(), queryRequestFromString("SELECT v FROM keep", false, false, false))
		got := asJSON(rows)
		if got != `[{"columns":["v"],"types":["text"],"values":[["precious"]]}]` {
			rep.Fail("auto-restore-over-old-format-snapshot", fmt.Sprintf("node holding only a v8 snapshot (table keep), started as rqlited does with -auto-restore: HasData=%s; after Open and leadership SELECT v FROM keep = %s", hd, got),
				map[string]interface{}{"store": "v8 snapshot 2-18, no command in the raft log", "hasdata": hd})
		}
		s.Close(true)
		ops = append(ops, "hasdata?")
		impl = append(impl, ask(s.Path()))
		allOps = append(allOps, ops)
		allImpl = append(allImpl, impl)
		rep.Case("v8-auto-restore-start", true)
	}
	rep.vfCompareSegments("upgrade", allOps, allImpl)
}

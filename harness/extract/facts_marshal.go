package main

// Marshal: facts about command/marshal.go, the Command envelopes built in
// store/store.go and the decoding switch in store/command_processor.go (C29).

import (
	"fmt"
	"go/ast"
	"sort"
	"strings"
)

func marshalSortedFiles(m map[string]*ast.File) []*ast.File {
	var names []string
	for n := range m {
		names = append(names, n)
	}
	sort.Strings(names)
	var out []*ast.File
	for _, n := range names {
		out = append(out, m[n])
	}
	return out
}

func init() {
	register("Marshal", func(x *X) {
		// thresholds
		x.Comment("command/marshal.go constants and NewRequestMarshaler's composite literal")
		bv, bok := int64(0), false
		sv, sok := int64(0), false
		if e := x.PkgValue("command", "defaultBatchThreshold"); e != nil {
			bv, bok = x.Const("command", e)
		}
		if e := x.PkgValue("command", "defaultSizeThreshold"); e != nil {
			sv, sok = x.Const("command", e)
		}
		x.DefOptInt("defaultBatchThreshold", bv, bok)
		x.DefOptInt("defaultSizeThreshold", sv, sok)
		var nb, ns int64
		var nbok, nsok, forceSeen, litSeen bool
		if fd := x.Func("command", "", "NewRequestMarshaler"); fd != nil {
			ast.Inspect(fd.Body, func(n ast.Node) bool {
				cl, ok := n.(*ast.CompositeLit)
				if !ok || x.Src(cl.Type) != "RequestMarshaler" {
					return true
				}
				litSeen = true
				for _, el := range cl.Elts {
					kv, ok := el.(*ast.KeyValueExpr)
					if !ok {
						continue
					}
					switch x.Src(kv.Key) {
					case "BatchThreshold":
						nb, nbok = x.Const("command", kv.Value)
					case "SizeThreshold":
						ns, nsok = x.Const("command", kv.Value)
					case "ForceCompression":
						forceSeen = true
					}
				}
				return false
			})
		}
		x.DefOptInt("newMarshalerBatch", nb, nbok)
		x.DefOptInt("newMarshalerSize", ns, nsok)
		// ForceCompression not mentioned in the literal = Go zero value false
		x.DefOptBool("newMarshalerForce", false, litSeen && !forceSeen)

		// every if-condition of (*RequestMarshaler).Marshal, in source order
		x.Comment("conditions of the if statements in (*RequestMarshaler).Marshal, in source order")
		var conds []string
		if fd := x.Func("command", "RequestMarshaler", "Marshal"); fd != nil {
			ast.Inspect(fd.Body, func(n ast.Node) bool {
				if is, ok := n.(*ast.IfStmt); ok {
					conds = append(conds, x.Src(is.Cond))
				}
				return true
			})
		}
		x.DefStrings("marshalConds", conds)

		// UnmarshalSubCommand: the gunzip guard
		x.Comment("UnmarshalSubCommand: condition guarding gzUncompress")
		guard := ""
		if fd := x.Func("command", "", "UnmarshalSubCommand"); fd != nil {
			ast.Inspect(fd.Body, func(n ast.Node) bool {
				if is, ok := n.(*ast.IfStmt); ok && len(x.Calls(is.Body, "gzUncompress")) > 0 && guard == "" {
					guard = x.Src(is.Cond)
				}
				return true
			})
		}
		x.DefString("unmarshalSubGuard", guard)

		// which gzip/protobuf calls the load marshal functions make
		for _, fn := range []string{"MarshalLoadRequest", "UnmarshalLoadRequest", "MarshalLoadChunkRequest", "UnmarshalLoadChunkRequest", "MarshalNoop", "UnmarshalNoop", "Marshal", "Unmarshal"} {
			var calls []string
			if fd := x.Func("command", "", fn); fd != nil {
				ast.Inspect(fd.Body, func(n ast.Node) bool {
					if c, ok := n.(*ast.CallExpr); ok {
						p := x.CalleePath(c)
						if p == "gzCompress" || p == "gzUncompress" || strings.HasPrefix(p, "pb.") {
							calls = append(calls, p)
						}
					}
					return true
				})
			}
			x.DefStrings("calls_"+fn, calls)
		}

		// Command_Type enum values
		x.Comment("command/proto/command.pb.go Command_Type values")
		var enum []string
		for _, n := range []string{"QUERY", "EXECUTE", "NOOP", "LOAD", "JOIN", "EXECUTE_QUERY", "LOAD_CHUNK"} {
			if e := x.PkgValue("command/proto", "Command_COMMAND_TYPE_"+n); e != nil {
				if v, ok := x.Const("command/proto", e); ok {
					enum = append(enum, fmt.Sprintf("(%s, %d)", LeanStr(n), v))
					continue
				}
			}
			enum = append(enum, fmt.Sprintf("(%s, 0)", LeanStr(n+"?")))
		}
		x.Raw("def commandTypes : List (String × Nat) := [" + strings.Join(enum, ", ") + "]")

		// envelopes built in store/store.go: (function, Type, Compressed field expr or "", marshal calls in the function)
		x.Comment("store/store.go: every proto.Command literal: (function, Type, Compressed field, sub-command producers called in that function)")
		var envs []string
		for _, f := range marshalSortedFiles(x.Pkg("store")) {
			for _, d := range f.Decls {
				fd, ok := d.(*ast.FuncDecl)
				if !ok || fd.Body == nil {
					continue
				}
				ast.Inspect(fd.Body, func(n ast.Node) bool {
					cl, ok := n.(*ast.CompositeLit)
					if !ok || x.Src(cl.Type) != "proto.Command" || len(cl.Elts) == 0 {
						return true
					}
					typ, comp := "", ""
					for _, el := range cl.Elts {
						if kv, ok := el.(*ast.KeyValueExpr); ok {
							switch x.Src(kv.Key) {
							case "Type":
								typ = strings.TrimPrefix(x.Src(kv.Value), "proto.Command_COMMAND_TYPE_")
							case "Compressed":
								comp = x.Src(kv.Value)
							}
						}
					}
					var prods []string
					seen := map[string]bool{}
					ast.Inspect(fd.Body, func(m ast.Node) bool {
						if c, ok := m.(*ast.CallExpr); ok {
							nm := calleeName(c)
							if (nm == "tryCompress" || strings.HasPrefix(nm, "Marshal")) && !seen[nm] {
								seen[nm] = true
								prods = append(prods, LeanStr(nm))
							}
						}
						return true
					})
					envs = append(envs, fmt.Sprintf("(%s, %s, %s, [%s])", LeanStr(fd.Name.Name), LeanStr(typ), LeanStr(comp), strings.Join(prods, ", ")))
					return true
				})
			}
		}
		x.Raw("def storeEnvelopes : List (String × String × String × List String) := [" + strings.Join(envs, ",\n  ") + "]")

		// decoding switch in (*CommandProcessor).Process: (case, unmarshal calls in that case)
		x.Comment("store/command_processor.go Process: per case of `switch cmd.Type`, the command.Unmarshal* calls in its body")
		var cases []string
		if fd := x.Func("store", "CommandProcessor", "Process"); fd != nil {
			ast.Inspect(fd.Body, func(n ast.Node) bool {
				sw, ok := n.(*ast.SwitchStmt)
				if !ok || x.Src(sw.Tag) != "cmd.Type" {
					return true
				}
				for _, st := range sw.Body.List {
					cc := st.(*ast.CaseClause)
					name := "default"
					if len(cc.List) > 0 {
						name = strings.TrimPrefix(x.Src(cc.List[0]), "proto.Command_COMMAND_TYPE_")
					}
					var calls []string
					for _, b := range cc.Body {
						ast.Inspect(b, func(m ast.Node) bool {
							if c, ok := m.(*ast.CallExpr); ok && strings.HasPrefix(x.CalleePath(c), "command.Unmarshal") {
								calls = append(calls, LeanStr(strings.TrimPrefix(x.CalleePath(c), "command.")))
							}
							return true
						})
					}
					cases = append(cases, fmt.Sprintf("(%s, [%s])", LeanStr(name), strings.Join(calls, ", ")))
				}
				return false
			})
		}
		x.Raw("def processCases : List (String × List String) := [" + strings.Join(cases, ",\n  ") + "]")
	})
}

package main

import (
	"go/ast"
	"strconv"
)

// Auth (C19): constants of auth/credential_store.go the model fixes by hand, and
// the shape of Load's decoding loop.
//
//	allUsers, permAll         the string constants AllUsers and PermAll
//	credDeclaredInsideLoop    is `var cred Credential` declared INSIDE the `for dec.More()`
//	                          body (fresh value per element; fix 6515537) rather than before it
//	aaCalls                   the calls made by (*CredentialsStore).AA, in source order
func init() {
	register("Auth", func(x *X) {
		strConst := func(name string) (string, bool) {
			e := x.PkgValue("auth", name)
			if bl, ok := e.(*ast.BasicLit); ok {
				if s, err := strconv.Unquote(bl.Value); err == nil {
					return s, true
				}
			}
			return "", false
		}
		for _, n := range []struct{ lean, goName string }{{"allUsers", "AllUsers"}, {"permAll", "PermAll"}} {
			if s, ok := strConst(n.goName); ok {
				x.Raw("def " + n.lean + " : Option String := some " + LeanStr(s))
			} else {
				x.Raw("def " + n.lean + " : Option String := none")
			}
		}
		inside, found := false, false
		if fd := x.Func("auth", "CredentialsStore", "Load"); fd != nil {
			ast.Inspect(fd.Body, func(n ast.Node) bool {
				fs, ok := n.(*ast.ForStmt)
				if !ok {
					return true
				}
				found = true
				for _, st := range fs.Body.List {
					if ds, ok := st.(*ast.DeclStmt); ok && x.Src(ds) == "var cred Credential" {
						inside = true
					}
				}
				return false
			})
		}
		x.DefOptBool("credDeclaredInsideLoop", inside, found)
		var calls []string
		if fd := x.Func("auth", "CredentialsStore", "AA"); fd != nil {
			ast.Inspect(fd.Body, func(n ast.Node) bool {
				if c, ok := n.(*ast.CallExpr); ok {
					calls = append(calls, x.Src(c))
				}
				return true
			})
		}
		x.DefStrings("aaCalls", calls)
	})
}

/-
Hand-written expectations for the regenerated facts `RqModel.Gen.ReadPath` (token
lists extracted by harness/extract/facts_readpath.go from store/store.go on every
check run). Each list below was written by reading the function it describes; the
property files prove `Gen.ReadPath.<f> = Expect.ReadPath.<f>` by `decide`, so any
change to the guard / step order of these functions changes a proof obligation.
Derived views (`callsOf`, `retsOf`) are what the models refer to.

For `Query`, `Request`, `Execute` and `Store.isStaleRead` the expectation is stated on
the SKELETON emitted by the extractor (`…Skel`): calls, conditions and returns that
bear on leadership / consistency level / freshness, with unrelated guards (nil request,
pragma check, open check, context, compression, throttling) filtered out — so that
those can change without touching these obligations, while any change to the level
dispatch does. `waitForLinearizableRead`, `fsmWaitIndex` and `IsStaleRead` are compared
in full.
-/
namespace RqModel.Expect.ReadPath

/-- the calls, in evaluation order -/
def callsOf (l : List (String × String)) : List String :=
  l.filterMap (fun p => if p.1 = "call" then some p.2 else none)

/-- the returned (last) results, in source order -/
def retsOf (l : List (String × String)) : List String :=
  l.filterMap (fun p => if p.1 = "ret" then some p.2 else none)

/-- calls and returns only -/
def skeleton (l : List (String × String)) : List (String × String) :=
  l.filter (fun p => p.1 = "call" ∨ p.1 = "ret")


def waitLin : List (String × String) := [
  ("call", "s.strongReadTerm.Load"),
  ("if", "currReadTerm != s.strongReadTerm.Load()"),
  ("ret", "ErrStrongReadNeeded"),
  ("end", ""),
  ("call", "s.raft.State"),
  ("if", "s.raft.State() != raft.Leader"),
  ("ret", "ErrNotLeader"),
  ("end", ""),
  ("call", "s.Ready"),
  ("if", "!s.Ready()"),
  ("ret", "ErrNotReady"),
  ("end", ""),
  ("call", "s.raft.CommitIndex"),
  ("call", "s.VerifyLeader"),
  ("if", "err != nil"),
  ("ret", "err"),
  ("end", ""),
  ("call", "s.raft.CurrentTerm"),
  ("if", "s.raft.CurrentTerm() != currReadTerm"),
  ("ret", "ErrStaleRead"),
  ("end", ""),
  ("call", "s.fsmWaitIndex"),
  ("call", "s.fsmTarget.Subscribe"),
  ("select", ""),
  ("case", "<-ch"),
  ("ret", "nil"),
  ("case", "<-time.After(lt)"),
  ("ret", "fmt.Errorf(\"index %d: %w\", readIndex, ErrWaitForFSMTimeout)"),
  ("end", "")]

def fsmWaitIndex : List (String × String) := [
  ("call", "s.fsmIdx.Load"),
  ("for", "idx > fsmIdx"),
  ("call", "s.raftLog.GetLog"),
  ("if", "err != nil"),
  ("if", "err == raft.ErrLogNotFound"),
  ("ret", "fsmIdx"),
  ("end", ""),
  ("ret", "idx"),
  ("end", ""),
  ("if", "l.Type == raft.LogCommand"),
  ("ret", "idx"),
  ("end", ""),
  ("end", ""),
  ("ret", "idx")]

def fsmApply : List (String × String) := [
  ("defer", ""),
  ("call", "s.fsmIdx.Store"),
  ("call", "s.fsmTarget.Signal"),
  ("call", "s.fsmTerm.Store"),
  ("call", "s.fsmUpdateTime.Store"),
  ("call", "s.appendedAtTime.Store"),
  ("call", "time.Since"),
  ("call", "time.Since(startT).Microseconds"),
  ("end", ""),
  ("call", "s.firstLogAppliedT.IsZero"),
  ("if", "s.firstLogAppliedT.IsZero()"),
  ("call", "s.logger.Printf"),
  ("end", ""),
  ("if", "mutated"),
  ("call", "s.dbAppliedIdx.Store"),
  ("call", "s.appliedTarget.Signal"),
  ("end", ""),
  ("call", "s.numNoops.Add"),
  ("call", "s.snapshotStore.SetDueNext"),
  ("call", "s.logger.Fatalf"),
  ("call", "s.cdcRegistered.Unset"),
  ("ret", "r")]

def isStaleReadFn : List (String × String) := [
  ("if", "freshness == 0"),
  ("ret", "false"),
  ("end", ""),
  ("call", "time.Since"),
  ("call", "time.Since(leaderlastContact).Nanoseconds"),
  ("if", "time.Since(leaderlastContact).Nanoseconds() > freshness"),
  ("ret", "true"),
  ("end", ""),
  ("if", "!strict"),
  ("ret", "false"),
  ("end", ""),
  ("call", "lastAppendedAtTime.IsZero"),
  ("if", "lastAppendedAtTime.IsZero()"),
  ("ret", "false"),
  ("end", ""),
  ("if", "fsmIndex == commitIndex"),
  ("ret", "false"),
  ("end", ""),
  ("call", "lastFSMUpdateTime.Sub"),
  ("call", "lastFSMUpdateTime.Sub(lastAppendedAtTime).Nanoseconds"),
  ("ret", "lastFSMUpdateTime.Sub(lastAppendedAtTime).Nanoseconds() > freshness")]

def querySkel : List (String × String) := [
  ("if", "level == proto.ConsistencyLevel_AUTO"),
  ("call", "s.IsVoter"),
  ("if", "err != nil"),
  ("ret", "err"),
  ("end", ""),
  ("end", ""),
  ("call", "s.raft.CurrentTerm"),
  ("if", "level == proto.ConsistencyLevel_LINEARIZABLE"),
  ("call", "s.waitForLinearizableRead"),
  ("if", "err != nil"),
  ("if", "err == ErrStrongReadNeeded"),
  ("else", ""),
  ("ret", "err"),
  ("end", ""),
  ("end", ""),
  ("end", ""),
  ("if", "level == proto.ConsistencyLevel_STRONG"),
  ("call", "s.raft.State"),
  ("if", "s.raft.State() != raft.Leader"),
  ("ret", "ErrNotLeader"),
  ("end", ""),
  ("call", "s.Ready"),
  ("if", "!s.Ready()"),
  ("ret", "ErrNotReady"),
  ("end", ""),
  ("call", "s.raft.Apply"),
  ("if", "af.Error() != nil"),
  ("if", "af.Error() == raft.ErrNotLeader || af.Error() == raft.ErrLeadershipLost"),
  ("ret", "ErrNotLeader"),
  ("end", ""),
  ("ret", "af.Error()"),
  ("end", ""),
  ("call", "s.strongReadTerm.Store"),
  ("ret", "r.error"),
  ("end", ""),
  ("call", "s.raft.State"),
  ("if", "level == proto.ConsistencyLevel_WEAK && s.raft.State() != raft.Leader"),
  ("ret", "ErrNotLeader"),
  ("end", ""),
  ("call", "s.isStaleRead"),
  ("if", "level == proto.ConsistencyLevel_NONE && s.isStaleRead(qr.Freshness, qr.FreshnessStrict)"),
  ("ret", "ErrStaleRead"),
  ("end", ""),
  ("call", "s.db.QueryWithContext"),
  ("ret", "err")]

def requestSkel : List (String × String) := [
  ("if", "eqr.Level == proto.ConsistencyLevel_AUTO"),
  ("call", "s.IsVoter"),
  ("if", "err != nil"),
  ("ret", "err"),
  ("end", ""),
  ("end", ""),
  ("call", "s.RORWCount"),
  ("call", "s.raft.State"),
  ("call", "s.raft.CurrentTerm"),
  ("if", "eqr.Level == proto.ConsistencyLevel_LINEARIZABLE"),
  ("call", "s.waitForLinearizableRead"),
  ("if", "err != nil"),
  ("if", "err == ErrStrongReadNeeded"),
  ("else", ""),
  ("ret", "err"),
  ("end", ""),
  ("end", ""),
  ("end", ""),
  ("if", "nRW == 0 && eqr.Level != proto.ConsistencyLevel_STRONG"),
  ("call", "s.isStaleRead"),
  ("if", "eqr.Level == proto.ConsistencyLevel_NONE && s.isStaleRead(eqr.Freshness, eqr.FreshnessStrict)"),
  ("ret", "ErrStaleRead"),
  ("else", ""),
  ("if", "eqr.Level == proto.ConsistencyLevel_WEAK"),
  ("if", "!isLeader"),
  ("ret", "ErrNotLeader"),
  ("end", ""),
  ("end", ""),
  ("end", ""),
  ("call", "s.db.QueryWithContext"),
  ("ret", "err"),
  ("end", ""),
  ("if", "!isLeader"),
  ("ret", "ErrNotLeader"),
  ("end", ""),
  ("call", "s.Ready"),
  ("if", "!s.Ready()"),
  ("ret", "ErrNotReady"),
  ("end", ""),
  ("call", "s.raft.Apply"),
  ("if", "af.Error() != nil"),
  ("if", "af.Error() == raft.ErrNotLeader"),
  ("ret", "ErrNotLeader"),
  ("end", ""),
  ("ret", "af.Error()"),
  ("end", ""),
  ("if", "nRO > 0"),
  ("call", "s.strongReadTerm.Store"),
  ("end", ""),
  ("ret", "r.error")]

def executeSkel : List (String × String) := [
  ("call", "s.raft.State"),
  ("if", "s.raft.State() != raft.Leader"),
  ("ret", "ErrNotLeader"),
  ("end", ""),
  ("call", "s.Ready"),
  ("if", "!s.Ready()"),
  ("ret", "ErrNotReady"),
  ("end", ""),
  ("call", "s.execute"),
  ("ret", "s.execute(ex)")]

def storeIsStaleReadSkel : List (String × String) := [
  ("call", "s.raft.State"),
  ("if", "s.raft.State() == raft.Leader"),
  ("ret", "false"),
  ("end", ""),
  ("call", "s.raft.LastContact"),
  ("call", "s.fsmUpdateTime.Load"),
  ("call", "s.appendedAtTime.Load"),
  ("call", "s.fsmIdx.Load"),
  ("call", "s.raftTn.CommandCommitIndex"),
  ("call", "IsStaleRead"),
  ("ret", "IsStaleRead( s.raft.LastContact(), s.fsmUpdateTime.Load(), s.appendedAtTime.Load(), s.fsmIdx.Load(), s.raftTn.CommandCommitIndex(), freshness, strict)")]

end RqModel.Expect.ReadPath

package store

// C25 (store segment): every committed log entry must hand its row changes to the CDC
// service, grouped and labelled as the Lean model's `streamEntry` says, and must keep doing
// so across the operations that replace the SQLite connection of a LIVE node: a snapshot
// install (FSM.Restore), a database load, user snapshots. The real Store (raft, real SQLite
// hooks, real db.CDCStreamer) is driven through generated sequences; the groups that arrive
// on the CDC channel for each entry are compared with the model (op `stream` of `cdcpipe`).

import (
	"bytes"
	"context"
	"fmt"
	"regexp"
	"strings"
	"testing"
	"time"

	"github.com/rqlite/rqlite/v10/command/proto"
)

func c25Transient(msg string) bool {
	m := strings.ToLower(msg)
	for _, p := range []string{"not leader", "leadership lost", "leadership transfer", "timeout waiting for leader",
		"timed out enqueuing", "enqueue timeout", "no leader", "leader not known"} {
		if strings.Contains(m, p) {
			return true
		}
	}
	return false
}

func TestVerifC25Store(t *testing.T) {
	abandoned, judged := 0, 0
	rep := vfNewReport("C25", "real single-node Store with CDC enabled (table filter ^t$): generated requests (single statement, multi-statement with and without transaction, statements on a filtered table, multi-row statements) interleaved with snapshot installs on the live node (FSM.Snapshot/Persist/Restore), database loads and user snapshots; the event groups arriving on the CDC channel for every entry are compared with the model's streamer. A sequence is non-trivial when a write follows a snapshot install and a load; distinct by op text")
	defer rep.Write()
	r := vfNewRng(2500)

	s, ln := mustNewStore(t)
	defer ln.Close()
	if err := s.Open(); err != nil {
		t.Fatalf("open: %v", err)
	}
	if err := s.Bootstrap(NewServer(s.ID(), s.Addr(), true)); err != nil {
		t.Fatalf("bootstrap: %v", err)
	}
	defer s.Close(true)
	if _, err := s.WaitForLeader(60 * time.Second); err != nil {
		t.Fatalf("leader: %v", err)
	}
	out := make(chan *proto.CDCIndexedEventGroup, 4096)
	if err := s.EnableCDC(out, regexp.MustCompile(`^t$`), true); err != nil {
		t.Fatalf("EnableCDC: %v", err)
	}
	exec := func(tx bool, stmts ...string) (uint64, error) {
		res, idx, err := s.Execute(context.Background(), executeRequestFromStrings(stmts, false, tx))
		if err != nil {
			return 0, err
		}
		for _, x := range res {
			if e := x.GetError(); e != "" {
				return idx, fmt.Errorf("%s", e)
			}
		}
		return idx, nil
	}
	for try := 0; ; try++ {
		_, err := exec(true, "CREATE TABLE IF NOT EXISTS t (id INTEGER PRIMARY KEY)", "CREATE TABLE IF NOT EXISTS u (id INTEGER PRIMARY KEY)")
		if err == nil {
			break
		}
		if !c25Transient(err.Error()) || try > 60 {
			t.Fatalf("schema: %v", err)
		}
		time.Sleep(time.Second)
		s.WaitForLeader(60 * time.Second)
	}
	drain := func() []*proto.CDCIndexedEventGroup {
		var gs []*proto.CDCIndexedEventGroup
		for {
			select {
			case g := <-out:
				gs = append(gs, g)
			default:
				return gs
			}
		}
	}
	drain()

	var ops, impl []string
	seq := int64(0)
	last := "start"
	sawRestore, sawLoad := false, false
	n := vfScale(60, 1200)
	for i := 0; i < n; i++ {
		c := r.Intn(100)
		switch {
		case c < 10: // snapshot install on the live node
			// what raft does on InstallSnapshot: the newest snapshot of the snapshot store is
			// streamed into FSM.Restore of the running node
			_ = s.Snapshot(0)
			// (this test calls Restore from outside raft's FSM goroutine: the snapshot store's
			// background reaper may still be removing older snapshots, so retry a refused install)
			installed := false
			var rerr error
			for try := 0; try < 5 && !installed; try++ {
				metas, err := s.snapshotStore.List()
				if err != nil || len(metas) == 0 {
					break
				}
				_, rc, err := s.snapshotStore.Open(metas[0].ID)
				if err != nil {
					rerr = err
					time.Sleep(200 * time.Millisecond)
					continue
				}
				if rerr = NewFSM(s).Restore(rc); rerr == nil {
					installed = true
				} else {
					time.Sleep(200 * time.Millisecond)
				}
			}
			if !installed {
				if rerr != nil {
					// a node whose Restore failed is crashed by raft; nothing after it is judged
					rep.Note("snapshot install refused 5 times (%v): sequence ended after %d ops", rerr, i)
					i = n
				} else {
					rep.Count("restore:no-snapshot-yet")
				}
				continue
			}
			last, sawRestore = "snapshot-install", true
			rep.Count("op:snapshot-install")
			drain()
		case c < 16: // load the node's own backup
			var buf bytes.Buffer
			if err := s.Backup(context.Background(), &proto.BackupRequest{Format: proto.BackupRequest_BACKUP_REQUEST_FORMAT_BINARY}, &buf); err != nil {
				rep.Count("load:backup-refused")
				continue
			}
			if err := s.Load(context.Background(), &proto.LoadRequest{Data: buf.Bytes()}); err != nil {
				if c25Transient(err.Error()) {
					// a busy machine (leadership lost and regained, enqueue timeout): not a case
					abandoned++
					rep.Count("abandoned:transient-error-on-load")
					s.WaitForLeader(60 * time.Second)
					drain()
					continue
				}
				t.Fatalf("load: %v", err)
			}
			last, sawLoad = "load", true
			rep.Count("op:load")
			drain()
		case c < 22:
			_ = s.Snapshot(0)
			last = "user-snapshot"
			rep.Count("op:user-snapshot")
		default: // a write request
			seq++
			tx := r.Chance(35)
			ns := 1
			if r.Chance(45) {
				ns = 2 + r.Intn(3)
			}
			var stmts []string
			var counts []string
			for j := 0; j < ns; j++ {
				rows := r.Intn(3)
				if ns == 1 && rows == 0 && r.Chance(70) {
					rows = 1
				}
				if rows == 0 {
					stmts = append(stmts, fmt.Sprintf("INSERT INTO u(id) VALUES(%d)", seq*100+int64(j)*10))
				} else {
					var vals []string
					for k := 0; k < rows; k++ {
						vals = append(vals, fmt.Sprintf("(%d)", seq*100+int64(j)*10+int64(k)))
					}
					stmts = append(stmts, "INSERT INTO t(id) VALUES"+strings.Join(vals, ","))
				}
				counts = append(counts, fmt.Sprintf("%d", rows))
			}
			idx, err := exec(tx, stmts...)
			if err != nil {
				if c25Transient(err.Error()) {
					// the request may or may not have been applied: its groups cannot be judged
					abandoned++
					rep.Count("abandoned:transient-error-on-write")
					s.WaitForLeader(60 * time.Second)
					time.Sleep(200 * time.Millisecond)
					drain()
					continue
				}
				t.Fatalf("write: %v", err)
			}
			judged++
			txf := 0
			if tx {
				txf = 1
			}
			got := drain()
			var gs []string
			total := 0
			for _, g := range got {
				var chg []string
				seen := map[string]bool{}
				for _, ev := range g.Events {
					j := (ev.NewRowId / 10) % 10
					c := fmt.Sprintf("%d.%d", idx, j)
					if ev.NewRowId/100 != seq {
						c = fmt.Sprintf("foreign-row-%d", ev.NewRowId)
					}
					if !seen[c] {
						seen[c] = true
						chg = append(chg, c)
					}
					total++
				}
				gs = append(gs, fmt.Sprintf("%d/%s", g.Index, strings.Join(chg, "+")))
			}
			line := "-"
			if len(gs) > 0 {
				line = strings.Join(gs, ",")
			}
			ops = append(ops, fmt.Sprintf("stream %d %d %s", idx, txf, strings.Join(counts, ",")))
			impl = append(impl, line)
			// the property on the store segment: every row change of the entry is handed over
			want := 0
			for _, st := range stmts {
				if strings.HasPrefix(st, "INSERT INTO t") {
					want += strings.Count(st, "(") - 1
				}
			}
			if total < want {
				rep.Fail("store:committed-changes-not-handed-to-cdc:after-"+last,
					fmt.Sprintf("entry %d (%v, tx=%v) changed %d rows of table t but %d events arrived on the CDC channel (last disruptive operation: %s)", idx, stmts, tx, want, total, last),
					map[string]interface{}{"statements": stmts, "tx": tx, "after": last})
			}
			rep.Count("op:write")
			rep.Count("write-after:" + last)
			if i < 3 {
				rep.Sample(map[string]interface{}{"statements": stmts, "tx": tx, "index": idx, "groups": line})
			}
		}
	}
	rep.Case(strings.Join(ops, ";"), sawRestore && sawLoad)
	rep.vfCompare("cdcpipe", ops, impl, nil)
	rep.CountN("abandoned-cases", abandoned)
	if abandoned > judged {
		rep.Fail("harness:could-not-run", fmt.Sprintf("%d of %d requests were abandoned because of transient errors (busy machine?)", abandoned, abandoned+judged), nil)
	}
}

/-
Client-protocol transition systems over the rsync primitives
(RqModel/Model/Rsync.lean) and their invariants. Used by Props/C34 (and C11).

Ghost state records which clients currently hold what. The protocol assumption
is the usual one: a client calls `End`/`EndRead`/`EndWrite`/`UpgradeToWriter`
only while it holds the corresponding lock, and passes a non-empty owner name.
A step that violates the protocol is a stutter in these systems.
-/
import RqModel.Model.Rsync
namespace RqModel.Rsync

/-! ### CheckAndSet -/

structure CasSys where
  c : Cas := {}
  holders : List Nat := []
deriving Repr

inductive CasStep where
  | begin (client : Nat) (owner : String)
  | end_ (client : Nat)
deriving Repr, DecidableEq

def casStep (s : CasSys) : CasStep → CasSys
  | .begin cl o =>
    match s.c.begin o with
    | (c', .ok) => ⟨c', cl :: s.holders⟩
    | (c', _) => ⟨c', s.holders⟩
  | .end_ cl => if cl ∈ s.holders then ⟨s.c.end_, s.holders.erase cl⟩ else s

def casRun (s : CasSys) (steps : List CasStep) : CasSys := steps.foldl casStep s

def CasInv (s : CasSys) : Prop :=
  s.holders.length ≤ 1 ∧ (s.c.state = true ↔ s.holders.length = 1)

theorem casStep_inv (s : CasSys) (st : CasStep) (h : CasInv s) : CasInv (casStep s st) := by
  obtain ⟨h1, h2⟩ := h
  cases st with
  | begin cl o =>
    simp only [casStep, Cas.begin]
    by_cases hs : s.c.state = true
    · simp only [hs, if_true]; exact ⟨h1, h2⟩
    · have hs' : s.c.state = false := by simpa using hs
      have hl : s.holders.length = 0 := by
        have : ¬ s.holders.length = 1 := fun e => hs (h2.2 e)
        omega
      simp only [hs', Bool.false_eq_true, if_false]
      exact ⟨by simp [hl], by simp [hl]⟩
  | end_ cl =>
    simp only [casStep]
    split
    · rename_i hm
      have hl : s.holders.length = 1 := by
        have : 0 < s.holders.length := List.length_pos_of_mem hm
        omega
      refine ⟨by simp [List.length_erase_of_mem hm, hl], ?_⟩
      simp [Cas.end_, List.length_erase_of_mem hm, hl]
    · exact ⟨h1, h2⟩

theorem casRun_inv (s : CasSys) (steps : List CasStep) (h : CasInv s) : CasInv (casRun s steps) := by
  induction steps generalizing s with
  | nil => exact h
  | cons st steps ih => exact ih _ (casStep_inv s st h)

/-! ### MultiRSW -/

structure MSys where
  m : Mrsw := {}
  readers : List Nat := []
  writers : List Nat := []
  panicked : Bool := false
deriving Repr

inductive MStep where
  | beginRead (c : Nat)
  | beginReadBlocking (c : Nat)
  | endRead (c : Nat)
  | beginWrite (c : Nat) (o : String)
  | beginWriteBlocking (c : Nat) (o : String)
  | endWrite (c : Nat)
  | upgrade (c : Nat) (o : String)
deriving Repr, DecidableEq

def notePanic (s : MSys) (r : Res) : MSys := if r = .panic then { s with panicked := true } else s

def mStep (s : MSys) : MStep → MSys
  | .beginRead c =>
    match s.m.beginRead with
    | (m', .ok) => { s with m := m', readers := c :: s.readers }
    | (m', r) => notePanic { s with m := m' } r
  | .beginReadBlocking c =>
    match s.m.beginReadBlocking with
    | some m' => { s with m := m', readers := c :: s.readers }
    | none => s
  | .endRead c =>
    if c ∈ s.readers then
      let (m', r) := s.m.endRead
      notePanic { s with m := m', readers := s.readers.erase c } r
    else s
  | .beginWrite c o =>
    if o = "" then s else
    match s.m.beginWrite o with
    | (m', .ok) => { s with m := m', writers := c :: s.writers }
    | (m', r) => notePanic { s with m := m' } r
  | .beginWriteBlocking c o =>
    if o = "" then s else
    match s.m.beginWriteBlocking o with
    | some (m', .ok) => { s with m := m', writers := c :: s.writers }
    | some (m', r) => notePanic { s with m := m' } r
    | none => s
  | .endWrite c =>
    if c ∈ s.writers then
      let (m', r) := s.m.endWrite
      notePanic { s with m := m', writers := s.writers.erase c } r
    else s
  | .upgrade c o =>
    if o = "" ∨ c ∉ s.readers then s else
    match s.m.upgrade o with
    | (m', .ok) => { s with m := m', readers := s.readers.erase c, writers := c :: s.writers }
    | (m', r) => notePanic { s with m := m' } r

def mRun (s : MSys) (steps : List MStep) : MSys := steps.foldl mStep s

structure MInv (s : MSys) : Prop where
  count : s.m.numReaders = (s.readers.length : Int)
  owner : s.m.owner ≠ "" ↔ s.writers.length = 1
  one : s.writers.length ≤ 1
  excl : s.writers ≠ [] → s.readers = []
  noPanic : s.panicked = false

theorem mStep_inv (s : MSys) (st : MStep) (h : MInv s) : MInv (mStep s st) := by
  obtain ⟨hc, ho, h1, hx, hp⟩ := h
  have hw0 : s.m.owner = "" → s.writers = [] := by
    intro e
    have : ¬ s.writers.length = 1 := fun l => (ho.2 l) e
    cases hw : s.writers with
    | nil => rfl
    | cons a t => rw [hw] at this h1; simp only [List.length_cons] at this h1; omega
  cases st with
  | beginRead c =>
    simp only [mStep, Mrsw.beginRead]
    by_cases hown : s.m.owner = ""
    · simp only [hown, ne_eq, not_true_eq_false, if_false]
      have := hw0 hown
      exact ⟨by simp [hc], by simp [hown, this], by simp [this], by simp [this], hp⟩
    · simp only [ne_eq, hown, not_false_eq_true, if_true, notePanic]
      simp only [reduceCtorEq, if_false]
      exact ⟨hc, ho, h1, hx, hp⟩
  | beginReadBlocking c =>
    simp only [mStep, Mrsw.beginReadBlocking, Mrsw.readEnabled]
    by_cases hown : s.m.owner = ""
    · simp only [hown, beq_self_eq_true, if_true]
      have := hw0 hown
      exact ⟨by simp [hc], by simp [hown, this], by simp [this], by simp [this], hp⟩
    · have : (s.m.owner == "") = false := by simpa using hown
      simp only [this, Bool.false_eq_true, if_false]
      exact ⟨hc, ho, h1, hx, hp⟩
  | endRead c =>
    simp only [mStep]
    split
    · rename_i hm
      have hpos : 0 < s.readers.length := List.length_pos_of_mem hm
      have hwn : s.writers = [] := by
        cases hw : s.writers with
        | nil => rfl
        | cons a t => have := hx (by simp [hw]); rw [this] at hm; cases hm
      have hn : ¬ (s.m.numReaders - 1 < 0) := by omega
      simp only [Mrsw.endRead, hn, if_false, notePanic, reduceCtorEq]
      refine ⟨?_, ho, h1, ?_, hp⟩
      · simp only [List.length_erase_of_mem hm]; omega
      · intro hne; exact absurd hwn hne
    · exact ⟨hc, ho, h1, hx, hp⟩
  | beginWrite c o =>
    simp only [mStep]
    split
    · exact ⟨hc, ho, h1, hx, hp⟩
    · rename_i ho'
      simp only [Mrsw.beginWrite, ho', if_false]
      by_cases hown : s.m.owner = ""
      · simp only [hown, ne_eq, not_true_eq_false, if_false]
        have hwn := hw0 hown
        by_cases hr : s.m.numReaders > 0
        · simp only [hr, if_true, notePanic, reduceCtorEq, if_false]
          exact ⟨hc, ho, h1, hx, hp⟩
        · simp only [hr, if_false]
          have hrl : s.readers = [] := by
            cases hrr : s.readers with
            | nil => rfl
            | cons a t => simp [hrr] at hc; omega
          exact ⟨hc, by simp [ho', hwn], by simp [hwn], fun _ => hrl, hp⟩
      · simp only [ne_eq, hown, not_false_eq_true, if_true, notePanic, reduceCtorEq, if_false]
        exact ⟨hc, ho, h1, hx, hp⟩
  | beginWriteBlocking c o =>
    simp only [mStep]
    split
    · exact ⟨hc, ho, h1, hx, hp⟩
    · rename_i ho'
      simp only [Mrsw.beginWriteBlocking, ho', if_false]
      by_cases hen : s.m.writeEnabled = true
      · simp only [hen, if_true]
        simp only [Mrsw.writeEnabled, Bool.and_eq_true, beq_iff_eq, decide_eq_true_eq] at hen
        have hwn := hw0 hen.1
        have hrl : s.readers = [] := by
          cases hrr : s.readers with
          | nil => rfl
          | cons a t => simp [hrr] at hc; omega
        exact ⟨hc, by simp [ho', hwn], by simp [hwn], fun _ => hrl, hp⟩
      · simp only [hen, if_false]
        exact ⟨hc, ho, h1, hx, hp⟩
  | endWrite c =>
    simp only [mStep]
    split
    · rename_i hm
      have hl : s.writers.length = 1 := by
        have : 0 < s.writers.length := List.length_pos_of_mem hm
        omega
      have hown : s.m.owner ≠ "" := ho.2 hl
      simp only [Mrsw.endWrite, hown, if_false, notePanic, reduceCtorEq]
      have hel : (s.writers.erase c).length = 0 := by simp [List.length_erase_of_mem hm, hl]
      have hen : s.writers.erase c = [] := List.eq_nil_of_length_eq_zero hel
      exact ⟨hc, by simp [hen], by simp [hen], fun hne => absurd hen hne, hp⟩
    · exact ⟨hc, ho, h1, hx, hp⟩
  | upgrade c o =>
    simp only [mStep]
    split
    · exact ⟨hc, ho, h1, hx, hp⟩
    · rename_i hcond
      have ho' : o ≠ "" := fun e => hcond (Or.inl e)
      have hm : c ∈ s.readers := by
        by_cases hm : c ∈ s.readers
        · exact hm
        · exact absurd (Or.inr hm) hcond
      have hpos : 0 < s.readers.length := List.length_pos_of_mem hm
      simp only [Mrsw.upgrade]
      by_cases hown : s.m.owner = ""
      · simp only [hown, ne_eq, not_true_eq_false, if_false]
        have hwn := hw0 hown
        by_cases hr : s.m.numReaders > 1
        · simp only [hr, if_true, notePanic, reduceCtorEq, if_false]
          exact ⟨hc, ho, h1, hx, hp⟩
        · have h0 : ¬ s.m.numReaders = 0 := by omega
          simp only [hr, if_false, h0]
          have hl : s.readers.length = 1 := by omega
          have hel : (s.readers.erase c).length = 0 := by simp [List.length_erase_of_mem hm, hl]
          have hen : s.readers.erase c = [] := List.eq_nil_of_length_eq_zero hel
          exact ⟨by simp [hen], by simp [ho', hwn], by simp [hwn], fun _ => hen, hp⟩
      · simp only [ne_eq, hown, not_false_eq_true, if_true, notePanic, reduceCtorEq, if_false]
        exact ⟨hc, ho, h1, hx, hp⟩

theorem mRun_inv (s : MSys) (steps : List MStep) (h : MInv s) : MInv (mRun s steps) := by
  induction steps generalizing s with
  | nil => exact h
  | cons st steps ih => exact ih _ (mStep_inv s st h)

theorem mInit_inv : MInv {} := ⟨rfl, by simp, by simp, by simp, rfl⟩

end RqModel.Rsync

package main

// RollbackCtx (C13): the context the RollbackOnError ROLLBACK is issued with.
//
//   rollbackOnErrorContexts   for every call `db.executeStmtWithConn(<ctx>, &command.Statement{Sql: "ROLLBACK"}, …)`
//                             in db/db.go executeWithConn (closure handleError) and RequestWithContext
//                             (closure abortOnError): the source of its first argument. The request's own
//                             context may have expired - that is often WHY the statement failed - and a
//                             statement handed over on an expired context need not run.

import (
	"go/ast"
	"strings"
)

func init() {
	register("RollbackCtx", func(x *X) {
		var ctxs []string
		for _, fn := range []string{"executeWithConn", "RequestWithContext"} {
			fd := x.Func("db", "DB", fn)
			if fd == nil {
				ctxs = append(ctxs, "<"+fn+" not found>")
				continue
			}
			ast.Inspect(fd.Body, func(n ast.Node) bool {
				c, ok := n.(*ast.CallExpr)
				if !ok || !strings.HasSuffix(x.Src(c.Fun), "executeStmtWithConn") || len(c.Args) < 2 {
					return true
				}
				if strings.Contains(x.Src(c.Args[1]), `"ROLLBACK"`) {
					ctxs = append(ctxs, fn+": "+x.Src(c.Args[0]))
				}
				return true
			})
		}
		x.Comment("db/db.go: first argument of every executeStmtWithConn(…, ROLLBACK, …) in executeWithConn / RequestWithContext")
		x.DefStrings("rollbackOnErrorContexts", ctxs)
	})
}

/-
C16  Read consistency levels behave as documented.

Models: RqModel/Model/ReadLevel.lean (IsStaleRead, Store.isStaleRead, the level
dispatch of Store.Query / Store.Request) and RqModel/Model/LinRead.lean
(waitForLinearizableRead). The guard order of the real functions is regenerated
from the source on every run (Gen.ReadPath) and proved equal to what the models
transcribe.
-/
import RqModel.Lemmas.ReadLevel
import RqModel.Lemmas.LinRead
import RqModel.Gen.ReadPath
import RqModel.Expect.ReadPath
namespace C16
open RqModel RqModel.ReadLevel
open RqModel.LinRead (LinOut LinEnv waitLin Ev run Inv)

/-! ### the staleness decision -/

/-- saturation of `time.Duration` does not change a comparison with an int64 bound other
than the largest one -/
theorem satSub_gt_iff (a b f : Int) (h1 : minI64 ≤ f) (h2 : f < maxI64) :
    satSub a b > f ↔ a - b > f := by
  have hmax : maxI64 = 9223372036854775807 := rfl
  have hmin : minI64 = -9223372036854775808 := rfl
  unfold satSub
  by_cases c1 : a - b > maxI64
  · rw [if_pos c1]; omega
  · rw [if_neg c1]
    by_cases c2 : a - b < minI64
    · rw [if_pos c2]; omega
    · rw [if_neg c2]

/-- `IsStaleRead`, for ALL integer inputs, as the documented rule: a freshness bound is
set, and either the leader has not been heard from within the bound, or (strict mode)
something has been appended, the node is behind (FSM index ≠ commit index) and the
last applied entry was appended more than the bound before it was applied.
Durations are the saturated `time.Duration` values. -/
theorem stale_iff (i : StaleIn) :
    isStaleRead i = true ↔
      i.freshness ≠ 0 ∧
      (satSub i.now i.lastContact > i.freshness ∨
       (i.strict = true ∧ ∃ a, i.appendedAt = some a ∧ i.fsmIndex ≠ i.commitIndex ∧
          satSub i.fsmUpdate a > i.freshness)) := by
  unfold isStaleRead
  by_cases hf : i.freshness = 0
  · simp [hf]
  · simp only [hf, if_false, ne_eq, not_false_eq_true, true_and]
    by_cases hc : satSub i.now i.lastContact > i.freshness
    · simp [hc]
    · simp only [hc, if_false, false_or]
      by_cases hs : i.strict = true
      · simp only [hs, Bool.not_true, Bool.false_eq_true, if_false, true_and]
        cases ha : i.appendedAt with
        | none => simp
        | some a =>
          by_cases hi : i.fsmIndex = i.commitIndex
          · simp [hi]
          · simp [hi]
      · have hs' : i.strict = false := by simpa using hs
        simp [hs']

/-- ... and with exact (unsaturated) integer differences whenever the bound is an
int64 other than the extreme values -/
theorem stale_iff_documented (i : StaleIn) (h1 : minI64 ≤ i.freshness) (h2 : i.freshness < maxI64) :
    isStaleRead i = true ↔
      i.freshness ≠ 0 ∧
      (i.now - i.lastContact > i.freshness ∨
       (i.strict = true ∧ ∃ a, i.appendedAt = some a ∧ i.fsmIndex ≠ i.commitIndex ∧
          i.fsmUpdate - a > i.freshness)) := by
  rw [stale_iff, satSub_gt_iff _ _ _ h1 h2]
  constructor
  · rintro ⟨hf, h | ⟨hs, a, ha, hi, hl⟩⟩
    · exact ⟨hf, Or.inl h⟩
    · exact ⟨hf, Or.inr ⟨hs, a, ha, hi, (satSub_gt_iff _ _ _ h1 h2).1 hl⟩⟩
  · rintro ⟨hf, h | ⟨hs, a, ha, hi, hl⟩⟩
    · exact ⟨hf, Or.inl h⟩
    · exact ⟨hf, Or.inr ⟨hs, a, ha, hi, (satSub_gt_iff _ _ _ h1 h2).2 hl⟩⟩

/-- **Strict mode, stated on the last applied entry.** After `fsmApply` of ANY entry (index
`idx`, appended by the leader at `appended`, applied here at `applied`), a node that has
heard from the leader within the bound but is behind (`commit ≠ idx`) refuses a strict
read exactly when that entry was applied more than the bound after it was appended. -/
theorem strict_stale_after_entry (b : Book) (idx : Nat) (applied appended now lc : Int) (commit : Nat)
    (f : Int) (hf : f ≠ 0) (h1 : minI64 ≤ f) (h2 : f < maxI64)
    (hcontact : ¬ now - lc > f) (hbehind : idx ≠ commit) :
    isStaleRead ((b.apply idx applied appended).staleIn now lc commit f true) = true ↔ applied - appended > f := by
  rw [stale_iff_documented _ h1 h2]
  simp only [Book.apply, Book.staleIn]
  constructor
  · rintro ⟨_, h | ⟨_, a, ha, _, hl⟩⟩
    · exact absurd h hcontact
    · cases ha; exact hl
  · intro h
    refine ⟨hf, Or.inr ⟨?_, appended, ?_, hbehind, h⟩⟩ <;> simp

/-- A 'none' read is refused with ErrStaleRead exactly when the request passes the
entry guards and `s.isStaleRead` says stale (both entry points) -/
theorem none_refused_iff (e : Env) :
    (query .none e = .errStaleRead ↔ (e.pragmaOk ∧ e.opened ∧ e.reqOk ∧ e.ctxOk ∧ e.staleRead)) ∧
    (request .none 0 e = .errStaleRead ↔ (e.pragmaOk ∧ e.opened ∧ e.reqOk ∧ e.ctxOk ∧ e.staleRead)) := by
  obtain ⟨p, o, c, l, v, r, s, li, ap, rq, th⟩ := e
  cases p <;> cases o <;> cases c <;> cases s <;> cases rq <;>
    simp [query, request, requestTail, resolveAuto, linStage]

/-- ... i.e., composed with the staleness decision: refused iff the node is not leader and
the documented rule says stale -/
theorem none_refused_rule (e : Env) (i : StaleIn) (hs : e.staleRead = storeIsStale e.isLeader i)
    (hg : e.pragmaOk = true ∧ e.opened = true ∧ e.reqOk = true ∧ e.ctxOk = true) :
    let rule := (e.isLeader = false ∧ i.freshness ≠ 0 ∧
        (satSub i.now i.lastContact > i.freshness ∨
         (i.strict = true ∧ ∃ a, i.appendedAt = some a ∧ i.fsmIndex ≠ i.commitIndex ∧
            satSub i.fsmUpdate a > i.freshness)))
    (query .none e = .errStaleRead ↔ rule) ∧ (request .none 0 e = .errStaleRead ↔ rule) := by
  intro rule
  obtain ⟨h1, h2, h3, h4⟩ := hg
  have key : (e.pragmaOk ∧ e.opened ∧ e.reqOk ∧ e.ctxOk ∧ e.staleRead) ↔ rule := by
    simp only [rule]
    rw [hs, ← stale_iff]
    cases hl : e.isLeader <;> simp [storeIsStale, h1, h2, h3, h4]
  exact ⟨by rw [(none_refused_iff e).1]; exact key, by rw [(none_refused_iff e).2]; exact key⟩

/-- a node that believes it is leader never refuses a 'none' read for staleness, whatever the
freshness bound and the timing (both entry points) -/
theorem leader_none_never_refused (e : Env) (i : StaleIn) (hl : e.isLeader = true)
    (hs : e.staleRead = storeIsStale e.isLeader i) :
    query .none e ≠ .errStaleRead ∧ request .none 0 e ≠ .errStaleRead := by
  have hf : e.staleRead = false := by rw [hs, hl]; rfl
  constructor
  · intro h; have := ((none_refused_iff e).1.1 h).2.2.2.2; rw [hf] at this; cases this
  · intro h; have := ((none_refused_iff e).2.1 h).2.2.2.2; rw [hf] at this; cases this

/-- the bookkeeping over WHOLE histories of FSM events (entries applied one by one, snapshot
installs, fast restarts): the two times always are those of the last entry applied one by
one in this process (`lastApply`), and unset if there was none -/
theorem book_times (evs : List BookEv) (b : Book) :
    (b.run evs).appendedAt = (lastApply (b.appendedAt.map (fun a => (b.fsmUpdate, a))) evs).map (·.2) ∧
    ∀ u a, lastApply (b.appendedAt.map (fun a => (b.fsmUpdate, a))) evs = some (u, a) → (b.run evs).fsmUpdate = u := by
  induction evs generalizing b with
  | nil =>
    simp only [Book.run, List.foldl_nil, lastApply]
    cases h : b.appendedAt <;> simp
  | cons e evs ih =>
    cases e with
    | apply idx u a =>
      have := ih (b.apply idx u a)
      simpa [Book.run, Book.step, lastApply, Book.apply] using this
    | restore li =>
      have := ih (b.restore li)
      simpa [Book.run, Book.step, lastApply, Book.restore] using this
    | fastOpen li =>
      have := ih (b.fastOpen li)
      simpa [Book.run, Book.step, lastApply, Book.fastOpen] using this

/-- **Strict mode over whole histories.** After ANY history of FSM events, a node in contact
with the leader but behind refuses a strict read exactly when the last entry it applied one
by one was applied more than the bound after it was appended; with no such entry (fresh
start, snapshot installs only) it never refuses. -/
theorem strict_stale_history (evs : List BookEv) (now lc : Int) (commit : Nat)
    (f : Int) (hf : f ≠ 0) (h1 : minI64 ≤ f) (h2 : f < maxI64)
    (hcontact : ¬ now - lc > f) (hbehind : (Book.run {} evs).fsmIdx ≠ commit) :
    isStaleRead ((Book.run {} evs).staleIn now lc commit f true) = true ↔
      ∃ u a, lastApply Option.none evs = some (u, a) ∧ u - a > f := by
  obtain ⟨hA, hU⟩ := book_times evs {}
  simp only [Option.map_none] at hA hU
  rw [stale_iff_documented _ h1 h2]
  simp only [Book.staleIn]
  constructor
  · rintro ⟨_, h | ⟨_, a, ha, _, hl⟩⟩
    · exact absurd h hcontact
    · rw [hA] at ha
      cases hla : lastApply Option.none evs with
      | none => rw [hla] at ha; cases ha
      | some p =>
        obtain ⟨u, a'⟩ := p
        rw [hla] at ha
        have : a' = a := by simpa using ha
        subst this
        refine ⟨u, a', rfl, ?_⟩
        rw [hU u a' hla] at hl; exact hl
  · rintro ⟨u, a, hla, hl⟩
    refine ⟨hf, Or.inr ⟨by simp, a, ?_, hbehind, ?_⟩⟩
    · rw [hA, hla]; rfl
    · rw [hU u a hla]; exact hl

/-- the index of the last entry applied ONE BY ONE (what the two times describe) -/
def lastApplyIdx (init : Option Nat) : List BookEv → Option Nat
  | [] => init
  | .apply i _ _ :: rest => lastApplyIdx (some i) rest
  | .restore _ :: rest => lastApplyIdx init rest
  | .fastOpen _ :: rest => lastApplyIdx none rest

/-- The stronger reading — "the two times always describe the entry `fsmIdx` points at" — kept
visible. It is FALSE: `fsmRestore` (snapshot install) moves `fsmIdx` to the snapshot index
and leaves the times of the last entry that was applied one by one. -/
def strict_verdict_full : Prop :=
  ∀ evs : List BookEv, lastApplyIdx none evs ≠ none → lastApplyIdx none evs = some (Book.run {} evs).fsmIdx

theorem strict_verdict_full_witness : ¬ strict_verdict_full := by
  intro h
  have := h [.apply 5 20 10, .restore 9] (by decide)
  revert this; decide

/-- ... and holds for histories that end with an entry applied one by one -/
theorem strict_verdict_partial (evs : List BookEv) (i : Nat) (u a : Int) :
    lastApplyIdx none (evs ++ [.apply i u a]) = some (Book.run {} (evs ++ [.apply i u a])).fsmIdx := by
  have h1 : ∀ (l : List BookEv) (init : Option Nat), lastApplyIdx init (l ++ [.apply i u a]) = some i := by
    intro l
    induction l with
    | nil => intro init; rfl
    | cons e l ih => intro init; cases e <;> simp [lastApplyIdx, ih]
  rw [h1]
  simp [Book.run, List.foldl_append, Book.step, Book.apply]

/-! The property's wording is about "its last applied ENTRY": `strict_stale_history` shows the
verdict is exactly about that entry for every history, so a strict read after a snapshot
install is judged on the last entry that was applied one by one (on none at all for a node
that came up from a snapshot: it is then served). This is recorded as a modelling remark, not
as a finding: no input makes the documented rule fail. -/

/-! ### weak and auto -/

/-- A read that is served locally at effective level WEAK was served by a node that
believes it is leader — whatever level was asked for (weak, or auto resolved to weak),
by either entry point. -/
theorem weak_only_on_leader (lvl : Level) (e : Env) :
    (query lvl e = .localRead .weak → e.isLeader = true) ∧
    (request lvl 0 e = .localRead .weak → e.isLeader = true) := by
  constructor
  · intro h
    obtain ⟨_, _, _, _, hw, _⟩ := query_local lvl e .weak h
    exact hw rfl
  · intro h
    obtain ⟨_, _, _, _, _, hw, _⟩ := request_local lvl 0 e .weak h
    exact hw rfl

/-- a node that is not leader refuses a weak read with ErrNotLeader (so the caller
forwards it to the leader) -/
theorem weak_refused_off_leader (e : Env)
    (hg : e.pragmaOk = true ∧ e.opened = true ∧ e.reqOk = true ∧ e.ctxOk = true)
    (hl : e.isLeader = false) :
    query .weak e = .errNotLeader ∧ request .weak 0 e = .errNotLeader := by
  obtain ⟨p, o, c, l, v, r, s, li, ap, rq, th⟩ := e
  obtain ⟨h1, h2, h4, h3⟩ := hg
  simp only at h1 h2 h3 h4 hl
  subst h1 h2 h3 h4 hl
  simp [query, request, requestTail, resolveAuto, linStage]

/-- 'auto' IS weak on a voter and none on a non-voter: the whole outcome coincides, for
every environment, for Query and for Request with any number of writes. -/
theorem auto_is_weak_on_voter_none_on_nonvoter (e : Env) (nRW : Nat) :
    (e.voter = some true → query .auto e = query .weak e ∧ request .auto nRW e = request .weak nRW e) ∧
    (e.voter = some false → query .auto e = query .none e ∧ request .auto nRW e = request .none nRW e) := by
  constructor <;> intro hv <;> simp [query, request, resolveAuto, hv]

/-- before the `fix:` commit, Request did not resolve AUTO: a voting follower served the
read locally (weak would refuse), a non-voter ignored the freshness bound -/
theorem request_auto_old_witness :
    let follower : Env := ⟨true, true, true, false, some true, true, false, .strongNeeded, .notLeader, true, true⟩
    let nonvoter : Env := ⟨true, true, true, false, some false, true, true, .strongNeeded, .notLeader, true, true⟩
    requestOld .auto 0 follower = .localRead .auto ∧ request .auto 0 follower = .errNotLeader ∧
    requestOld .auto 0 nonvoter = .localRead .auto ∧ request .auto 0 nonvoter = .errStaleRead := by
  decide

/-! ### linearizable -/

/-- A linearizable read that is served locally returned only after the node (1) had done
a strong read in the term it read at the start, (2) believed it was leader and was
ready, (3) confirmed leadership with a quorum (VerifyLeader), (4) saw the same term
afterwards, and (5) had applied every command entry at or below the commit index it
took at the start — for every reachable log `run {} es`, and every later state. -/
theorem linearizable_returns_only_after (es es1 es2 : List Ev) (le : LinEnv) (e : Env)
    (hnode : le.node = run {} es) (hscan : le.scanNode = run le.node es1) (hlater : le.later = run le.scanNode es2)
    (hno1 : LinRead.NoReopen es1) (hno2 : LinRead.NoReopen es2)
    (hlin : e.lin = waitLin le)
    (h : query .linearizable e = .localRead .linearizable ∨
         request .linearizable 0 e = .localRead .linearizable) :
    le.readTerm = le.strongReadTerm ∧ le.isLeader = true ∧ le.ready = true ∧
    le.verifyOk = true ∧ le.termAfter = le.readTerm ∧
    ∀ j, j ≤ le.node.commit → le.scanNode.typeAt j = some (some .command) → j ≤ le.later.handed := by
  have hok : waitLin le = .ok := by
    rw [← hlin]
    have key : ∀ l1, resolveAuto .linearizable e.voter = some l1 → linStage l1 e = .ok .linearizable →
        e.lin = .ok := by
      intro l1 h1 h2
      have : l1 = .linearizable := by
        rcases resolveAuto_some _ _ _ h1 with ⟨_, h⟩ | ⟨h, _⟩
        · exact h
        · cases h
      subst this
      rcases linStage_ok _ _ _ h2 with ⟨h, _⟩ | ⟨_, ⟨h, _⟩ | ⟨_, h⟩⟩
      · exact absurd rfl h
      · exact h
      · cases h
    rcases h with h | h
    · obtain ⟨l1, h1, h2, _⟩ := query_local _ e _ h
      exact key l1 h1 h2
    · obtain ⟨l1, h1, h2, _⟩ := request_local _ 0 e _ h
      exact key l1 h1 h2
  unfold waitLin at hok
  by_cases h1' : le.readTerm ≠ le.strongReadTerm
  · simp [h1'] at hok
  have h1 : le.readTerm = le.strongReadTerm := by simpa using h1'
  simp only [h1, ne_eq, not_true_eq_false, if_false] at hok
  cases h2 : le.isLeader
  · simp [h2] at hok
  cases h3 : le.ready
  · simp [h2, h3] at hok
  cases h4 : le.verifyOk
  · simp [h2, h3, h4] at hok
  by_cases h5' : le.termAfter ≠ le.strongReadTerm
  · simp [h2, h3, h4, h5'] at hok
  have h5 : le.termAfter = le.strongReadTerm := by simpa using h5'
  simp only [h2, h3, h4, h5, Bool.not_true, Bool.false_eq_true, if_false, not_true_eq_false] at hok
  have hr : LinRead.reached le.later (LinRead.targetAt le.scanNode le.node.commit) = true := by
    by_cases hr : LinRead.reached le.later (LinRead.targetAt le.scanNode le.node.commit) = true
    · exact hr
    · simp [hr] at hok
  refine ⟨h1, rfl, rfl, rfl, by rw [h5, h1], ?_⟩
  have hinv : Inv le.node := by rw [hnode]; exact LinRead.inv_run _ es LinRead.inv_init
  rw [hlater, hscan] at hr ⊢
  exact LinRead.wait_ok_applied le.node hinv es1 es2 hno1 hno2 hr

/-- the first linearizable read of a term is not answered from local state: it is
upgraded and goes through the raft log as a strong read on a ready leader -/
theorem lin_upgrade_goes_through_log (e : Env) (l : Level)
    (h : query .linearizable e = .viaLog l) :
    l = .strong ∧ e.lin = .strongNeeded ∧ e.isLeader = true ∧ e.ready = true ∧ e.apply = .ok := by
  obtain ⟨hl, hld, hr, hap, l1, h1, h2⟩ := query_vialog _ e l h
  refine ⟨hl, ?_, hld, hr, hap⟩
  have : l1 = .linearizable := by
    rcases resolveAuto_some _ _ _ h1 with ⟨_, h⟩ | ⟨h, _⟩
    · exact h
    · cases h
  subst this
  rcases linStage_ok _ _ _ h2 with ⟨h, _⟩ | ⟨_, ⟨_, h⟩ | ⟨h, _⟩⟩
  · exact absurd rfl h
  · cases h
  · exact h

/-! ### tie to the source: regenerated guard order -/

set_option maxRecDepth 16384

theorem query_source_shape : Gen.ReadPath.querySkel = Expect.ReadPath.querySkel := by decide
theorem request_source_shape : Gen.ReadPath.requestSkel = Expect.ReadPath.requestSkel := by decide
theorem store_isStaleRead_source_shape :
    Gen.ReadPath.storeIsStaleReadSkel = Expect.ReadPath.storeIsStaleReadSkel := by decide
theorem isStaleRead_source_shape : Gen.ReadPath.isStaleReadFn = Expect.ReadPath.isStaleReadFn := by decide
theorem waitLin_step_order :
    Expect.ReadPath.callsOf Gen.ReadPath.waitLin = LinRead.stepNames := by decide

/-- the deferred block of `fsmApply` (run for every entry handed to the FSM) -/
def deferBlock (l : List (String × String)) : List (String × String) :=
  match l with
  | ("defer", "") :: rest => rest.takeWhile (fun t => t ≠ ("end", ""))
  | _ => []

/-- `fsmApply` records the FSM index, the local apply time and the leader's append time in
its deferred block — for EVERY applied entry, not only for those that changed the database —
so the three values the strict staleness check reads always describe the same entry -/
theorem fsmApply_records_every_entry :
    ["s.fsmIdx.Store", "s.fsmTarget.Signal", "s.fsmUpdateTime.Store", "s.appendedAtTime.Store"].all
      (fun c => (Expect.ReadPath.callsOf (deferBlock Gen.ReadPath.fsmApply)).contains c) = true := by
  decide

/-- `IsVoter` — what AUTO is resolved with — asks raft for the CURRENT configuration on every
call (the model's `voter` input is the node's suffrage in the configuration at the time of
the call, not a remembered one) -/
theorem isVoter_reads_configuration :
    Expect.ReadPath.callsOf Gen.ReadPath.isVoter = ["s.open.Is", "s.raft.GetConfiguration"] := by decide

/-- `fsmRestore` moves the FSM index (and signals the target) but records neither of the two
times: what `Book.restore` transcribes -/
theorem fsmRestore_keeps_times :
    let cs := Expect.ReadPath.callsOf Gen.ReadPath.fsmRestore
    cs.contains "s.fsmIdx.Store" = true ∧ cs.contains "s.fsmUpdateTime.Store" = false ∧
    cs.contains "s.appendedAtTime.Store" = false := by decide

/-- the exits of `IsStaleRead`, in source order, are the branches of the model -/
theorem isStaleRead_exits :
    Expect.ReadPath.retsOf Gen.ReadPath.isStaleReadFn =
      ["false", "true", "false", "false", "false",
       "lastFSMUpdateTime.Sub(lastAppendedAtTime).Nanoseconds() > freshness"] := by decide

/-- both entry points resolve AUTO (one `s.IsVoter` call each) before anything that
depends on the level -/
theorem auto_resolved_first :
    (Expect.ReadPath.callsOf Gen.ReadPath.querySkel).take 2 = ["s.IsVoter", "s.raft.CurrentTerm"] ∧
    (Expect.ReadPath.callsOf Gen.ReadPath.requestSkel).take 4 =
      ["s.IsVoter", "s.RORWCount", "s.raft.State", "s.raft.CurrentTerm"] := by
  decide

/-! ### non-vacuity -/

-- strict mode, behind, applied 2 s after it was appended, bound 1 s: stale; bound 3 s: fresh
example : isStaleRead ⟨10, 9, 2000000000, some 0, 4, 6, 1000000000, true⟩ = true ∧
          isStaleRead ⟨10, 9, 2000000000, some 0, 4, 6, 3000000000, true⟩ = false ∧
          isStaleRead ⟨10, 9, 2000000000, some 0, 6, 6, 1000000000, true⟩ = false ∧
          isStaleRead ⟨10, 9, 2000000000, none, 4, 6, 1000000000, true⟩ = false := by decide

-- a leader that has done its strong read serves a linearizable read locally
example :
    let n := run {} [.append .noop, .append .command, .commit 2, .fsm, .fsm, .append .config, .commit 3]
    let le : LinEnv := ⟨2, 2, true, true, n, true, 2, n, n⟩
    let e : Env := ⟨true, true, true, true, some true, true, false, waitLin le, .ok, true, true⟩
    query .linearizable e = .localRead .linearizable ∧ query .weak e = .localRead .weak ∧
    query .auto e = .localRead .weak := by decide

end C16

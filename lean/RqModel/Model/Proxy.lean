/-
Model of proxy/proxy.go (C20): the try-local-then-forward decision of
`(*Proxy).Execute / Query / Request / Backup / Load / Remove / Stepdown`.

All seven methods have the same shape:

    res, err := p.store.<Op>(…)                 -- always called, first
    if errors.Is(err, store.ErrNotLeader) {
        if noForward { return ErrNotLeader }
        addr, addrErr := p.leaderAddr()         -- store.LeaderAddr(); "" => ErrLeaderNotFound
        if addrErr != nil { return addrErr }
        res, err = p.cluster.<Op>(…, addr, creds, timeout[, retries])
        if err != nil { return wrapIfUnauthorized(err) }
        return res, addr
    }
    return res, p.GetAPIAddr(), err

The model is a function from the outcomes of the calls the proxy makes (local
store call, LeaderAddr, cluster call) to the ordered list of calls made and the
value returned. Requests, credentials and results are opaque values (`Nat` tags)
so that "the same request / the caller's credentials / the leader's results" can
be stated as equalities. Core Lean only.
-/
import RqModel.Model.Util
namespace RqModel.Proxy
open RqModel.Util

inductive Kind where
  | execute | query | request | backup | load | remove | stepdown
deriving DecidableEq, Repr

/-- outcome of the local store call -/
inductive LocalOut where
  | ok (res idx : Nat)          -- results and raft index returned by the local store
  | notLeader                   -- an error for which errors.Is(err, store.ErrNotLeader) holds
  | err (e : Nat)               -- any other error
deriving DecidableEq, Repr

/-- outcome of store.LeaderAddr() -/
inductive AddrOut where
  | err (e : Nat)
  | empty
  | addr (a : String)
deriving DecidableEq, Repr

/-- outcome of the cluster (forwarding) call -/
inductive RemoteOut where
  | ok (res idx : Nat)
  | unauthorized                -- an error whose text is exactly "unauthorized"
  | notLeader                   -- an error whose text is "not leader": the node forwarded to is no longer
                                -- leader. It is NOT the sentinel store.ErrNotLeader (it crossed the wire as text)
  | err (e : Nat)
deriving DecidableEq, Repr

structure Input where
  kind      : Kind
  req       : Nat               -- identity of the request object
  creds     : Option Nat        -- identity of the caller's credentials (none: nil)
  timeout   : Nat
  retries   : Nat
  noForward : Bool
  localOut  : LocalOut
  addrOut   : AddrOut
  remoteOut : RemoteOut
  apiAddr   : String            -- p.GetAPIAddr()
deriving Repr

inductive Call where
  | localStore (k : Kind) (req : Nat)
  | leaderAddr
  | remote (k : Kind) (req : Nat) (addr : String) (creds : Option Nat) (timeout retries : Nat)
deriving DecidableEq, Repr

inductive Result where
  | localOK (res idx : Nat) (servedBy : String)
  | localErr (e : Nat) (servedBy : String)
  | forwarded (res idx : Nat) (servedBy : String)
  | errNotLeader
  | errLeaderNotFound
  | errAddr (e : Nat)
  | errUnauthorized
  | errRemoteNotLeader           -- the remote node's "not leader", handed to the caller as an ordinary error
  | errRemote (e : Nat)
deriving DecidableEq, Repr

/-- retries are passed on only by the methods whose cluster call takes them -/
def passesRetries : Kind → Bool
  | .execute | .query | .request | .load => true
  | .backup | .remove | .stepdown => false

def run (i : Input) : List Call × Result :=
  let c0 := [Call.localStore i.kind i.req]
  match i.localOut with
  | .ok res idx => (c0, .localOK res idx i.apiAddr)
  | .err e => (c0, .localErr e i.apiAddr)
  | .notLeader =>
    if i.noForward then (c0, .errNotLeader)
    else
      let c1 := c0 ++ [Call.leaderAddr]
      match i.addrOut with
      | .err e => (c1, .errAddr e)
      | .empty => (c1, .errLeaderNotFound)
      | .addr a =>
        let c2 := c1 ++ [Call.remote i.kind i.req a i.creds i.timeout
                          (if passesRetries i.kind then i.retries else 0)]
        match i.remoteOut with
        | .ok res idx => (c2, .forwarded res idx a)
        | .unauthorized => (c2, .errUnauthorized)
        | .notLeader => (c2, .errRemoteNotLeader)
        | .err e => (c2, .errRemote e)

/-- the HTTP layer on top: `noForward = qp.Redirect()`, and ErrNotLeader is answered
with a redirect to the leader's API address (503 when it is unknown) -/
inductive HttpOut where
  | redirect301 | unavailable503 | unauthorized401
  | body          -- a response with a body: results, or an error message
  | nothing       -- the handler returns without writing anything (200, empty body)
deriving DecidableEq, Repr

/-- `redirectRequested` is the request's `redirect` flag: `DoRedirect` writes a response only
when it is set; the handlers ignore its result and return. -/
def httpOut (r : Result) (redirectRequested leaderAPIKnown : Bool) : HttpOut :=
  match r with
  | .errNotLeader =>
    if !redirectRequested then .nothing
    else if leaderAPIKnown then .redirect301 else .unavailable503
  | .errLeaderNotFound => .unavailable503
  | .errUnauthorized => .unauthorized401
  | _ => .body

/-! ## line protocol
`proxy <kind> <local: ok|nl|err> <noForward 0|1> <addr: err|empty|x<hex>> <remote: ok|unauth|nl|err> <creds 0|1> <retries>`
→ `calls=<c,c,…> result=<…>`
-/
structure DState where
  unit : Unit := ()

def kindOf : String → Option Kind
  | "execute" => some .execute | "query" => some .query | "request" => some .request
  | "backup" => some .backup | "load" => some .load | "remove" => some .remove
  | "stepdown" => some .stepdown | _ => none

def kindStr : Kind → String
  | .execute => "execute" | .query => "query" | .request => "request" | .backup => "backup"
  | .load => "load" | .remove => "remove" | .stepdown => "stepdown"

def callStr : Call → String
  | .localStore k _ => "local:" ++ kindStr k
  | .leaderAddr => "leaderaddr"
  | .remote k _ a c t r =>
    "remote:" ++ kindStr k ++ ":" ++ hexOfString a ++ ":creds=" ++ (if c.isSome then "caller" else "nil")
      ++ ":timeout=" ++ toString t ++ ":retries=" ++ toString r

def resultStr : Result → String
  | .localOK _ _ s => "local-ok:" ++ hexOfString s
  | .localErr _ s => "local-err:" ++ hexOfString s
  | .forwarded _ _ s => "forwarded:" ++ hexOfString s
  | .errNotLeader => "err-not-leader"
  | .errLeaderNotFound => "err-leader-not-found"
  | .errAddr _ => "err-addr"
  | .errUnauthorized => "err-unauthorized"
  | .errRemoteNotLeader => "err-remote-not-leader"
  | .errRemote _ => "err-remote"

def step (d : DState) (line : String) : DState × String :=
  match words line with
  | ["proxy", k, l, nf, a, r, c, rt] =>
    match kindOf k, rt.toNat? with
    | some k, some rt =>
      let lo : Option LocalOut := match l with
        | "ok" => some (.ok 1 2) | "nl" => some .notLeader | "err" => some (.err 3) | _ => none
      let ao : Option AddrOut := match a with
        | "err" => some (.err 4) | "empty" => some .empty
        | t => (tokString t).map .addr
      let ro : Option RemoteOut := match r with
        | "ok" => some (.ok 5 6) | "unauth" => some .unauthorized | "nl" => some .notLeader
        | "err" => some (.err 7) | _ => none
      match lo, ao, ro with
      | some lo, some ao, some ro =>
        if (nf != "0" && nf != "1") || (c != "0" && c != "1") then (d, "bad-op") else
        let i : Input := { kind := k, req := 9, creds := if c == "1" then some 8 else none, timeout := 11,
                           retries := rt, noForward := nf == "1", localOut := lo, addrOut := ao,
                           remoteOut := ro, apiAddr := "api" }
        let (cs, res) := run i
        (d, "calls=" ++ joinWith "," (cs.map callStr) ++ " result=" ++ resultStr res)
      | _, _, _ => (d, "bad-op")
    | _, _ => (d, "bad-op")
  | _ => (d, "bad-op")

def init : DState := {}

end RqModel.Proxy
--! driver: proxy RqModel.Proxy

/-
Helper definitions and lemmas for C14 (Model/Rewrite.lean).
-/
import RqModel.Model.Rewrite
namespace RqModel.Rewrite

/-- The call `name(args)` is one the property says must not be replicated as is
(`u` = the call stands inside an ORDER BY term):
date/time/datetime/julianday/unixepoch with the time value absent or `now`;
strftime with only a format, or with `now` as time value; timediff with `now`;
random() outside ORDER BY; randomblob(<signed number literal the rewriter pins>) outside ORDER BY. -/
def nondetCall (u : Bool) (name : String) (args : Nodes) : Bool :=
  match classify name with
  | .five =>
    match args with
    | .nil => true
    | .cons a _ => isNow a
  | .strftime =>
    match args with
    | .nil => false
    | .cons _ .nil => true
    | .cons _ (.cons b _) => isNow b
  | .timediff =>
    match args with
    | .cons a (.cons b _) => isNow a || isNow b
    | _ => false
  | .random => !u
  | .randomblob => !u && (blobLenOfArgs args).isSome
  | .other => false

mutual
/-- no call of the tree is non-deterministic in the above sense -/
def clean (u : Bool) : Node → Bool
  | .call name args extra => !nondetCall u name args && cleanList u args && cleanList u extra
  | .lit _ _ => true
  | .ident _ => true
  | .ord kids => cleanList true kids
  | .ret kids => cleanList u kids
  | .other _ kids => cleanList u kids
def cleanList (u : Bool) : Nodes → Bool
  | .nil => true
  | .cons n ns => clean u n && cleanList u ns
end

mutual
/-- the tree holds no call to any of the nine functions (date, time, datetime, julianday,
unixepoch, strftime, timediff, random, randomblob), in any letter case -/
def noTarget : Node → Bool
  | .call name args extra => decide (classify name = .other) && noTargetList args && noTargetList extra
  | .lit _ _ => true
  | .ident _ => true
  | .ord kids => noTargetList kids
  | .ret kids => noTargetList kids
  | .other _ kids => noTargetList kids
def noTargetList : Nodes → Bool
  | .nil => true
  | .cons n ns => noTarget n && noTargetList ns
end

/-! ### unfolding -/

theorem walkList_nil (c : Cfg) (st : St) : walkList c st .nil = (.nil, st) := by
  rw [walkList]

theorem walkList_cons (c : Cfg) (st : St) (n : Node) (ns : Nodes) :
    walkList c st (.cons n ns) =
      (.cons (walk c st n).1 (walkList c (walk c st n).2 ns).1, (walkList c (walk c st n).2 ns).2) := by
  rw [walkList]

theorem walk_lit (c : Cfg) (st : St) (k v : String) : walk c st (.lit k v) = (.lit k v, st) := by
  rw [walk]

/-! ### the state after `Visit` on a call -/

theorem visitCall_keep_ordered {c : Cfg} {st st1 : St} {name : String} {args : Nodes} {tr : ArgTr}
    (h : visitCall c st name args = .keep tr st1) : st1.ordered = st.ordered ∧ st1.randK = st.randK := by
  unfold visitCall at h
  repeat' split at h
  all_goals first | (cases h; simp) | cases h

theorem visitCall_replace_ordered {c : Cfg} {st st1 : St} {name : String} {args : Nodes} {n : Node}
    (h : visitCall c st name args = .replace n st1) : st1.ordered = st.ordered := by
  unfold visitCall at h
  repeat' split at h
  all_goals first | (cases h; simp) | cases h

/-- what a call can be replaced by -/
theorem visitCall_replace_node {c : Cfg} {st st1 : St} {name : String} {args : Nodes} {n : Node}
    (h : visitCall c st name args = .replace n st1) :
    (∃ v, n = .lit "randnum" v) ∨ (∃ v, n = .lit "randblob" v) := by
  unfold visitCall at h
  repeat' split at h
  all_goals first | (cases h; simp) | cases h

mutual
theorem walk_ordered (c : Cfg) : ∀ (n : Node) (st : St), (walk c st n).2.ordered = st.ordered
  | .call name args extra, st => by
    rw [walk]
    cases h : visitCall c st name args with
    | replace n st1 => simpa using visitCall_replace_ordered h
    | keep tr st1 =>
      simp only
      rw [walkList_ordered c extra, walkList_ordered c args]
      exact (visitCall_keep_ordered h).1
  | .lit _ _, st => by simp [walk]
  | .ident _, st => by simp [walk]
  | .ord kids, st => by
    rw [walk]
    simp only
    rw [walkList_ordered c kids]
    simp
  | .ret kids, st => by
    rw [walk]
    simp only
    rw [walkList_ordered c kids]
  | .other _ kids, st => by
    rw [walk]
    simp only
    rw [walkList_ordered c kids]
theorem walkList_ordered (c : Cfg) : ∀ (ns : Nodes) (st : St), (walkList c st ns).2.ordered = st.ordered
  | .nil, st => by simp [walkList]
  | .cons n ns, st => by
    rw [walkList]
    simp only
    rw [walkList_ordered c ns, walk_ordered c n]
end

theorem walkList_length (c : Cfg) : ∀ (ns : Nodes) (st : St), (walkList c st ns).1.length = ns.length
  | .nil, st => by simp [walkList, Nodes.length]
  | .cons n ns, st => by
    rw [walkList]
    simp only [Nodes.length]
    rw [walkList_length c ns]

/-! ### leaves and `now` -/

theorem isNow_jd (c : Cfg) : isNow (jdLit c) = false := by
  simp [isNow, jdLit]

/-- walking never produces a number literal that was not there -/
theorem walk_lit_number (c : Cfg) (st : St) (n : Node) (v : String)
    (h : (walk c st n).1 = .lit "number" v) : n = .lit "number" v := by
  cases n with
  | call name args extra =>
    rw [walk] at h
    cases hv : visitCall c st name args with
    | keep tr st1 => rw [hv] at h; simp at h
    | replace m st1 =>
      rw [hv] at h
      simp only at h
      rcases visitCall_replace_node hv with ⟨w, hw⟩ | ⟨w, hw⟩ <;> simp [hw] at h
  | lit k v' => simpa [walk] using h
  | ident _ => simp [walk] at h
  | ord _ => simp [walk] at h
  | ret _ => simp [walk] at h
  | other _ _ => simp [walk] at h

/-- `isNow` of a walked node is `isNow` of the node (justifies editing arguments after walking them) -/
theorem isNow_walk (c : Cfg) (st : St) (n : Node) : isNow (walk c st n).1 = isNow n := by
  cases n with
  | call name args extra =>
    rw [walk]
    cases hv : visitCall c st name args with
    | keep tr st1 => simp [isNow]
    | replace m st1 =>
      simp only
      rcases visitCall_replace_node hv with ⟨w, hw⟩ | ⟨w, hw⟩ <;> simp [hw, isNow]
  | lit k v => simp [walk]
  | ident _ => simp [walk]
  | ord _ => simp [walk, isNow]
  | ret _ => simp [walk, isNow]
  | other _ _ => simp [walk, isNow]

/-! ### the literal argument of randomblob survives walking -/

theorem litNumber_walk (c : Cfg) (st : St) (x : Node) : litNumber (walk c st x).1 = litNumber x := by
  cases x with
  | call name args extra =>
    rw [walk]
    cases hv : visitCall c st name args with
    | keep tr st1 => simp [litNumber]
    | replace m st1 =>
      simp only
      rcases visitCall_replace_node hv with ⟨w, hw⟩ | ⟨w, hw⟩ <;> simp [hw, litNumber]
  | lit k v => simp [walk]
  | ident _ => simp [walk, litNumber]
  | ord _ => simp [walk, litNumber]
  | ret _ => simp [walk, litNumber]
  | other _ _ => simp [walk, litNumber]

theorem signedLit_walk (c : Cfg) (st : St) (x : Node) : signedLit (walk c st x).1 = signedLit x := by
  cases x with
  | call name args extra =>
    rw [walk]
    cases hv : visitCall c st name args with
    | keep tr st1 => simp [signedLit]
    | replace m st1 =>
      simp only
      rcases visitCall_replace_node hv with ⟨w, hw⟩ | ⟨w, hw⟩ <;> simp [hw, signedLit]
  | lit k v => simp [walk]
  | ident _ => simp [walk, signedLit]
  | ord _ => simp [walk, signedLit]
  | ret _ => simp [walk, signedLit]
  | other tag kids =>
    rw [walk]
    cases kids with
    | nil => simp [walkList_nil, signedLit]
    | cons k ks =>
      cases ks with
      | nil => simp [walkList_cons, walkList_nil, signedLit, litNumber_walk]
      | cons k2 ks2 => simp [walkList_cons, signedLit]

theorem blobArg_walkList (c : Cfg) (st : St) (args : Nodes) :
    blobArg (walkList c st args).1 = blobArg args := by
  cases args with
  | nil => simp [walkList_nil, blobArg]
  | cons x r =>
    cases r with
    | nil => simp [walkList_cons, walkList_nil, blobArg, signedLit_walk]
    | cons y r2 => simp [walkList_cons, blobArg]

theorem blobLenOfArgs_walkList (c : Cfg) (st : St) (args : Nodes) :
    blobLenOfArgs (walkList c st args).1 = blobLenOfArgs args := by
  simp [blobLenOfArgs, blobArg_walkList]

end RqModel.Rewrite

/-
C17  Reads never modify data; databases change only through the log.

Property theorems only. Model: RqModel/Model/Routing.lean (which connection each path of
db.DB / Store uses, what a multi-statement text does there), tied to db/db.go and
store/store.go by the C17 correspondence runs (db level and live store level) and by the
regenerated facts RqModel/Gen/Mutators.lean (call sites, pools, DSN options).

The unified request has a recorded defect (known_findings.d/C17.json): the full statement is
kept visible as `request_readonly_texts_change_nothing_full`, refuted by witnesses, and proved
under the explicit exclusion.
-/
import RqModel.Model.Routing
import RqModel.Gen.Mutators
namespace C17
open RqModel.Routing

/-! ### the query endpoint -/

/-- `QueryContext` on a read-only-pool connection leaves the database as it is: by the two laws of
`SqliteConn`, whatever the statement that gets stepped. -/
theorem queryCtx_ro_keeps {σ : Type} (C : SqliteConn σ) (db : σ) (t : Text) :
    (queryCtx C true db t).1 = db := by
  unfold queryCtx
  cases lastStmt t with
  | none => rfl
  | some s =>
    cases h : stmtReadOnly s
    · simp [C.queryOnly_refuses db s h]
    · simp [C.readOnly_keeps true db s h]

/-- … and so does `db.Query` for any list of texts: induction over the texts, for EVERY connection
semantics satisfying the laws. -/
theorem dbQueryG_keeps {σ : Type} (C : SqliteConn σ) (db : σ) (texts : List Text) :
    (dbQueryG C db texts).1 = db := by
  induction texts generalizing db with
  | nil => rfl
  | cons t rest ih =>
    unfold dbQueryG
    by_cases ht : t = []
    · simp [ht, ih]
    · simp only [ht, if_false]
      rw [ih, queryCtx_ro_keeps]

/-- No query-endpoint request, at any consistency level, changes the database - whatever the
texts contain (several statements in one text, writes anywhere in them). Derived from the assumed
laws of a query_only / mode=ro connection, not from the shape of the model. -/
theorem query_endpoint_never_modifies (lv : Level) (db : Db) (texts : List Text) :
    (storeQuery lv db texts).db = db := by
  simp only [storeQuery, dbQuery]
  exact dbQueryG_keeps listConn db texts

/-- … and a text whose executed statement is not read-only is answered with an error -/
theorem query_endpoint_rejects_writes (lv : Level) (db : Db) (t : Text) (n : Nat)
    (h : lastStmt t = some (.w n)) (hne : t ≠ []) : (storeQuery lv db [t]).errs = [true] := by
  simp [storeQuery, dbQuery, dbQueryG, hne, queryCtx, h, listConn]

example : storeQuery .strong [7] [[.r, .w 1], [.w 2]] = ⟨[7], [true, true]⟩ := by decide

/-! #### what the query clause rests on: the pragma guard (C15)
`SqliteConn.queryOnly_refuses` is a law about a connection that IS in query_only mode. The pooled
read-only connection stays in that mode only because no request may switch it off: that is the
guard `db.IsBreakingPragma` in front of `Store.Query` / `Store.Request`, the subject of C15. The
dependency is an explicit hypothesis here. -/

/-- the property of the guard the query clause needs (proved about `IsBreakingPragma` by C15: a
text holding a PRAGMA that switches query_only, in any spelling and anywhere in the text, is refused) -/
def GuardBlocksQueryOnlyChanges (guard : Text → Bool) : Prop :=
  ∀ t : Text, t.contains .qoff = true → guard t = true

theorem queryTextRO_keeps (st : NodeSt) (t : Text) (hq : st.roQO = true) (hno : t.contains .qoff = false) :
    (queryTextRO st t).1 = st := by
  obtain ⟨db, qo⟩ := st
  simp only at hq
  subst hq
  unfold queryTextRO
  simp only [hno, Bool.false_eq_true, if_false]
  cases hl : lastStmt t with
  | none => rfl
  | some s => cases s <;> simp [listConn]

theorem queryTextsRO_keeps (st : NodeSt) (texts : List Text) (hq : st.roQO = true)
    (hno : ∀ t ∈ texts, t.contains .qoff = false) : (queryTextsRO st texts).1 = st := by
  induction texts generalizing st with
  | nil => rfl
  | cons t rest ih =>
    unfold queryTextsRO
    by_cases ht : t = []
    · simp only [ht, if_true]; exact ih st hq (fun x hx => hno x (by simp [hx]))
    · simp only [ht, if_false]
      rw [queryTextRO_keeps st t hq (hno t (by simp))]
      exact ih st hq (fun x hx => hno x (by simp [hx]))

/-- With a guard that blocks every switch of query_only, NO sequence of query-path requests - texts
with several statements, writes to the main database, writes through an ATTACHed alias of the
node's own file - changes the database, and the pooled connection stays in query_only mode. -/
theorem query_path_never_modifies_behind_guard (guard : Text → Bool) (hg : GuardBlocksQueryOnlyChanges guard)
    (reqs : List (List Text)) (st : NodeSt) (hq : st.roQO = true) :
    reqs.foldl (fun s texts => (storeQueryGuarded guard s texts).1) st = st := by
  induction reqs generalizing st with
  | nil => rfl
  | cons texts rest ih =>
    simp only [List.foldl_cons]
    have : (storeQueryGuarded guard st texts).1 = st := by
      unfold storeQueryGuarded
      by_cases ha : texts.any guard = true
      · simp [ha]
      · simp only [ha, Bool.false_eq_true, if_false]
        apply queryTextsRO_keeps st texts hq
        intro t ht
        cases hc : t.contains .qoff
        · rfl
        · exfalso
          apply ha
          rw [List.any_eq_true]
          exact ⟨t, ht, hg t hc⟩
    rw [this]
    exact ih st hq

/-- WITHOUT such a guard the clause is false: one request switches query_only off on the pooled
connection, the next one writes to the node's own database through an ATTACHed alias - outside the
log, on the query endpoint. (mode=ro does not cover attached databases.) -/
theorem query_path_unguarded_witness :
    ([[[Stmt.qoff]], [[Stmt.r, Stmt.wa 1]]].foldl
      (fun s texts => (storeQueryGuarded (fun _ => false) s texts).1) ({} : NodeSt)) = ⟨[1], false⟩ := by
  decide

/-- the guard the driver runs with satisfies the hypothesis; a guarded request is refused as a whole -/
example : GuardBlocksQueryOnlyChanges (fun t => t.contains .qoff) := fun _ h => h

example : storeQueryGuarded (fun t => t.contains .qoff) {} [[.r], [.qoff, .wa 1]] = ({}, none) := by decide

/-! ### the unified endpoint -/

def writesOf : Text → List Nat
  | [] => []
  | .w n :: rest => n :: writesOf rest
  | .wa n :: rest => n :: writesOf rest
  | _ :: rest => writesOf rest

/-- the effect tokens of the texts the request does NOT treat as read-only -/
def rwWrites : List Text → List Nat
  | [] => []
  | t :: rest => (if classify t = some false then writesOf t else []) ++ rwWrites rest

/-- THE FULL STATEMENT (false of the code as it is): texts a unified request treats as read-only
change nothing - the database afterwards is the database before plus the writes of the texts
treated as read-write, at every level. -/
def request_readonly_texts_change_nothing_full : Prop :=
  ∀ (lv : Level) (db : Db) (texts : List Text), (storeRequest lv db texts).db = db ++ rwWrites texts

/-- the recorded failing inputs: a text whose FIRST statement is read-only (so the whole text is
treated as read-only) and whose LAST statement is a write -/
def readOnlyHeadWritingTail (t : Text) : Bool :=
  classify t == some true &&
    (match lastStmt t with | some (.w _) => true | some (.wa _) => true | _ => false)

theorem runRWexec_eq (db : Db) (t : Text) : runRWexec db t = db ++ writesOf t := by
  induction t generalizing db with
  | nil => simp [runRWexec, writesOf]
  | cons s rest ih =>
    cases s <;> simp [runRWexec, writesOf, ih, List.append_assoc, listConn]

theorem requestText_eq (db : Db) (t : Text) (h : readOnlyHeadWritingTail t = false) :
    requestText db t = db ++ (if classify t = some false then writesOf t else []) := by
  unfold requestText
  cases hc : classify t with
  | none => simp
  | some b =>
    cases b
    · simp [runRWexec_eq]
    · simp only [readOnlyHeadWritingTail, hc, beq_self_eq_true, Bool.true_and] at h
      simp only [runRWq, queryCtx]
      cases hl : lastStmt t with
      | none => simp
      | some st => cases st <;> simp_all [listConn]

theorem foldl_requestText (db : Db) (texts : List Text)
    (h : ∀ t ∈ texts, readOnlyHeadWritingTail t = false) :
    texts.foldl requestText db = db ++ rwWrites texts := by
  induction texts generalizing db with
  | nil => simp [rwWrites]
  | cons t rest ih =>
    simp only [List.foldl_cons, rwWrites]
    rw [requestText_eq db t (h t (by simp)), ih _ (fun x hx => h x (by simp [hx]))]
    simp [List.append_assoc]

theorem rwWrites_of_nRW_zero (texts : List Text) (h : nRW texts = 0) : rwWrites texts = [] := by
  induction texts with
  | nil => rfl
  | cons t rest ih =>
    unfold nRW at h
    simp only [List.filter_cons] at h
    by_cases hc : (classify t == some false) = true
    · simp [hc] at h
    · simp only [hc, Bool.false_eq_true, if_false] at h
      have hc' : ¬ classify t = some false := by simpa using hc
      simp [rwWrites, hc', ih (by unfold nRW; exact h)]

/-- Under the exclusion, texts a unified request treats as read-only change nothing, at every
consistency level and for every mix with read-write texts. -/
theorem request_readonly_texts_change_nothing_partial (lv : Level) (db : Db) (texts : List Text)
    (h : ∀ t ∈ texts, readOnlyHeadWritingTail t = false) :
    (storeRequest lv db texts).db = db ++ rwWrites texts := by
  unfold storeRequest
  split
  · rename_i hl
    simp only [Bool.and_eq_true, beq_iff_eq] at hl
    simp [dbQuery, dbQueryG_keeps, rwWrites_of_nRW_zero texts hl.1]
  · simp [dbRequest, foldl_requestText db texts h]

/-- When no text is read-write and the level is not strong, the request runs on the read-only
pool: even an excluded text changes nothing there (it is answered with an error). -/
theorem ro_classified_runs_on_ro_capable_conn (lv : Level) (db : Db) (texts : List Text)
    (h0 : nRW texts = 0) (hl : lv ≠ .strong) :
    storeRequest lv db texts = dbQuery db texts ∧ (storeRequest lv db texts).db = db := by
  have : (nRW texts == 0 && lv != .strong) = true := by simp [h0, hl]
  simp [storeRequest, this, dbQuery, dbQueryG_keeps]

/-- witnesses: level strong, and alongside a write at level weak -/
theorem request_strong_witness :
    (storeRequest .strong [] [[.r, .w 1]]).db = [1] ∧ rwWrites [[.r, .w 1]] = [] := by decide

theorem request_alongside_write_witness :
    (storeRequest .weak [] [[.w 1], [.r, .w 2]]).db = [1, 2] ∧ rwWrites [[.w 1], [.r, .w 2]] = [1] := by decide

theorem request_readonly_texts_change_nothing_full_is_false :
    ¬ request_readonly_texts_change_nothing_full := by
  intro h
  have := h .strong [] [[.r, .w 1]]
  revert this
  decide

example : readOnlyHeadWritingTail [.r, .w 1] = true ∧ readOnlyHeadWritingTail [.r, .w 1, .r] = false ∧
    readOnlyHeadWritingTail [.w 1, .r] = false := by decide

/-! ### the database changes only through apply, restore, boot and load (regenerated facts) -/

open RqModel.Gen.Mutators

/-- where package store may call a database-mutating method or the command processor, and why -/
def allowedSites : List (String × String × String) :=
  [ ("command_processor.go", "Process", "applying a committed log entry (execute, request, load, load-chunk)"),
    ("store.go", "fsmApply", "applying a committed log entry"),
    ("state.go", "recoverNode", "replaying committed log entries into a fresh database during manual recovery"),
    ("store.go", "fsmRestore", "installing a snapshot"),
    ("store.go", "ReadFrom", "explicit boot"),
    ("store.go", "Open", "opening (and, when configured, re-creating) the database file at start-up"),
    ("store.go", "createDBOnDisk", "helper of Open: removes and opens the database file"),
    ("store.go", "Vacuum", "maintenance: VACUUM keeps the logical content"),
    ("store.go", "doAutoOptimize", "maintenance: PRAGMA optimize keeps the logical content") ]

/-- Every call site in package store of a method that can change the database (Execute, Request,
Swap, Vacuum, Optimize and their variants, on `s.db` / `db`) or of the command processor lies in
one of the functions above: applying committed log entries, installing a snapshot, an explicit
boot/load, or content-preserving maintenance. Regenerated from the sources on every run. -/
theorem db_changes_only_via :
    storeSites.all (fun s => allowedSites.any fun a => a.1 == s.1 && a.2.1 == s.2.1) = true := by
  decide

/-! #### the facts, tied to the model: a labelled transition system of one node's database -/

/-- what can happen to a node's database, with its payload -/
inductive Label where
  | applyExecute (texts : List Text)   -- a committed EXECUTE entry
  | applyRequest (texts : List Text)   -- a committed EXECUTE_QUERY entry
  | applyQuery (texts : List Text)     -- a committed QUERY entry (strong read), or a local read
  | load (image : Db)                  -- a committed LOAD / LOAD_CHUNK entry: the file is swapped for `image`
  | restore (image : Db)               -- snapshot install
  | boot (image : Db)                  -- explicit boot (ReadFrom)
  | open_ (image : Db)                 -- opening / re-creating the database file at start-up or recovery
  | maintenance                        -- VACUUM / PRAGMA optimize / checkpoint: same logical content
deriving Repr

/-- the transition function -/
def stepL : Label → Db → Db
  | .applyExecute texts, db => (dbExecute db texts).db
  | .applyRequest texts, db => (dbRequest db texts).db
  | .applyQuery texts, db => (dbQuery db texts).db
  | .load image, _ => image
  | .restore image, _ => image
  | .boot image, _ => image
  | .open_ image, _ => image
  | .maintenance, db => db

/-- read-labelled and maintenance steps keep the database -/
theorem read_labels_keep (db : Db) (texts : List Text) :
    stepL (.applyQuery texts) db = db ∧ stepL .maintenance db = db :=
  ⟨dbQueryG_keeps listConn db texts, rfl⟩

inductive StepKind where
  | applyExecute | applyRequest | applyLoad | applyEntry | restore | boot | open_ | maintenance
deriving Repr, DecidableEq

/-- the labels a call site of a given kind can perform -/
def StepKind.labels : StepKind → Label → Bool
  | .applyExecute, .applyExecute _ => true
  | .applyRequest, .applyRequest _ => true
  | .applyLoad, .load _ => true
  | .applyEntry, .applyExecute _ => true     -- the command processor: whatever the entry holds
  | .applyEntry, .applyRequest _ => true
  | .applyEntry, .applyQuery _ => true
  | .applyEntry, .load _ => true
  | .restore, .restore _ => true
  | .boot, .boot _ => true
  | .open_, .open_ _ => true
  | .maintenance, .maintenance => true
  | _, _ => false

/-- which kind a call site of package store is -/
def siteKind : String × String × String → Option StepKind
  | ("command_processor.go", "Process", "db.Execute") => some .applyExecute
  | ("command_processor.go", "Process", "db.Request") => some .applyRequest
  | ("command_processor.go", "Process", "db.Swap") => some .applyLoad
  | ("store.go", "fsmApply", "s.cmdProc.Process") => some .applyEntry
  | ("state.go", "recoverNode", "cmdProc.Process") => some .applyEntry
  | ("store.go", "fsmRestore", "s.db.Swap") => some .restore
  | ("store.go", "ReadFrom", "s.db.Swap") => some .boot
  | ("store.go", "Open", "createDBOnDisk") => some .open_
  | ("store.go", "createDBOnDisk", "sql.RemoveFiles") => some .open_
  | ("store.go", "createDBOnDisk", "sql.OpenSwappable") => some .open_
  | ("state.go", "recoverNode", "sql.RemoveFiles") => some .open_
  | ("state.go", "recoverNode", "sql.OpenSwappable") => some .open_
  | ("state.go", "recoverNode", "db.Checkpoint") => some .maintenance
  | ("store.go", "Vacuum", "s.db.Vacuum") => some .maintenance
  | ("store.go", "doAutoOptimize", "s.db.Optimize") => some .maintenance
  | _ => none

/-- EXACTLY these call sites exist (regenerated from the sources on every run), in this order and
of these kinds: a new call of a database-mutating method or of a function that creates, opens or
deletes database files anywhere in package store - also inside an already listed function - or a
removed one changes `storeSites` and breaks this proof. -/
theorem mutator_sites_are_model_steps :
    storeSites.map siteKind =
      [some .applyExecute, some .applyRequest, some .applyLoad, some .applyLoad,
       some .open_, some .open_, some .open_, some .applyEntry, some .maintenance,
       some .open_, some .boot, some .maintenance, some .applyEntry, some .restore, some .maintenance,
       some .open_, some .open_] := by
  decide

/-- labels that keep the database whatever their payload (`read_labels_keep`) -/
def Label.keeps : Label → Bool
  | .applyQuery _ => true
  | .maintenance => true
  | _ => false

theorem keeps_sound (l : Label) (db : Db) (h : l.keeps = true) : stepL l db = db := by
  cases l with
  | applyQuery texts => exact (read_labels_keep db texts).1
  | maintenance => rfl
  | _ => cases h

/-- one step of a node's history: the call site of package store that performs it, and what it does -/
abbrev SiteStep := (String × String × String) × Label

/-- the step is one its call site can perform: the site is one of the regenerated `storeSites`, and
the label is among those `StepKind.labels` gives the site's kind -/
def SiteStep.permitted (sl : SiteStep) : Bool :=
  storeSites.contains sl.1 &&
    match siteKind sl.1 with
    | some k => k.labels sl.2
    | none => false

def runSites (db : Db) (run : List SiteStep) : Db := run.foldl (fun d sl => stepL sl.2 d) db

theorem runSites_keeps (db : Db) (run : List SiteStep) (h : ∀ sl ∈ run, sl.2.keeps = true) :
    runSites db run = db := by
  induction run generalizing db with
  | nil => rfl
  | cons sl rest ih =>
    show runSites (stepL sl.2 db) rest = db
    rw [keeps_sound sl.2 db (h sl (by simp))]
    exact ih db fun x hx => h x (by simp [hx])

/-- the functions of package store in which a content-changing step can happen -/
def changingFunctions : List String :=
  ["Process", "fsmApply", "recoverNode", "fsmRestore", "ReadFrom", "Open", "createDBOnDisk"]

/-- THE LABELLED SYSTEM TIED TO THE SITES. Take any history of one node's database in which every
step is performed by one of the call sites found in package store and does something that site's
kind permits. If the database content at the end differs from the content at the start, then some
step of the history (i) carries a label other than a read or maintenance label - an applied EXECUTE
or EXECUTE_QUERY entry, a load, a snapshot restore, a boot or an open - and (ii) is performed by a
site that is not a maintenance site (Vacuum, Optimize, Checkpoint never do it), inside one of
`changingFunctions`. In particular nothing a read does (label `applyQuery`) changes the content. -/
theorem content_changes_only_at_apply_restore_boot_open (db : Db) (run : List SiteStep)
    (hp : ∀ sl ∈ run, sl.permitted = true) (hc : runSites db run ≠ db) :
    ∃ sl ∈ run, sl.2.keeps = false ∧ siteKind sl.1 ≠ some .maintenance ∧
      changingFunctions.contains sl.1.2.1 = true := by
  have hex : ∃ sl ∈ run, sl.2.keeps = false := by
    apply Classical.byContradiction
    intro hn
    apply hc
    apply runSites_keeps
    intro sl hsl
    cases hk : sl.2.keeps
    · exact absurd ⟨sl, hsl, hk⟩ hn
    · rfl
  obtain ⟨sl, hsl, hk⟩ := hex
  refine ⟨sl, hsl, hk, ?_⟩
  have hperm := hp sl hsl
  simp only [SiteStep.permitted, Bool.and_eq_true] at hperm
  obtain ⟨hmem, hlab⟩ := hperm
  have hall : storeSites.all (fun s => siteKind s == some .maintenance || changingFunctions.contains s.2.1) = true := by
    decide
  have hnm : siteKind sl.1 ≠ some .maintenance := by
    intro hm
    rw [hm] at hlab
    obtain ⟨s, l⟩ := sl
    cases l <;> simp_all [StepKind.labels, Label.keeps]
  refine ⟨hnm, ?_⟩
  have := List.all_eq_true.mp hall sl.1 (List.contains_iff_mem.mp hmem)
  simp only [Bool.or_eq_true, beq_iff_eq] at this
  rcases this with h | h
  · exact absurd h hnm
  · exact h

/-- and each kind of site does what its name says: e.g. the `db.Swap` in `fsmRestore` can only install
a snapshot image, `s.db.Vacuum` only maintenance, the command processor's `db.Execute` only an
EXECUTE entry -/
example : SiteStep.permitted (("store.go", "fsmRestore", "s.db.Swap"), .restore [1]) = true ∧
    SiteStep.permitted (("store.go", "fsmRestore", "s.db.Swap"), .applyExecute []) = false ∧
    SiteStep.permitted (("store.go", "Vacuum", "s.db.Vacuum"), .load [1]) = false ∧
    SiteStep.permitted (("store.go", "NoSuch", "s.db.Swap"), .restore [1]) = false ∧
    runSites [] [(("store.go", "Vacuum", "s.db.Vacuum"), .maintenance),
                 (("store.go", "fsmApply", "s.cmdProc.Process"), .applyQuery [[.r]])] = [] := by decide

/-- serving a request is one of two labels: a query-endpoint request, and a unified request without
read-write texts below level strong, take the READ label (which keeps the database, see
`read_labels_keep`); any other unified request takes `applyRequest` with exactly its texts -/
theorem reads_take_the_read_label (lv : Level) (db : Db) (texts : List Text) :
    (storeQuery lv db texts).db = stepL (.applyQuery texts) db ∧
    ((nRW texts = 0 ∧ lv ≠ .strong) → (storeRequest lv db texts).db = stepL (.applyQuery texts) db) ∧
    (¬ (nRW texts = 0 ∧ lv ≠ .strong) → (storeRequest lv db texts).db = stepL (.applyRequest texts) db) := by
  refine ⟨rfl, fun h => ?_, fun h => ?_⟩
  · have : (nRW texts == 0 && lv != .strong) = true := by simp [h.1, h.2]
    simp [storeRequest, this, stepL]
  · have : (nRW texts == 0 && lv != .strong) = false := by
      cases hc : (nRW texts == 0 && lv != .strong)
      · rfl
      · exfalso; apply h; simpa using hc
    simp [storeRequest, this, stepL]

/-- http/ and cluster/ touch package db only for pure helpers - they reach the database through
the Store -/
theorem outside_packages_do_not_open_the_database :
    outsideDbCalls.all (fun s => ["ParseHex", "IsValidSQLiteData", "SQLiteHeaderSize"].contains s.2.2) = true := by
  decide

/-- the model's connection assignment is the code's: Query and StmtReadOnly take a connection from
the read-only pool only, Execute and Request from the read-write handle only; a read-only DSN
carries mode=ro and query_only -/
theorem connection_pools :
    dbConnUse = [("QueryWithContext", false, true), ("ExecuteWithContext", true, false),
                 ("RequestWithContext", true, false), ("StmtReadOnly", false, true)] ∧
    roDSN = ["mode=ro", "_query_only=true"] := by decide

end C17

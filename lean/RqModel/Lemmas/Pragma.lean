/-
Helper lemmas for C15: the tokeniser of Model/Pragma.lean depends only on the
ASCII-lower-cased text (letter case is invisible to the guard).
-/
import RqModel.Model.Pragma
namespace RqModel.Pragma

theorem lower_idem (c : Nat) : lower (lower c) = lower c := by
  unfold lower
  split
  · rename_i h
    simp only [Bool.and_eq_true, decide_eq_true_eq] at h
    simp
    omega
  · rename_i h
    simp [h]

theorem map_lower_idem (l : List Nat) : (l.map lower).map lower = l.map lower := by
  simp [List.map_map, Function.comp_def, lower_idem]

theorem lower_fix (k : Nat) (hk : ¬ (65 ≤ k ∧ k ≤ 90)) : lower k = k := by
  unfold lower
  have : (decide (65 ≤ k) && decide (k ≤ 90)) = false := by simp; omega
  simp [this]

/-- a byte that is not an ASCII letter is unchanged, and no letter is lower-cased onto it -/
theorem lower_eq_const (c k : Nat) (hk : ¬ (65 ≤ k ∧ k ≤ 90)) (hk2 : ¬ (97 ≤ k ∧ k ≤ 122)) :
    (lower c == k) = (c == k) := by
  unfold lower
  split
  · rename_i h
    simp only [Bool.and_eq_true, decide_eq_true_eq] at h
    have h1 : (c + 32 == k) = false := by simp; omega
    have h2 : (c == k) = false := by simp; omega
    rw [h1, h2]
  · rfl

theorem isSpace_lower (c : Nat) : isSpace (lower c) = isSpace c := by
  unfold isSpace
  rw [lower_eq_const c 32 (by omega) (by omega), lower_eq_const c 9 (by omega) (by omega),
    lower_eq_const c 10 (by omega) (by omega), lower_eq_const c 11 (by omega) (by omega),
    lower_eq_const c 12 (by omega) (by omega), lower_eq_const c 13 (by omega) (by omega)]

theorem isWordByte_lower (c : Nat) : isWordByte (lower c) = isWordByte c := by
  unfold isWordByte lower
  split <;> rename_i h
  · simp only [Bool.and_eq_true, decide_eq_true_eq] at h
    have e1 : (c + 32 == 95) = false := by simp; omega
    have e2 : (c + 32 == 36) = false := by simp; omega
    have e3 : (c == 95) = false := by simp; omega
    have e4 : (c == 36) = false := by simp; omega
    have e5 : (decide (97 ≤ c + 32) && decide (c + 32 ≤ 122)) = true := by simp; omega
    have e6 : (decide (65 ≤ c) && decide (c ≤ 90)) = true := by simp; omega
    simp [e1, e2, e3, e4, e5, e6]
  · rfl

theorem skipLine_lower (r : List Nat) : skipLine (r.map lower) = (skipLine r).map lower := by
  induction r with
  | nil => rfl
  | cons c r ih =>
    simp only [List.map_cons, skipLine]
    rw [lower_eq_const c 10 (by omega) (by omega)]
    split
    · simp
    · exact ih

theorem skipBlock_lower (r : List Nat) : skipBlock (r.map lower) = (skipBlock r).map lower := by
  induction r using skipBlock.induct with
  | case1 => rfl
  | case2 c => rfl
  | case3 a b r h =>
    simp only [List.map_cons, skipBlock]
    rw [lower_eq_const a 42 (by omega) (by omega), lower_eq_const b 47 (by omega) (by omega)]
    simp [h]
  | case4 a b r h ih =>
    simp only [List.map_cons, skipBlock]
    rw [lower_eq_const a 42 (by omega) (by omega), lower_eq_const b 47 (by omega) (by omega)]
    simp only [h, Bool.false_eq_true, if_false]
    simpa using ih

theorem takeQuoted_lower (close : Nat) (ne : Bool) (hc : ¬ (65 ≤ close ∧ close ≤ 90))
    (hc2 : ¬ (97 ≤ close ∧ close ≤ 122)) (r : List Nat) :
    takeQuoted close ne (r.map lower) =
      ((takeQuoted close ne r).1.map lower, (takeQuoted close ne r).2.map lower) := by
  have hl : ∀ c, (lower c == close) = (c == close) := fun c => lower_eq_const c close hc hc2
  fun_induction takeQuoted close ne r <;>
    simp_all [takeQuoted, lower_fix close hc]

theorem takeWhile_word_lower (r : List Nat) :
    (r.map lower).takeWhile isWordByte = (r.takeWhile isWordByte).map lower := by
  induction r with
  | nil => rfl
  | cons c r ih =>
    simp only [List.map_cons, List.takeWhile_cons, isWordByte_lower]
    split <;> simp [ih]

theorem dropWhile_word_lower (r : List Nat) :
    (r.map lower).dropWhile isWordByte = (r.dropWhile isWordByte).map lower := by
  induction r with
  | nil => rfl
  | cons c r ih =>
    simp only [List.map_cons, List.dropWhile_cons, isWordByte_lower]
    split <;> simp [ih]

theorem head_lower_eq (r : List Nat) (k : Nat) (hk : ¬ (65 ≤ k ∧ k ≤ 90)) (hk2 : ¬ (97 ≤ k ∧ k ≤ 122)) :
    ((r.map lower).head? == some k) = (r.head? == some k) := by
  cases r with
  | nil => rfl
  | cons c r =>
    simp only [List.map_cons, List.head?_cons]
    have := lower_eq_const c k hk hk2
    simpa using this

theorem take2_lower_eq (r : List Nat) :
    ((r.map lower).take 2 == [187, 191]) = (r.take 2 == [187, 191]) := by
  match r with
  | [] => rfl
  | [a] => simp
  | a :: b :: r =>
    have ha := lower_eq_const a 187 (by omega) (by omega)
    have hb := lower_eq_const b 191 (by omega) (by omega)
    simp only [List.map_cons, List.take_succ_cons, List.take_zero]
    simp only [List.cons_beq_cons, ha, hb] <;> simp

theorem lower_of_not_word (c : Nat) (h : ¬ isWordByte c = true) : lower c = c := by
  apply lower_fix
  intro hu
  apply h
  unfold isWordByte
  simp
  omega

/-- the tokeniser sees only the lower-cased text -/
theorem lexN_lower (n : Nat) : ∀ bs : List Nat, lexN n (bs.map lower) = lexN n bs := by
  induction n with
  | zero => intro bs; simp [lexN]
  | succ n ih =>
    intro bs
    cases bs with
    | nil => simp [lexN]
    | cons c r =>
      simp only [List.map_cons]
      unfold lexN
      simp only [isSpace_lower, isWordByte_lower,
        lower_eq_const c 239 (by omega) (by omega), lower_eq_const c 45 (by omega) (by omega),
        lower_eq_const c 47 (by omega) (by omega), lower_eq_const c 39 (by omega) (by omega),
        lower_eq_const c 34 (by omega) (by omega), lower_eq_const c 96 (by omega) (by omega),
        lower_eq_const c 91 (by omega) (by omega),
        take2_lower_eq, head_lower_eq r 45 (by omega) (by omega), head_lower_eq r 42 (by omega) (by omega)]
      split
      · exact ih r
      · split
        · rw [← List.map_drop]; exact ih _
        · split
          · rw [skipLine_lower]; exact ih _
          · split
            · rw [← List.map_drop, skipBlock_lower]; exact ih _
            · split
              · rename_i hq
                have hclose : ¬ (65 ≤ (if c == 91 then 93 else c) ∧ (if c == 91 then 93 else c) ≤ 90) ∧
                    ¬ (97 ≤ (if c == 91 then 93 else c) ∧ (if c == 91 then 93 else c) ≤ 122) := by
                  simp only [Bool.or_eq_true, beq_iff_eq] at hq
                  rcases hq with ((h | h) | h) | h <;> subst h <;> simp
                have hlc : lower c = c := by
                  simp only [Bool.or_eq_true, beq_iff_eq] at hq
                  rcases hq with ((h | h) | h) | h <;> subst h <;> rfl
                rw [hlc, takeQuoted_lower _ _ hclose.1 hclose.2]
                simp only [map_lower_idem]
                rw [ih]
              · split
                · rw [takeWhile_word_lower, dropWhile_word_lower, ih]
                  simp [map_lower_idem, lower_idem]
                · rename_i hw
                  rw [ih, lower_of_not_word c hw]

theorem lex_lower (bs : List Nat) : lex (bs.map lower) = lex bs := by
  unfold lex
  rw [List.length_map]
  exact lexN_lower _ bs

/-! ### fuel independence and invisible leading filler -/

theorem skipLine_length (r : List Nat) : (skipLine r).length ≤ r.length := by
  induction r with
  | nil => simp [skipLine]
  | cons c r ih => simp only [skipLine]; split <;> simp <;> omega

theorem skipBlock_length (r : List Nat) : (skipBlock r).length ≤ r.length := by
  fun_induction skipBlock r <;> simp_all <;> omega

theorem takeQuoted_length (close : Nat) (ne : Bool) (r : List Nat) :
    (takeQuoted close ne r).2.length ≤ r.length := by
  fun_induction takeQuoted close ne r <;> simp_all <;> omega

theorem dropWhile_length (p : Nat → Bool) (r : List Nat) : (r.dropWhile p).length ≤ r.length := by
  induction r with
  | nil => simp
  | cons c r ih => simp only [List.dropWhile_cons]; split <;> simp <;> omega

theorem lexN_fuel (n : Nat) : ∀ (m : Nat) (bs : List Nat), bs.length < n → bs.length < m →
    lexN n bs = lexN m bs := by
  induction n with
  | zero => intro m bs h; omega
  | succ n ih =>
    intro m bs hn hm
    cases m with
    | zero => omega
    | succ m =>
      cases bs with
      | nil => simp [lexN]
      | cons c r =>
        simp only [List.length_cons] at hn hm
        have hd : (r.drop 2).length ≤ r.length := by simp
        have hd1 : (r.drop 1).length ≤ r.length := by simp
        have h1 := skipLine_length r
        have h2 := skipBlock_length (r.drop 1)
        have h3 := takeQuoted_length (if c == 91 then 93 else c) (c == 91) r
        have h4 : (r.dropWhile isWordByte).length ≤ r.length := dropWhile_length _ _
        unfold lexN
        split
        · exact ih m r (by omega) (by omega)
        · split
          · exact ih m _ (by omega) (by omega)
          · split
            · exact ih m _ (by omega) (by omega)
            · split
              · exact ih m _ (by omega) (by omega)
              · split
                · dsimp only
                  rw [ih m (takeQuoted (if c == 91 then 93 else c) (c == 91) r).2 (by omega) (by omega)]
                · split
                  · rw [ih m (r.dropWhile isWordByte) (by omega) (by omega)]
                  · rw [ih m r (by omega) (by omega)]

theorem lex_eq_lexN (bs : List Nat) (n : Nat) (h : bs.length < n) : lex bs = lexN n bs :=
  lexN_fuel _ n bs (by omega) h

/-- leading whitespace is invisible -/
theorem lex_space (c : Nat) (hc : isSpace c = true) (t : List Nat) : lex (c :: t) = lex t := by
  unfold lex
  simp only [List.length_cons]
  rw [lexN]
  simp [hc]

theorem lex_spaces (ws : List Nat) (h : ∀ c ∈ ws, isSpace c = true) (t : List Nat) :
    lex (ws ++ t) = lex t := by
  induction ws with
  | nil => rfl
  | cons c ws ih =>
    rw [List.cons_append, lex_space c (h c (by simp)), ih (fun x hx => h x (by simp [hx]))]

theorem skipLine_body (body : List Nat) (hb : 10 ∉ body) (t : List Nat) :
    skipLine (body ++ 10 :: t) = 10 :: t := by
  induction body with
  | nil => simp [skipLine]
  | cons c r ih =>
    have hc : c ≠ 10 := fun h => hb (by simp [h])
    simp only [List.cons_append, skipLine]
    have : (c == 10) = false := by simpa using hc
    simp only [this, Bool.false_eq_true, if_false]
    exact ih (fun h => hb (by simp [h]))

/-- a leading `-- … \n` comment is invisible -/
theorem lex_line_comment (body : List Nat) (hb : 10 ∉ body) (t : List Nat) :
    lex (45 :: 45 :: (body ++ 10 :: t)) = lex t := by
  have hlen : (10 :: t).length < (45 :: 45 :: (body ++ 10 :: t)).length := by simp; omega
  unfold lex
  rw [lexN]
  have hs : isSpace 45 = false := by decide
  simp only [hs, Bool.false_eq_true, if_false]
  have h239 : ((45 : Nat) == 239) = false := by decide
  simp only [h239, Bool.false_and, Bool.false_eq_true, if_false, List.head?_cons, beq_self_eq_true,
    Bool.and_self, if_true]
  rw [show skipLine (45 :: (body ++ 10 :: t)) = 10 :: t from by
    have : (45 :: (body ++ 10 :: t)) = (45 :: body) ++ 10 :: t := by simp
    rw [this]
    exact skipLine_body (45 :: body) (by simp; exact hb) t]
  rw [← lex_eq_lexN (10 :: t) _ (by simp at hlen ⊢; omega)]
  exact lex_space 10 (by decide) t

theorem skipBlock_body (body : List Nat) (hb : 42 ∉ body) (t : List Nat) :
    skipBlock (body ++ 42 :: 47 :: t) = t := by
  induction body with
  | nil => simp [skipBlock]
  | cons c r ih =>
    have hc : c ≠ 42 := fun h => hb (by simp [h])
    have hc' : (c == 42) = false := by simpa using hc
    have ih' := ih (fun h => hb (by simp [h]))
    cases r with
    | nil =>
      simp only [List.cons_append, List.nil_append, skipBlock, hc', Bool.false_and, Bool.false_eq_true, if_false]
      simp [skipBlock]
    | cons d r' =>
      simp only [List.cons_append, skipBlock, hc', Bool.false_and, Bool.false_eq_true, if_false]
      simpa using ih'

/-- a leading `/* … */` comment (without a star inside) is invisible -/
theorem lex_block_comment (body : List Nat) (hb : 42 ∉ body) (t : List Nat) :
    lex (47 :: 42 :: (body ++ 42 :: 47 :: t)) = lex t := by
  unfold lex
  rw [lexN]
  have hs : isSpace 47 = false := by decide
  have h1 : ((47 : Nat) == 239) = false := by decide
  have h2 : ((47 : Nat) == 45) = false := by decide
  simp only [hs, h1, h2, Bool.false_eq_true, if_false, Bool.false_and, List.head?_cons,
    beq_self_eq_true, Bool.and_self, if_true, List.drop_succ_cons, List.drop_zero]
  rw [skipBlock_body body hb t]
  exact (lex_eq_lexN t _ (by simp; omega)).symm

/-- no `*/` (42 47) at any two adjacent positions of a comment body -/
def NoClose : List Nat → Bool
  | [] => true
  | [_] => true
  | a :: b :: r => !(a == 42 && b == 47) && NoClose (b :: r)

theorem noClose_of_no_star (body : List Nat) (hb : 42 ∉ body) : NoClose body = true := by
  induction body with
  | nil => rfl
  | cons c r ih =>
    have hc : (c == 42) = false := by
      have : c ≠ 42 := fun h => hb (by simp [h])
      simpa using this
    cases r with
    | nil => rfl
    | cons d r' =>
      simp only [NoClose, hc, Bool.false_and, Bool.not_false, Bool.true_and]
      exact ih (fun h => hb (by simp only [List.mem_cons] at h ⊢; exact Or.inr h))

/-- the skipper stops at the FIRST `*/` after the opener, whatever else the body holds (stars,
slashes, `/*`, a body ending in a star, a body starting with a slash) -/
theorem skipBlock_body_general (body : List Nat) (hb : NoClose body = true) (t : List Nat) :
    skipBlock (body ++ 42 :: 47 :: t) = t := by
  induction body with
  | nil => simp [skipBlock]
  | cons c r ih =>
    cases r with
    | nil =>
      have h47 : ((42 : Nat) == 47) = false := by decide
      simp [skipBlock, h47]
    | cons d r' =>
      simp only [NoClose, Bool.and_eq_true, Bool.not_eq_true'] at hb
      have ih' := ih hb.2
      simp only [List.cons_append, skipBlock, hb.1, Bool.false_eq_true, if_false]
      simpa using ih'

/-- a leading `/* … */` comment whose body holds no `*/` is invisible -/
theorem lex_block_comment_general (body : List Nat) (hb : NoClose body = true) (t : List Nat) :
    lex (47 :: 42 :: (body ++ 42 :: 47 :: t)) = lex t := by
  unfold lex
  rw [lexN]
  have hs : isSpace 47 = false := by decide
  have h1 : ((47 : Nat) == 239) = false := by decide
  have h2 : ((47 : Nat) == 45) = false := by decide
  simp only [hs, h1, h2, Bool.false_eq_true, if_false, Bool.false_and, List.head?_cons,
    beq_self_eq_true, Bool.and_self, if_true, List.drop_succ_cons, List.drop_zero]
  rw [skipBlock_body_general body hb t]
  exact (lex_eq_lexN t _ (by simp; omega)).symm

end RqModel.Pragma

/-
C25  CDC delivers every committed change at least once with its log index.

Model: RqModel/Model/CdcPipe.lean (one node's pipeline: streamer → HWM filter → batcher →
FIFO → leader loop → endpoint; HWM broadcast/prune; snapshot sync; restart with raft
replay), tied to the real cdc.Service + db.CDCStreamer + Bolt FIFO + HTTP sink by the C25
correspondence run.
-/
import RqModel.Model.CdcPipe
import RqModel.Lemmas.Cdc7
import RqModel.Gen.CdcPipe
namespace C25
open RqModel.CdcPipe RqModel.Fifo

/-- change `c` of entry `k` has reached the endpoint in a group labelled `k` -/
def deliveredB (s : St) (c : Change) : Bool :=
  s.delivered.any fun d => d.2.any fun g => g.idx == c.1 && g.chg.contains c

/-- all changes of the entries applied in a history -/
def changesOf (ops : List Op) : List Change :=
  ops.flatMap fun
    | .entry e => changesFrom e.idx 0 e.stmts
    | _ => []

/-- the healing suffix: the endpoint works, this node leads, the batcher's timer fires -/
def heal : List Op := [.endpoint true, .leader true, .timer]

/-- THE FULL STATEMENT (false of the faithful model, see the witnesses): after any history
followed by `heal`, every change of every applied entry has been delivered, labelled with
its entry's index. -/
def at_least_once_full : Prop :=
  ∀ (b : Nat) (ops : List Op), 0 < b →
    ∀ c ∈ changesOf ops, deliveredB (run { batchSz := b } (ops ++ heal)) c = true

/-- the streamer loses the index after the first commit inside one log entry -/
theorem streamer_index_witness :
    streamEntry ⟨77, false, [1, 1, 1]⟩ = [⟨77, [(77, 0)]⟩, ⟨0, [(77, 1)]⟩, ⟨0, [(77, 2)]⟩] := by decide

/-- batch size 3: statements 2 and 3 arrive labelled 0 -/
theorem at_least_once_witness_mislabelled :
    (run { batchSz := 3 } ([.leader true, .entry ⟨77, false, [1, 1, 1]⟩] ++ heal)).delivered =
      [(77, [⟨77, [(77, 0)]⟩, ⟨0, [(77, 1)]⟩, ⟨0, [(77, 2)]⟩])] := by decide

/-- batch size 1: statements 2 and 3 never arrive (enqueued at FIFO key 0, suppressed) -/
theorem at_least_once_witness :
    ¬ at_least_once_full := by
  intro h
  have := h 1 [.leader true, .entry ⟨77, false, [1, 1, 1]⟩] (by decide) (77, 1) (by decide)
  revert this
  decide

/-- keeping the index in the streamer is not enough: with batch size 1 the second batch has
the same highest index as the first and is suppressed by the FIFO -/
theorem keep_index_not_enough_witness :
    deliveredB (run { batchSz := 1, keepIdx := true } ([.leader true, .entry ⟨77, false, [1, 1, 1]⟩] ++ heal)) (77, 1) = false := by
  decide

/-! ### at least once, for entries that yield one event group -/

theorem wf_heal (last : Nat) : wfOps last heal := by
  simp [heal, wfOps]

theorem flags_endpoint (s : St) : (stepOp s (.endpoint true)).up = true := by
  show (pumpAll { s with up := true }).up = true
  unfold pumpAll
  rw [(same_pump _ _).up]

theorem flags_leader (s : St) : (stepOp s (.leader true)).leader = true ∧ (stepOp s (.leader true)).up = s.up := by
  show (pumpAll (stepCore s (.leader true))).leader = true ∧ (pumpAll (stepCore s (.leader true))).up = s.up
  unfold pumpAll
  rw [(same_pump _ _).leader, (same_pump _ _).up]
  simp only [stepCore]
  by_cases h : true = s.leader
  · rw [if_pos h]; exact ⟨h.symm, rfl⟩
  · rw [if_neg h]; simp

/-- after the healing suffix nothing is left in the batcher, in the leader loop's hand, or
emittable from the FIFO -/
theorem healed_is_drained (s : St) (ht : Top s) :
    let t := run s heal
    Top t ∧ t.batcher = [] ∧ t.held = none ∧ t.fifo.nextEv = none ∧ t.log = s.log := by
  have t1 := top_step s (.endpoint true) ht trivial
  have t2 := top_step _ (.leader true) t1 trivial
  have t3 := top_step _ .timer t2 trivial
  have hup : (stepOp (stepOp s (.endpoint true)) (.leader true)).up = true := by
    rw [(flags_leader _).2]; exact flags_endpoint s
  have hld := (flags_leader (stepOp s (.endpoint true))).1
  have hfl := flush_good _ _ t2.base t2.cov
  have hsf := same_flush (stepOp (stepOp s (.endpoint true)) (.leader true))
  have hdr := pumpAll_drains (flushBatcher (stepOp (stepOp s (.endpoint true)) (.leader true))) hfl.1.fifo
    (by rw [hsf.leader]; exact hld) (by rw [hsf.up]; exact hup)
  have hbat : (pumpAll (flushBatcher (stepOp (stepOp s (.endpoint true)) (.leader true)))).batcher = [] := by
    unfold pumpAll; rw [pump_batcher]; exact flush_batcher_nil _
  have hlog : (stepOp (stepOp (stepOp s (.endpoint true)) (.leader true)) .timer).log = s.log := by
    rw [stepOp_log _ .timer t2, stepOp_log _ (.leader true) t1, stepOp_log _ (.endpoint true) ht]
  exact ⟨t3, hbat, hdr.1, hdr.2, hlog⟩

theorem deliveredB_of (s : St) (c : Change) (d : Nat × Batch) (g : Group)
    (hd : d ∈ s.delivered) (hg : g ∈ d.2) (hi : g.idx = c.1) (hc : c ∈ g.chg) : deliveredB s c = true := by
  unfold deliveredB
  rw [List.any_eq_true]
  refine ⟨d, hd, ?_⟩
  rw [List.any_eq_true]
  refine ⟨g, hg, ?_⟩
  simp [hi, hc]

/-- change `c` was in an event given up on after a finite retry limit was exhausted -/
def droppedB (s : St) (c : Change) : Bool :=
  s.dropped.any fun d => d.2.any fun g => g.idx == c.1 && g.chg.contains c

theorem droppedB_of (s : St) (c : Change) (d : Nat × Batch) (g : Group)
    (hd : d ∈ s.dropped) (hg : g ∈ d.2) (hi : g.idx = c.1) (hc : c ∈ g.chg) : droppedB s c = true := by
  unfold droppedB
  rw [List.any_eq_true]
  refine ⟨d, hd, ?_⟩
  rw [List.any_eq_true]
  refine ⟨g, hg, ?_⟩
  simp [hi, hc]

theorem top_init_mr (b mr : Nat) (und : List Nat) (hb : 0 < b) :
    Top { batchSz := b, maxRetries := mr, undecodable := und } := by
  have h := top_init b hb
  exact ⟨base_transfer _ _ _ h.base rfl rfl rfl rfl rfl rfl rfl rfl rfl rfl,
    cov_transfer _ _ _ h.cov (fun x hx _ => hx) rfl rfl rfl rfl rfl rfl, h.logOk, h.sorted, h.frontLe⟩

/-- **At least once, unless the leader loop explicitly gives the event up** — the two DROP
branches of the leader loop made explicit: for every batch size, EVERY retry limit `mr`
(0 = none) and EVERY set `und` of FIFO keys whose stored bytes do not decompress, under the
same histories as `at_least_once_partial`, every change has been POSTed with its entry's
index, or was in an event the leader gave up on (`dropped`: retry limit exhausted, or
decompression failed), or lies at or below an HWM announced by another node. -/
theorem at_least_once_or_dropped (b mr : Nat) (und : List Nat) (ops : List Op) (hb : 0 < b) (hwf : wfOps 0 ops) :
    ∀ c ∈ changesOf ops,
      deliveredB (run { batchSz := b, maxRetries := mr, undecodable := und } (ops ++ heal)) c = true ∨
      droppedB (run { batchSz := b, maxRetries := mr, undecodable := und } (ops ++ heal)) c = true ∨
      c.1 ≤ (run { batchSz := b, maxRetries := mr, undecodable := und } (ops ++ heal)).maxIn := by
  intro c hc
  have h0 := top_init_mr b mr und hb
  have hw0 : wfOps (lastIdx ({ batchSz := b, maxRetries := mr, undecodable := und } : St).log) ops := by simpa [lastIdx] using hwf
  have ht := top_run _ ops h0 hw0
  obtain ⟨_, hlogE⟩ := log_of_run _ ops h0 hw0
  rw [run_append]
  obtain ⟨htF, hbat, hheld, hne, hlog⟩ := healed_is_drained _ ht
  unfold changesOf at hc
  rw [List.mem_flatMap] at hc
  obtain ⟨op, hop, hcop⟩ := hc
  cases op with
  | entry e =>
    simp only at hcop
    have he : e ∈ (run { batchSz := b, maxRetries := mr, undecodable := und } ops).log := hlogE e hop
    have hs := (ht.logOk e he).2.2
    obtain ⟨g, hg, hgi, hcg, hc1⟩ := change_in_group (run (run { batchSz := b, maxRetries := mr, undecodable := und } ops) heal).keepIdx e hs c hcop
    have hgG : g ∈ groups (run (run { batchSz := b, maxRetries := mr, undecodable := und } ops) heal) := by
      rw [mem_groups]; exact ⟨e, by rw [hlog]; exact he, hg⟩
    rcases done_of_drained _ htF hbat hheld hne g hgG with (⟨d, hd, hgd⟩ | ⟨d, hd, hgd⟩) | h
    · left; exact deliveredB_of _ c d g hd hgd (by rw [hgi, hc1]) hcg
    · right; left; exact droppedB_of _ c d g hd hgd (by rw [hgi, hc1]) hcg
    · right; right; rw [hc1, ← hgi]; exact h
  | timer => simp at hcop
  | sync => simp at hcop
  | leader _ => simp at hcop
  | endpoint _ => simp at hcop
  | hwm _ => simp at hcop
  | tick => simp at hcop
  | restart => simp at hcop

/-- **At least once, unless a finite retry limit is configured and exhausted** — the
property's own exception: with every stored item decodable (`und = []`, see `FlateLaw`),
for every batch size and EVERY retry limit `mr` (0 = none), every change has been POSTed
with its entry's index, or was in an event the leader gave up on after the limit
(`dropped`), or lies at or below an HWM announced by another node. -/
theorem at_least_once_or_retry_limit (b mr : Nat) (ops : List Op) (hb : 0 < b) (hwf : wfOps 0 ops) :
    ∀ c ∈ changesOf ops,
      deliveredB (run { batchSz := b, maxRetries := mr } (ops ++ heal)) c = true ∨
      droppedB (run { batchSz := b, maxRetries := mr } (ops ++ heal)) c = true ∨
      c.1 ≤ (run { batchSz := b, maxRetries := mr } (ops ++ heal)).maxIn :=
  at_least_once_or_dropped b mr [] ops hb hwf

/-! ### the stored form of a FIFO item

The FIFO stores `flate.Compress(json.Marshal(batch))`; the leader loop sends
`flate.Decompress(stored)`. `FlateLaw` is what the delivery theorems assume of that pair: a
round trip for EVERY input, with NO bound on its size (one batch holds up to
`MaxBatchSz` groups, one group every row a transaction touched: tens of MiB are ordinary).
`internal/rarchive/flate` is tied to it by the regenerated fact
`C25.flate_decompress_unbounded` and by a round-trip oracle on 9–16 MiB inputs. -/

structure FlateLaw (β : Type) where
  compress : Batch → β
  decompress : β → Option Batch
  round : ∀ b : Batch, decompress (compress b) = some b

/-- FIFO keys of items the leader loop cannot decode, for an ARBITRARY compress/decompress pair -/
def undecodableKeys {β : Type} (compress : Batch → β) (decompress : β → Option Batch)
    (items : List (Nat × Batch)) : List Nat :=
  (items.filter fun it => (decompress (compress it.2)).isNone).map (·.1)

/-- under the law no stored item is undecodable: the `und = []` of the theorems below -/
theorem lawful_flate_decodes_everything {β : Type} (L : FlateLaw β) (items : List (Nat × Batch)) :
    undecodableKeys L.compress L.decompress items = [] := by
  unfold undecodableKeys
  simp [L.round]

/-- a decompressor that refuses outputs above a size bound (size = number of changes) is NOT
lawful: here the bound is 2 -/
def boundedDecompress (bound : Nat) (b : Batch) : Option Batch :=
  if (b.map (·.chg.length)).sum > bound then none else some b

/-- **Witness: a size bound in `Decompress` loses changes for good.** One transaction
touching three statements' rows (one group of 3 changes, stored under key 1) followed by
a small write; decompression refuses anything above 2 changes. On the healed leader the big
event is dropped (no POST, not even a failed one), the small one is delivered, the HWM
passes 1: the three changes of entry 1 are never delivered, with no retry limit set. -/
theorem decode_failure_witness :
    let big : Entry := ⟨1, true, [1, 1, 1]⟩
    let und := undecodableKeys id (boundedDecompress 2) [(1, streamEntry big)]
    let s := run { batchSz := 1, undecodable := und } ([.entry big, .entry ⟨2, false, [1]⟩] ++ heal)
    und = [1] ∧ deliveredB s (1, 0) = false ∧ droppedB s (1, 0) = true ∧
      deliveredB s (2, 0) = true ∧ s.hwm = 2 ∧ s.fifo.nextEv = none ∧ s.maxRetries = 0 := by
  decide

/-- **At least once, with the entry's index** (the part of the full statement that holds).
For EVERY batch size and EVERY history of applied log entries (strictly increasing indexes,
each yielding at most one event group: single-statement requests, requests in a
transaction, requests of which at most one statement touches a matching table), batcher
timer firings, snapshots, leadership changes, endpoint outages, HWM broadcasts from other
nodes, HWM ticks and restarts with raft replay, in any order and number: once the endpoint
works, this node leads and the batcher's timer has fired, every change of every applied
entry has been POSTed in a group labelled with its entry's index — or lies at or below a
high-water mark announced by another node (which, by that node's own guarantee, delivered
it). Hypotheses carried by the initial state: no finite retry limit (`maxRetries = 0`) and
every stored item decompresses (`undecodable = []`, i.e. `FlateLaw`; see
`lawful_flate_decodes_everything`, `flate_decompress_unbounded`, `decode_failure_witness`). -/
theorem at_least_once_partial (b : Nat) (ops : List Op) (hb : 0 < b) (hwf : wfOps 0 ops) :
    ∀ c ∈ changesOf ops,
      deliveredB (run { batchSz := b } (ops ++ heal)) c = true ∨
      c.1 ≤ (run { batchSz := b } (ops ++ heal)).maxIn := by
  intro c hc
  rcases at_least_once_or_retry_limit b 0 ops hb hwf c hc with h | h | h
  · exact Or.inl h
  · -- no retry limit: nothing is ever dropped
    exfalso
    have := (run_no_drop { batchSz := b, maxRetries := 0 } (ops ++ heal) rfl rfl rfl).1
    unfold droppedB at h
    rw [this] at h
    simp at h
  · exact Or.inr h

/-- **Within one tenure the POSTs are in strictly increasing key order** (the key of a
POST is the highest log index it carries). `pre` is any earlier history; `seg` any stretch
of operations without a leadership change or restart — entries, timer firings, snapshots,
outages, HWM broadcasts and ticks in any order. No exclusion is needed: this also holds
for multi-statement entries. -/
theorem nondecreasing_within_tenure (b : Nat) (pre seg : List Op)
    (hseg : ∀ op ∈ seg, (∀ x, op ≠ .leader x) ∧ op ≠ .restart) :
    ∃ D : List (Nat × Batch),
      (run { batchSz := b } (pre ++ seg)).delivered = (run { batchSz := b } pre).delivered ++ D ∧
      (D.map (·.1)).Pairwise (· < ·) := by
  rw [run_append]
  obtain ⟨D, h1, h2, _, _⟩ := run_deliveries (run { batchSz := b } pre) seg hseg
  exact ⟨D, h1, h2⟩

/-! ### what a HWM broadcast promises -/

/-- THE STATEMENT for the node's own broadcasts: whenever this node has broadcast HWM `h`,
every change at or below `h` has been delivered (here, or according to another node's
announcement). Other nodes prune their queues on the strength of this promise, so
at-least-once ACROSS nodes rests on it. `fromFirstKey` = `NewService` derives the start HWM
from the first FIFO key (before the `fix:` commit) instead of starting at 0. -/
def broadcast_truthful_full (fromFirstKey : Bool) : Prop :=
  ∀ (b : Nat) (ops : List Op), 0 < b → wfOps 0 ops →
    ∀ h ∈ (run { batchSz := b, hwmFromFirstKey := fromFirstKey } ops).broadcasts, ∀ c ∈ changesOf ops, c.1 ≤ h →
      deliveredB (run { batchSz := b, hwmFromFirstKey := fromFirstKey } ops) c = true ∨
      c.1 ≤ (run { batchSz := b, hwmFromFirstKey := fromFirstKey } ops).maxIn

/-- The repaired defect. `NewService` used to set the HWM to (first FIFO key - 1). With batch
size 2 the entries 5 and 6 sit in ONE item keyed 6, so the restarted node believed 5 was
done; leading with the endpoint down its ticker broadcast 5 although change 5.0 was never
sent. On two real services this loses change 5.0 for good (a second node prunes it, leads,
delivers 6, broadcasts 6, and the first node prunes its only copy). With the start HWM 0 the
same history broadcasts nothing. (`broadcast_truthful_full false` itself is NOT proved: the
cross-node composition stays an assumption of `at_least_once_partial`.) -/
theorem broadcast_truthful_witness :
    ¬ broadcast_truthful_full true ∧
    (run { batchSz := 2 } [.entry ⟨5, false, [1]⟩, .entry ⟨6, false, [1]⟩, .restart, .endpoint false,
        .leader true, .tick]).broadcasts = [] := by
  constructor
  · intro h
    have := h 2 [.entry ⟨5, false, [1]⟩, .entry ⟨6, false, [1]⟩, .restart, .endpoint false, .leader true, .tick]
      (by decide) (by simp [wfOps, single, nonEmptyStmts]) 5 (by decide) (5, 0) (by decide) (by decide)
    revert this
    decide
  · decide

/-! ### the snapshot sync and groups still in the hand-off channel -/

/-- cdc/service.go: the snapshot-sync case of `writeToBatcher` drains the hand-off channel
before it writes the flush marker (the model's `drainOnSync = true`), and the leader loop
keeps an unsent event across a stop (the model's `held` surviving `leader false`) -/
theorem service_facts :
    RqModel.Gen.CdcPipe.syncDrainsHandoff = some true ∧
    RqModel.Gen.CdcPipe.leaderKeepsUnsent = some true := by decide

/-- internal/rarchive/flate (the package `cdc/service.go` imports as `flate`): `Decompress`
reads the WHOLE inflated stream — a `bytes.Reader` over the input, the standard library's
inflater, `io.ReadAll` — with no limit reader and no size error, and `Compress` writes the
whole input and closes the writer. With the standard library's deflate round trip this is
`FlateLaw.round` for inputs of any size. The correspondence run checks the round trip itself
on 9–16 MiB inputs. -/
theorem flate_decompress_unbounded :
    RqModel.Gen.CdcPipe.cdcFlateImport = "github.com/rqlite/rqlite/v10/internal/rarchive/flate" ∧
    RqModel.Gen.CdcPipe.flateDecompressStmts =
      ["reader := bytes.NewReader(data)", "r := flate.NewReader(reader)", "defer r.Close()",
       "return io.ReadAll(r)"] ∧
    RqModel.Gen.CdcPipe.flateCompressStmts =
      ["var buf bytes.Buffer", "w, err := flate.NewWriter(&buf, flate.BestCompression)",
       "if err != nil { return nil, err }", "_, err = w.Write(data)",
       "if err != nil { w.Close() return nil, err }", "err = w.Close()",
       "if err != nil { return nil, err }", "return buf.Bytes(), nil"] := by decide

/-- cdc/service.go `leaderLoop`: when `flate.Decompress(ev.Data)` fails the loop forgets the
event and goes on to the next one — the model's decompress DROP (`pump`, `undecodable`) -/
theorem leader_decode_failure_is_a_drop :
    RqModel.Gen.CdcPipe.leaderDecodeFailure = ["s.unsent = nil", "continue"] := by decide

/-- with the drain, operations arriving while groups are still in the channel behave exactly
like operations at quiescent points: the histories of `at_least_once_partial` cover them -/
theorem queued_entry_is_entry (s : St) (e : Entry) :
    drainHand (stepHand true { s := s, queued := [] } (.entryQueued e)) = { s := stepOp s (.entry e), queued := [] } := rfl

theorem runHand_ops (q : StQ) (ops : List Op) (h : q.queued = []) :
    (runHand true q (ops.map OpQ.op)).s = run q.s ops ∧ (runHand true q (ops.map OpQ.op)).queued = [] := by
  induction ops generalizing q with
  | nil => exact ⟨rfl, h⟩
  | cons o rest ih =>
    show (runHand true (stepHand true q (.op o)) (rest.map OpQ.op)).s = run (stepOp q.s o) rest ∧
      (runHand true (stepHand true q (.op o)) (rest.map OpQ.op)).queued = []
    have hd : drainHand q = q := by
      cases q with
      | mk s queued => simp only at h; subst h; rfl
    have hstep : stepHand true q (.op o) = { s := stepOp q.s o, queued := [] } := by
      cases o <;> simp [stepHand, hd]
    rw [hstep]
    exact ih _ rfl

/-- The repaired defect (`drainOnSync = false`): the flush of a snapshot sync overtook the
group of an entry still in the channel; after the snapshot the entry is no longer replayed,
so a restart lost it — observed end to end on the real service (60 entries, forced
schedule: entries 46.. never reached the endpoint). With the drain it is delivered. -/
theorem sync_overtake_witness :
    (runHand false { s := { batchSz := 8 } }
      ([.entryQueued ⟨5, false, [1]⟩, .op .sync, .op .restart] ++ heal.map OpQ.op)).s.delivered = [] ∧
    (runHand true { s := { batchSz := 8 } }
      ([.entryQueued ⟨5, false, [1]⟩, .op .sync, .op .restart] ++ heal.map OpQ.op)).s.delivered =
        [(5, [⟨5, [(5, 0)]⟩])] := by decide

/-! ### order of the LABELS within a tenure -/

/-- labels (entry indexes carried by the groups) of a list of POSTs, in order -/
def labels (d : List (Nat × Batch)) : List Nat := d.flatMap fun p => p.2.map (·.idx)

/-- THE FULL STATEMENT of the property's second sentence at the level of labels: between
two leadership changes the labels that reach the endpoint never decrease. -/
def label_order_full : Prop :=
  ∀ (b : Nat) (pre seg : List Op), 0 < b → wfOps 0 (pre ++ seg) →
    (∀ op ∈ seg, (∀ x, op ≠ .leader x) ∧ op ≠ .restart) →
    ∀ D, (run { batchSz := b } (pre ++ seg)).delivered = (run { batchSz := b } pre).delivered ++ D →
      (labels D).Pairwise (· ≤ ·)

/-- False even for single-statement entries: after a restart raft replays entries that are
still queued, and a replayed entry can share a batch with one that was not queued yet. Batch
size 3: items keyed 5 and 6 carry entries 5 and 6; entry 7 is still in the batcher when the
node restarts; the replay forms a new item keyed 7 carrying 5,6,7. One later tenure delivers
the labels 5, 6, 5, 6, 7. Redelivery is inherent to at-least-once; what holds is the order
of the POST keys (`nondecreasing_within_tenure`). The multi-statement finding breaks label
order too (77,0,0: `at_least_once_witness_mislabelled`). -/
theorem label_order_witness : ¬ label_order_full := by
  intro h
  have key := h 3
    [.entry ⟨5, false, [1]⟩, .timer, .entry ⟨6, false, [1]⟩, .timer, .entry ⟨7, false, [1]⟩, .restart,
     .endpoint false, .leader true]
    [.endpoint true] (by decide) (by simp [wfOps, single, nonEmptyStmts]) (by simp)
    [(5, [⟨5, [(5, 0)]⟩]), (6, [⟨6, [(6, 0)]⟩]), (7, [⟨5, [(5, 0)]⟩, ⟨6, [(6, 0)]⟩, ⟨7, [(7, 0)]⟩])] (by decide)
  revert key
  decide

/-- the same with the ghost field spelled out: `maxHwmIn ops` is the highest HWM another
node announced during the history -/
theorem at_least_once_partial' (b : Nat) (ops : List Op) (hb : 0 < b) (hwf : wfOps 0 ops) :
    ∀ c ∈ changesOf ops,
      deliveredB (run { batchSz := b } (ops ++ heal)) c = true ∨ c.1 ≤ maxHwmIn ops := by
  intro c hc
  rcases at_least_once_partial b ops hb hwf c hc with h | h
  · exact Or.inl h
  · right
    rw [run_maxIn] at h
    have : maxHwmIn (ops ++ heal) = maxHwmIn ops := by
      rw [maxHwmIn_append]; simp [heal, maxHwmIn]
    simpa [this] using h

/-- the exclusion is decidable and the hypotheses are satisfiable by a history with an
outage, a step-down during the retry, a restart, a snapshot and a foreign HWM -/
example : wfOps 0 [.leader true, .endpoint false, .entry ⟨5, false, [1]⟩, .entry ⟨6, true, [2, 0, 1]⟩,
    .leader false, .sync, .restart, .hwm 3, .entry ⟨8, false, [0, 1]⟩] := by
  simp [wfOps, single, nonEmptyStmts]

example : (run { batchSz := 2 } ([.leader true, .endpoint false, .entry ⟨5, false, [1]⟩, .entry ⟨6, true, [2, 0, 1]⟩,
    .leader false, .sync, .restart, .hwm 3, .entry ⟨8, false, [0, 1]⟩] ++ heal)).delivered =
    [(6, [⟨5, [(5, 0)]⟩, ⟨6, [(6, 0), (6, 2)]⟩]), (8, [⟨8, [(8, 1)]⟩])] := by decide

end C25

/-
C25 helper lemmas, part 4: the top-level invariant, its preservation by every operation
(including restart with raft replay), and the drain lemma for the healing suffix.
-/
import RqModel.Lemmas.Cdc3
namespace RqModel.CdcPipe
open RqModel.Fifo

structure Top (s : St) : Prop where
  base   : Base s s.front
  cov    : Cov s s.front
  logOk  : ∀ e ∈ s.log, e.idx ≤ s.front ∧ 0 < e.idx ∧ single e = true
  sorted : (s.log.map (·.idx)).Pairwise (· < ·)
  frontLe : s.front ≤ lastIdx s.log

theorem mem_groups (s : St) (x : Group) :
    x ∈ groups s ↔ ∃ e ∈ s.log, x ∈ streamEntryWith s.keepIdx e := by
  simp [groups, List.mem_flatMap]

theorem lastIdx_append (l : List Entry) (e : Entry) : lastIdx (l ++ [e]) = e.idx := by
  simp [lastIdx]

theorem le_lastIdx (l : List Entry) (hs : (l.map (·.idx)).Pairwise (· < ·)) (e : Entry) (he : e ∈ l) :
    e.idx ≤ lastIdx l := by
  induction l generalizing e with
  | nil => simp at he
  | cons a l ih =>
    simp only [List.map_cons, List.pairwise_cons] at hs
    cases l with
    | nil => simp at he; subst he; simp [lastIdx]
    | cons b l' =>
      have hl : lastIdx (a :: b :: l') = lastIdx (b :: l') := by simp [lastIdx]
      rw [hl]
      simp only [List.mem_cons] at he
      rcases he with he | he
      · subst he
        have h1 := hs.1 b.idx (by simp)
        have h2 := ih hs.2 b (by simp)
        omega
      · exact ih hs.2 e (by simp [he])

/-- rebuild `Base` for a state that differs only in fields `Base` never reads -/
theorem base_transfer (s t : St) (f : Nat) (hb : Base s f)
    (h1 : t.fifo = s.fifo) (h2 : t.held = s.held) (h3 : t.hwm = s.hwm) (h4 : t.maxIn = s.maxIn)
    (h5 : t.batcher = s.batcher) (h6 : t.snap = s.snap) (h7 : t.lastFed = s.lastFed)
    (h8 : t.hwmChan = s.hwmChan) (h9 : t.loopback = s.loopback) (h10 : t.batchSz = s.batchSz) : Base t f := by
  refine ⟨?_, ?_, ?_, ?_, ?_, ?_, ?_, ?_, ?_⟩
  · rw [h1]; exact hb.fifo
  · rw [h1]; exact hb.lab
  · rw [h1, h2, h3, h4]; exact hb.heldI
  · rw [h1, h3, h4]; exact hb.bnd
  · rw [h5, h6, h7]; exact hb.bat
  · rw [h6, h7]; exact hb.fed
  · rw [h8, h4]; exact hb.chan
  · rw [h9]; exact hb.noLb
  · rw [h10]; exact hb.bsz

theorem cov_transfer (s t : St) (f : Nat) (hc : Cov s f)
    (hg : ∀ x ∈ groups t, x.idx ≤ f → x ∈ groups s)
    (h1 : t.fifo = s.fifo) (h2 : t.held = s.held) (h3 : t.hwm = s.hwm) (h4 : t.maxIn = s.maxIn)
    (h5 : t.batcher = s.batcher) (h6 : t.delivered = s.delivered)
    (h7 : t.dropped = s.dropped := by rfl) : Cov t f := by
  intro x hx hxf
  have := hc x (hg x hx hxf) hxf
  unfold DoneG PendG BatchG Live at *
  rw [h1, h2, h3, h4, h5, h6, h7]
  exact this

theorem flush_batcher_nil (s : St) : (flushBatcher s).batcher = [] := by
  unfold flushBatcher
  cases h : s.batcher with
  | nil => simp [h]
  | cons a l => simp [enqueueBatch]

theorem pump_batcher (fuel : Nat) (s : St) : (pump fuel s).batcher = s.batcher := by
  induction fuel generalizing s with
  | zero => rfl
  | succ fuel ih =>
    unfold pump
    split
    · rfl
    · split
      · split
        · rw [ih]
        · split
          · rw [ih]
          · split
            · rw [ih]
            · split
              · rw [ih]
              · rfl
      · split
        · rfl
        · split <;> rw [ih]

/-! ### the steps other than restart -/

theorem top_pump (s : St) (hb : Base s s.front) (hc : Cov s s.front)
    (h3 : ∀ e ∈ s.log, e.idx ≤ s.front ∧ 0 < e.idx ∧ single e = true)
    (h4 : (s.log.map (·.idx)).Pairwise (· < ·)) (h5 : s.front ≤ lastIdx s.log) : Top (pumpAll s) := by
  have hs := same_pump (2 * s.fifo.items.length + 2) s
  obtain ⟨hb', hc'⟩ := pumpAll_good s s.front hb hc
  unfold pumpAll at *
  exact ⟨by rw [hs.front]; exact hb', by rw [hs.front]; exact hc',
    by rw [hs.log, hs.front]; exact h3, by rw [hs.log]; exact h4, by rw [hs.log, hs.front]; exact h5⟩

theorem top_entry (s : St) (e : Entry) (ht : Top s) (hnew : lastIdx s.log < e.idx) (hs : single e = true) :
    Top (stepOp s (.entry e)) := by
  have hfr : s.front < e.idx := Nat.lt_of_le_of_lt ht.frontLe hnew
  have hb0 : Base { s with log := s.log ++ [e] } s.front :=
    base_transfer s _ _ ht.base rfl rfl rfl rfl rfl rfl rfl rfl rfl rfl
  have hidx := stream_single_idx s.keepIdx e hs
  have hc0 : Cov { s with log := s.log ++ [e] } s.front := by
    refine cov_transfer s { s with log := s.log ++ [e] } _ ht.cov ?_ rfl rfl rfl rfl rfl rfl
    intro x hx hxf
    rw [mem_groups] at hx ⊢
    obtain ⟨e', he', hxe⟩ := hx
    simp only [List.mem_append, List.mem_singleton] at he'
    rcases he' with he' | he'
    · exact ⟨e', he', hxe⟩
    · subst he'
      have := hidx x hxe
      omega
  have hfed := ht.base.fed
  obtain ⟨hb1, hc1⟩ := applyEntry_good { s with log := s.log ++ [e] } s.front e hb0 hc0 hs
    (by simp only; omega) (by omega) (by simp only; omega)
    (by
      intro x hx _
      rw [mem_groups] at hx
      obtain ⟨e', he', hxe⟩ := hx
      simp only [List.mem_append, List.mem_singleton] at he'
      rcases he' with he' | he'
      · left
        have h1 := (ht.logOk e' he').1
        have h2 := stream_single_idx s.keepIdx e' (ht.logOk e' he').2.2 x hxe
        omega
      · subst he'; exact Or.inr hxe)
  have hsame : Same { s with log := s.log ++ [e], lastFed := e.idx, front := max s.front e.idx }
      (applyEntry { s with log := s.log ++ [e] } e) := same_foldl_feed _ _
  have hmax : max s.front e.idx = e.idx := by omega
  show Top (pumpAll (applyEntry { s with log := s.log ++ [e] } e))
  apply top_pump
  · rw [hsame.front]; exact hb1
  · rw [hsame.front]; exact hc1
  · rw [hsame.log, hsame.front]
    intro e' he'
    simp only [List.mem_append, List.mem_singleton] at he'
    rcases he' with he' | he'
    · have := ht.logOk e' he'
      exact ⟨by simp only; omega, this.2.1, this.2.2⟩
    · subst he'; exact ⟨by simp only; omega, by omega, hs⟩
  · rw [hsame.log]
    simp only [List.map_append, List.map_cons, List.map_nil]
    rw [List.pairwise_append]
    refine ⟨ht.sorted, by simp, ?_⟩
    intro a ha b hb
    simp at hb; subst hb
    simp at ha
    obtain ⟨e', he', rfl⟩ := ha
    have := (ht.logOk e' he').1
    omega
  · rw [hsame.log, hsame.front]
    simp only [lastIdx_append]; omega

theorem top_of_core (s t : St) (ht : Top s) (hb : Base t s.front) (hc : Cov t s.front)
    (hl : t.log = s.log) (hf : t.front = s.front) : Top (pumpAll t) := by
  apply top_pump
  · rw [hf]; exact hb
  · rw [hf]; exact hc
  · rw [hl, hf]; exact ht.logOk
  · rw [hl]; exact ht.sorted
  · rw [hl, hf]; exact ht.frontLe

theorem top_timer (s : St) (ht : Top s) : Top (stepOp s .timer) := by
  obtain ⟨hb, hc⟩ := flush_good s s.front ht.base ht.cov
  exact top_of_core s _ ht hb hc (same_flush s).log (same_flush s).front

theorem top_sync (s : St) (ht : Top s) : Top (stepOp s .sync) := by
  obtain ⟨hb, hc⟩ := flush_good s s.front ht.base ht.cov
  have hsm := same_flush s
  have hbat : ∀ g ∈ (flushBatcher s).batcher, lastIdx s.log < g.idx ∧ g.idx ≤ (flushBatcher s).lastFed ∧ 0 < g.idx := by
    rw [flush_batcher_nil]; intro g hg; simp at hg
  have hlast : lastIdx s.log ≤ s.front := by
    unfold lastIdx
    cases h : s.log.getLast? with
    | none => simp
    | some e => exact (ht.logOk e (List.mem_of_getLast? h)).1
  have hfed : (flushBatcher s).lastFed ≤ s.front ∧ lastIdx s.log ≤ s.front := ⟨hb.fed.1, hlast⟩
  have hb' : Base { flushBatcher s with snap := lastIdx s.log } s.front :=
    { hb with bat := hbat, fed := hfed }
  have hc' : Cov { flushBatcher s with snap := lastIdx s.log } s.front :=
    cov_transfer (flushBatcher s) _ _ hc (fun x hx _ => hx) rfl rfl rfl rfl rfl rfl
  exact top_of_core s _ ht hb' hc' hsm.log hsm.front

theorem top_endpoint (s : St) (ht : Top s) (b : Bool) : Top (stepOp s (.endpoint b)) := by
  have hb : Base { s with up := b } s.front := base_transfer s _ _ ht.base rfl rfl rfl rfl rfl rfl rfl rfl rfl rfl
  have hc : Cov { s with up := b } s.front := cov_transfer s _ _ ht.cov (fun x hx _ => hx) rfl rfl rfl rfl rfl rfl
  exact top_of_core s _ ht hb hc rfl rfl

theorem top_leader (s : St) (ht : Top s) (b : Bool) : Top (stepOp s (.leader b)) := by
  simp only [stepOp, stepCore]
  by_cases h1 : b = s.leader
  · rw [if_pos h1]; exact top_of_core s s ht ht.base ht.cov rfl rfl
  · rw [if_neg h1]
    cases b with
    | true =>
      simp only [if_true]
      have hb : Base { s with leader := true, leaderPersisted := 0 } s.front :=
        base_transfer s _ _ ht.base rfl rfl rfl rfl rfl rfl rfl rfl rfl rfl
      have hc : Cov { s with leader := true, leaderPersisted := 0 } s.front :=
        cov_transfer s _ _ ht.cov (fun x hx _ => hx) rfl rfl rfl rfl rfl rfl
      exact top_of_core s _ ht hb hc rfl rfl
    | false =>
      simp only [Bool.false_eq_true, if_false]
      have hb1 : Base { s with leader := false, followerPersisted := 0 } s.front :=
        base_transfer s _ _ ht.base rfl rfl rfl rfl rfl rfl rfl rfl rfl rfl
      have hc1 : Cov { s with leader := false, followerPersisted := 0 } s.front :=
        cov_transfer s _ _ ht.cov (fun x hx _ => hx) rfl rfl rfl rfl rfl rfl
      obtain ⟨hb2, hc2⟩ := foldl_followerHwm_good s.hwmChan _ s.front hb1 hc1 ht.base.chan
      have hsm := same_foldl_followerHwm s.hwmChan { s with leader := false, followerPersisted := 0 }
      have hchan : ∀ n ∈ ([] : List Nat), n ≤ (s.hwmChan.foldl followerHwm { s with leader := false, followerPersisted := 0 }).maxIn := by
        intro n hn; simp at hn
      have hb3 : Base { (s.hwmChan.foldl followerHwm { s with leader := false, followerPersisted := 0 }) with hwmChan := [] } s.front :=
        { hb2 with chan := hchan }
      have hc3 : Cov { (s.hwmChan.foldl followerHwm { s with leader := false, followerPersisted := 0 }) with hwmChan := [] } s.front :=
        cov_transfer _ _ _ hc2 (fun x hx _ => hx) rfl rfl rfl rfl rfl rfl
      exact top_of_core s _ ht hb3 hc3 hsm.log hsm.front

theorem top_hwm (s : St) (ht : Top s) (n : Nat) : Top (stepOp s (.hwm n)) := by
  show Top (pumpAll (offerHwm { s with maxIn := max s.maxIn n } n))
  have hb := ht.base
  have hH : ∀ it, s.held = some it →
      (∀ g ∈ it.2, g.idx ≤ it.1) ∧ it.1 < s.fifo.nextFrom ∧ it.1 ≤ s.fifo.highest ∧
      (it ∈ s.fifo.items ∨ it.1 ≤ max s.maxIn n) ∧ (s.hwm < it.1 ∨ it.1 ≤ max s.maxIn n) := by
    intro it hit
    obtain ⟨h1, h2, h3, h4, h5⟩ := hb.heldI it hit
    exact ⟨h1, h2, h3, h4.elim Or.inl (fun h => Or.inr (by omega)), h5.elim Or.inl (fun h => Or.inr (by omega))⟩
  have hB : s.hwm ≤ max s.fifo.highest (max s.maxIn n) ∧
      s.fifo.nextFrom ≤ max s.fifo.highest (max s.maxIn n) + 1 ∧ s.fifo.highest ≤ s.front := by
    have := hb.bnd; omega
  have hC : ∀ m ∈ s.hwmChan, m ≤ max s.maxIn n := fun m hm => by have := hb.chan m hm; omega
  have hb0 : Base { s with maxIn := max s.maxIn n } s.front :=
    { hb with heldI := hH, bnd := hB, chan := hC }
  have hc0 : Cov { s with maxIn := max s.maxIn n } s.front := by
    intro x hx hxf
    rcases ht.cov x hx hxf with h | h | h
    · left
      rcases h with h | h
      · exact Or.inl h
      · right; simp only; omega
    · exact Or.inr (Or.inl h)
    · exact Or.inr (Or.inr h)
  unfold offerHwm
  by_cases hl : ({ s with maxIn := max s.maxIn n } : St).leader = true
  · rw [if_pos hl]
    by_cases hlen : ({ s with maxIn := max s.maxIn n } : St).hwmChan.length < 5
    · rw [if_pos hlen]
      have hC' : ∀ m ∈ s.hwmChan ++ [n], m ≤ max s.maxIn n := by
        intro m hm
        simp at hm
        rcases hm with hm | hm
        · exact hC m hm
        · omega
      have hb1 : Base { s with maxIn := max s.maxIn n, hwmChan := s.hwmChan ++ [n] } s.front :=
        { hb0 with chan := hC' }
      have hc1 : Cov { s with maxIn := max s.maxIn n, hwmChan := s.hwmChan ++ [n] } s.front :=
        cov_transfer _ _ _ hc0 (fun x hx _ => hx) rfl rfl rfl rfl rfl rfl
      exact top_of_core s _ ht hb1 hc1 rfl rfl
    · rw [if_neg hlen]
      exact top_of_core s _ ht hb0 hc0 rfl rfl
  · rw [if_neg hl]
    obtain ⟨hb1, hc1⟩ := followerHwm_good { s with maxIn := max s.maxIn n } s.front n hb0 hc0 (by simp only; omega)
    have hsm := same_followerHwm { s with maxIn := max s.maxIn n } n
    exact top_of_core s _ ht hb1 hc1 hsm.log hsm.front

theorem top_tick (s : St) (ht : Top s) : Top (stepOp s .tick) := by
  obtain ⟨hb, hc⟩ := tick_good s s.front ht.base ht.cov
  have hl : (stepCore s .tick).log = s.log ∧ (stepCore s .tick).front = s.front := by
    unfold stepCore
    simp only [ht.base.noLb, Bool.false_eq_true, if_false]
    split
    · exact ⟨rfl, rfl⟩
    · split <;> exact ⟨rfl, rfl⟩
  exact top_of_core s _ ht hb hc hl.1 hl.2

end RqModel.CdcPipe

/-
Helper lemmas for C26 (and for the C25 pipeline): the invariant of the FIFO manager
goroutine and its preservation by every operation.
-/
import RqModel.Model.Fifo
namespace RqModel.Fifo
variable {α : Type}

/-- keys strictly ascending -/
def Sorted (l : List (Item α)) : Prop := l.Pairwise (fun a b => a.1 < b.1)

/-- Invariant of the manager goroutine's state:
the bucket is strictly ascending, no key exceeds `highest`, and the pre-loaded head is
exactly what a `Seek(nextFrom)` would return now. -/
structure Inv (q : Q α) : Prop where
  sorted  : Sorted q.items
  bounded : ∀ p ∈ q.items, p.1 ≤ q.highest
  head    : q.nextEv = seek q.items q.nextFrom

theorem inv_empty : Inv (empty : Q α) := by
  constructor <;> simp [empty, Sorted, seek]

/-! #### put above every key is an append -/

theorem put_above (l : List (Item α)) (k : Nat) (d : α) (h : ∀ p ∈ l, p.1 < k) :
    put l k d = l ++ [(k, d)] := by
  induction l with
  | nil => simp [put]
  | cons a l ih =>
    obtain ⟨ka, da⟩ := a
    have hka : ka < k := h (ka, da) (by simp)
    have : ¬ k < ka := by omega
    have h2 : ¬ k = ka := by omega
    simp [put, this, h2]
    exact ih (fun p hp => h p (by simp [hp]))

theorem sorted_append_above (l : List (Item α)) (k : Nat) (d : α)
    (hs : Sorted l) (h : ∀ p ∈ l, p.1 < k) : Sorted (l ++ [(k, d)]) := by
  unfold Sorted at *
  rw [List.pairwise_append]
  refine ⟨hs, by simp, ?_⟩
  intro a ha b hb
  simp at hb
  subst hb
  exact h a ha

/-! #### dropWhile on a sorted bucket is the exact filter -/

theorem dropWhile_eq_filter (l : List (Item α)) (n : Nat) (hs : Sorted l) :
    l.dropWhile (fun p => decide (p.1 ≤ n)) = l.filter (fun p => decide (n < p.1)) := by
  induction l with
  | nil => simp
  | cons a l ih =>
    unfold Sorted at hs
    rw [List.pairwise_cons] at hs
    by_cases h : a.1 ≤ n
    · have : ¬ n < a.1 := by omega
      simp [List.dropWhile_cons, h, List.filter_cons, this]
      exact ih hs.2
    · have h' : n < a.1 := by omega
      simp only [List.dropWhile_cons, h, decide_false, List.filter_cons, h', decide_true]
      simp
      have : l.filter (fun p => decide (n < p.1)) = l := by
        rw [List.filter_eq_self]
        intro b hb
        have := hs.1 b hb
        simp; omega
      exact this.symm

theorem sorted_filter (l : List (Item α)) (p : Item α → Bool) (hs : Sorted l) : Sorted (l.filter p) :=
  List.Pairwise.sublist List.filter_sublist hs

/-! #### find? facts used for the head -/

theorem seek_some_ge {l : List (Item α)} {n : Nat} {e : Item α} (h : seek l n = some e) : n ≤ e.1 := by
  have := List.find?_some h
  simpa using this

theorem seek_some_mem {l : List (Item α)} {n : Nat} {e : Item α} (h : seek l n = some e) : e ∈ l :=
  List.mem_of_find?_eq_some h

theorem find_stronger {α} (l : List α) (p p' : α → Bool) (e : α)
    (h : l.find? p = some e) (he : p' e = true) (himp : ∀ x, p' x = true → p x = true) :
    l.find? p' = some e := by
  induction l with
  | nil => simp at h
  | cons a l ih =>
    rw [List.find?_cons] at h ⊢
    cases hpa : p a with
    | true =>
      rw [hpa] at h
      simp at h; subst h
      simp [he]
    | false =>
      rw [hpa] at h
      have : p' a = false := by
        cases hp' : p' a with
        | false => rfl
        | true => have := himp a hp'; rw [hpa] at this; cases this
      rw [this]
      exact ih h

theorem find_filter {α} (l : List α) (p q : α → Bool) :
    (l.filter q).find? p = l.find? (fun x => q x && p x) := by
  induction l with
  | nil => rfl
  | cons a l ih =>
    cases hq : q a <;> simp [List.filter_cons, List.find?_cons, hq, ih]

theorem seek_append_some (l : List (Item α)) (x : Item α) (n : Nat) (e : Item α)
    (h : seek l n = some e) : seek (l ++ [x]) n = some e := by
  unfold seek at *
  rw [List.find?_append, h]; rfl

/-! #### preservation -/

theorem inv_loadHead_of (q : Q α) (hs : Sorted q.items) (hb : ∀ p ∈ q.items, p.1 ≤ q.highest)
    (hh : ∀ e, q.nextEv = some e → seek q.items q.nextFrom = some e) : Inv (loadHead q) := by
  unfold loadHead
  cases hne : q.nextEv with
  | some e => exact ⟨hs, hb, by rw [hne]; exact (hh e hne).symm⟩
  | none => exact ⟨hs, hb, rfl⟩

theorem enqueue_items_of_gt (q : Q α) (k : Nat) (d : α) (hq : Inv q) (hk : q.highest < k) :
    (enqueue q k d).items = q.items ++ [(k, d)] ∧ (enqueue q k d).highest = k ∧
    (enqueue q k d).nextFrom = q.nextFrom := by
  have hput : put q.items k d = q.items ++ [(k, d)] :=
    put_above _ _ _ (fun p hp => Nat.lt_of_le_of_lt (hq.bounded p hp) hk)
  have : ¬ k ≤ q.highest := by omega
  unfold enqueue loadHead
  simp only [this, if_false]
  cases q.nextEv <;> simp [hput]

theorem inv_enqueue (q : Q α) (k : Nat) (d : α) (hq : Inv q) : Inv (enqueue q k d) := by
  by_cases hk : k ≤ q.highest
  · simp [enqueue, hk]; exact hq
  · have hk' : q.highest < k := by omega
    have hlt : ∀ p ∈ q.items, p.1 < k := fun p hp => Nat.lt_of_le_of_lt (hq.bounded p hp) hk'
    have hput : put q.items k d = q.items ++ [(k, d)] := put_above _ _ _ hlt
    unfold enqueue
    simp only [hk, if_false]
    apply inv_loadHead_of
    · simp only [hput]; exact sorted_append_above _ _ _ hq.sorted hlt
    · simp only [hput]
      intro p hp
      simp at hp
      rcases hp with hp | hp
      · exact Nat.le_of_lt (hlt p hp)
      · subst hp; exact Nat.le_refl _
    · intro e he
      simp only [hput] at *
      exact seek_append_some _ _ _ _ (by rw [← hq.head]; exact he)

theorem deleteRange_items (q : Q α) (n : Nat) (hq : Inv q) :
    (deleteRange q n).items = q.items.filter (fun p => decide (n < p.1)) := by
  unfold deleteRange loadHead
  simp only
  split <;> simp [dropWhile_eq_filter _ _ hq.sorted]

theorem deleteRange_highest (q : Q α) (n : Nat) : (deleteRange q n).highest = q.highest := by
  unfold deleteRange loadHead
  simp only
  split <;> rfl

theorem deleteRange_nextFrom (q : Q α) (n : Nat) :
    (deleteRange q n).nextFrom = if q.nextFrom ≠ 0 ∧ q.nextFrom ≤ n then n + 1 else q.nextFrom := by
  unfold deleteRange loadHead
  simp only
  split <;> rfl

theorem inv_deleteRange (q : Q α) (n : Nat) (hq : Inv q) : Inv (deleteRange q n) := by
  unfold deleteRange
  simp only
  apply inv_loadHead_of
  · simp only [dropWhile_eq_filter _ _ hq.sorted]; exact sorted_filter _ _ hq.sorted
  · simp only [dropWhile_eq_filter _ _ hq.sorted]
    intro p hp
    exact hq.bounded p (List.mem_filter.1 hp).1
  · intro e he
    simp only [dropWhile_eq_filter _ _ hq.sorted] at *
    -- the head survived: it was not deleted
    cases hne : q.nextEv with
    | none => simp [hne] at he
    | some e0 =>
      simp only [hne] at he
      by_cases hdel : e0.1 ≤ n
      · simp [hdel] at he
      · simp [hdel] at he
        subst he
        have hseek : seek q.items q.nextFrom = some e0 := by rw [← hq.head]; exact hne
        unfold seek at *
        rw [find_filter]
        apply find_stronger _ _ _ _ hseek
        · have := seek_some_ge hseek
          split <;> simp <;> omega
        · intro x hx
          split at hx <;> simp at hx ⊢ <;> omega

theorem inv_consume (q : Q α) (hq : Inv q) : Inv (consume q).1 := by
  unfold consume
  cases hne : q.nextEv with
  | none => exact hq
  | some e => exact ⟨hq.sorted, hq.bounded, rfl⟩

theorem inv_reopen (q : Q α) (hq : Inv q) : Inv (reopen q) := by
  unfold reopen
  apply inv_loadHead_of
  · exact hq.sorted
  · exact hq.bounded
  · intro e he; simp at he

theorem inv_stepOp (q : Q α) (op : Op α) (hq : Inv q) : Inv (stepOp q op).1 := by
  cases op with
  | enq k d => exact inv_enqueue q k d hq
  | del n => exact inv_deleteRange q n hq
  | consume => exact inv_consume q hq
  | query => exact hq
  | reopen => exact inv_reopen q hq
  | kill => exact inv_reopen q hq

theorem inv_runQ (q : Q α) (ops : List (Op α)) (hq : Inv q) : Inv (runQ q ops) := by
  induction ops generalizing q with
  | nil => exact hq
  | cons op rest ih => exact ih _ (inv_stepOp q op hq)

/-! #### the items at or above the cursor -/

theorem filter_ge_of_seek (l : List (Item α)) (hs : Sorted l) (n : Nat) (e : Item α)
    (h : seek l n = some e) :
    l.filter (fun p => decide (n ≤ p.1)) = e :: l.filter (fun p => decide (e.1 + 1 ≤ p.1)) := by
  induction l with
  | nil => simp [seek] at h
  | cons a l ih =>
    unfold Sorted at hs
    rw [List.pairwise_cons] at hs
    unfold seek at h
    rw [List.find?_cons] at h
    by_cases hn : n ≤ a.1
    · simp [hn] at h
      subst h
      have h1 : ¬ a.1 + 1 ≤ a.1 := by omega
      simp only [List.filter_cons, hn, decide_true, if_true, h1, decide_false]
      simp
      have e1 : l.filter (fun p => decide (n ≤ p.1)) = l := by
        rw [List.filter_eq_self]; intro b hb; have := hs.1 b hb; simp; omega
      have e2 : l.filter (fun p => decide (a.1 + 1 ≤ p.1)) = l := by
        rw [List.filter_eq_self]; intro b hb; have := hs.1 b hb; simp; omega
      rw [e1, e2]
    · simp [hn] at h
      have hge := seek_some_ge (l := l) (n := n) (e := e) h
      have h2 : ¬ e.1 + 1 ≤ a.1 := by omega
      simp only [List.filter_cons, hn, decide_false, h2]
      simp
      exact ih hs.2 h

theorem filter_ge_of_seek_none (l : List (Item α)) (n : Nat) (h : seek l n = none) :
    l.filter (fun p => decide (n ≤ p.1)) = [] := by
  unfold seek at h
  rw [List.find?_eq_none] at h
  rw [List.filter_eq_nil_iff]
  exact h

end RqModel.Fifo
